(* Prop_C11.v — property C11: every advertised encryption method round-trips exactly.
   ONLY theorem statements closed by [exact lemma], each followed by Print Assumptions. *)
From V Require Import Base Xml Ns Generated Decode Response Decrypt P_Decrypt P_C11.
From V Require Escape.

(* CBC: for EVERY plaintext p (any length, any trailing bytes, zero bytes included) and EVERY XML-Enc padding
   (1..16 bytes, arbitrary filler, last byte = number of padding bytes) DecryptBytes returns exactly p.
   Premises: the cipher laws H_cbc / H_cbc_len (decryption inverts encryption on whole blocks, length preserved);
   the key unwrap yields k; the algorithm is listed in clause 1 (the CBC clause) of the Go switch. *)
Theorem C11_cbc_unpad_pad :
  forall rsa_oaep rsa_pkcs1 gcm_open (cbc_decrypt : string -> string -> string -> string) sha1_hex
         (cbc_encrypt : string -> string -> string -> string),
    (forall k iv x, Nat.modulo (slen x) 16 = 0 -> cbc_decrypt k iv (cbc_encrypt k iv x) = x) ->
    (forall k iv x, slen (cbc_encrypt k iv x) = slen x) ->
    forall (cert : sp_cert) (ea : enc_assertion) (k iv p pad : string),
      decrypt_symmetric_key rsa_oaep rsa_pkcs1 sha1_hex (Some cert) (chosen_key ea) = ORet (Ok k) ->
      first_case (em_algorithm (ea_method ea)) decrypt_bytes_cases 0 = Some 1 ->
      ea_cipher_value ea = Escape.base64_encode (iv ++ cbc_encrypt k iv (p ++ pad))%string ->
      slen iv = 16 ->
      (1 <= slen pad <= 16 /\ Nat.modulo (slen p + slen pad) 16 = 0 /\
       last_byte pad = Some (ascii_of_N (N.of_nat (slen pad)))) ->
      decrypt_bytes rsa_oaep rsa_pkcs1 gcm_open cbc_decrypt sha1_hex (Some cert) ea = ORet (Ok p).
Proof. exact cbc_roundtrip. Qed.
Print Assumptions C11_cbc_unpad_pad.

(* GCM: nonce split at 12 bytes; premise: the law H_gcm (Open inverts Seal) *)
Theorem C11_gcm_roundtrip :
  forall rsa_oaep rsa_pkcs1 (gcm_open : string -> string -> string -> option string) cbc_decrypt sha1_hex
         (gcm_seal : string -> string -> string -> string),
    (forall k n x, gcm_open k n (gcm_seal k n x) = Some x) ->
    forall (cert : sp_cert) (ea : enc_assertion) (k nonce p : string),
      decrypt_symmetric_key rsa_oaep rsa_pkcs1 sha1_hex (Some cert) (chosen_key ea) = ORet (Ok k) ->
      first_case (em_algorithm (ea_method ea)) decrypt_bytes_cases 0 = Some 0 ->
      ea_cipher_value ea = Escape.base64_encode (nonce ++ gcm_seal k nonce p)%string ->
      slen nonce = 12 ->
      decrypt_bytes rsa_oaep rsa_pkcs1 gcm_open cbc_decrypt sha1_hex (Some cert) ea = ORet (Ok p).
Proof. exact gcm_roundtrip. Qed.
Print Assumptions C11_gcm_roundtrip.

(* every method advertised in Metadata / MetadataWithSLO is listed in clause 0 (GCM) or clause 1 (CBC) of the switch of
   DecryptBytes, i.e. is handled by a non-default branch and is covered by one of the two theorems above *)
Theorem C11_advertised_subset_supported :
  let handled := fun alg => exists i, first_case alg decrypt_bytes_cases 0 = Some i /\ (i = 0 \/ i = 1) in
  Forall handled advertised_methods_Metadata /\ Forall handled advertised_methods_MetadataWithSLO /\
  advertised_methods_Metadata <> [] /\ advertised_methods_MetadataWithSLO <> [].
Proof. exact advertised_subset_supported. Qed.
Print Assumptions C11_advertised_subset_supported.

(* key transport: with an RSA key, a passing recipient-certificate check and ciphertext ct, the (transport, digest)
   pair reaches exactly this oracle call: OAEP (both identifiers) with the hash selected by DigestMethod
   (absent, "", SHA-1 -> SHA-1; SHA-256; SHA-512), PKCS#1 v1.5 without hash; anything else is an error *)
Theorem C11_key_transport_dispatch :
  forall (rsa_oaep : hash_id -> string -> option string) (rsa_pkcs1 : string -> option string) sha1_hex
         (cert : sp_cert) (ek : enc_key) (ct : string),
    sc_key cert = KRsa -> sc_chain cert <> [] ->
    (ek_x509 ek = "" \/ exists c0 rest, sc_chain cert = c0 :: rest /\ Escape.base64_decode (ek_x509 ek) = Some c0) ->
    Escape.base64_decode (ek_cipher_value ek) = Some ct ->
    decrypt_symmetric_key rsa_oaep rsa_pkcs1 sha1_hex (Some cert) ek =
      match (match em_digest (ek_method ek) with
             | None => Some HSha1
             | Some a => if (a =?s "") || (a =?s t_MethodSHA1) then Some HSha1
                         else if a =?s t_MethodSHA256 then Some HSha256
                         else if a =?s t_MethodSHA512 then Some HSha512
                         else None
             end) with
      | None => ORet (Err (E "unsupported digest algorithm"))
      | Some h =>
          let alg := em_algorithm (ek_method ek) in
          let unwrapped := fun o : option string =>
            match o with None => ORet (Err (E "rsa internal error")) | Some pt => ORet (new_cipher pt) end in
          if alg =?s "" then ORet (Err (E "missing encryption algorithm"))
          else if (alg =?s t_MethodRSAOAEP) || (alg =?s t_MethodRSAOAEP2) then unwrapped (rsa_oaep h ct)
          else if alg =?s t_MethodRSAv1_5 then unwrapped (rsa_pkcs1 ct)
          else ORet (Err (E "unsupported encryption algorithm"))
      end.
Proof. exact key_transport_dispatch. Qed.
Print Assumptions C11_key_transport_dispatch.

(* the inline EncryptedKey is used unless its CipherValue is empty, then the detached sibling; nothing else of the two
   EncryptedKey elements influences DecryptBytes *)
Theorem C11_encrypted_key_placement :
  forall rsa_oaep rsa_pkcs1 gcm_open cbc_decrypt sha1_hex,
    (forall ea, ek_cipher_value (ea_key ea) <> "" -> chosen_key ea = ea_key ea) /\
    (forall ea, ek_cipher_value (ea_key ea) = "" -> chosen_key ea = ea_det_key ea) /\
    (forall cert ea ea', ea_method ea = ea_method ea' -> ea_cipher_value ea = ea_cipher_value ea' ->
       chosen_key ea = chosen_key ea' ->
       decrypt_bytes rsa_oaep rsa_pkcs1 gcm_open cbc_decrypt sha1_hex cert ea =
       decrypt_bytes rsa_oaep rsa_pkcs1 gcm_open cbc_decrypt sha1_hex cert ea').
Proof. exact encrypted_key_placement. Qed.
Print Assumptions C11_encrypted_key_placement.

(* an embedded recipient certificate different from the SP's first certificate: the key is refused *)
Theorem C11_recipient_cert_mismatch_refused :
  forall rsa_oaep rsa_pkcs1 sha1_hex (cert : sp_cert) (ek : enc_key) (c0 : string) (rest : list string) (other : string),
    sc_chain cert = c0 :: rest -> ek_x509 ek <> "" -> Escape.base64_decode (ek_x509 ek) = Some other -> other <> c0 ->
    decrypt_symmetric_key rsa_oaep rsa_pkcs1 sha1_hex (Some cert) ek
    = ORet (Err (E "key decryption attempted with mismatched cert")).
Proof. exact key_transport_mismatch_refused. Qed.
Print Assumptions C11_recipient_cert_mismatch_refused.

(* Source tie: the plaintext that the TRANSLATED DecryptBytes of this run (GenDecrypt.v) returns is exactly the plaintext the
   model of the round-trip theorems returns, for every input, certificate and behaviour of the crypto primitives *)
From V Require Import GenPrelude GenPreludeD GenDecrypt P_GenDecrypt.
Theorem C11_source_DecryptBytes_plaintext_is_the_models :
  forall rsa_oaep rsa_pkcs1 gcm_open cbc_decrypt sha1_hex (ea : enc_assertion) (cert : option sp_cert) (plain : string),
    G_EncryptedAssertion_DecryptBytes rsa_oaep rsa_pkcs1 gcm_open cbc_decrypt ea cert = PVal (Ok plain)
    <-> decrypt_bytes rsa_oaep rsa_pkcs1 gcm_open cbc_decrypt sha1_hex cert ea = ORet (Ok plain).
Proof. exact G_DecryptBytes_value_iff. Qed.
Print Assumptions C11_source_DecryptBytes_plaintext_is_the_models.

(* Source tie for the choice of the decryption key ("on both key APIs"): the translated bodies of getDecryptCert and of the
   two setters are the model functions of Keys.v (P_Keys.decrypt_key_agrees_with_published is about them) *)
From V Require Import Time Keys GenPreludeK GenKeys P_GenKeysUnit.
Theorem C11_source_getDecryptCert_is_the_model : forall parse_cert c now validate,
  G_getDecryptCert parse_cert c now validate
  = PVal (match get_decrypt_cert parse_cert validate now c with Ok dc => Ok (Some dc) | Err e => Err e end).
Proof. exact G_getDecryptCert_is_model. Qed.
Print Assumptions C11_source_getDecryptCert_is_the_model.

Theorem C11_source_SetSPKeyStore_is_the_model : forall c now ks,
  G_SetSPKeyStore c now ks
  = PVal (match set_sp_key_store c ks with Ok c' => (c', Ok tt) | Err e => (c, Err e) end).
Proof. exact G_SetSPKeyStore_is_model. Qed.
Print Assumptions C11_source_SetSPKeyStore_is_the_model.
