(* P_C03.v — lemmas for property C03 (struct level). *)
From V Require Import Base Time Types SchemaDefs ConcDefs Generated Profile P_Profile.
Local Open Scope string_scope.
Local Open Scope list_scope.

Lemma any_violation_rejects cfg now r e : Violates cfg now r e -> exists e', validate cfg now r = Err e'.
Proof.
  intros V. destruct (validate cfg now r) as [[]|e'] eqn:E; [|eauto].
  apply validate_ok_iff in E. exfalso. eapply violates_not_ok; eauto.
Qed.

Lemma every_assertion_checked cfg now r :
  validate cfg now r = Ok tt -> forall a, In a (r_assertions r) -> AssertionOK cfg now a.
Proof.
  intros H. apply validate_ok_iff in H as (_ & _ & _ & _ & HF). rewrite Forall_forall in HF. exact HF.
Qed.

Lemma first_failing_assertion_decides cfg now r e :
  validate cfg now r = Err e ->
  AttrsOK (cfg_acs_url cfg) (r_destination r) (r_version r) -> r_assertions r <> [] ->
  IssuerOK cfg (r_issuer r) -> StatusOK (r_status r) ->
  exists pre x post, r_assertions r = pre ++ x :: post /\ Forall (AssertionOK cfg now) pre /\ ViolatesA cfg now x e.
Proof. intros H. apply validate_err_first in H as [_ H]. exact H. Qed.

(* position independence: a violating assertion anywhere in the list rejects the response *)
Lemma offending_assertion_any_position cfg now r pre x post e :
  r_assertions r = pre ++ x :: post -> ViolatesA cfg now x e -> exists e', validate cfg now r = Err e'.
Proof.
  intros Hl V. eapply any_violation_rejects. eapply V_assertion; eauto.
  rewrite Hl. apply in_or_app. right. left. reflexivity.
Qed.

Definition ok_cfg := {| cfg_acs_url := "https://sp/acs"; cfg_slo_url := "slo"; cfg_idp_issuer := "idp"; cfg_audience := "me";
   cfg_skip_sig := false; cfg_allow_missing_attrs := false; cfg_validate_enc_cert := false; cfg_max_size := 0 |}.
Definition ok_assertion (noa : string) := {| a_version := "2.0"; a_id := "x"; a_issue_instant := zero_time; a_issuer := Some "idp"; a_signature := None;
   a_subject := Some {| sub_name_id := Some "u"; sub_conf := Some {| sc_method := c_SubjMethodBearer;
       sc_data := Some {| scd_not_on_or_after := noa; scd_recipient := "https://sp/acs"; scd_in_response_to := "" |} |} |};
   a_conditions := None; a_attribute_statement := None; a_authn_statement := None; a_signature_validated := false |}.
Definition ok_response (l : list assertion) := {| r_id := "r"; r_in_response_to := ""; r_destination := ""; r_version := "2.0"; r_issue_instant := zero_time;
   r_status := Some {| st_status_code := Some c_StatusCodeSuccess |}; r_issuer := Some "idp"; r_assertions := l;
   r_encrypted_count := 0; r_signature_validated := false |}.

(* non-vacuity: a concrete response is accepted; the same with an expired third assertion is rejected *)
Example c03_accepts :
  validate ok_cfg {| i_sec := 1704100000; i_nsec := 0 |}
    (ok_response [ok_assertion "2024-01-02T00:00:00Z"; ok_assertion "2024-01-01T10:06:41+01:00"]) = Ok tt.
Proof. vm_compute. reflexivity. Qed.
Example c03_rejects_third :
  validate ok_cfg {| i_sec := 1704100000; i_nsec := 0 |}
    (ok_response [ok_assertion "2024-01-02T00:00:00Z"; ok_assertion "2024-01-02T00:00:00Z"; ok_assertion "2024-01-01T10:06:40+01:00"])
  = Err (EInvalidValue c_NotOnOrAfterAttr c_ReasonExpired "" "2024-01-01T10:06:40+01:00").
Proof. vm_compute. reflexivity. Qed.

(* ---------- acceptance depends on the SET of assertions and on four response fields only ---------- *)
From Coq Require Import Permutation.
Lemma acceptance_depends_on_assertion_set_only cfg now r r' :
  r_destination r = r_destination r' -> r_version r = r_version r' ->
  r_status r = r_status r' -> r_issuer r = r_issuer r' ->
  (forall a, In a (r_assertions r) <-> In a (r_assertions r')) ->
  (validate cfg now r = Ok tt <-> validate cfg now r' = Ok tt).
Proof.
  assert (half : forall r r', r_destination r = r_destination r' -> r_version r = r_version r' ->
                 r_status r = r_status r' -> r_issuer r = r_issuer r' ->
                 (forall a, In a (r_assertions r) <-> In a (r_assertions r')) ->
                 validate cfg now r = Ok tt -> validate cfg now r' = Ok tt).
  { clear r r'. intros r r' ED EV ES EI HS H. apply validate_ok_iff in H. apply validate_ok_iff.
    destruct H as (HA & HN & HI & HSt & HF). unfold ProfileOK. rewrite <- ED, <- EV, <- ES, <- EI.
    split; [exact HA|]. split.
    - intros E. apply HN. destruct (r_assertions r) as [|a l]; [reflexivity|].
      exfalso. assert (In a (r_assertions r')) as Hin by (apply HS; left; reflexivity). rewrite E in Hin. exact Hin.
    - split; [exact HI|]. split; [exact HSt|].
      rewrite Forall_forall in *. intros a Ha. apply HF. apply HS. exact Ha. }
  intros ED EV ES EI HS. split; [apply half; assumption|].
  apply half; try (symmetry; assumption). intros a. symmetry. apply HS.
Qed.

(* in particular: any reordering or duplication of the assertions, and any change of ID / InResponseTo / IssueInstant /
   the encrypted-assertion count / the signature flag, leaves the verdict (accepted or not) unchanged *)
Lemma acceptance_invariant_under_permutation cfg now r l :
  Permutation (r_assertions r) l ->
  (validate cfg now r = Ok tt <->
   validate cfg now {| r_id := r_id r; r_in_response_to := r_in_response_to r; r_destination := r_destination r;
                       r_version := r_version r; r_issue_instant := r_issue_instant r; r_status := r_status r;
                       r_issuer := r_issuer r; r_assertions := l; r_encrypted_count := r_encrypted_count r;
                       r_signature_validated := r_signature_validated r |} = Ok tt).
Proof.
  intros P. apply acceptance_depends_on_assertion_set_only; try reflexivity.
  intros a. cbn [r_assertions]. split; intros H.
  - eapply Permutation_in; eassumption.
  - eapply Permutation_in; [apply Permutation_sym; eassumption | exact H].
Qed.
