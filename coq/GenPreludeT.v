(* GenPreludeT.v — target combinators of the function-body translator for the tree-level entry points
   (gen/funcs.go, third unit -> GenTree.v): ValidateEncodedResponse, ValidateEncodedLogoutResponsePOST,
   ValidateEncodedLogoutRequestPOST.  Each definition models ONE operation of the Go code on etree values, or one call
   into a part of the pipeline that is modelled elsewhere (parseResponse, goxmldsig Validate, decryptAssertions,
   xml.Unmarshal into a typed struct).  Executable; no proofs of properties. *)
From V Require Import Base Time Xml Ns Types Generated Decode Profile Response GenPrelude.
Local Open Scope string_scope.
Local Open Scope list_scope.

(* parseResponse(raw, max) = (doc, doc.Root(), nil) or an error: the document is represented by its root element *)
Definition parse_call (parse : string -> res node) (raw : string) : res (node * node) :=
  match parse raw with Ok r => Ok (r, r) | Err e => Err e end.

(* sp.validateElementSignature(el) / sp.validationContext().Validate(el): goxmldsig's three outcomes *)
Definition dsig_call (dsig : node -> dsig_result) (el : node) : res (option node) :=
  match dsig el with
  | DOk v => Ok (Some v)
  | DMissing => Err EMissingSignature
  | DErr => Err (EOther "signature verification failed")
  end.
(* err == dsig.ErrMissingSignature: is_missing_signature, GenPrelude.v *)
(* sp.validateElementSignature(el): the hand model of that function (Response.validate_element_signature) over the oracle;
   its body is translated on its own (GenVctx.v) and tied to this model in P_GenVctx.v *)
Definition ves_call (dsig : node -> dsig_result) (el : node) : res (option node) :=
  dsig_call (validate_element_signature dsig) el.

(* sp.decryptAssertions(el): mutates el in place; on success el is the tree with the plaintexts *)
Definition decrypt_call (decrypt_all : node -> res node) (el : node) : res node := decrypt_all el.

(* ---- xml.Unmarshal through xmlUnmarshalElement(el, &T) ----
   encoding/xml MERGES into an existing value; the model functions of Decode.v decode into a fresh one.  The translated
   code may therefore only unmarshal into a struct that still has its zero value: anything else is an outcome the model does
   not cover, reported as None (the translator turns it into a panic outcome, so that an equality with the model cannot be
   proved for a path that does it). *)
Definition izero_b (i : instant) : bool := (i_sec i =? 0)%Z && (i_nsec i =? 0)%Z.
Definition zero_response : response :=
  {| r_id := ""; r_in_response_to := ""; r_destination := ""; r_version := ""; r_issue_instant := izero; r_status := None;
     r_issuer := None; r_assertions := []; r_encrypted_count := 0; r_signature_validated := false |}.
Definition response_is_zero (r : response) : bool :=
  (r_id r =?s "") && (r_in_response_to r =?s "") && (r_destination r =?s "") && (r_version r =?s "") &&
  izero_b (r_issue_instant r) && is_nil (r_status r) && is_nil (r_issuer r) &&
  match r_assertions r with [] => true | _ => false end && Nat.eqb (r_encrypted_count r) 0 && negb (r_signature_validated r).
Definition zero_logout_response : logout_response :=
  {| lr_id := ""; lr_in_response_to := ""; lr_destination := ""; lr_version := ""; lr_issue_instant := izero;
     lr_status := None; lr_issuer := None; lr_signature_validated := false |}.
Definition logout_response_is_zero (r : logout_response) : bool :=
  (lr_id r =?s "") && (lr_in_response_to r =?s "") && (lr_destination r =?s "") && (lr_version r =?s "") &&
  izero_b (lr_issue_instant r) && is_nil (lr_status r) && is_nil (lr_issuer r) && negb (lr_signature_validated r).
Definition zero_logout_request : logout_request :=
  {| lq_id := ""; lq_version := ""; lq_issue_instant := izero; lq_destination := ""; lq_issuer := None; lq_name_id := None;
     lq_signature_validated := false |}.
Definition logout_request_is_zero (r : logout_request) : bool :=
  (lq_id r =?s "") && (lq_version r =?s "") && izero_b (lq_issue_instant r) && (lq_destination r =?s "") &&
  is_nil (lq_issuer r) && is_nil (lq_name_id r) && negb (lq_signature_validated r).
Definition zero_assertion : assertion :=
  {| a_version := ""; a_id := ""; a_issue_instant := izero; a_issuer := None; a_signature := None; a_subject := None;
     a_conditions := None; a_attribute_statement := None; a_authn_statement := None; a_signature_validated := false |}.
Definition assertion_is_zero (a : assertion) : bool :=
  (a_version a =?s "") && (a_id a =?s "") && izero_b (a_issue_instant a) && is_nil (a_issuer a) && is_nil (a_signature a) &&
  is_nil (a_subject a) && is_nil (a_conditions a) && is_nil (a_attribute_statement a) && is_nil (a_authn_statement a) &&
  negb (a_signature_validated a).

Definition unmarshal_into {T} (is_zero : T -> bool) (um : node -> res T) (el : node) (cur : T) : option (res T) :=
  if is_zero cur then Some (um el) else None.
Definition unmarshal_into_response := unmarshal_into response_is_zero unmarshal_response.
Definition unmarshal_into_logout_response := unmarshal_into logout_response_is_zero unmarshal_logout_response.
Definition unmarshal_into_logout_request := unmarshal_into logout_request_is_zero unmarshal_logout_request.
Definition unmarshal_into_assertion := unmarshal_into assertion_is_zero unmarshal_assertion.

(* ---- field stores ---- *)
Definition set_r_signature_validated (v : bool) (r : response) : response :=
  with_flag r v (r_assertions r) (r_encrypted_count r).
Definition set_r_assertions (v : list assertion) (r : response) : response :=
  with_flag r (r_signature_validated r) v (r_encrypted_count r).
(* decodedResponse.EncryptedAssertions = l : the model keeps the length only *)
Definition set_r_encrypted (v : list enc_assertion) (r : response) : response :=
  with_flag r (r_signature_validated r) (r_assertions r) (List.length v).
Definition set_lr_signature_validated (v : bool) (r : logout_response) : logout_response := lr_with_flag r v.
Definition set_lq_signature_validated (v : bool) (r : logout_request) : logout_request := lq_with_flag r v.
Definition set_a_signature_validated (v : bool) (a : assertion) : assertion :=
  {| a_version := a_version a; a_id := a_id a; a_issue_instant := a_issue_instant a;
     a_issuer := a_issuer a; a_signature := a_signature a; a_subject := a_subject a;
     a_conditions := a_conditions a; a_attribute_statement := a_attribute_statement a;
     a_authn_statement := a_authn_statement a; a_signature_validated := v |}.

(* ---- el.Parent() inside a handler of NSFindIterate(start, ...) ----
   The element the handler is called for is identified by its path from [start].  Its parent pointer is: the element above
   [start] for the start element itself (both call sites start at the root element of an etree.Document, whose Parent() is
   the document's pseudo element: never nil, never equal to start), [start] for a direct child, another element below. *)
Inductive pref := PNil | PStart | PAbove | PBelow.
Definition parent_of (path : list nat) : pref :=
  match path with [] => PAbove | [_] => PStart | _ => PBelow end.
Definition pref_is_nil (p : pref) : bool := match p with PNil => true | _ => false end.
Definition pref_is_start (p : pref) : bool := match p with PStart => true | _ => false end.
(* p.Tag: nil dereference when p is nil; the value only feeds an error message *)
Definition pref_tag (p : pref) : option string := match p with PNil => None | _ => Some "" end.

(* ---- NSFindIterate with a handler that can panic ---- *)
Section TraversePm.
  Context {S : Type}.
  Variable handle : nsctx -> list nat -> node -> S -> pm (res S).

  Fixpoint traverse_pm (ctx : nsctx) (path : list nat) (el : node) (st : nat * S) {struct el} : pm (res (nat * S)) :=
    match el with
    | Elem sp tg attrs kids =>
        match fst st with
        | O => PVal (Err (EOther "traversal limit reached"))
        | Datatypes.S lim' =>
            match sub_context ctx attrs with
            | Err e => PVal (Err e)
            | Ok ctx' =>
                match handle ctx' path el (snd st) with
                | PPanic => PPanic
                | PVal (Err e) => PVal (Err e)
                | PVal (Ok s') =>
                    (fix go (ks : list node) (i : nat) (st : nat * S) {struct ks} : pm (res (nat * S)) :=
                       match ks with
                       | [] => PVal (Ok st)
                       | k :: r =>
                           match k with
                           | Elem _ _ _ _ =>
                               match traverse_pm ctx' (path ++ [i]) k st with
                               | PPanic => PPanic
                               | PVal (Err e) => PVal (Err e)
                               | PVal (Ok st') => go r (Datatypes.S i) st'
                               end
                           | _ => go r (Datatypes.S i) st
                           end
                       end) kids O (lim', s')
                end
            end
        end
    | _ => PVal (Ok st)
    end.
End TraversePm.

Definition find_iterate_pm {S} (namespace tag : string)
           (handle : nsctx -> list nat -> node -> S -> pm (res S)) (el : node) (s : S) : pm (res S) :=
  match traverse_pm (fun ctx path e s =>
                      match lookup_prefix ctx (space_of e) with
                      | None => PVal (Err (EOther "undeclared namespace prefix"))
                      | Some ns => if (ns =?s namespace) && (tag_of e =?s tag) then handle ctx path e s else PVal (Ok s)
                      end)
                   default_ctx [] el (traversal_limit, s) with
  | PPanic => PPanic
  | PVal (Err e) => PVal (Err e)
  | PVal (Ok r) => PVal (Ok (snd r))
  end.

Definition zero_enc_assertion : enc_assertion :=
  let m := {| em_algorithm := ""; em_digest := None |} in
  let k := {| ek_x509 := ""; ek_cipher_value := ""; ek_method := m |} in
  {| ea_method := m; ea_key := k; ea_det_key := k; ea_cipher_value := "" |}.
