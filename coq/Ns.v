(* Ns.v — model of goxmldsig/etreeutils namespace contexts and traversals (v1.5.0):
   NSContext.SubContext / LookupPrefix, NSTraverse with the shared visit counter (limit 1000),
   NSFindIterate, NSDetatch. The limit is a constant of the pinned dependency, not of /repo. *)
From V Require Import Base Xml.
Local Open Scope string_scope.
Local Open Scope list_scope.

Definition XMLNamespace := "http://www.w3.org/XML/1998/namespace".
Definition XMLNSNamespace := "http://www.w3.org/2000/xmlns/".
Definition traversal_limit : nat := 1000.

(* prefix -> namespace, most recent declaration first *)
Definition nsctx := list (string * string).
Definition default_ctx : nsctx := [("", XMLNamespace); ("xml", XMLNamespace); ("xmlns", XMLNSNamespace)].

Fixpoint lookup_prefix (ctx : nsctx) (p : string) : option string :=
  match ctx with
  | [] => None
  | (k, v) :: r => if k =?s p then Some v else lookup_prefix r p
  end.

(* NSContext.SubContext: merge the element's own declarations on top of the inherited ones *)
Fixpoint sub_context (ctx : nsctx) (attrs : list attr) : res nsctx :=
  match attrs with
  | [] => Ok ctx
  | a :: r =>
      if at_space a =?s "xmlns" then
        if (at_key a =?s "xml") && negb (at_val a =?s XMLNamespace) then Err (EOther "reserved namespace")
        else if at_key a =?s "xmlns" then Err (EOther "reserved namespace")
        else sub_context ((at_key a, at_val a) :: ctx) r
      else if (at_space a =?s "") && (at_key a =?s "xmlns") then
        if at_val a =?s XMLNSNamespace then Err (EOther "invalid default namespace")
        else sub_context (("", at_val a) :: ctx) r
      else sub_context ctx r
  end.

Definition is_ns_decl (a : attr) : bool :=
  (at_space a =?s "xmlns") || ((at_space a =?s "") && (at_key a =?s "xmlns")).

(* distinct prefixes of a context with their effective namespace, in first-seen order *)
Fixpoint ctx_bindings (ctx : nsctx) (seen : list string) : list (string * string) :=
  match ctx with
  | [] => []
  | (k, v) :: r =>
      if existsb (fun s => s =?s k) seen then ctx_bindings r seen
      else (k, v) :: ctx_bindings r (k :: seen)
  end.

(* NSDetatch: copy of the element whose attributes are its non-declaration attributes followed by one
   declaration per in-context prefix (skipping xml, xmlns and the implicit default).  goxmldsig then
   sorts the attributes (sort.Sort with SortedAttrs, Go map iteration order before that); the model does
   NOT fix an order: detached elements are compared up to permutation of the ROOT attributes
   ([detached_eqb]), which is all that the signature library and encoding/xml can observe of it
   (both are insensitive to the order of namespace declarations; see DESIGN.md, trusted base). *)
Definition detach (ctx : nsctx) (el : node) : res node :=
  match el with
  | Elem sp tg attrs kids =>
      do ctx' <- sub_context ctx attrs;
      let plain := filter (fun a => negb (is_ns_decl a)) attrs in
      let decls :=
        flat_map (fun kv =>
          let '(p, ns) := kv in
          if (p =?s "xmlns") || (p =?s "xml") then []
          else if (p =?s "") && (ns =?s XMLNamespace) then []
          else if p =?s "" then [{| at_space := ""; at_key := "xmlns"; at_val := ns |}]
          else [{| at_space := "xmlns"; at_key := p; at_val := ns |}])
        (ctx_bindings ctx' []) in
      Ok (Elem sp tg (plain ++ decls) kids)
  | _ => Err (EOther "detach: not an element")
  end.

(* remove the first attribute equal to [a] *)
Fixpoint remove_attr (a : attr) (l : list attr) : option (list attr) :=
  match l with
  | [] => None
  | b :: r => if attr_eqb a b then Some r
              else match remove_attr a r with Some r' => Some (b :: r') | None => None end
  end.
Fixpoint attrs_perm_eqb (l1 l2 : list attr) : bool :=
  match l1 with
  | [] => match l2 with [] => true | _ => false end
  | a :: r => match remove_attr a l2 with Some l2' => attrs_perm_eqb r l2' | None => false end
  end.
Definition detached_eqb (a b : node) : bool :=
  match a, b with
  | Elem s1 t1 a1 k1, Elem s2 t2 a2 k2 =>
      (s1 =?s s2) && (t1 =?s t2) && attrs_perm_eqb a1 a2 && list_eqb node_eqb k1 k2
  | _, _ => false
  end.

(* ---- NSTraverse / NSFindIterate ----
   [handle ctx path el s] is called for every element in document order (pre-order); [path] is the list
   of child-token indices leading from the start element to [el]; the state [s] is threaded through.
   The counter [lim] is the shared traversal limit of one NSFindIterate call. *)
Section Traverse.
  Context {S : Type}.
  Variable handle : nsctx -> list nat -> node -> S -> res S.

  Fixpoint traverse (ctx : nsctx) (path : list nat) (el : node) (st : nat * S) {struct el} : res (nat * S) :=
    match el with
    | Elem sp tg attrs kids =>
        match fst st with
        | O => Err (EOther "traversal limit reached")
        | Datatypes.S lim' =>
            do ctx' <- sub_context ctx attrs;
            do s' <- handle ctx' path el (snd st);
            (fix go (ks : list node) (i : nat) (st : nat * S) {struct ks} : res (nat * S) :=
               match ks with
               | [] => Ok st
               | k :: r =>
                   match k with
                   | Elem _ _ _ _ => do st' <- traverse ctx' (path ++ [i]) k st; go r (Datatypes.S i) st'
                   | _ => go r (Datatypes.S i) st
                   end
               end) kids O (lim', s')
        end
    | _ => Ok st
    end.
End Traverse.

(* NSFindIterate(el, namespace, tag, handle) with the default context and a fresh limit *)
Definition find_iterate {S} (namespace tag : string)
           (handle : nsctx -> list nat -> node -> S -> res S) (el : node) (s : S) : res S :=
  do r <- traverse (fun ctx path e s =>
                      match lookup_prefix ctx (space_of e) with
                      | None => Err (EOther "undeclared namespace prefix")
                      | Some ns => if (ns =?s namespace) && (tag_of e =?s tag) then handle ctx path e s else Ok s
                      end)
                   default_ctx [] el (traversal_limit, s);
  Ok (snd r).

(* ---- NSIterateChildren / NSFindChildrenIterateCtx / NSFindOneChild(Ctx) ---- *)
(* constants of goxmldsig v1.5.0 (xml_constants.go): dsig.Namespace, dsig.SignatureTag *)
Definition ds_ns := "http://www.w3.org/2000/09/xmldsig#".
Definition ds_signature_tag := "Signature".

Definition e_limit : err := EOther "limit".
Definition e_undeclared : err := EOther "undeclared-prefix".
(* the label of sub_context errors is Ns.v's; the harness maps both goxmldsig messages to "reserved-ns" *)
Definition sub_ctx (ctx : nsctx) (attrs : list attr) : res nsctx :=
  match sub_context ctx attrs with Ok c => Ok c | Err _ => Err (EOther "reserved-ns") end.

(* NSIterateChildren + the closure of NSFindChildrenIterateCtx, specialised to what NSFindOneChildCtx and findSignature's
   search for SignedInfo do with it: stop at the FIRST child element that resolves to (namespace, tag).
   Every child ELEMENT looked at costs one unit of the shared limit (ctx.CheckLimit), is sub-contexted and must have a
   declared prefix. Result: index among the child tokens and the element, and the remaining limit. *)
Fixpoint find_child_loop (ctx' : nsctx) (namespace tag : string) (ks : list node) (i : nat) (lim : nat)
  : res (option (nat * node) * nat) :=
  match ks with
  | [] => Ok (None, lim)
  | k :: r =>
      match k with
      | Elem sp tg attrs _ =>
          match lim with
          | O => Err e_limit
          | S lim' =>
              do c2 <- sub_ctx ctx' attrs;
              match lookup_prefix c2 sp with
              | None => Err e_undeclared
              | Some ns => if (ns =?s namespace) && (tg =?s tag) then Ok (Some (i, k), lim')
                           else find_child_loop ctx' namespace tag r (S i) lim'
              end
          end
      | _ => find_child_loop ctx' namespace tag r (S i) lim
      end
  end.
Definition find_one_child (ctx : nsctx) (el : node) (namespace tag : string) (lim : nat) : res (option (nat * node) * nat) :=
  do ctx' <- sub_ctx ctx (attrs_of el);
  find_child_loop ctx' namespace tag (kids_of el) 0 lim.


(* NSFindOneChild(el, namespace, tag): default context, fresh limit; the element found (nil when there is none) *)
Definition ns_find_one_child (el : node) (namespace tag : string) : res (option node) :=
  do r <- find_one_child default_ctx el namespace tag traversal_limit;
  Ok (option_map snd (fst r)).
