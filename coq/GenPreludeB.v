(* GenPreludeB.v — target combinators of the function-body translator for the message builders
   (gen/funcs.go, fourth unit -> GenBuild.v): buildAuthnRequest, buildLogoutRequest, buildLogoutResponse.
   The Go code builds ONE element tree through pointers (handles returned by CreateElement, mutated later).  The tree under
   construction is threaded as a value [bt]; an element variable holds the PATH (child-token indices from the root) of the
   element it points to; every operation is a functional update at that path using the operations of Build.v
   (create_attr: replace-or-append, new_element: name decomposition, set_text: leading text run).  An invalid path is an
   explicit failure (None, turned into a panic outcome by the translator).  Executable; no proofs. *)
From V Require Import Base Time Xml Build GenPrelude.
Local Open Scope string_scope.
Local Open Scope list_scope.

Fixpoint replace_nth {A} (i : nat) (x : A) (l : list A) : list A :=
  match l, i with
  | [], _ => []
  | _ :: r, O => x :: r
  | y :: r, S j => y :: replace_nth j x r
  end.

Fixpoint update_at (n : node) (p : list nat) (f : node -> option node) {struct p} : option node :=
  match p with
  | [] => f n
  | i :: r =>
      match n with
      | Elem s t a ks =>
          match nth_error ks i with
          | Some k => match update_at k r f with Some k' => Some (Elem s t a (replace_nth i k' ks)) | None => None end
          | None => None
          end
      | _ => None
      end
  end.

Fixpoint node_at (n : node) (p : list nat) : option node :=
  match p with
  | [] => Some n
  | i :: r => match n with Elem _ _ _ ks => match nth_error ks i with Some k => node_at k r | None => None end | _ => None end
  end.

(* &etree.Element{Space: sp, Tag: tag} *)
Definition bt_new (sp tag : string) : node := Elem sp tag [] [].
(* el.CreateAttr(key, value) *)
Definition bt_create_attr (bt : node) (p : list nat) (key v : string) : option node :=
  update_at bt p (fun n => match n with Elem s t a ks => Some (Elem s t (create_attr key v a) ks) | _ => None end).
(* el.CreateElement(tag): appended as last child; the new element's path *)
Definition bt_create_element (bt : node) (p : list nat) (tag : string) : option (node * list nat) :=
  match node_at bt p with
  | Some (Elem _ _ _ ks) =>
      match update_at bt p (fun n => match n with Elem s t a ks => Some (Elem s t a (ks ++ [new_element tag [] []])) | _ => None end) with
      | Some bt' => Some (bt', p ++ [List.length ks])
      | None => None
      end
  | _ => None
  end.
(* el.SetText(text) *)
Definition bt_set_text (bt : node) (p : list nat) (text : string) : option node :=
  update_at bt p (fun n => match n with Elem s t a ks => Some (Elem s t a (set_text text ks)) | _ => None end).

(* etree.Document as far as the builders use it: NewDocument, SetRoot(el) with a handle or with an element returned by the
   signing step; the document is read when it is returned *)
Inductive docref := DEmpty | DPath (p : list nat) | DNode (n : node).
Definition doc_root (bt : node) (d : docref) : option node :=
  match d with DEmpty => None | DPath p => node_at bt p | DNode n => Some n end.
