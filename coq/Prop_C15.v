(* Prop_C15.v -- property C15: outgoing AuthnRequest / LogoutRequest / LogoutResponse are well-formed, schema-ordered
   and faithful to the configuration.  ONLY theorem statements closed by [exact lemma], each followed by
   Print Assumptions.  Model: Build.v (etree building operations, the three builders, etree_write = etree's
   Document.WriteTo with default settings); lemmas: P_Build.v. *)
From V Require Import Base Time TimeProofs Escape EscapeProofs Xml Ns Generated Build P_Build P_Sign.
Local Open Scope string_scope.

(* (a) the tag / attribute-name skeleton of each built tree is an explicit function of the SHAPE (the booleans, the
       optionals, the number of contexts, and which text values are empty: SetText("") adds no character data),
       never of string contents;
   (b) for EVERY element tree whose tag / attribute names are names, the scanner of the emitted XML subset
       (P_Build.run: splits on < > / = " and blanks, rejects < inside attribute values) reads the serialisation
       back as exactly the tree's tokens, each attribute value and each run of character data being the escaped
       configured string: whatever the strings contain they stay inside their slot;  the built trees qualify;
   (c) for ALL strings the escaped form contains no '<', no '"', and '&' only as the start of a reference. *)
Theorem C15_values_cannot_alter_structure :
  (forall cfg id now, skeleton (build_authn_request cfg id now) = authn_skeleton (authn_shape_of cfg)) /\
  (forall cfg id now nid si, skeleton (build_logout_request cfg id now nid si) =
        logout_request_skeleton (nonempty (issuer_value cfg)) (nonempty nid) (nonempty si)) /\
  (forall cfg id now st rq, skeleton (build_logout_response cfg id now st rq) =
        logout_response_skeleton (nonempty (issuer_value cfg))) /\
  (forall sp t a k, names_ok (Elem sp t a k) = true ->
        scan (etree_write (Elem sp t a k)) = Some (tokens (etree_escape Normal) (Elem sp t a k))) /\
  (forall cfg m id now, names_ok (message_tree cfg m id now) = true) /\
  (forall v, etree_no_markup Normal (etree_escape Normal v) = true).
Proof. exact values_cannot_alter_structure. Qed.
Print Assumptions C15_values_cannot_alter_structure.

(* the stretch goal of the design, in full (not partial): scan (etree_write t) = tokens t *)
Theorem C15_scan_write_tokens : forall sp t a k,
  names_ok (Elem sp t a k) = true ->
  scan (etree_write (Elem sp t a k)) = Some (tokens (etree_escape Normal) (Elem sp t a k)).
Proof. exact scan_write_tokens. Qed.
Print Assumptions C15_scan_write_tokens.

(* children in XSD order (order lists of saml-schema-protocol-2.0.xsd in P_Build.v section 6), for every combination of
   options, unsigned and with a ds:Signature placed by sign_placement; message element in the protocol namespace,
   Version 2.0, ID = "_" ++ random id.  A RequestedAuthnContext configured with zero Contexts is emitted with no
   AuthnContextClassRef, which the schema does not allow (stated, not hidden: the last conjunct of the first part).
   The last conjunct covers every document the public API returns (message_doc: signed or not, any key configuration,
   any canonicaliser, including the exclusive ones that rewrite the element before it is copied). *)
Theorem C15_schema_order :
  (forall cfg id now,
     xsd_match authn_request_order (child_names (build_authn_request cfg id now)) = true /\
     (forall sig t, is_ds_signature sig -> sign_placement (build_authn_request cfg id now) sig = ORet (Ok t) ->
                    xsd_match authn_request_order (child_names t) = true) /\
     (forall r, b_rac cfg = Some r ->
        exists rc, In rc (kids_of (build_authn_request cfg id now)) /\ node_name rc = "samlp:RequestedAuthnContext" /\
          child_names rc = map (fun _ => "saml:AuthnContextClassRef") (rac_contexts r) /\
          xsd_match requested_authn_context_order (child_names rc) = negb (match rac_contexts r with [] => true | _ => false end))) /\
  (forall cfg id now nid si,
     xsd_match logout_request_order (child_names (build_logout_request cfg id now nid si)) = true /\
     (forall sig t, is_ds_signature sig -> sign_placement (build_logout_request cfg id now nid si) sig = ORet (Ok t) ->
                    xsd_match logout_request_order (child_names t) = true)) /\
  (forall cfg id now st rq,
     xsd_match status_response_order (child_names (build_logout_response cfg id now st rq)) = true /\
     (forall sig t, is_ds_signature sig -> sign_placement (build_logout_response cfg id now st rq) sig = ORet (Ok t) ->
                    xsd_match status_response_order (child_names t) = true) /\
     (exists s, In s (kids_of (build_logout_response cfg id now st rq)) /\ node_name s = "samlp:Status" /\
                xsd_match status_order (child_names s) = true)) /\
  (forall cfg m id now,
     let t := message_tree cfg m id now in
     space_of t = "samlp" /\ tag_of t = root_tag m /\
     select_attr_sk "xmlns" "samlp" (attrs_of t) = Some c_SAMLProtocolNamespace /\
     select_attr_sk "xmlns" "saml" (attrs_of t) = Some c_SAMLAssertionNamespace /\
     select_attr_sk "" "Version" (attrs_of t) = Some "2.0" /\
     select_attr_sk "" "ID" (attrs_of t) = Some ("_" ++ id)) /\
  (* every document the public API returns: signed or not, whatever the key configuration and canonicaliser *)
  (forall cfg k m id now incl crypto t,
     message_doc cfg k m id now incl crypto = ORet (Ok t) -> xsd_match (order_of m) (child_names t) = true).
Proof. exact schema_order. Qed.
Print Assumptions C15_schema_order.

(* IssueInstant = the clock instant formatted as t.UTC().Format(issueInstantFormat) (Time.format_utc_seconds; the layout
   constant is re-extracted from the source), and it parses back to the instant truncated to the second (years 0..9999) *)
Theorem C15_issue_instant_utc : forall cfg m id now,
  c_issueInstantFormat = "2006-01-02T15:04:05Z" /\
  select_attr_sk "" "IssueInstant" (attrs_of (message_tree cfg m id now)) = Some (format_utc_seconds now) /\
  (-62167219200 <= i_sec now < 253402300800 ->
   parse_rfc3339 (format_utc_seconds now) = Some {| i_sec := i_sec now; i_nsec := 0 |}).
Proof. exact issue_instant_utc. Qed.
Print Assumptions C15_issue_instant_utc.

(* Destination = IdentityProviderSSOURL for the AuthnRequest, IdentityProviderSLOURL for the two logout messages;
   the first child is saml:Issuer carrying ServiceProviderIssuer, IdentityProviderIssuer only when that is empty *)
Theorem C15_destination_and_issuer : forall cfg m id now,
  select_attr_sk "" "Destination" (attrs_of (message_tree cfg m id now)) = Some (destination_of cfg m) /\
  (exists rest, kids_of (message_tree cfg m id now) = Elem "saml" "Issuer" [] (text_kids (issuer_value cfg)) :: rest) /\
  (b_sp_issuer cfg <> "" -> issuer_value cfg = b_sp_issuer cfg) /\
  (b_sp_issuer cfg = "" -> issuer_value cfg = b_idp_issuer cfg).
Proof. exact destination_and_issuer. Qed.
Print Assumptions C15_destination_and_issuer.

(* scanning the serialised bytes finds every configured / caller-supplied value, escaped, in its slot
   (authn_found / logout_request_found / logout_response_found list the slots: ACS URL, NameID format, ForceAuthn /
   IsPassive, Comparison and the contexts in order, NameID, SessionIndex, status code, InResponseTo, ...), and the
   reader (line-end normalisation, then reference expansion) gives the value back exactly when it is XML text
   without U+000D *)
Theorem C15_values_recovered :
  (forall cfg id now, exists toks,
      scan (etree_write (build_authn_request cfg id now)) = Some toks /\ authn_found (etree_escape Normal) cfg id now toks) /\
  (forall cfg id now nid si, exists toks,
      scan (etree_write (build_logout_request cfg id now nid si)) = Some toks /\
      logout_request_found (etree_escape Normal) cfg id now nid si toks) /\
  (forall cfg id now st rq, exists toks,
      scan (etree_write (build_logout_response cfg id now st rq)) = Some toks /\
      logout_response_found (etree_escape Normal) cfg id now st rq toks) /\
  (forall v, valid_xml_text v = true -> no_byte 13 v = true -> xml_read (etree_escape Normal v) = v).
Proof. exact values_recovered. Qed.
Print Assumptions C15_values_recovered.

(* known finding F8: without the premise "no U+000D" the statement is false of the faithful model *)
Theorem C15_cr_not_preserved_refuted :
  (exists v, valid_xml_text v = true /\ xml_read (etree_escape Normal v) <> v) /\
  (exists cfg id now toks,
      scan (etree_write (build_authn_request cfg id now)) = Some toks /\
      valid_xml_text (issuer_value cfg) = true /\
      map xml_read (tok_texts "saml:Issuer" toks) <> [issuer_value cfg]).
Proof. exact cr_not_preserved_refuted. Qed.
Print Assumptions C15_cr_not_preserved_refuted.

(* beyond encoding/xml: a reader that also applies XML 1.0 3.3.3 attribute-value normalisation does not get TAB / LF
   back from attribute-valued settings, because escapeNormal writes them raw (same root cause as F8) *)
Theorem C15_attr_tab_lf_conformant_reader_refuted :
  let v := B [97; 9; 98; 10; 99]%N in
  valid_xml_text v = true /\ no_byte 13 v = true /\ xml_read (etree_escape Normal v) = v /\
  xml_unescape (attr_ws_normalize (xml_eol_normalize (etree_escape Normal v))) = "a b c".
Proof. exact attr_tab_lf_conformant_reader. Qed.
Print Assumptions C15_attr_tab_lf_conformant_reader_refuted.

(* ---- name spaces, bindings and name-id formats written into outgoing messages are the normative identifiers ---- *)
From V Require Import SamlSchema P_SamlSchema.
Theorem C15_vocabulary_is_saml_core : generated_vocabulary = saml_vocabulary.
Proof. exact vocabulary_is_saml. Qed.
Print Assumptions C15_vocabulary_is_saml_core.

(* ---- source tie (DESIGN.md 2a): the three builders as TRANSLATED from /repo on this run — construction of the element tree
   through pointers, one CreateAttr / CreateElement / SetText at a time — yield, for every configuration, clock, random id,
   argument and behaviour of the signing step, exactly the element trees [build_*] the theorems above are about ---- *)
From V Require Import GenPrelude GenPreludeB GenBuild P_GenBuild.
Theorem C15_source_builders_are_the_model : forall (sign_el : node -> res node) cfg now id,
  (forall incl, G_buildAuthnRequest sign_el cfg now incl id
                = PVal (built sign_el (b_sign_authn_requests cfg && incl) (build_authn_request cfg id now))) /\
  (forall incl name_id session_index, G_buildLogoutRequest sign_el cfg now incl name_id session_index id
                = PVal (built sign_el incl (build_logout_request cfg id now name_id session_index))) /\
  (forall incl status_code req_id, G_buildLogoutResponse sign_el cfg now status_code req_id incl id
                = PVal (built sign_el incl (build_logout_response cfg id now status_code req_id))).
Proof.
  exact (fun s cfg now id => conj (fun incl => G_buildAuthnRequest_is_model s cfg now incl id)
          (conj (fun incl n si => G_buildLogoutRequest_is_model s cfg now incl n si id)
                (fun incl sc rq => G_buildLogoutResponse_is_model s cfg now sc rq incl id))).
Qed.
Print Assumptions C15_source_builders_are_the_model.

(* The serialise -> parse round trip through the REAL reader model (XmlTok.v: encoding/xml's RawToken with the name tables,
   entity expansion, end-of-line handling, UTF-8 / Char-range checks; etree's readFrom with attribute de-duplication),
   generalising C15_scan_write_tokens (whose scanner accepts any delimiter-free name and leaves values escaped).
   Premise [xml_wf]: an element tree of elements and character data whose names are names for the real reader and split
   back into (space, tag), and whose values are valid UTF-8 in the XML Char range without U+000D (F8).
   [normalise]: adjacent character data merged, empty character data dropped, duplicated attributes collapsed. *)
From V Require Import XmlTok P_XmlTok.
Theorem C15_written_document_reads_back : forall sp t a k,
  xml_wf (Elem sp t a k) = true ->
  raw_tokens (etree_write (Elem sp t a k)) = Ok (rtoks (Elem sp t a k)) /\
  read_doc true (etree_write (Elem sp t a k)) = Ok [normalise (Elem sp t a k)] /\
  read_tree (etree_write (Elem sp t a k)) = Ok (normalise (Elem sp t a k)).
Proof. exact written_document_reads_back. Qed.
Print Assumptions C15_written_document_reads_back.

(* the three builders: their element and attribute names pass the real reader's checks; the premise that remains is about
   the VALUES (for the two logout messages spelled out: [wf_logout_request], [wf_logout_response]) *)
Theorem C15_builders_read_back : forall cfg id now,
  (xml_wf (build_authn_request cfg id now) = true ->
   read_tree (etree_write (build_authn_request cfg id now)) = Ok (normalise (build_authn_request cfg id now))) /\
  (forall nid si, logout_request_values_ok cfg id now nid si = true ->
   read_tree (etree_write (build_logout_request cfg id now nid si)) = Ok (normalise (build_logout_request cfg id now nid si))) /\
  (forall st rq, logout_response_values_ok cfg id now st rq = true ->
   read_tree (etree_write (build_logout_response cfg id now st rq)) = Ok (normalise (build_logout_response cfg id now st rq))).
Proof. exact builders_read_back. Qed.
Print Assumptions C15_builders_read_back.

(* premises satisfiable on a tree that is not its own normal form (duplicated attribute, split and empty character data,
   markup characters and a line feed in values) *)
Theorem C15_written_document_reads_back_example :
  xml_wf ex_tree = true /\ read_tree (etree_write ex_tree) = Ok (normalise ex_tree) /\ normalise ex_tree <> ex_tree.
Proof. exact ex_tree_round_trip_short. Qed.
Print Assumptions C15_written_document_reads_back_example.

(* the premises cannot be dropped: U+000D is read back as U+000A by the real reader (F8), and a name the lax scanner of
   C15_scan_write_tokens admits is refused by it *)
Theorem C15_written_document_cr_refuted :
  xml_wf cr_tree = false /\
  read_tree (etree_write cr_tree) = Ok (Elem "" "a" [ {| at_space := ""; at_key := "b"; at_val := "x" ++ lf1 ++ "y" |} ] [Text ("u" ++ lf1 ++ "v")]) /\
  read_tree (etree_write cr_tree) <> Ok (normalise cr_tree).
Proof. exact cr_not_read_back. Qed.
Print Assumptions C15_written_document_cr_refuted.

Theorem C15_lax_name_refuted :
  names_ok (Elem "" "1a" [] []) = true /\ xml_wf (Elem "" "1a" [] []) = false /\
  (exists e, read_tree (etree_write (Elem "" "1a" [] [])) = Err e).
Proof. exact lax_name_not_read_back. Qed.
Print Assumptions C15_lax_name_refuted.
