(* P_XmlTokC20.v -- the pre-decode / validation agreement of P_C20.v stated FROM THE BYTES: the tokenizer and tree-builder
   model (XmlTok.v) in front of both readers instead of one shared tree handed over by the harness. *)
From V Require Import Base Time Xml Ns SchemaDefs Schema Types Generated Profile Decode Response P_Schema P_Response P_C20 XmlTok P_XmlTok.
Local Open Scope string_scope.
Local Open Scope list_scope.

(* the unverified pre-decoder on raw bytes: xml.Unmarshal = Decoder.Token loop (token_view) + struct decoding (Schema.v) *)
Definition predecode_bytes (s : string) : res base_response :=
  do root <- token_view s; unmarshal_base_response root.
Definition predecode_logout_bytes (s : string) : res logout_response :=
  do root <- token_view s; unmarshal_logout_response root.

Theorem predecode_agrees_from_bytes dsig decrypt cfg now s tree r b :
  read_tree s = Ok tree ->                                         (* what parseResponse hands to validation *)
  (forall toks i, raw_tokens s = Ok toks -> In (RProcInst "xml" i) toks -> encoding_ok i = true) ->
  (forall raw, read_root_raw s = Ok (Some raw) -> well_formed_attrs raw = true) ->   (* no duplicated attribute names *)
  (cfg_skip_sig cfg = true \/ dsig tree = DMissing) ->
  validate_response_tree dsig decrypt cfg now tree = Ok r ->
  predecode_bytes s = Ok b ->
  br_id b = r_id r /\ br_in_response_to b = r_in_response_to r /\ br_destination b = r_destination r /\
  br_version b = r_version r /\ br_issuer b = r_issuer r.
Proof.
  intros Ht Henc Hwf Hpath Hv Hb.
  destruct (predecode_view_of_validated_tree s tree Ht Henc) as (raw & Hview & Hraw & Hd).
  unfold predecode_bytes in Hb. rewrite Hview in Hb. cbn [bind] in Hb. subst tree.
  exact (predecode_agrees_when_root_unsigned dsig decrypt cfg now raw r b (Hwf raw Hraw) Hpath Hv Hb).
Qed.
