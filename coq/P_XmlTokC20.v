(* P_XmlTokC20.v -- the pre-decode / validation agreement of P_C20.v stated FROM THE BYTES: the tokenizer and tree-builder
   model (XmlTok.v) in front of both readers instead of one shared tree handed over by the harness. *)
From V Require Import Base Time Xml Ns SchemaDefs Schema Types Generated Profile Decode Response P_Schema P_Response P_C20 XmlTok P_XmlTok.
Local Open Scope string_scope.
Local Open Scope list_scope.

(* the unverified pre-decoder on raw bytes: Decoder.Decode = Decoder.Token loop (token_view_with, by CharsetReader setting)
   + struct decoding of that element as it was read (Schema.view_direct: no etree serialisation in between, so a U+000D
   that came through a character reference stays) *)
Definition predecode_bytes_with (c : charset_reader) (s : string) : res base_response :=
  do root <- token_view_with c s; unmarshal_base_response_direct root.
Definition predecode_logout_bytes_with (c : charset_reader) (s : string) : res logout_response :=
  do root <- token_view_with c s; unmarshal_logout_response_direct root.
(* xmlUnmarshalDocument (pass-through CharsetReader): the pre-decoders of the repaired tree *)
Definition predecode_bytes (s : string) : res base_response := predecode_bytes_with CsPassThrough s.
Definition predecode_logout_bytes (s : string) : res logout_response := predecode_logout_bytes_with CsPassThrough s.
(* xml.Unmarshal (no CharsetReader): the pre-decoders before 6cc4dbc *)
Definition predecode_bytes_original (s : string) : res base_response := predecode_bytes_with CsNone s.
Definition predecode_logout_bytes_original (s : string) : res logout_response := predecode_logout_bytes_with CsNone s.

Theorem predecode_agrees_from_bytes dsig decrypt cfg now s tree r b :
  read_tree s = Ok tree ->                                         (* what parseResponse hands to validation *)
  (forall raw, read_root_raw s = Ok (Some raw) -> well_formed_attrs raw = true) ->      (* no duplicated attribute names *)
  (cfg_skip_sig cfg = true \/ dsig tree = DMissing) ->
  validate_response_tree dsig decrypt cfg now tree = Ok r ->
  predecode_bytes s = Ok b ->
  br_id b = r_id r /\ br_in_response_to b = r_in_response_to r /\ br_destination b = r_destination r /\
  br_version b = r_version r /\ br_issuer b = r_issuer r.
Proof.
  intros Ht Hwf Hpath Hv Hb.
  destruct (predecode_view_of_validated_tree s tree Ht) as (raw & Hview & Hraw & Hd).
  unfold predecode_bytes, predecode_bytes_with in Hb. change (token_view_with CsPassThrough s) with (token_view s) in Hb.
  rewrite Hview in Hb. cbn [bind] in Hb. subst tree.
  exact (predecode_direct_agrees_when_root_unsigned dsig decrypt cfg now raw r b (Hwf raw Hraw) Hpath Hv Hb).
Qed.

(* F13, repaired by 2164cf6.  InResponseTo="_q&#13;x" on the root: the pre-decoder reports the value with U+000D.  Before the
   repair validation decoded etree's RE-SERIALISATION of the element under the DEFAULT write settings (xmlUnmarshalElement),
   which write U+000D raw (F8), and the second tokenizer pass turned it into U+000A ([unmarshal_response_original];
   mechanism: reading back what etree writes for the tree, [Build.etree_write]).  Since the repair the element is written
   with CanonicalText / CanonicalAttrVal -- U+000D goes out as &#xD; -- and validation reports the value with U+000D too
   (mechanism: [Canon.c14n_write] is that writer, with end tags always written, which the tokenizer does not see). *)
From V Require Import Canon.
Definition f13_doc : string :=
  "<samlp:Response xmlns:samlp=""urn:oasis:names:tc:SAML:2.0:protocol"" ID=""_1"" InResponseTo=""_q&#13;x"" Version=""2.0""/>".
Definition f13_cr_value : string := ("_q" ++ cr1 ++ "x")%string.      (* what &#13; denotes *)
Definition f13_lf_value : string := ("_q" ++ lf1 ++ "x")%string.
Definition f13_attrs (v : string) : list attr :=
  [ {| at_space := "xmlns"; at_key := "samlp"; at_val := "urn:oasis:names:tc:SAML:2.0:protocol" |};
    {| at_space := ""; at_key := "ID"; at_val := "_1" |};
    {| at_space := ""; at_key := "InResponseTo"; at_val := v |};
    {| at_space := ""; at_key := "Version"; at_val := "2.0" |} ].
Theorem predecode_disagrees_on_cr_reference_before_repair :
  read_tree f13_doc = Ok (Elem "samlp" "Response" (f13_attrs f13_cr_value) []) /\
  well_formed_attrs (Elem "samlp" "Response" (f13_attrs f13_cr_value) []) = true /\
  cr_free (Elem "samlp" "Response" (f13_attrs f13_cr_value) []) = false /\
  option_map br_in_response_to (match predecode_bytes f13_doc with Ok b => Some b | Err _ => None end) = Some f13_cr_value /\
  option_map r_in_response_to
    (match unmarshal_response_original (Elem "samlp" "Response" (f13_attrs f13_cr_value) []) with Ok r => Some r | Err _ => None end)
    = Some f13_lf_value /\
  read_tree (Build.etree_write (Elem "samlp" "Response" (f13_attrs f13_cr_value) []))
    = Ok (Elem "samlp" "Response" (f13_attrs f13_lf_value) []) /\
  (* ... and after it *)
  option_map r_in_response_to
    (match unmarshal_response (Elem "samlp" "Response" (f13_attrs f13_cr_value) []) with Ok r => Some r | Err _ => None end)
    = Some f13_cr_value /\
  read_tree (c14n_write (Elem "samlp" "Response" (f13_attrs f13_cr_value) []))
    = Ok (Elem "samlp" "Response" (f13_attrs f13_cr_value) []).
Proof. repeat split; vm_compute; reflexivity. Qed.

(* U+000D, TAB and LF in an attribute value and in character data, from the bytes to the decoded struct: validation reports
   the values the (verified) element holds; the original code reported them end-of-line normalised; reading back the
   canonical serialisation gives the tree, reading back the default one gives another tree *)
Definition crs_doc : string :=
  "<samlp:Response xmlns:samlp=""urn:oasis:names:tc:SAML:2.0:protocol"" xmlns:saml=""urn:oasis:names:tc:SAML:2.0:assertion"" ID=""_1"" InResponseTo=""_q&#13;&#9;&#10;x"" Version=""2.0""><saml:Issuer>idp&#13;&#10;a&#9;&#xD;</saml:Issuer></samlp:Response>".
Definition tab1 : string := String "009"%char EmptyString.
Definition crs_attr_value : string := ("_q" ++ cr1 ++ tab1 ++ lf1 ++ "x")%string.
Definition crs_text_value : string := ("idp" ++ cr1 ++ lf1 ++ "a" ++ tab1 ++ cr1)%string.
Definition crs_tree (a t : string) : node :=
  Elem "samlp" "Response"
    [ {| at_space := "xmlns"; at_key := "samlp"; at_val := "urn:oasis:names:tc:SAML:2.0:protocol" |};
      {| at_space := "xmlns"; at_key := "saml"; at_val := "urn:oasis:names:tc:SAML:2.0:assertion" |};
      {| at_space := ""; at_key := "ID"; at_val := "_1" |};
      {| at_space := ""; at_key := "InResponseTo"; at_val := a |};
      {| at_space := ""; at_key := "Version"; at_val := "2.0" |} ]
    [ Elem "saml" "Issuer" [] [Text t] ].
Theorem decoded_values_keep_carriage_returns_example :
  read_tree crs_doc = Ok (crs_tree crs_attr_value crs_text_value) /\
  (match unmarshal_response (crs_tree crs_attr_value crs_text_value) with Ok r => Some (r_in_response_to r, r_issuer r) | Err _ => None end)
    = Some (crs_attr_value, Some crs_text_value) /\
  (match predecode_bytes crs_doc with Ok b => Some (br_in_response_to b, br_issuer b) | Err _ => None end)
    = Some (crs_attr_value, Some crs_text_value) /\
  read_tree (c14n_write (crs_tree crs_attr_value crs_text_value)) = Ok (crs_tree crs_attr_value crs_text_value) /\
  (match unmarshal_response_original (crs_tree crs_attr_value crs_text_value) with Ok r => Some (r_in_response_to r, r_issuer r) | Err _ => None end)
    = Some (("_q" ++ lf1 ++ tab1 ++ lf1 ++ "x")%string, Some ("idp" ++ lf1 ++ "a" ++ tab1 ++ lf1)%string) /\
  read_tree (Build.etree_write (crs_tree crs_attr_value crs_text_value))
    = Ok (crs_tree ("_q" ++ lf1 ++ tab1 ++ lf1 ++ "x")%string ("idp" ++ lf1 ++ "a" ++ tab1 ++ lf1)%string).
Proof. repeat split; vm_compute; reflexivity. Qed.

(* ================================================================ the translated pre-decoders over the tokenizer model
   GenDeflate.v's xml.Unmarshal oracle (indexed by the CharsetReader setting the translator read off xmlUnmarshalDocument)
   instantiated with the model: token view under that setting + schema interpreter.  What the struct holds after a FAILED
   decode is not modelled (the pre-decoders discard it: Deflate.unmarshal_of looks at the error first). *)
From V Require Import Deflate P_Deflate GenPrelude GenPreludeD GenPreludeT GenPreludeDeflate GenDeflate P_GenDeflate.

Definition um_base_model (c : charset_reader) (s : string) : base_response * option err :=
  match predecode_bytes_with c s with Ok b => (b, None) | Err e => (zero_base_response, Some e) end.
Definition um_logout_model (c : charset_reader) (s : string) : logout_response * option err :=
  match predecode_logout_bytes_with c s with Ok b => (b, None) | Err e => (zero_logout_response, Some e) end.

Lemma unmarshal_of_um_base_model c s : unmarshal_of (um_base_model c) s = predecode_bytes_with c s.
Proof. unfold unmarshal_of, um_base_model. destruct (predecode_bytes_with c s); reflexivity. Qed.
Lemma unmarshal_of_um_logout_model c s : unmarshal_of (um_logout_model c) s = predecode_logout_bytes_with c s.
Proof. unfold unmarshal_of, um_logout_model. destruct (predecode_logout_bytes_with c s); reflexivity. Qed.

Lemma maybe_deflate_ext inflate {A} (d1 d2 : string -> res A) data m :
  (forall x, d1 x = d2 x) -> maybe_deflate inflate A d1 data m = maybe_deflate inflate A d2 data m.
Proof.
  intros H. unfold maybe_deflate, md_run, md_after. rewrite (H data). destruct (d2 data); [reflexivity|].
  cbv zeta. destruct (snd _); [reflexivity|]. destruct (_ >? _)%Z; [reflexivity|]. cbn [md_result]. apply H.
Qed.

(* the pre-decoder of the repaired tree, from the encoded form value on: base64, then maybeDeflate (default limit) over the
   token view WITH the pass-through CharsetReader and the schema interpreter *)
Definition predecode_encoded (inflate : string -> Z -> string * bool) (enc : string) : res (option base_response) :=
  match b64_decode enc with
  | Err e => Err e
  | Ok raw => res_some (maybe_deflate inflate base_response predecode_bytes raw c_default)
  end.
Definition predecode_logout_encoded (inflate : string -> Z -> string * bool) (enc : string) : res (option logout_response) :=
  match b64_decode enc with
  | Err e => Err e
  | Ok raw => res_some (maybe_deflate inflate logout_response predecode_logout_bytes raw c_default)
  end.

Theorem source_predecoders_read_with_pass_through inflate enc :
  G_DecodeUnverifiedBaseResponse inflate um_base_model enc = PVal (predecode_encoded inflate enc) /\
  G_DecodeUnverifiedLogoutResponse inflate um_logout_model enc = PVal (predecode_logout_encoded inflate enc).
Proof.
  split.
  - rewrite G_DecodeUnverifiedBaseResponse_is_model, unverified_entry_is_maybe_deflate by reflexivity.
    unfold predecode_encoded. destruct (b64_decode enc); [|reflexivity].
    rewrite (maybe_deflate_ext inflate _ predecode_bytes); [reflexivity|]. intros x. apply unmarshal_of_um_base_model.
  - rewrite G_DecodeUnverifiedLogoutResponse_is_model, unverified_entry_is_maybe_deflate by reflexivity.
    unfold predecode_logout_encoded. destruct (b64_decode enc); [|reflexivity].
    rewrite (maybe_deflate_ext inflate _ predecode_logout_bytes); [reflexivity|]. intros x. apply unmarshal_of_um_logout_model.
Qed.

(* a raw (uncompressed) document etree reads is pre-decoded from its own bytes, whatever its declaration says, whenever
   the schema interpreter takes its root: the DEFLATE branch is never entered *)
Theorem predecode_encoded_raw inflate enc s tree :
  b64_decode enc = Ok s -> read_tree s = Ok tree ->
  exists raw, read_root_raw s = Ok (Some raw) /\ dedupe raw = tree /\
    (forall b, unmarshal_base_response_direct raw = Ok b -> predecode_encoded inflate enc = Ok (Some b)).
Proof.
  intros Hb Ht. destruct (predecode_view_of_validated_tree s tree Ht) as (raw & Hview & Hraw & Hd).
  exists raw. split; [exact Hraw|]. split; [exact Hd|]. intros b Hu.
  unfold predecode_encoded. rewrite Hb. unfold maybe_deflate, md_run, predecode_bytes, predecode_bytes_with.
  change (token_view_with CsPassThrough s) with (token_view s). rewrite Hview. cbn [bind]. rewrite Hu. reflexivity.
Qed.

(* ... which the code before the repair did not do: the ISO-8859-1 witness through the ORIGINAL pre-decoder falls into
   the DEFLATE branch, and its error is what the caller gets (for every inflate behaviour that rejects the XML text) *)
Theorem predecode_foreign_encoding_before_repair_refuted :
  read_tree latin1_doc = Ok (Elem "" "a" [ {| at_space := ""; at_key := "ID"; at_val := "1" |} ] []) /\
  token_view_original latin1_doc = Err syntax_error /\
  token_view latin1_doc = Ok (Elem "" "a" [ {| at_space := ""; at_key := "ID"; at_val := "1" |} ] []) /\
  (exists e, predecode_bytes_original latin1_doc = Err e) /\
  (forall inflate : string -> Z -> string * bool, snd (inflate latin1_doc (read_limit c_default)) = true ->
     maybe_deflate inflate base_response predecode_bytes_original latin1_doc c_default = Err e_inflate).
Proof.
  destruct P_XmlTok.predecode_foreign_encoding_before_repair_refuted as (A & B & C).
  split; [exact A|]. split; [exact B|]. split; [exact C|]. split.
  - eexists. unfold predecode_bytes_original, predecode_bytes_with. change (token_view_with CsNone latin1_doc) with (token_view_original latin1_doc).
    rewrite B. reflexivity.
  - intros inflate Hi. unfold maybe_deflate, md_run, predecode_bytes_original, predecode_bytes_with.
    change (token_view_with CsNone latin1_doc) with (token_view_original latin1_doc). rewrite B. cbn [bind].
    unfold md_after, limit_read_all. change (eff_limit c_default) with c_default.
    change (read_limit c_default <=? 0)%Z with false. cbv zeta. cbn [snd fst]. rewrite Hi. reflexivity.
Qed.
