(* Decode.v — from generic unmarshalled values (Schema.v) to the typed records of Types.v.
   Field access is by GO FIELD NAME, as the Go code does (response.Destination, ...); the mapping from Go
   field names to XML names is the generated schema. *)
From V Require Import Base Time Xml SchemaDefs Schema Types ConcDefs Generated.
Local Open Scope string_scope.
Local Open Scope list_scope.

Definition gfield (v : gval) (name : string) : option gval :=
  match v with GStruct fs => assoc_get name fs | _ => None end.
Definition gstr (v : gval) (name : string) : string :=
  match gfield v name with Some (GStr s) => s | _ => "" end.
Definition gint (v : gval) (name : string) : Z :=
  match gfield v name with Some (GInt z) => z | _ => 0%Z end.
Definition gtime (v : gval) (name : string) : instant :=
  match gfield v name with Some (GTime t) => t | _ => zero_time end.
Definition gptr (v : gval) (name : string) : option gval :=
  match gfield v name with Some (GPtr o) => o | _ => None end.
Definition gslice (v : gval) (name : string) : list gval :=
  match gfield v name with Some (GSlice l) => l | _ => [] end.
Definition gopt_time (v : gval) (name : string) : option instant :=
  match gptr v name with Some (GTime t) => Some t | _ => None end.

Definition value_of (v : gval) : string := gstr v "Value".

Definition to_subject (v : gval) : subject :=
  {| sub_name_id := option_map value_of (gptr v "NameID");
     sub_conf := option_map (fun c =>
        {| sc_method := gstr c "Method";
           sc_data := option_map (fun d =>
              {| scd_not_on_or_after := gstr d "NotOnOrAfter";
                 scd_recipient := gstr d "Recipient";
                 scd_in_response_to := gstr d "InResponseTo" |}) (gptr c "SubjectConfirmationData") |})
        (gptr v "SubjectConfirmation") |}.

Definition to_conditions (v : gval) : conditions :=
  {| c_not_before := gstr v "NotBefore";
     c_not_on_or_after := gstr v "NotOnOrAfter";
     c_audience_restrictions := map (fun r => map value_of (gslice r "Audiences")) (gslice v "AudienceRestrictions");
     c_one_time_use := match gptr v "OneTimeUse" with Some _ => true | None => false end;
     c_proxy_restriction := option_map (fun p =>
        {| pr_count := gint p "Count"; pr_audience := map value_of (gslice p "Audience") |}) (gptr v "ProxyRestriction") |}.

Definition to_attribute (v : gval) : attribute :=
  {| at_friendly_name := gstr v "FriendlyName";
     at_name := gstr v "Name";
     at_name_format := gstr v "NameFormat";
     at_values := map (fun x => {| av_type := gstr x "Type"; av_value := gstr x "Value" |}) (gslice v "Values") |}.

Definition to_authn (v : gval) : authn_statement :=
  {| as_session_index := gstr v "SessionIndex";
     as_authn_instant := gopt_time v "AuthnInstant";
     as_session_not_on_or_after := gopt_time v "SessionNotOnOrAfter";
     as_class_ref := option_map (fun c => option_map value_of (gptr c "AuthnContextClassRef")) (gptr v "AuthnContext") |}.

Definition to_assertion (v : gval) : assertion :=
  {| a_version := gstr v "Version";
     a_id := gstr v "ID";
     a_issue_instant := gtime v "IssueInstant";
     a_issuer := option_map value_of (gptr v "Issuer");
     a_signature := option_map (fun _ => "") (gptr v "Signature");
     a_subject := option_map to_subject (gptr v "Subject");
     a_conditions := option_map to_conditions (gptr v "Conditions");
     a_attribute_statement := option_map (fun s => map to_attribute (gslice s "Attributes")) (gptr v "AttributeStatement");
     a_authn_statement := option_map to_authn (gptr v "AuthnStatement");
     a_signature_validated := false |}.

Definition to_status (v : gval) : status :=
  {| st_status_code := option_map (fun c => gstr c "Value") (gptr v "StatusCode") |}.

Definition to_response (v : gval) : response :=
  {| r_id := gstr v "ID";
     r_in_response_to := gstr v "InResponseTo";
     r_destination := gstr v "Destination";
     r_version := gstr v "Version";
     r_issue_instant := gtime v "IssueInstant";
     r_status := option_map to_status (gptr v "Status");
     r_issuer := option_map value_of (gptr v "Issuer");
     r_assertions := map to_assertion (gslice v "Assertions");
     r_encrypted_count := List.length (gslice v "EncryptedAssertions");
     r_signature_validated := false |}.

Definition to_logout_response (v : gval) : logout_response :=
  {| lr_id := gstr v "ID";
     lr_in_response_to := gstr v "InResponseTo";
     lr_destination := gstr v "Destination";
     lr_version := gstr v "Version";
     lr_issue_instant := gtime v "IssueInstant";
     lr_status := option_map to_status (gptr v "Status");
     lr_issuer := option_map value_of (gptr v "Issuer");
     lr_signature_validated := false |}.

Definition to_logout_request (v : gval) : logout_request :=
  {| lq_id := gstr v "ID";
     lq_version := gstr v "Version";
     lq_issue_instant := gtime v "IssueInstant";
     lq_destination := gstr v "Destination";
     lq_issuer := option_map value_of (gptr v "Issuer");
     lq_name_id := option_map value_of (gptr v "NameID");
     lq_signature_validated := false |}.

Definition to_base_response (v : gval) : base_response :=
  {| br_id := gstr v "ID";
     br_in_response_to := gstr v "InResponseTo";
     br_destination := gstr v "Destination";
     br_version := gstr v "Version";
     br_issuer := option_map value_of (gptr v "Issuer") |}.

(* encrypted assertion, as far as DecryptBytes / DecryptSymmetricKey read it *)
Record enc_method := { em_algorithm : string; em_digest : option string }.   (* DigestMethod pointer -> Algorithm *)
Record enc_key := { ek_x509 : string; ek_cipher_value : string; ek_method : enc_method }.
Record enc_assertion := { ea_method : enc_method; ea_key : enc_key; ea_det_key : enc_key; ea_cipher_value : string }.

Definition to_enc_method (v : option gval) : enc_method :=
  match v with
  | Some m => {| em_algorithm := gstr m "Algorithm"; em_digest := option_map (fun d => gstr d "Algorithm") (gptr m "DigestMethod") |}
  | None => {| em_algorithm := ""; em_digest := None |}
  end.
Definition to_enc_key (v : option gval) : enc_key :=
  match v with
  | Some k => {| ek_x509 := gstr k "X509Data"; ek_cipher_value := gstr k "CipherValue"; ek_method := to_enc_method (gfield k "EncryptionMethod") |}
  | None => {| ek_x509 := ""; ek_cipher_value := ""; ek_method := to_enc_method None |}
  end.
Definition to_enc_assertion (v : gval) : enc_assertion :=
  {| ea_method := to_enc_method (gfield v "EncryptionMethod");
     ea_key := to_enc_key (gfield v "EncryptedKey");
     ea_det_key := to_enc_key (gfield v "DetEncryptedKey");
     ea_cipher_value := gstr v "CipherValue" |}.

(* xmlUnmarshalElement(el, &T{}) for the types gosaml2 decodes *)
Definition unmarshal_response (root : node) : res response :=
  do v <- unmarshal_element xml_schema "Response" root; Ok (to_response v).
Definition unmarshal_assertion (root : node) : res assertion :=
  do v <- unmarshal_element xml_schema "Assertion" root; Ok (to_assertion v).
Definition unmarshal_logout_response (root : node) : res logout_response :=
  do v <- unmarshal_element xml_schema "LogoutResponse" root; Ok (to_logout_response v).
Definition unmarshal_logout_request (root : node) : res logout_request :=
  do v <- unmarshal_element xml_schema "LogoutRequest" root; Ok (to_logout_request v).
Definition unmarshal_base_response (root : node) : res base_response :=
  do v <- unmarshal_element xml_schema "UnverifiedBaseResponse" root; Ok (to_base_response v).
(* xmlUnmarshalElement as it was before the repair of F13 (etree's default write settings, Schema.view_original): only for
   the witness of that finding *)
Definition unmarshal_response_original (root : node) : res response :=
  do v <- unmarshal_element_original xml_schema "Response" root; Ok (to_response v).
(* the unverified pre-decoders: the struct decoder on the element read DIRECTLY from the received bytes (Schema.view_direct) *)
Definition unmarshal_base_response_direct (root : node) : res base_response :=
  do v <- unmarshal_element_direct xml_schema "UnverifiedBaseResponse" root; Ok (to_base_response v).
Definition unmarshal_logout_response_direct (root : node) : res logout_response :=
  do v <- unmarshal_element_direct xml_schema "LogoutResponse" root; Ok (to_logout_response v).
Definition unmarshal_enc_assertion (root : node) : res enc_assertion :=
  do v <- unmarshal_element xml_schema "EncryptedAssertion" root; Ok (to_enc_assertion v).
