(* Prop_C16.v — property C16: POST-binding forms deliver message and relay state intact; no HTML injection.
   ONLY theorem statements closed by [exact lemma], each followed by Print Assumptions.
   Vocabulary (PostForm.v): [build_post_body k cfg relay doc] runs the GENERATED html/template literal of builder k
   (PAuthn / PLogoutRequest / PLogoutResponse) on the configured endpoints, the relay state and the document bytes;
   [scan_html] is the minimal HTML reader (start tags with their RAW attribute values, end tags, text, script text);
   [post_page k action message relay] is the page the property asks for: one form with that action, one hidden field
   SAMLRequest/SAMLResponse, a hidden field RelayState iff [relay] is given, the submit button, the fixed script(s);
   [template_literals] are the literal segments of the generated template; [fills] the escaped values put between them.
   Source tie (last section): [G_f] (GenPost.v) is the body of the Go function f translated statement by statement on this
   run; [write] is etree's Document.WriteToBytes (any function: an oracle); [build_post_body_from k cfg relay w] is
   [build_post_body] on the written bytes, a writer error being returned unchanged. *)
From V Require Import Time Xml GenPrelude GenPreludePost GenPost P_GenPost.
From V Require Import Base Escape EscapeProofs SchemaDefs ConcDefs Generated PostForm P_PostForm.
Local Open Scope list_scope.
Local Open Scope string_scope.

(* Every builder succeeds on every input and its page reads back as exactly the specified single
   auto-submitting form (skeleton computed from the generated literals). *)
Theorem C16_single_form_skeleton : forall k cfg relay doc,
  exists out toks,
    build_post_body k cfg relay doc = Ok out /\ scan_html out = Some toks /\
    toks = post_page k (html_url_attr_escape (endpoint k cfg)) (html_attr_escape (base64_encode doc))
             (if relay =?s "" then None else Some (html_attr_escape relay)) /\
    List.length (filter (is_start "form") toks) = 1%nat.
Proof. exact single_form_skeleton. Qed.
Print Assumptions C16_single_form_skeleton.

(* The hidden fields are the message and, exactly when the relay state is not empty, RelayState. *)
Theorem C16_relay_field_iff_nonempty : forall k cfg relay doc,
  exists out toks,
    build_post_body k cfg relay doc = Ok out /\ scan_html out = Some toks /\
    hidden_fields toks
    = (message_field k, html_attr_escape (base64_encode doc))
      :: (if relay =?s "" then [] else [("RelayState", html_attr_escape relay)]).
Proof. exact relay_field_iff_nonempty. Qed.
Print Assumptions C16_relay_field_iff_nonempty.

(* For ALL relay states, endpoints and documents the page is the generated literals with the holes filled by
   strings that contain none of the characters double quote, single quote, <, > and in which every '&' starts one
   of the references the escaper writes (html_no_structure); and the page's tags, attribute names and texts are
   the same whatever the values (same emptiness of the relay state). *)
Theorem C16_values_cannot_alter_structure : forall k cfg relay doc,
  exists out toks,
    build_post_body k cfg relay doc = Ok out /\
    out = interleave (template_literals k (relay =?s "")) (fills k cfg relay doc) /\
    Forall (fun f => html_no_structure f = true) (fills k cfg relay doc) /\
    scan_html out = Some toks /\
    forall cfg' relay' doc', (relay' =?s "") = (relay =?s "") ->
      exists out' toks',
        build_post_body k cfg' relay' doc' = Ok out' /\ scan_html out' = Some toks' /\
        map token_shape toks' = map token_shape toks.
Proof. exact values_cannot_alter_structure. Qed.
Print Assumptions C16_values_cannot_alter_structure.

(* Expanding the character references of the field values gives back the base64 text of exactly the document and,
   for relay states without U+0000, exactly the relay state. *)
Theorem C16_fields_recovered : forall k cfg relay doc,
  exists out toks v,
    build_post_body k cfg relay doc = Ok out /\ scan_html out = Some toks /\
    In (message_field k, v) (hidden_fields toks) /\
    base64_decode (html_unescape v) = Some doc /\
    (relay <> "" -> no_nul relay = true ->
     exists r, In ("RelayState", r) (hidden_fields toks) /\ html_unescape r = relay).
Proof. exact fields_recovered. Qed.
Print Assumptions C16_fields_recovered.

(* The NUL premise is necessary: html/template writes U+FFFD for U+0000 (HTML cannot carry U+0000). *)
Theorem C16_relay_nul_refuted :
  exists relay, relay <> "" /\ html_unescape (html_attr_escape relay) <> relay.
Proof. exact relay_nul_refuted. Qed.
Print Assumptions C16_relay_nul_refuted.

(* The form's action is the endpoint configured for that flow (SSO URL for AuthnRequests, SLO URL for logout
   messages), percent-normalised by html/template; endpoints whose scheme is not http/https/mailto (and that are
   not relative) are replaced by #ZgotmplZ. *)
Theorem C16_action_is_configured_endpoint : forall k cfg relay doc,
  exists out toks a,
    build_post_body k cfg relay doc = Ok out /\ scan_html out = Some toks /\
    form_actions toks = [a] /\
    (is_safe_url (endpoint k cfg) = true ->
       a = html_attr_escape (url_normalize (endpoint k cfg)) /\
       html_unescape a = url_normalize (endpoint k cfg) /\
       (url_all_kept (endpoint k cfg) = true -> html_unescape a = endpoint k cfg)) /\
    (is_safe_url (endpoint k cfg) = false -> a = "#ZgotmplZ").
Proof. exact action_is_configured_endpoint. Qed.
Print Assumptions C16_action_is_configured_endpoint.

(* base64 alphabet: '+' is the only character of the message the attribute escaper rewrites. *)
Theorem C16_base64_only_plus_rewritten : forall d,
  html_attr_escape (base64_encode d) = concat_map plus_only (base64_encode d)
  /\ html_unescape (html_attr_escape (base64_encode d)) = base64_encode d.
Proof. exact base64_only_plus_rewritten. Qed.
Print Assumptions C16_base64_only_plus_rewritten.

(* ---- the model is the source: the bodies of the form builders, translated from /repo on this run (which template goes with an
   empty relay state, which configuration field is the action, what each template field holds, every error return), equal the
   model the theorems above are about, for every configuration, relay state, document and behaviour of etree's writer; PVal also
   says: no panic (template.Must succeeds on the six literals; no nil template or document is dereferenced). *)
Theorem C16_source_buildAuthBodyPostFromDocument_is_the_model : forall (write : node -> res string) cfg relay doc,
  G_buildAuthBodyPostFromDocument write cfg relay doc = PVal (build_post_body_from PAuthn cfg relay (write doc)).
Proof. exact G_buildAuthBodyPostFromDocument_is_model. Qed.
Print Assumptions C16_source_buildAuthBodyPostFromDocument_is_the_model.

Theorem C16_source_buildLogoutBodyPostFromDocument_is_the_model : forall (write : node -> res string) cfg relay doc,
  G_buildLogoutBodyPostFromDocument write cfg relay doc = PVal (build_post_body_from PLogoutRequest cfg relay (write doc)).
Proof. exact G_buildLogoutBodyPostFromDocument_is_model. Qed.
Print Assumptions C16_source_buildLogoutBodyPostFromDocument_is_the_model.

Theorem C16_source_buildLogoutResponseBodyPostFromDocument_is_the_model : forall (write : node -> res string) cfg relay doc,
  G_buildLogoutResponseBodyPostFromDocument write cfg relay doc = PVal (build_post_body_from PLogoutResponse cfg relay (write doc)).
Proof. exact G_buildLogoutResponseBodyPostFromDocument_is_model. Qed.
Print Assumptions C16_source_buildLogoutResponseBodyPostFromDocument_is_the_model.

(* the exported entry points Build{Auth,Logout,LogoutResponse}BodyPostFromDocument *)
Theorem C16_source_exported_wrappers_are_the_model : forall (write : node -> res string) cfg relay doc,
  G_BuildAuthBodyPostFromDocument write cfg relay doc = PVal (build_post_body_from PAuthn cfg relay (write doc)) /\
  G_BuildLogoutBodyPostFromDocument write cfg relay doc = PVal (build_post_body_from PLogoutRequest cfg relay (write doc)) /\
  G_BuildLogoutResponseBodyPostFromDocument write cfg relay doc = PVal (build_post_body_from PLogoutResponse cfg relay (write doc)).
Proof. exact exported_wrappers_are_model. Qed.
Print Assumptions C16_source_exported_wrappers_are_the_model.

(* BuildAuthBodyPost: the document is the result of BuildAuthRequestDocument when sp.SignAuthnRequests is set and of
   BuildAuthRequestDocumentNoSig otherwise (each a document or an error: [res_some]); a builder error is returned as it is. *)
Theorem C16_source_BuildAuthBodyPost_is_the_model : forall (write : node -> res string) cfg relay sign_requests (signed unsigned : res node),
  G_BuildAuthBodyPost write cfg relay sign_requests (res_some signed) (res_some unsigned)
  = PVal (build_auth_body_post write cfg relay sign_requests signed unsigned).
Proof. exact G_BuildAuthBodyPost_is_model. Qed.
Print Assumptions C16_source_BuildAuthBodyPost_is_the_model.

(* the composed outbound source (P_PipelineOut.v): BuildAuthBodyPost over the translated document builders of GenSign.v /
   GenBuild.v: the signed document is posted exactly when SignAuthnRequests is set *)
From V Require Import Time Xml Build GenPreludeB GenPreludeSign GenBuild GenSign P_PipelineOut.
Theorem C16_source_BuildAuthBodyPost_composed :
  forall sign_el write_bytes (sc : sign_cfg) (pc : post_config) now id relay,
    pm_bind (G_BuildAuthRequestDocument sign_el sc now id) (fun dsig =>
    pm_bind (G_BuildAuthRequestDocumentNoSig sign_el sc now id) (fun dnosig =>
      G_BuildAuthBodyPost write_bytes pc relay (Build.b_sign_authn_requests (sc_b sc)) dsig dnosig))
    = PVal (build_auth_body_post write_bytes pc relay (Build.b_sign_authn_requests (sc_b sc))
              (if Build.b_sign_authn_requests (sc_b sc) then sign_el (Build.build_authn_request (sc_b sc) id now)
               else Ok (Build.build_authn_request (sc_b sc) id now))
              (Ok (Build.build_authn_request (sc_b sc) id now))).
Proof. exact source_BuildAuthBodyPost_composed. Qed.
Print Assumptions C16_source_BuildAuthBodyPost_composed.
