(* P_ReaderWf.v -- every tree the reader model delivers satisfies the premise of the canonical round trip.

     read_doc d b = Ok kids  ->  every child satisfies [reader_wf]:
        element / attribute names pass isName, consist of name bytes and are split back by nsname into the same (space, tag);
        attribute values and character data are valid UTF-8 in the XML Char range (Decoder.text checks it);
        comments hold no "--" and do not end in '-';  processing instructions have a name target, an instruction that does
        not start with white space and holds no "?>";
     hence, for a tree without a directive and without a <?xml ...?> instruction inside,  P_DsigReader.c14n_wf  holds: the
     premise of DSIG_canonical_bytes_reparse_to_prepared_tree / DSIG_sound_reader is discharged for whatever read_tree returned.

   Proof: an invariant of the tokenizer state ([st_ok]: the names, attributes and buffers accumulated so far), preserved by
   every [step], under which every emitted token is [tok_ok]; then etree's tree building keeps it. *)
From Coq Require Import Lia.
From V Require Import Base Time Escape EscapeProofs Xml Build P_Build XmlNameTables Response Dsig P_Dsig P_DsigExact Canon DsigReader P_DsigReader.
From V Require Import XmlTok P_XmlTok.      (* last: [drop1] below is XmlTok's, not Dsig's *)
Local Open Scope string_scope.
Local Open Scope list_scope.

(* ================================================================ 1. predicates *)
Definition pi_ok_gen (t i : string) : bool := is_name t && str_all name_cont t && pi_inst_ok i.

Fixpoint reader_wf (n : node) : bool :=
  match n with
  | Elem sp t a k => xname_ok sp t && forallb cattr_ok a && forallb reader_wf k
  | Text s => valid_xml_text s
  | Comment s => comment_ok s
  | ProcInst t i => pi_ok_gen t i
  | Directive _ => true
  end.

Definition tok_ok (t : rtok) : bool :=
  match t with
  | RStart sp lo a => xname_ok sp lo && forallb cattr_ok a
  | REnd _ _ => true
  | RChars s => valid_xml_text s
  | RComment s => comment_ok s
  | RProcInst t i => pi_ok_gen t i
  | RDirective _ => true
  end.

(* ================================================================ 2. tree building keeps it *)
Lemma forallb_app_true {A} (f : A -> bool) l1 l2 : forallb f (l1 ++ l2) = forallb f l1 && forallb f l2.
Proof. apply forallb_app. Qed.

Lemma forallb_rev_true {A} (f : A -> bool) l : forallb f (rev l) = forallb f l.
Proof.
  induction l as [|x l IH]; [reflexivity|]. cbn [rev forallb]. rewrite forallb_app, IH. cbn [forallb].
  rewrite andb_true_r. apply andb_comm.
Qed.

Lemma attr_overwrite_ok a : forall l l', cattr_ok a = true -> forallb cattr_ok l = true -> attr_overwrite a l = Some l' ->
  forallb cattr_ok l' = true.
Proof.
  intros l. induction l as [|b r IH]; intros l' Ha Hl HO; [discriminate|].
  cbn [attr_overwrite] in HO. cbn [forallb] in Hl. apply andb_true_iff in Hl as [Hb Hr].
  destruct ((at_space a =?s at_space b) && (at_key a =?s at_key b)).
  - injection HO as <-. cbn [forallb]. rewrite Hr, andb_true_r.
    unfold cattr_ok in *. cbn [at_space at_key at_val]. apply andb_true_iff in Ha as [_ Hv]. apply andb_true_iff in Hb as [Hn _].
    rewrite Hn, Hv. reflexivity.
  - destruct (attr_overwrite a r) as [r'|] eqn:E; [|discriminate]. injection HO as <-.
    cbn [forallb]. rewrite Hb. cbn [andb]. apply (IH r' Ha Hr eq_refl).
Qed.

Lemma dedupe_attrs_ok l : forallb cattr_ok l = true -> forallb cattr_ok (dedupe_attrs l) = true.
Proof.
  unfold dedupe_attrs. assert (G : forall l acc, forallb cattr_ok l = true -> forallb cattr_ok acc = true ->
    forallb cattr_ok (fold_left (fun acc a => match attr_overwrite a acc with Some acc' => acc' | None => acc ++ [a] end) l acc) = true).
  { clear l. induction l as [|a r IH]; intros acc Hl Ha; [exact Ha|].
    cbn [forallb] in Hl. apply andb_true_iff in Hl as [H1 H2]. cbn [fold_left]. apply IH; [exact H2|].
    destruct (attr_overwrite a acc) as [acc'|] eqn:E.
    - apply (attr_overwrite_ok a acc acc' H1 Ha E).
    - rewrite forallb_app. cbn [forallb]. rewrite Ha, H1. reflexivity. }
  intros H. apply G; [exact H | reflexivity].
Qed.

Definition frame_ok (f : frame) : bool :=
  xname_ok (f_space f) (f_tag f) && forallb cattr_ok (f_attrs f) && forallb reader_wf (f_before f).

Lemma build_wf d : forall toks stack cur kids,
  forallb tok_ok toks = true -> forallb frame_ok stack = true -> forallb reader_wf cur = true ->
  build d toks stack cur = Ok kids -> forallb reader_wf kids = true.
Proof.
  induction toks as [|t r IH]; intros stack cur kids HT HS HC HB.
  - cbn [build] in HB. destruct stack; [|discriminate]. injection HB as <-. rewrite forallb_rev_true. exact HC.
  - cbn [forallb] in HT. apply andb_true_iff in HT as [Ht Hr].
    destruct t as [sp lo a | sp lo | s | s | tg i | s]; cbn [build] in HB; cbn [tok_ok] in Ht.
    + apply andb_true_iff in Ht as [Hn Ha].
      apply (IH _ _ kids Hr) in HB; [exact HB | | reflexivity].
      cbn [forallb]. rewrite HS, andb_true_r. unfold frame_ok. cbn [f_space f_tag f_attrs f_before]. rewrite Hn, HC.
      destruct d; [rewrite (dedupe_attrs_ok a Ha) | rewrite Ha]; reflexivity.
    + destruct stack as [|f stk]; [discriminate|].
      destruct ((f_tag f =?s lo) && (f_space f =?s sp)); [|discriminate].
      cbn [forallb] in HS. apply andb_true_iff in HS as [Hf Hstk].
      unfold frame_ok in Hf. apply andb_true_iff in Hf as [Hf Hbef]. apply andb_true_iff in Hf as [Hn Ha].
      apply (IH _ _ kids Hr Hstk) in HB; [exact HB|].
      cbn [forallb reader_wf]. rewrite Hn, Ha, forallb_rev_true, HC, Hbef. reflexivity.
    + apply (IH _ _ kids Hr HS) in HB; [exact HB|]. cbn [forallb reader_wf]. rewrite Ht, HC. reflexivity.
    + apply (IH _ _ kids Hr HS) in HB; [exact HB|]. cbn [forallb reader_wf]. rewrite Ht, HC. reflexivity.
    + apply (IH _ _ kids Hr HS) in HB; [exact HB|]. cbn [forallb reader_wf]. rewrite Ht, HC. reflexivity.
    + apply (IH _ _ kids Hr HS) in HB; [exact HB|]. cbn [forallb reader_wf]. rewrite HC. reflexivity.
Qed.

(* ================================================================ 3. names *)
Lemma str_all_srev_app (P : ascii -> bool) : forall a b, str_all P (srev_app a b) = str_all P a && str_all P b.
Proof.
  induction a as [|c a IH]; intros b; [reflexivity|]. cbn [srev_app str_all]. rewrite IH. cbn [str_all].
  destruct (P c), (str_all P a), (str_all P b); reflexivity.
Qed.
Lemma str_all_srev (P : ascii -> bool) a : str_all P (srev a) = str_all P a.
Proof. unfold srev. rewrite str_all_srev_app. cbn [str_all]. apply andb_true_r. Qed.

Lemma cut_at_colon_spec : forall s a b, cut_at_colon s = Some (a, b) -> s = (a ++ ":" ++ b)%string.
Proof.
  induction s as [|c s IH]; intros a b H; [discriminate|]. cbn [cut_at_colon] in H.
  destruct (is_ch 58 c) eqn:E.
  - injection H as <- <-. apply is_ch_eq in E. subst c. reflexivity.
  - destruct (cut_at_colon s) as [[a' b']|] eqn:EC; [|discriminate]. injection H as <- <-.
    rewrite (IH a' b' eq_refl). reflexivity.
Qed.

Lemma nsname_full_name s sp lo : nsname s = Some (sp, lo) -> full_name sp lo = s.
Proof.
  unfold nsname. destruct (Nat.ltb 1 (count_colons s)); [discriminate|].
  destruct (cut_at_colon s) as [[a b]|] eqn:EC.
  - destruct ((a =?s "") || (b =?s "")) eqn:EE.
    + intros [= <- <-]. reflexivity.
    + intros [= <- <-]. apply orb_false_iff in EE as [Ea _]. unfold full_name. rewrite Ea.
      symmetry. apply cut_at_colon_spec, EC.
  - intros [= <- <-]. reflexivity.
Qed.

Lemma finish_name_ok acc t : finish_name acc = Some t -> str_all name_cont acc = true ->
  is_name t = true /\ str_all name_cont t = true.
Proof.
  unfold finish_name. destruct (is_name (srev acc)) eqn:E; [|discriminate]. intros [= <-] H.
  split; [exact E|]. rewrite str_all_srev. exact H.
Qed.

Lemma finish_nsname_ok acc sp lo : finish_nsname acc = Some (sp, lo) -> str_all name_cont acc = true -> xname_ok sp lo = true.
Proof.
  unfold finish_nsname. destruct (finish_name acc) as [s|] eqn:EF; [|discriminate]. intros HN HA.
  destruct (finish_name_ok acc s EF HA) as [Hn Hc].
  unfold xname_ok. rewrite (nsname_full_name s sp lo HN), Hn, Hc, HN, !String.eqb_refl. reflexivity.
Qed.

Lemma text_data_ok buf d : text_data buf = Some d -> valid_xml_text d = true.
Proof. unfold text_data. destruct (valid_xml_text (srev buf)) eqn:E; [|discriminate]. intros [= <-]. exact E. Qed.

(* ================================================================ 4. comments: the reversed buffer *)
Definition dash (c : ascii) : bool := is_ch 45 c.
(* no two adjacent dashes (in a reversed or a forward string alike) *)
Fixpoint nodd (r : string) : bool :=
  match r with
  | String c (String d _ as t) => negb (dash c && dash d) && nodd t
  | _ => true
  end.
Definition starts_dash (r : string) : bool := match r with String c _ => dash c | EmptyString => false end.

Fixpoint ends_dash (q : bool) (s : string) : bool :=
  match s with EmptyString => q | String c r => ends_dash (dash c) r end.
Fixpoint fwd_nodd (q : bool) (s : string) : bool :=
  match s with
  | EmptyString => true
  | String c r => if dash c then negb q && fwd_nodd true r else fwd_nodd false r
  end.
Lemma comment_go_split : forall s q, comment_go q s = fwd_nodd q s && negb (ends_dash q s).
Proof.
  induction s as [|c s IH]; intros q; [reflexivity|]. cbn [comment_go fwd_nodd ends_dash]. unfold dash.
  destruct (is_ch 45 c); rewrite IH; [rewrite andb_assoc|]; reflexivity.
Qed.
Lemma ends_dash_snoc : forall s q c, ends_dash q (s ++ String c "") = dash c.
Proof. induction s as [|x s IH]; intros q c; [reflexivity|]. cbn [append ends_dash]. apply IH. Qed.
Lemma fwd_nodd_snoc : forall s q c, fwd_nodd q (s ++ String c "") = fwd_nodd q s && negb (ends_dash q s && dash c).
Proof.
  induction s as [|x s IH]; intros q c.
  - cbn [append fwd_nodd ends_dash]. destruct (dash c), q; reflexivity.
  - cbn [append fwd_nodd ends_dash]. destruct (dash x); rewrite IH; [rewrite andb_assoc|]; reflexivity.
Qed.
Lemma ends_dash_srev r : ends_dash false (srev r) = starts_dash r.
Proof. destruct r as [|c r]; [reflexivity|]. rewrite srev_cons, ends_dash_snoc. reflexivity. Qed.
Lemma fwd_nodd_srev : forall r, nodd r = true -> fwd_nodd false (srev r) = true.
Proof.
  induction r as [|c r IH]; intros H; [reflexivity|].
  rewrite srev_cons, fwd_nodd_snoc, ends_dash_srev.
  destruct r as [|d r']; [reflexivity|].
  cbn [nodd] in H. apply andb_true_iff in H as [H1 H2]. rewrite (IH H2). cbn [starts_dash andb].
  rewrite andb_comm. exact H1.
Qed.
Lemma comment_ok_srev r : nodd r = true -> starts_dash r = false -> comment_ok (srev r) = true.
Proof.
  intros H1 H2. unfold comment_ok. rewrite comment_go_split, (fwd_nodd_srev r H1), ends_dash_srev, H2. reflexivity.
Qed.

(* SComment b0 b1 buf: b1, b0 are the last two bytes pushed; no "--" except possibly those two *)
Definition heads (b0 b1 : ascii) (buf : string) : bool :=
  match buf with
  | EmptyString => Ascii.eqb b0 zero && Ascii.eqb b1 zero
  | String x EmptyString => Ascii.eqb b1 x && Ascii.eqb b0 zero
  | String x (String y _) => Ascii.eqb b1 x && Ascii.eqb b0 y
  end.
Definition comment_inv (b0 b1 : ascii) (buf : string) : bool := heads b0 b1 buf && nodd (drop1 buf).

Lemma comment_push b0 b1 buf c : comment_inv b0 b1 buf = true -> dash b0 && dash b1 = false ->
  comment_inv b1 c (String c buf) = true.
Proof.
  unfold comment_inv. intros H HD. apply andb_true_iff in H as [HH HN]. cbn [drop1].
  destruct buf as [|x [|y r]]; cbn [heads nodd drop1] in *.
  - apply andb_true_iff in HH as [_ H1]. rewrite Ascii.eqb_refl, H1. reflexivity.
  - apply andb_true_iff in HH as [H1 _]. rewrite Ascii.eqb_refl, H1. reflexivity.
  - apply andb_true_iff in HH as [H1 H0]. apply Ascii.eqb_eq in H1, H0. subst x y.
    rewrite !Ascii.eqb_refl. cbn [andb]. rewrite HN, andb_true_r. rewrite andb_comm, HD. reflexivity.
Qed.

Lemma comment_emit b0 b1 buf : comment_inv b0 b1 buf = true -> dash b0 && dash b1 = true ->
  comment_ok (srev (drop2 buf)) = true.
Proof.
  unfold comment_inv. intros H HD. apply andb_true_iff in H as [HH HN]. apply andb_true_iff in HD as [D0 D1].
  destruct buf as [|x [|y r]]; cbn [heads nodd drop1 drop2] in *.
  - apply andb_true_iff in HH as [H0 _]. apply Ascii.eqb_eq in H0. subst b0. discriminate D0.
  - apply andb_true_iff in HH as [_ H0]. apply Ascii.eqb_eq in H0. subst b0. discriminate D0.
  - apply andb_true_iff in HH as [H1 H0]. apply Ascii.eqb_eq in H1, H0. subst x y.
    unfold drop2, drop1. apply comment_ok_srev.
    + destruct r as [|z r']; [reflexivity|]. cbn [nodd] in HN. apply andb_true_iff in HN as [_ HN]. exact HN.
    + destruct r as [|z r']; [reflexivity|]. cbn [nodd starts_dash] in *. apply andb_true_iff in HN as [HN _].
      rewrite D0 in HN. cbn [andb negb] in HN. apply negb_true_iff in HN. exact HN.
Qed.

(* ================================================================ 5. processing instructions: the reversed buffer *)
Definition qm (c : ascii) : bool := is_ch 63 c.
Fixpoint no_qgt (r : string) : bool :=             (* reversed: no '>' whose predecessor in the text is '?' *)
  match r with
  | String c (String d _ as t) => negb (is_ch 62 c && qm d) && no_qgt t
  | _ => true
  end.
Fixpoint last_nonspace (r : string) : bool :=
  match r with
  | EmptyString => true
  | String c EmptyString => negb (is_space c)
  | String _ t => last_nonspace t
  end.
Fixpoint ends_q (q : bool) (s : string) : bool :=
  match s with EmptyString => q | String c r => ends_q (qm c) r end.
Lemma ends_q_snoc : forall s q c, ends_q q (s ++ String c "") = qm c.
Proof. induction s as [|x s IH]; intros q c; [reflexivity|]. cbn [append ends_q]. apply IH. Qed.
Lemma pi_go_snoc : forall s q c, pi_go q (s ++ String c "") = pi_go q s && negb (ends_q q s && is_ch 62 c).
Proof.
  induction s as [|x s IH]; intros q c.
  - cbn [append pi_go ends_q]. rewrite !andb_true_r. reflexivity.
  - cbn [append pi_go ends_q]. rewrite IH. unfold qm. rewrite andb_assoc. reflexivity.
Qed.
Lemma pi_go_srev : forall r, no_qgt r = true -> pi_go false (srev r) = true.
Proof.
  induction r as [|c r IH]; intros H; [reflexivity|].
  rewrite srev_cons, pi_go_snoc.
  destruct r as [|d r']; [reflexivity|].
  cbn [no_qgt] in H. apply andb_true_iff in H as [H1 H2]. rewrite (IH H2). cbn [andb].
  rewrite srev_cons, ends_q_snoc. rewrite andb_comm. exact H1.
Qed.
Lemma srev_head_nonspace : forall r c0 r', last_nonspace r = true -> srev r = String c0 r' -> is_space c0 = false.
Proof.
  induction r as [|x r IH]; intros c0 r' HL HS; [discriminate|].
  rewrite srev_cons in HS. destruct r as [|y r2].
  - cbn in HS. injection HS as <- _. cbn [last_nonspace] in HL. apply negb_true_iff in HL. exact HL.
  - change (last_nonspace (String x (String y r2))) with (last_nonspace (String y r2)) in HL.
    destruct (srev (String y r2)) as [|h t] eqn:E.
    + rewrite srev_cons in E. destruct (srev r2); discriminate E.
    + cbn [append] in HS. injection HS as <- _. apply (IH h t HL eq_refl).
Qed.
Lemma pi_inst_ok_srev r : no_qgt r = true -> last_nonspace r = true -> pi_inst_ok (srev r) = true.
Proof.
  intros H1 H2. unfold pi_inst_ok. destruct (srev r) as [|c0 r'] eqn:E; [reflexivity|].
  rewrite (srev_head_nonspace r c0 r' H2 E). cbn [negb andb]. rewrite <- E. apply pi_go_srev, H1.
Qed.

(* SPIBody t b0 buf: buf not empty, b0 its head, first byte pushed not white space, no "?>" inside *)
Definition pib_inv (b0 : ascii) (buf : string) : bool :=
  match buf with
  | EmptyString => false
  | String x _ => Ascii.eqb b0 x && last_nonspace buf && no_qgt buf
  end.
Lemma pib_first c : is_space c = false -> pib_inv c (String c "") = true.
Proof. intros H. cbn [pib_inv last_nonspace no_qgt]. rewrite Ascii.eqb_refl, H. reflexivity. Qed.
Lemma pib_push b0 buf c : pib_inv b0 buf = true -> qm b0 && is_ch 62 c = false -> pib_inv c (String c buf) = true.
Proof.
  destruct buf as [|x r]; [discriminate|]. cbn [pib_inv]. intros H HQ.
  apply andb_true_iff in H as [H H3]. apply andb_true_iff in H as [H1 H2]. apply Ascii.eqb_eq in H1. subst x.
  rewrite Ascii.eqb_refl. change (last_nonspace (String c (String b0 r))) with (last_nonspace (String b0 r)). rewrite H2.
  change (no_qgt (String c (String b0 r))) with (negb (is_ch 62 c && qm b0) && no_qgt (String b0 r)).
  rewrite H3, andb_true_r. rewrite (andb_comm (is_ch 62 c) (qm b0)), HQ. reflexivity.
Qed.
Lemma pib_emit b0 buf : pib_inv b0 buf = true -> pi_inst_ok (srev (drop1 buf)) = true.
Proof.
  destruct buf as [|x r]; [discriminate|]. cbn [pib_inv drop1]. intros H.
  apply andb_true_iff in H as [H H3]. apply andb_true_iff in H as [_ H2].
  apply pi_inst_ok_srev.
  - destruct r as [|y r']; [reflexivity|]. cbn [no_qgt] in H3. apply andb_true_iff in H3 as [_ H3]. exact H3.
  - destruct r as [|y r']; [reflexivity|]. exact H2.
Qed.

(* ================================================================ 6. the invariant of the tokenizer state *)
Definition mode_ok (m : tmode) : bool :=
  match m with
  | MAttr _ esp elo attrs ksp klo => xname_ok esp elo && forallb cattr_ok attrs && xname_ok ksp klo
  | _ => true
  end.
Definition target_ok (t : string) : bool := is_name t && str_all name_cont t.

Definition st_ok (s : st) : bool :=
  match s with
  | SText m _ _ _ => mode_ok m
  | SEnt m _ => mode_ok m
  | SEntHash m _ => mode_ok m
  | SEntNum m _ _ _ _ => mode_ok m
  | SEntName m _ _ => mode_ok m
  | SPITarget acc => str_all name_cont acc
  | SPISpace t => target_ok t
  | SPIBody t b0 buf => target_ok t && pib_inv b0 buf
  | SComment b0 b1 buf => comment_inv b0 b1 buf
  | SStartName acc => str_all name_cont acc
  | SAttrs esp elo attrs => xname_ok esp elo && forallb cattr_ok attrs
  | SSlash esp elo attrs => xname_ok esp elo && forallb cattr_ok attrs
  | SAttrName esp elo attrs acc => xname_ok esp elo && forallb cattr_ok attrs && str_all name_cont acc
  | SAttrEq esp elo attrs ksp klo => xname_ok esp elo && forallb cattr_ok attrs && xname_ok ksp klo
  | SAttrQ esp elo attrs ksp klo => xname_ok esp elo && forallb cattr_ok attrs && xname_ok ksp klo
  | _ => true
  end.

Definition sres_ok (r : sres) : bool :=
  match r with
  | Go s' => st_ok s'
  | Emit t s' => forallb tok_ok t && st_ok s'
  | Fail => true
  end.

Ltac split_hyps :=
  repeat match goal with
         | H : _ && _ = true |- _ => apply andb_true_iff in H; destruct H
         end.
Ltac use_hyps :=
  repeat match goal with
         | H : ?x = true |- context [?x] => rewrite H
         end; cbn [andb]; try reflexivity.
Ltac case_ifs :=
  repeat match goal with
         | |- context [if ?b then _ else _] => destruct b eqn:?
         end.

Lemma ent_done_ok m buf t : mode_ok m = true -> sres_ok (ent_done m buf t) = true.
Proof. intros H. exact H. Qed.

Lemma ent_num_step_ok m buf hex n some c : mode_ok m = true -> sres_ok (ent_num_step m buf hex n some c) = true.
Proof.
  intros H. unfold ent_num_step. destruct (ent_digit hex c); [exact H|]. case_ifs; [exact H | reflexivity].
Qed.

Lemma end_space_step_ok sp lo c : sres_ok (end_space_step sp lo c) = true.
Proof. unfold end_space_step. case_ifs; reflexivity. Qed.

Lemma pi_body_step_ok cs t b0 buf c : target_ok t = true -> pib_inv b0 buf = true -> sres_ok (pi_body_step cs t b0 buf c) = true.
Proof.
  intros HT HB. unfold pi_body_step. destruct (is_ch 63 b0 && is_ch 62 c) eqn:E.
  - unfold pi_finish. case_ifs; [reflexivity|]. cbn [sres_ok forallb tok_ok st_ok S0 mode_ok].
    unfold pi_ok_gen. unfold target_ok in HT. rewrite HT, (pib_emit b0 buf HB). reflexivity.
  - cbn [sres_ok st_ok]. rewrite HT. cbn [andb]. apply (pib_push b0 buf c HB E).
Qed.

Lemma pi_space_step_ok cs t c : target_ok t = true -> sres_ok (pi_space_step cs t c) = true.
Proof.
  intros HT. unfold pi_space_step. destruct (is_space c) eqn:E; [exact HT|].
  unfold pi_body_step. replace (is_ch 63 zero) with false by reflexivity. cbn [andb sres_ok st_ok].
  rewrite HT. cbn [andb]. apply pib_first, E.
Qed.

Lemma dir_handle_ok inq depth buf c : sres_ok (dir_handle inq depth buf c) = true.
Proof. unfold dir_handle. case_ifs; reflexivity. Qed.

Lemma attrs_step_ok esp elo attrs c : xname_ok esp elo = true -> forallb cattr_ok attrs = true ->
  sres_ok (attrs_step esp elo attrs c) = true.
Proof.
  intros Hn Ha. unfold attrs_step. case_ifs; cbn [sres_ok st_ok forallb tok_ok S0 mode_ok str_all]; try reflexivity;
    rewrite ?forallb_rev_true; use_hyps.
Qed.

Lemma attr_eq_step_ok esp elo attrs ksp klo c : xname_ok esp elo = true -> forallb cattr_ok attrs = true -> xname_ok ksp klo = true ->
  sres_ok (attr_eq_step esp elo attrs ksp klo c) = true.
Proof. intros Hn Ha Hk. unfold attr_eq_step. case_ifs; cbn [sres_ok st_ok]; use_hyps. Qed.

Lemma text_step_ok m b0 b1 buf c : mode_ok m = true -> sres_ok (text_step m b0 b1 buf c) = true.
Proof.
  intros H. unfold text_step.
  destruct (is_ch 62 c && negb (is_attr_mode m) && is_ch 93 b0 && is_ch 93 b1).
  { destruct (is_cdata_mode m); [|reflexivity]. destruct (text_data (drop2 buf)) as [d|] eqn:E; [|reflexivity].
    cbn [sres_ok forallb tok_ok st_ok S0 mode_ok]. rewrite (text_data_ok _ _ E). reflexivity. }
  destruct (is_ch 60 c && negb (is_cdata_mode m)).
  { destruct m; try reflexivity. destruct buf as [|x r]; [reflexivity|].
    destruct (text_data (String x r)) as [d|] eqn:E; [|reflexivity].
    cbn [sres_ok forallb tok_ok st_ok]. rewrite (text_data_ok _ _ E). reflexivity. }
  destruct m as [| |q esp elo attrs ksp klo].
  - case_ifs; reflexivity.
  - case_ifs; reflexivity.
  - cbn [mode_ok] in H. split_hyps.
    destruct (Ascii.eqb c q).
    + destruct (text_data buf) as [d|] eqn:E; [|reflexivity].
      cbn [sres_ok st_ok forallb]. unfold cattr_ok at 1. cbn [at_space at_key at_val]. rewrite (text_data_ok _ _ E). use_hyps.
    + case_ifs; cbn [sres_ok st_ok mode_ok]; use_hyps.
Qed.

Lemma step_ok cs s c : st_ok s = true -> sres_ok (step cs s c) = true.
Proof.
  intros H. destruct s; cbn [step]; cbn [st_ok] in H.
  - (* SLt *) case_ifs; cbn [sres_ok st_ok str_all]; use_hyps.
  - apply text_step_ok, H.
  - (* SEnt *) case_ifs; cbn [sres_ok st_ok]; try exact H; reflexivity.
  - (* SEntHash *) destruct (is_ch 120 c); [exact H | apply ent_num_step_ok, H].
  - apply ent_num_step_ok, H.
  - (* SEntName *) destruct (name_cont c); [exact H|]. destruct (is_ch 59 c); [|reflexivity].
    destruct (ent_char (srev acc)); [exact H | reflexivity].
  - (* SEndName0 *) case_ifs; reflexivity.
  - (* SEndName *) destruct (name_cont c); [reflexivity|]. destruct (finish_nsname acc) as [[sp lo]|]; [apply end_space_step_ok | reflexivity].
  - apply end_space_step_ok.
  - (* SPI0 *) destruct (name_cont c) eqn:E; [|reflexivity]. cbn [sres_ok st_ok str_all]. rewrite E. reflexivity.
  - (* SPITarget *) destruct (name_cont c) eqn:E.
    + cbn [sres_ok st_ok str_all]. rewrite E, H. reflexivity.
    + destruct (finish_name acc) as [t|] eqn:EF; [|reflexivity].
      destruct (finish_name_ok acc t EF H) as [H1 H2]. apply pi_space_step_ok. unfold target_ok. rewrite H1, H2. reflexivity.
  - apply pi_space_step_ok, H.
  - (* SPIBody *) split_hyps. apply pi_body_step_ok; assumption.
  - (* SBang *) case_ifs; reflexivity.
  - (* SBangDash *) case_ifs; reflexivity.
  - (* SComment *) destruct (is_ch 45 b0 && is_ch 45 b1) eqn:E.
    + destruct (is_ch 62 c); [|reflexivity]. cbn [sres_ok forallb tok_ok st_ok S0 mode_ok].
      rewrite (comment_emit b0 b1 buf H E). reflexivity.
    + cbn [sres_ok st_ok]. apply (comment_push b0 b1 buf c H E).
  - (* SCDataHdr *) destruct rest as [|x r']; [reflexivity|]. destruct (Ascii.eqb c x); [|reflexivity]. destruct r'; reflexivity.
  - (* SDir *) destruct (Ascii.eqb inq zero && is_ch 62 c && (depth =? 0)%Z); [reflexivity | apply dir_handle_ok].
  - (* SDirLt *) destruct (Ascii.eqb c (bang_dash_dash i)); [destruct i as [|[|i']]; reflexivity | apply dir_handle_ok].
  - (* SDirCom *) case_ifs; reflexivity.
  - (* SStartName *) destruct (name_cont c) eqn:E.
    + cbn [sres_ok st_ok str_all]. rewrite E, H. reflexivity.
    + destruct (finish_nsname acc) as [[sp lo]|] eqn:EF; [|reflexivity].
      apply attrs_step_ok; [apply (finish_nsname_ok acc sp lo EF H) | reflexivity].
  - (* SAttrs *) split_hyps. apply attrs_step_ok; assumption.
  - (* SSlash *) split_hyps. destruct (is_ch 62 c); [|reflexivity].
    cbn [sres_ok forallb tok_ok st_ok S0 mode_ok]. rewrite forallb_rev_true. use_hyps.
  - (* SAttrName *) split_hyps. destruct (name_cont c) eqn:E.
    + cbn [sres_ok st_ok str_all]. rewrite E. use_hyps.
    + destruct (finish_nsname acc) as [[ksp klo]|] eqn:EF; [|reflexivity].
      apply attr_eq_step_ok; try assumption. apply (finish_nsname_ok acc ksp klo EF). assumption.
  - (* SAttrEq *) split_hyps. apply attr_eq_step_ok; assumption.
  - (* SAttrQ *) split_hyps. case_ifs; cbn [sres_ok st_ok mode_ok]; use_hyps.
Qed.

(* ================================================================ 7. the run, the document, the tree *)
Lemma at_eof_ok s : st_ok s = true -> forallb tok_ok (fst (at_eof s)) = true.
Proof.
  intros _. destruct s; try reflexivity. destruct m; try reflexivity. destruct buf as [|x r]; [reflexivity|].
  cbn [at_eof]. destruct (text_data (String x r)) as [d|] eqn:E; [|reflexivity].
  cbn [fst forallb tok_ok]. rewrite (text_data_ok _ _ E). reflexivity.
Qed.

Lemma run_ok cs : forall inp s, st_ok s = true -> forallb tok_ok (fst (run cs s inp)) = true.
Proof.
  induction inp as [|c r IH]; intros s H.
  - cbn [run]. apply at_eof_ok, H.
  - rewrite run_cons. pose proof (step_ok cs s c H) as HS.
    destruct (step cs s c) as [s'|t s'|]; cbn [sres_ok] in HS.
    + apply IH, HS.
    + apply andb_true_iff in HS as [Ht Hs]. unfold emit. cbn [fst]. rewrite forallb_app, Ht, (IH s' Hs). reflexivity.
    + reflexivity.
Qed.

(* every token the tokenizer delivers -- to etree, which reads to the end, or to a lazy consumer -- is well formed *)
Theorem tokens_wf cs b : forallb tok_ok (token_prefix cs b) = true.
Proof. unfold token_prefix. apply run_ok. reflexivity. Qed.

Theorem read_doc_wf d b kids : read_doc d b = Ok kids -> forallb reader_wf kids = true.
Proof.
  unfold read_doc, raw_tokens, tokens_of. destruct (snd (run true S0 b)); [discriminate|]. cbn [bind]. intros HB.
  apply (build_wf d (fst (run true S0 b)) [] [] kids); [apply run_ok; reflexivity | reflexivity | reflexivity | exact HB].
Qed.

Lemma reader_wf_c14n : forall n, reader_wf n = true -> has_directive_or_xml_pi n = false -> c14n_wf n = true.
Proof.
  induction n as [sp t a k IHk | s | s | tg i | s] using node_ind_kids; intros W HD; try exact W; try discriminate HD.
  - cbn [reader_wf c14n_wf has_directive_or_xml_pi] in *.
    apply andb_true_iff in W as [Wna Wk]. rewrite Wna. cbn [andb].
    induction k as [|x k IH]; [reflexivity|].
    inversion IHk as [|? ? Hx Hk]; subst. cbn [forallb existsb] in *.
    apply andb_true_iff in Wk as [W1 W2]. apply orb_false_iff in HD as [D1 D2].
    rewrite (Hx W1 D1). cbn [andb]. apply (IH Hk W2 D2).
  - cbn [reader_wf c14n_wf has_directive_or_xml_pi] in *. unfold pi_ok, pi_ok_gen in *.
    apply andb_true_iff in W as [W Wi]. rewrite W, HD, Wi. reflexivity.
Qed.

(* whatever read_tree returns satisfies the premise of the canonical round trip, unless it holds a directive or a
   <?xml ...?> instruction inside *)
Theorem read_tree_wf b t : read_tree b = Ok t ->
  reader_wf t = true /\ (has_directive_or_xml_pi t = false -> c14n_wf_elem t = true /\ c14n_wf t = true).
Proof.
  unfold read_tree, read_root. destruct (read_doc true b) as [kids|e] eqn:E; [|discriminate]. cbn [bind].
  destruct (first_elem kids) as [n|] eqn:EF; [|discriminate]. intros [= <-].
  unfold first_elem in EF. apply find_some in EF as [HIn HE].
  pose proof (read_doc_wf true b kids E) as HW. rewrite forallb_forall in HW. specialize (HW n HIn).
  split; [exact HW|]. intros HD. pose proof (reader_wf_c14n n HW HD) as HC.
  split; [|exact HC]. unfold c14n_wf_elem. rewrite HE, HC. reflexivity.
Qed.

(* Examples: the excluded shapes are delivered by the reader (so the side condition is necessary for c14n_wf as stated) *)
Example directive_inside_is_delivered :
  read_tree "<a><!DOCTYPE x><?xml version=""1.0""?></a>" = Ok (Elem "" "a" [] [Directive "DOCTYPE x"; ProcInst "xml" "version=""1.0"""]).
Proof. vm_compute. reflexivity. Qed.

(* ================================================================ 8. from the wire bytes to the accepted tree *)
(* the element handed to the verifier was read from bytes by the reader model: no premise on names or values is left.  For
   the usual layout the tree an accepted signature hands on is  normalise (prep c0 (root minus exactly that Signature)),
   root = read_tree b: a function of the presented BYTES and of the verdicts of digest / signature check / certificate parser *)
Theorem dsig_sound_reader_from_bytes digest sig_ok parse_cert store now b root v :
  read_tree b = Ok root -> has_directive_or_xml_pi root = false ->
  dsig_validate_reader digest sig_ok parse_cert store now root = DOk v ->
  exists root' f sb sin sinfo2 r,
    find_signature root = Ok (root', f) /\
    canon_model (fs_si_alg f) (fs_si_detached f) = Some sb /\ reparse_model sb = Some sin /\
    unmarshal_signed_info sin = Ok sinfo2 /\ r = last (si_refs sinfo2) zero_ref /\
    (FirstSignature root (fs_path f) ->
     forall t1 t2 c0, ref_transforms r = [t1; t2] -> tr_alg t1 = alg_enveloped -> c14n_of t2 = Some c0 ->
       exists body p,
         remove_at_path root (fs_path f) = Some body /\ canon_prep c0 body = Some p /\ v = normalise p).
Proof.
  intros HR HD HV. destruct (read_tree_wf b root HR) as [_ HW]. destruct (HW HD) as [_ HC].
  destruct (dsig_sound_reader_first_signature digest sig_ok parse_cert store now root v HV)
    as (root' & f & sb & sin & sinfo2 & r & H1 & H2 & H3 & H4 & H5 & HX).
  exists root', f, sb, sin, sinfo2, r. repeat (split; [assumption|]).
  intros HF t1 t2 c0 E1 E2 E3.
  destruct (HX HF t1 t2 c0 E1 E2 E3) as (body & p & want & Hb & Hp & _ & _ & _ & _ & HN).
  exists body, p. split; [exact Hb|]. split; [exact Hp|]. apply HN, HC.
Qed.
