(* Profile.v — hand-written executable model of gosaml2's profile / conditions decision logic
   at the level of decoded structs:
     validate.go:  Validate, VerifyAssertionConditions, ValidateDecodedLogoutResponse, ValidateDecodedLogoutRequest
     decode_response.go: validateResponseAttributes, validateLogoutResponseAttributes
     decode_logout_request.go: validateLogoutRequestAttributes
     retrieve_assertion.go: the part of RetrieveAssertionInfo after ValidateEncodedResponse
     attribute.go: Values.Get / GetAll / GetSize
   Constants come from Generated.v (re-extracted from the source on every run). *)
From V Require Import Base Time Types SchemaDefs ConcDefs Generated.

Definition nonempty (s : string) : bool := negb (s =?s "").

(* ---- decode_response.go: validateResponseAttributes (and the two logout twins) ---- *)
Definition validate_attrs (expected_dest dest version : string) : res unit :=
  if nonempty dest && negb (dest =?s expected_dest)
  then Err (EInvalidValue c_DestinationAttr "" expected_dest dest)
  else if negb (version =?s "2.0")
  then Err (EInvalidValue "SAML version" c_ReasonUnsupported "2.0" version)
  else Ok tt.

(* ---- validate.go: the per-assertion checks of Validate ---- *)
Definition validate_assertion (cfg : config) (now : instant) (a : assertion) : res unit :=
  match a_issuer a with
  | None => Err (EMissingElement c_IssuerTag "")
  | Some iss =>
    if nonempty (cfg_idp_issuer cfg) && negb (iss =?s cfg_idp_issuer cfg)
    then Err (EInvalidValue c_IssuerTag "" (cfg_idp_issuer cfg) iss)
    else match a_subject a with
    | None => Err (EMissingElement c_SubjectTag "")
    | Some sub =>
      match sub_conf sub with
      | None => Err (EMissingElement c_SubjectConfirmationTag "")
      | Some sc =>
        if negb (sc_method sc =?s c_SubjMethodBearer)
        then Err (EInvalidValue c_SubjectConfirmationTag c_ReasonUnsupported c_SubjMethodBearer (sc_method sc))
        else match sc_data sc with
        | None => Err (EMissingElement c_SubjectConfirmationDataTag "")
        | Some d =>
          if negb (scd_recipient d =?s cfg_acs_url cfg)
          then Err (EInvalidValue c_RecipientAttr "" (cfg_acs_url cfg) (scd_recipient d))
          else if scd_not_on_or_after d =?s ""
          then Err (EMissingElement c_SubjectConfirmationDataTag c_NotOnOrAfterAttr)
          else match parse_rfc3339 (scd_not_on_or_after d) with
          | None => Err (EParsing c_NotOnOrAfterAttr (scd_not_on_or_after d))
          | Some noa =>
            if negb (ibefore now noa)
            then Err (EInvalidValue c_NotOnOrAfterAttr c_ReasonExpired "" (scd_not_on_or_after d))
            else Ok tt
          end
        end
      end
    end
  end.

Definition check_issuer (cfg : config) (iss : option string) : res unit :=
  match iss with
  | None => Err (EMissingElement c_IssuerTag "")
  | Some i =>
    if nonempty (cfg_idp_issuer cfg) && negb (i =?s cfg_idp_issuer cfg)
    then Err (EInvalidValue c_IssuerTag "" (cfg_idp_issuer cfg) i)
    else Ok tt
  end.

Definition check_status (st : option status) : res unit :=
  match st with
  | None => Err (EMissingElement c_StatusTag "")
  | Some s =>
    match st_status_code s with
    | None => Err (EMissingElement c_StatusCodeTag "")
    | Some v =>
      if negb (v =?s c_StatusCodeSuccess)
      then Err (EInvalidValue c_StatusCodeTag "" c_StatusCodeSuccess v)
      else Ok tt
    end
  end.

(* ---- validate.go: Validate ---- *)
Definition validate (cfg : config) (now : instant) (r : response) : res unit :=
  check validate_attrs (cfg_acs_url cfg) (r_destination r) (r_version r);
  match r_assertions r with
  | [] => Err (EMissingElement c_AssertionTag "")
  | _ =>
    check check_issuer cfg (r_issuer r);
    check check_status (r_status r);
    forM_ (validate_assertion cfg now) (r_assertions r)
  end.

(* ---- validate.go: ValidateDecodedLogoutResponse / ValidateDecodedLogoutRequest ---- *)
Definition validate_logout_response (cfg : config) (r : logout_response) : res unit :=
  check validate_attrs (cfg_slo_url cfg) (lr_destination r) (lr_version r);
  check check_issuer cfg (lr_issuer r);
  check_status (lr_status r).

Definition validate_logout_request (cfg : config) (r : logout_request) : res unit :=
  check validate_attrs (cfg_slo_url cfg) (lq_destination r) (lq_version r);
  check_issuer cfg (lq_issuer r).

(* ---- validate.go: VerifyAssertionConditions ---- *)
Definition restriction_matched (audience : string) (r : list string) : bool :=
  existsb (fun a => a =?s audience) r.

Definition not_in_audience (audience : string) (rs : list (list string)) : bool :=
  existsb (fun r => negb (restriction_matched audience r)) rs.

Definition verify_conditions (cfg : config) (now : instant) (a : assertion) : res warning_info :=
  match a_conditions a with
  | None => Err (EMissingElement c_ConditionsTag "")
  | Some c =>
    if c_not_before c =?s "" then Err (EMissingElement c_ConditionsTag c_NotBeforeAttr) else
    match parse_rfc3339 (c_not_before c) with
    | None => Err (EParsing c_NotBeforeAttr (c_not_before c))
    | Some nb =>
      if c_not_on_or_after c =?s "" then Err (EMissingElement c_ConditionsTag c_NotOnOrAfterAttr) else
      match parse_rfc3339 (c_not_on_or_after c) with
      | None => Err (EParsing c_NotOnOrAfterAttr (c_not_on_or_after c))
      | Some noa =>
        Ok {| w_one_time_use := c_one_time_use c;
              w_proxy_restriction := c_proxy_restriction c;
              w_not_in_audience := not_in_audience (cfg_audience cfg) (c_audience_restrictions c);
              w_invalid_time := ibefore now nb || negb (ibefore now noa) |}
      end
    end
  end.

(* ---- retrieve_assertion.go: Values map (keyed by attribute Name; later entries overwrite) ---- *)
Fixpoint values_set (k : string) (v : attribute) (m : list (string * attribute)) : list (string * attribute) :=
  match m with
  | [] => [(k, v)]
  | (k', v') :: r =>
    match String.compare k k' with
    | Eq => (k, v) :: r
    | Lt => (k, v) :: m
    | Gt => (k', v') :: values_set k v r
    end
  end.

Definition values_of (attrs : list attribute) : list (string * attribute) :=
  fold_left (fun m a => values_set (at_name a) a m) attrs [].

Fixpoint values_lookup (k : string) (m : list (string * attribute)) : option attribute :=
  match m with
  | [] => None
  | (k', v) :: r => if k =?s k' then Some v else values_lookup k r
  end.

(* attribute.go *)
Definition values_get (m : option (list (string * attribute))) (k : string) : string :=
  match m with
  | None => ""
  | Some m => match values_lookup k m with
              | Some a => match at_values a with cons v _ => av_value v | nil => "" end
              | None => ""
              end
  end.
Definition values_get_size (m : option (list (string * attribute))) (k : string) : Z :=
  match m with
  | None => 0%Z
  | Some m => match values_lookup k m with Some a => Z.of_nat (List.length (at_values a)) | None => 0%Z end
  end.
Definition values_get_all (m : option (list (string * attribute))) (k : string) : list string :=
  match m with
  | None => []
  | Some m => match values_lookup k m with Some a => map av_value (at_values a) | None => [] end
  end.

(* ---- retrieve_assertion.go: RetrieveAssertionInfo after ValidateEncodedResponse returned [r] ---- *)
Definition retrieve_info_of (cfg : config) (now : instant) (r : response) : res assertion_info :=
  match r_assertions r with
  | [] => Err (EMissingElement c_AssertionTag "")
  | a :: _ =>
    do w <- verify_conditions cfg now a;
    match a_subject a with
    | None => Err (EMissingElement c_SubjectTag "")
    | Some sub =>
      match sub_name_id sub with
      | None => Err (EMissingElement c_NameIdTag "")
      | Some nid =>
        match a_attribute_statement a, cfg_allow_missing_attrs cfg with
        | None, false => Err (EMissingElement c_AttributeStatementTag "")
        | st, _ =>
          Ok {| ai_name_id := nid;
                ai_values := match st with Some attrs => values_of attrs | None => [] end;
                ai_warning_info := w;
                ai_session_index := match a_authn_statement a with Some s => as_session_index s | None => "" end;
                ai_authn_instant := match a_authn_statement a with Some s => as_authn_instant s | None => None end;
                ai_session_not_on_or_after :=
                  match a_authn_statement a with Some s => as_session_not_on_or_after s | None => None end;
                ai_assertions := r_assertions r;
                ai_response_signature_validated := r_signature_validated r |}
        end
      end
    end
  end.

(* RetrieveAssertionInfo = ValidateEncodedResponse wrapped in ErrVerification, then the above *)
Definition retrieve_info (cfg : config) (now : instant) (validated : res response) : res assertion_info :=
  match validated with
  | Err e => Err (EVerification e)
  | Ok r => retrieve_info_of cfg now r
  end.
