(* Prop_C18.v — property C18: message identifiers (deterministic half: what NewV4 / String / "_"+uuid do with
   the 16 bytes the random source delivers; and which random source the CURRENT uuid.go uses).
   ONLY theorem statements closed by [exact lemma], each followed by Print Assumptions. *)
From V Require Import Base ConcDefs Generated Uuid P_Uuid.
Local Open Scope N_scope.

(* for all 16 random bytes: 36 characters, '-' at 8,13,18,23, every other character in [0-9a-f],
   version nibble '4', variant character in {8,9,a,b} *)
Theorem C18_uuid_format : forall b : list N,
  List.length b = 16%nat -> Forall (fun x => x < 256) b ->
  String.length (uuid_of_bytes b) = 36%nat /\
  (forall i, In i [8; 13; 18; 23]%nat -> String.get i (uuid_of_bytes b) = Some "-"%char) /\
  (forall i c, String.get i (uuid_of_bytes b) = Some c -> ~ In i [8; 13; 18; 23]%nat -> is_lower_hex c = true) /\
  String.get 14 (uuid_of_bytes b) = Some "4"%char /\
  (exists c, String.get 19 (uuid_of_bytes b) = Some c /\ In c ["8"; "9"; "a"; "b"]%char).
Proof. exact uuid_format. Qed.
Print Assumptions C18_uuid_format.

(* equal identifiers only from equal free bits: 14 whole bytes, the low 4 bits of byte 6, the low 6 bits of byte 8
   (free_bits masks byte i with the bits the generated masks neither set nor clear; 122 bits in all) *)
Theorem C18_uuid_injective_on_free_bits : forall b b' : list N,
  List.length b = 16%nat -> List.length b' = 16%nat ->
  Forall (fun x => x < 256) b -> Forall (fun x => x < 256) b' ->
  uuid_of_bytes b = uuid_of_bytes b' -> free_bits b = free_bits b'.
Proof. exact uuid_injective_on_free_bits. Qed.
Print Assumptions C18_uuid_injective_on_free_bits.

Theorem C18_free_bit_count_is_122 : free_bit_count = 122%nat.
Proof. exact free_bit_count_122. Qed.
Print Assumptions C18_free_bit_count_is_122.

(* "_" + uuid starts with '_', is an NCName (ASCII productions), and contains only [_0-9a-f-] *)
Theorem C18_message_id_is_ncname : forall b : list N,
  List.length b = 16%nat -> Forall (fun x => x < 256) b ->
  (exists r, message_id b = String "_" r) /\
  is_ncname (message_id b) = true /\
  forallb id_char (list_ascii_of_string (message_id b)) = true.
Proof. exact message_id_is_ncname. Qed.
Print Assumptions C18_message_id_is_ncname.

(* uuid.go imports crypto/rand, imports nothing under math/rand, and its only read of randomness is rand.Read(u[:16]) *)
Theorem C18_random_source_is_crypto_rand :
  In "crypto/rand" uuid_imports /\
  (forall i, In i uuid_imports -> prefix "math/rand" i = false) /\
  uuid_random_reads = ["rand.Read(u[:16])"].
Proof. exact random_source_is_crypto_rand. Qed.
Print Assumptions C18_random_source_is_crypto_rand.

(* HISTORIES. A history is any list of constructions, each one 16-byte read of the random source tagged with whatever
   distinguishes it (message kind, service-provider instance, goroutine: the identifier does not depend on the tag).
   For a history of any length: if the 122 free bits of the reads are pairwise distinct, no identifier repeats. *)
Theorem C18_history_ids_never_repeat : forall (A : Type) (h : list (A * list N)),
  Forall (fun e => List.length (snd e) = 16%nat /\ Forall (fun x => x < 256) (snd e)) h ->
  NoDup (map (fun e => free_bits (snd e)) h) ->
  NoDup (map (fun e => message_id (snd e)) h).
Proof. exact history_ids_nodup. Qed.
Print Assumptions C18_history_ids_never_repeat.

(* ... and a repeated identifier anywhere in a history, whatever the tags, is a collision of the source's free bits *)
Theorem C18_history_repeat_is_source_collision : forall (A : Type) (h : list (A * list N)) (i j : nat) (ei ej : A * list N),
  Forall (fun e => List.length (snd e) = 16%nat /\ Forall (fun x => x < 256) (snd e)) h ->
  nth_error h i = Some ei -> nth_error h j = Some ej ->
  message_id (snd ei) = message_id (snd ej) -> free_bits (snd ei) = free_bits (snd ej).
Proof. exact history_repeat_is_source_collision. Qed.
Print Assumptions C18_history_repeat_is_source_collision.

(* non-vacuity, and the converse direction on a witness: reads differing in a free bit get different identifiers; reads
   differing only in a forced bit (byte 6: 7 vs 135) get the SAME identifier and the same free bits *)
Theorem C18_history_example :
  NoDup (map (fun e => message_id (snd e)) [(0%nat, hist_b0); (1%nat, hist_b1)]) /\
  message_id hist_b0 = message_id hist_b2 /\ free_bits hist_b0 = free_bits hist_b2 /\ hist_b0 <> hist_b2.
Proof. exact history_example. Qed.
Print Assumptions C18_history_example.
