(* Prop_C04.v — property C04: trust indicators never overstate what was cryptographically verified. *)
From V Require Import Base Time Xml Ns Types Profile Decode Response P_Ns P_Response.

Theorem C04_skip_means_no_flag : forall dsig decrypt cfg now root r,
  cfg_skip_sig cfg = true -> validate_response_tree dsig decrypt cfg now root = Ok r ->
  r_signature_validated r = false /\ exists r0, unmarshal_response root = Ok r0 /\ r_assertions r = r_assertions r0.
Proof. exact flags_when_skipping. Qed.
Print Assumptions C04_skip_means_no_flag.

Theorem C04_response_flag_iff_root_verified : forall dsig decrypt cfg now root r,
  cfg_skip_sig cfg = false -> validate_response_tree dsig decrypt cfg now root = Ok r ->
  (r_signature_validated r = true <-> exists v, dsig root = DOk v).
Proof. exact response_flag_iff. Qed.
Print Assumptions C04_response_flag_iff_root_verified.

(* with the flag set, every returned field is a field of the decoding of the verified tree *)
Theorem C04_flagged_response_fields_are_signed : forall dsig decrypt cfg now root r,
  cfg_skip_sig cfg = false -> validate_response_tree dsig decrypt cfg now root = Ok r ->
  r_signature_validated r = true ->
  exists signed signed' r0, dsig root = DOk signed /\ decrypt_assertions decrypt signed = Ok signed' /\
    unmarshal_response signed' = Ok r0 /\ r = with_flag r0 true (r_assertions r0) (r_encrypted_count r0).
Proof.
  intros dsig decrypt cfg now root r Hs H Hf.
  destruct (response_sound dsig decrypt cfg now root r Hs H) as [_ [HS|(r0 & root' & _ & _ & _ & _ & Hr & _)]]; [exact HS|rewrite Hr in Hf; discriminate].
Qed.
Print Assumptions C04_flagged_response_fields_are_signed.

Theorem C04_unflagged_response_means_every_assertion_flagged_and_vouched : forall dsig decrypt cfg now root r,
  cfg_skip_sig cfg = false -> validate_response_tree dsig decrypt cfg now root = Ok r ->
  r_signature_validated r = false ->
  Forall (fun a => a_signature_validated a = true) (r_assertions r) /\
  exists root', decrypt_assertions decrypt root = Ok root' /\ Forall (Vouched dsig root') (r_assertions r).
Proof. exact unflagged_response_all_assertions_flagged. Qed.
Print Assumptions C04_unflagged_response_means_every_assertion_flagged_and_vouched.

Theorem C04_info_flag_mirrors_response_flag : forall dsig decrypt cfg now root i,
  retrieve_assertion_info_tree dsig decrypt cfg now root = Ok i ->
  exists r, validate_response_tree dsig decrypt cfg now root = Ok r /\ retrieve_info_of cfg now r = Ok i /\
            ai_response_signature_validated i = r_signature_validated r /\ ai_assertions i = r_assertions r.
Proof. exact retrieve_info_ok. Qed.
Print Assumptions C04_info_flag_mirrors_response_flag.

Theorem C04_logout_flag_iff : forall dsig cfg root el flag,
  logout_signature_step dsig cfg root = Ok (el, flag) ->
  (flag = true <-> cfg_skip_sig cfg = false /\ dsig root = DOk el) /\
  (flag = false -> el = root /\ (cfg_skip_sig cfg = true \/ (dsig root = DMissing /\ ~ EnvelopedSignature root))).
Proof. exact logout_step_ok. Qed.
Print Assumptions C04_logout_flag_iff.

(* the flags cannot be supplied by the sender: the SignatureValidated fields of all four decoded structs carry the
   struct tag xml:"-" in the CURRENT source (re-extracted on every run) *)
Theorem C04_flag_fields_not_decodable :
  forallb flag_field_is_skipped ["Response"; "Assertion"; "LogoutResponse"; "LogoutRequest"]%string = true.
Proof. exact flag_fields_not_decodable. Qed.
Print Assumptions C04_flag_fields_not_decodable.

(* source tie: the flag returned by the TRANSLATED ValidateEncodedResponse of this run *)
From V Require Import Generated Keys GenPrelude GenPreludeD GenPreludeT GenFuncs GenTree P_GenTree P_GenTreeProps.
Theorem C04_source_response_flag_iff_root_verified : forall parse dsig decrypt cfg now enc r,
  cfg_skip_sig cfg = false ->
  G_ValidateEncodedResponse parse dsig (decrypt_assertions decrypt) cfg now enc = PVal (Ok (Some r)) ->
  exists raw root, b64_decode enc = Ok raw /\ parse raw = Ok root /\ (r_signature_validated r = true <-> exists v, dsig root = DOk v).
Proof. exact source_response_flag_iff. Qed.
Print Assumptions C04_source_response_flag_iff_root_verified.

Theorem C04_source_skip_means_no_flag : forall parse dsig decrypt cfg now enc r,
  cfg_skip_sig cfg = true ->
  G_ValidateEncodedResponse parse dsig (decrypt_assertions decrypt) cfg now enc = PVal (Ok (Some r)) -> r_signature_validated r = false.
Proof. exact source_skip_means_no_flag. Qed.
Print Assumptions C04_source_skip_means_no_flag.
