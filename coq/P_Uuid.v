(* P_Uuid.v — proofs for property C18 over the model Uuid.v (which interprets the masks / format string /
   slice arguments that gen/ extracts from uuid/uuid.go into Generated.v).
   Per-byte facts are proved by evaluating a boolean check on all 256 byte values (resp. all 65536 pairs)
   with vm_compute and lifting it with forallb_forall: the bound is the premise  n < 256  of each lemma. *)
From V Require Import Base ConcDefs Generated Uuid.
Local Open Scope string_scope.
Local Open Scope list_scope.
Local Open Scope N_scope.

(* ---------- exhaustive per-byte reasoning ---------- *)
Lemma in_all_bytes n : n < 256 -> In n all_bytes.
Proof.
  intros H. unfold all_bytes. rewrite <- (N2Nat.id n). apply in_map. apply in_seq. lia.
Qed.

Lemma byte_forall (P : N -> bool) :
  forallb P all_bytes = true -> forall n, n < 256 -> P n = true.
Proof. intros H n Hn. rewrite forallb_forall in H. apply H. apply in_all_bytes. exact Hn. Qed.

Lemma byte_pairs (P : N -> N -> bool) :
  forallb (fun x => forallb (P x) all_bytes) all_bytes = true ->
  forall x y, x < 256 -> y < 256 -> P x y = true.
Proof.
  intros H x y Hx Hy. rewrite forallb_forall in H. specialize (H x (in_all_bytes x Hx)).
  rewrite forallb_forall in H. apply H. apply in_all_bytes. exact Hy.
Qed.

(* ---------- explicit form of the string ---------- *)
(* the two masked bytes, as NewV4 in the CURRENT source computes them (if the masks in uuid.go change,
   uuid_explicit below stops being provable by reflexivity) *)
Definition m6 (n : N) : N := N.land (N.lor n 64) 79.
Definition m8 (n : N) : N := N.land (N.lor n 128) 191.

(* two lowercase hex digits of x in front of s *)
Definition hx (x : N) (s : string) : string :=
  String (hexdig false (x / 16)) (String (hexdig false (x mod 16)) s).

Lemma uuid_explicit b0 b1 b2 b3 b4 b5 b6 b7 b8 b9 b10 b11 b12 b13 b14 b15 :
  uuid_of_bytes [b0; b1; b2; b3; b4; b5; b6; b7; b8; b9; b10; b11; b12; b13; b14; b15] =
  hx b0 (hx b1 (hx b2 (hx b3 (String "-" (hx b4 (hx b5 (String "-" (hx (m6 b6) (hx b7 (String "-"
  (hx (m8 b8) (hx b9 (String "-" (hx b10 (hx b11 (hx b12 (hx b13 (hx b14 (hx b15 ""))))))))))))))))))).
Proof. reflexivity. Qed.

Lemma free_bits_explicit b0 b1 b2 b3 b4 b5 b6 b7 b8 b9 b10 b11 b12 b13 b14 b15 :
  free_bits [b0; b1; b2; b3; b4; b5; b6; b7; b8; b9; b10; b11; b12; b13; b14; b15] =
  [N.land b0 255; N.land b1 255; N.land b2 255; N.land b3 255; N.land b4 255; N.land b5 255; N.land b6 15;
   N.land b7 255; N.land b8 63; N.land b9 255; N.land b10 255; N.land b11 255; N.land b12 255; N.land b13 255;
   N.land b14 255; N.land b15 255].
Proof. reflexivity. Qed.

(* 14 untouched bytes, 4 free bits in byte 6, 6 free bits in byte 8 *)
Lemma free_bit_count_122 : free_bit_count = 122%nat.
Proof. vm_compute. reflexivity. Qed.

(* a list of length 16 is sixteen elements *)
Lemma length16 (b : list N) : List.length b = 16%nat ->
  exists b0 b1 b2 b3 b4 b5 b6 b7 b8 b9 b10 b11 b12 b13 b14 b15,
    b = [b0; b1; b2; b3; b4; b5; b6; b7; b8; b9; b10; b11; b12; b13; b14; b15].
Proof.
  intros H.
  do 16 (destruct b as [|? b]; [discriminate H|]). destruct b; [|discriminate H].
  repeat eexists.
Qed.

(* ---------- per-byte facts ---------- *)
Lemma hexdig_hi n : n < 256 -> is_lower_hex (hexdig false (n / 16)) = true.
Proof. apply (byte_forall (fun n => is_lower_hex (hexdig false (n / 16)))). vm_compute. reflexivity. Qed.
Lemma hexdig_lo n : n < 256 -> is_lower_hex (hexdig false (n mod 16)) = true.
Proof. apply (byte_forall (fun n => is_lower_hex (hexdig false (n mod 16)))). vm_compute. reflexivity. Qed.
Lemma m6_lt n : n < 256 -> m6 n < 256.
Proof. intros H. apply N.ltb_lt. revert n H. apply (byte_forall (fun n => m6 n <? 256)). vm_compute. reflexivity. Qed.
Lemma m8_lt n : n < 256 -> m8 n < 256.
Proof. intros H. apply N.ltb_lt. revert n H. apply (byte_forall (fun n => m8 n <? 256)). vm_compute. reflexivity. Qed.
(* version nibble *)
Lemma m6_version n : n < 256 -> hexdig false (m6 n / 16) = "4"%char.
Proof.
  intros H. apply Ascii.eqb_eq. revert n H.
  apply (byte_forall (fun n => Ascii.eqb (hexdig false (m6 n / 16)) "4")). vm_compute. reflexivity.
Qed.
(* variant: top two bits 10 *)
Lemma m8_variant n : n < 256 -> In (hexdig false (m8 n / 16)) ["8"; "9"; "a"; "b"]%char.
Proof.
  intros H.
  assert (E : existsb (Ascii.eqb (hexdig false (m8 n / 16))) ["8"; "9"; "a"; "b"]%char = true).
  { revert n H. apply (byte_forall (fun n => existsb (Ascii.eqb (hexdig false (m8 n / 16))) ["8"; "9"; "a"; "b"]%char)).
    vm_compute. reflexivity. }
  apply existsb_exists in E. destruct E as (c & Hin & Hc). apply Ascii.eqb_eq in Hc. rewrite Hc. exact Hin.
Qed.

(* equal renderings of a (masked) byte: equal free bits *)
Definition pair_check (f : N -> N) (k : N) (x y : N) : bool :=
  implb (hex2 false (f x) =?s hex2 false (f y)) (N.land x k =? N.land y k).
Lemma pair_fact (f : N -> N) (k : N) :
  forallb (fun x => forallb (pair_check f k x) all_bytes) all_bytes = true ->
  forall x y s s', x < 256 -> y < 256 -> hx (f x) s = hx (f y) s' -> N.land x k = N.land y k /\ s = s'.
Proof.
  intros H x y s s' Hx Hy E. unfold hx in E. injection E as E1 E2 E3. split; [|exact E3].
  pose proof (byte_pairs _ H x y Hx Hy) as Hp. unfold pair_check, hex2 in Hp.
  rewrite E1, E2, String.eqb_refl in Hp. cbn [implb] in Hp. apply N.eqb_eq. exact Hp.
Qed.
Lemma pair_plain : forall x y s s', x < 256 -> y < 256 -> hx x s = hx y s' -> N.land x 255 = N.land y 255 /\ s = s'.
Proof. apply (pair_fact (fun x => x) 255). vm_compute. reflexivity. Qed.
Lemma pair_m6 : forall x y s s', x < 256 -> y < 256 -> hx (m6 x) s = hx (m6 y) s' -> N.land x 15 = N.land y 15 /\ s = s'.
Proof. apply (pair_fact m6 15). vm_compute. reflexivity. Qed.
Lemma pair_m8 : forall x y s s', x < 256 -> y < 256 -> hx (m8 x) s = hx (m8 y) s' -> N.land x 63 = N.land y 63 /\ s = s'.
Proof. apply (pair_fact m8 63). vm_compute. reflexivity. Qed.

Lemma dash_inv s s' : String "-" s = String "-" s' -> s = s'.
Proof. intros H. injection H as H. exact H. Qed.

(* ---------- canonical form ---------- *)
Definition dash_positions : list nat := [8; 13; 18; 23]%nat.

Definition uuid_wellformed (s : string) : Prop :=
  String.length s = 36%nat /\
  (forall i, In i dash_positions -> String.get i s = Some "-"%char) /\
  (forall i c, String.get i s = Some c -> ~ In i dash_positions -> is_lower_hex c = true) /\
  String.get 14 s = Some "4"%char /\
  (exists c, String.get 19 s = Some c /\ In c ["8"; "9"; "a"; "b"]%char).

Ltac bytes16 b Hlen Hall :=
  destruct (length16 b Hlen) as (b0 & b1 & b2 & b3 & b4 & b5 & b6 & b7 & b8 & b9 & b10 & b11 & b12 & b13 & b14 & b15 & ->);
  repeat match type of Hall with
         | Forall _ (_ :: _) => let H := fresh "Hb" in let H' := fresh "Hall" in
                                 inversion Hall as [|? ? H H']; subst; clear Hall; rename H' into Hall
         end.

Ltac hexgoal :=
  first [ apply hexdig_hi | apply hexdig_lo ];
  first [ assumption | apply m6_lt; assumption | apply m8_lt; assumption ].

Lemma uuid_format (b : list N) :
  List.length b = 16%nat -> Forall (fun x => x < 256) b -> uuid_wellformed (uuid_of_bytes b).
Proof.
  intros Hlen Hall. bytes16 b Hlen Hall.
  rewrite uuid_explicit. unfold hx. repeat split.
  - intros i [<-|[<-|[<-|[<-|[]]]]]; reflexivity.
  - intros i c Hg Hn.
    do 37 (destruct i as [|i];
           [ cbn [String.get] in Hg; inversion Hg; subst c;
             first [ hexgoal | exfalso; apply Hn; unfold dash_positions; cbn [In]; auto 6 ] | ]).
    cbn [String.get] in Hg. discriminate Hg.
  - cbn [String.get]. f_equal. apply m6_version. assumption.
  - eexists. split; [cbn [String.get]; reflexivity|]. apply m8_variant. assumption.
Qed.

(* ---------- injectivity on the 122 free bits ---------- *)
Lemma uuid_injective_on_free_bits (b b' : list N) :
  List.length b = 16%nat -> List.length b' = 16%nat ->
  Forall (fun x => x < 256) b -> Forall (fun x => x < 256) b' ->
  uuid_of_bytes b = uuid_of_bytes b' -> free_bits b = free_bits b'.
Proof.
  intros Hlen Hlen' Hall Hall' E.
  bytes16 b Hlen Hall.
  destruct (length16 b' Hlen') as (c0 & c1 & c2 & c3 & c4 & c5 & c6 & c7 & c8 & c9 & c10 & c11 & c12 & c13 & c14 & c15 & ->).
  repeat match type of Hall' with
         | Forall _ (_ :: _) => let H := fresh "Hc" in let H' := fresh "Hall" in
                                 inversion Hall' as [|? ? H H']; subst; clear Hall'; rename H' into Hall'
         end.
  rewrite !uuid_explicit in E. rewrite !free_bits_explicit.
  repeat match type of E with
         | hx (m6 _) _ = hx (m6 _) _ => apply pair_m6 in E; [destruct E as [? E] | assumption | assumption]
         | hx (m8 _) _ = hx (m8 _) _ => apply pair_m8 in E; [destruct E as [? E] | assumption | assumption]
         | hx _ _ = hx _ _ => apply pair_plain in E; [destruct E as [? E] | assumption | assumption]
         | String "-" _ = String "-" _ => apply dash_inv in E
         end.
  repeat (f_equal; [assumption|]). f_equal. assumption.
Qed.

(* the free bits determine the bytes up to the forced bits: for bytes < 256 the free bits of an untouched byte
   are the byte itself *)
Lemma land_255 n : n < 256 -> N.land n 255 = n.
Proof.
  intros H. apply N.eqb_eq. revert n H. apply (byte_forall (fun n => N.land n 255 =? n)). vm_compute. reflexivity.
Qed.

(* ---------- the message identifier is an NCName over [_0-9a-f-] ---------- *)
Lemma lower_hex_ncname c : is_lower_hex c = true -> ncname_char c = true /\ id_char c = true.
Proof.
  destruct c as [[] [] [] [] [] [] [] []]; vm_compute; intros H; try discriminate H; split; reflexivity.
Qed.

Lemma uuid_chars (b : list N) :
  List.length b = 16%nat -> Forall (fun x => x < 256) b ->
  Forall (fun c => ncname_char c = true /\ id_char c = true) (list_ascii_of_string (uuid_of_bytes b)).
Proof.
  intros Hlen Hall. bytes16 b Hlen Hall.
  rewrite uuid_explicit. unfold hx. cbn [list_ascii_of_string].
  repeat (apply Forall_cons; [first [ apply lower_hex_ncname; hexgoal | split; reflexivity ] | ]).
  apply Forall_nil.
Qed.

Lemma message_id_is_ncname (b : list N) :
  List.length b = 16%nat -> Forall (fun x => x < 256) b ->
  (exists r, message_id b = String "_" r) /\
  is_ncname (message_id b) = true /\
  forallb id_char (list_ascii_of_string (message_id b)) = true.
Proof.
  intros Hlen Hall. pose proof (uuid_chars b Hlen Hall) as Hc.
  unfold message_id. cbn [append].
  split; [eexists; reflexivity|].
  split.
  - cbn [is_ncname]. apply andb_true_intro. split; [reflexivity|].
    apply forallb_forall. intros c Hin. rewrite Forall_forall in Hc. exact (proj1 (Hc c Hin)).
  - cbn [list_ascii_of_string forallb]. apply andb_true_intro. split; [reflexivity|].
    apply forallb_forall. intros c Hin. rewrite Forall_forall in Hc. exact (proj2 (Hc c Hin)).
Qed.

(* ---------- histories: identifiers over any sequence of constructions ---------- *)
(* One construction = one 16-byte read of the random source (tagged with whatever the caller likes: the message kind,
   the service-provider instance, the goroutine). The identifiers of a history repeat only where the source's free bits
   repeat; so with pairwise distinct free bits, no identifier repeats, for a history of any length. *)
Definition read_ok (b : list N) : Prop := List.length b = 16%nat /\ Forall (fun x => x < 256) b.

Lemma message_id_inj_uuid b b' : message_id b = message_id b' -> uuid_of_bytes b = uuid_of_bytes b'.
Proof. unfold message_id. cbn [append]. intros E. inversion E. reflexivity. Qed.

Lemma message_id_injective_on_free_bits b b' :
  read_ok b -> read_ok b' -> message_id b = message_id b' -> free_bits b = free_bits b'.
Proof.
  intros [Hl Ha] [Hl' Ha'] E. apply uuid_injective_on_free_bits; try assumption.
  apply message_id_inj_uuid. exact E.
Qed.

Lemma history_ids_nodup (A : Type) (h : list (A * list N)) :
  Forall (fun e => read_ok (snd e)) h ->
  NoDup (map (fun e => free_bits (snd e)) h) ->
  NoDup (map (fun e => message_id (snd e)) h).
Proof.
  induction h as [|e h IH]; intros Hok Hnd; cbn [map] in *; [constructor|].
  inversion Hok as [|? ? Hoke Hokh]; subst. inversion Hnd as [|? ? Hnin Hndh]; subst.
  constructor; [|apply IH; assumption].
  intros Hin. apply Hnin. apply in_map_iff in Hin. destruct Hin as [e' [E Hin']].
  apply in_map_iff. exists e'. split; [|exact Hin'].
  rewrite Forall_forall in Hokh.
  apply message_id_injective_on_free_bits; [apply Hokh; exact Hin' | exact Hoke | exact E].
Qed.

(* the contrapositive with the witnesses: two positions of a history carrying the same identifier read the same
   122 free bits from the source *)
Lemma history_repeat_is_source_collision (A : Type) (h : list (A * list N)) (i j : nat) (ei ej : A * list N) :
  Forall (fun e => read_ok (snd e)) h ->
  nth_error h i = Some ei -> nth_error h j = Some ej ->
  message_id (snd ei) = message_id (snd ej) -> free_bits (snd ei) = free_bits (snd ej).
Proof.
  intros Hok Hi Hj E. rewrite Forall_forall in Hok.
  apply message_id_injective_on_free_bits; [apply Hok; eapply nth_error_In; exact Hi | apply Hok; eapply nth_error_In; exact Hj | exact E].
Qed.

(* a history where the premises hold and the conclusion is not trivial: three constructions, two of which differ only in
   a free bit of byte 6, one only in a FORCED bit of byte 6 (that one collides, as it must) *)
Definition hist_b0 : list N := [1;2;3;4;5;6;7;8;9;10;11;12;13;14;15;16].
Definition hist_b1 : list N := [1;2;3;4;5;6;6;8;9;10;11;12;13;14;15;16].
Definition hist_b2 : list N := [1;2;3;4;5;6;135;8;9;10;11;12;13;14;15;16].
Lemma history_example :
  NoDup (map (fun e => message_id (snd e)) [(0%nat, hist_b0); (1%nat, hist_b1)]) /\
  message_id hist_b0 = message_id hist_b2 /\ free_bits hist_b0 = free_bits hist_b2 /\ hist_b0 <> hist_b2.
Proof.
  split; [|split; [vm_compute; reflexivity|split; [vm_compute; reflexivity|discriminate]]].
  apply (history_ids_nodup nat).
  - repeat constructor; vm_compute; reflexivity.
  - vm_compute. repeat constructor; cbn [In]; intros H; repeat (destruct H as [H|H]; [discriminate H|]); exact H.
Qed.

(* ---------- the random source (facts gen/ extracted from uuid/uuid.go) ---------- *)
Lemma random_source_is_crypto_rand :
  In "crypto/rand" uuid_imports /\
  (forall i, In i uuid_imports -> prefix "math/rand" i = false) /\
  uuid_random_reads = ["rand.Read(u[:16])"].
Proof.
  split; [cbn; auto|]. split; [|reflexivity].
  intros i H. repeat (destruct H as [<-|H]; [reflexivity|]). destruct H.
Qed.

(* ---------- non-vacuity ---------- *)
Example uuid_example :
  uuid_of_bytes [0; 1; 2; 3; 4; 5; 255; 7; 255; 9; 10; 11; 12; 13; 14; 15] = "00010203-0405-4f07-bf09-0a0b0c0d0e0f" /\
  message_id (map N.of_nat (seq 100 16)) = "_64656667-6869-4a6b-ac6d-6e6f70717273".
Proof. split; vm_compute; reflexivity. Qed.

(* bytes that differ only in forced bits give the same identifier; bytes that differ in a free bit do not *)
Example forced_bits_only :
  uuid_of_bytes [0;0;0;0;0;0;0;0;0;0;0;0;0;0;0;0] = uuid_of_bytes [0;0;0;0;0;0;240;0;192;0;0;0;0;0;0;0] /\
  uuid_of_bytes [0;0;0;0;0;0;0;0;0;0;0;0;0;0;0;0] <> uuid_of_bytes [0;0;0;0;0;0;1;0;0;0;0;0;0;0;0;0].
Proof. split; [vm_compute; reflexivity | vm_compute; discriminate]. Qed.
