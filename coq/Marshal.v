(* Marshal.v — generic, schema-driven interpreter of encoding/xml.Marshal (go1.24.0, marshal.go / typeinfo.go / xml.go)
   for values of struct types described by a struct-tag schema in the representation of SchemaDefs.v (the one gen/
   extracts from /repo), plus the table of `omitempty` flags.

   What xml.Marshal(v) does for these types, as modelled (printer.marshalValue / marshalAttr / marshalStruct / writeStart /
   writeEnd / EscapeText):
     * value: `omitempty` and isEmptyValue => nothing; nil pointer => nothing; pointers are followed; a slice (not []byte)
       is the sequence of its elements, each marshalled with the SAME field info (so `omitempty` is re-tested per element);
       time.Time is an encoding.TextMarshaler: start tag, MarshalText, end tag;
     * start element name: the XMLName tag of the struct type if it has a name, else the (name space, name) of the field
       tag, else the Go type name;   `xmlns="..."` is written on EVERY element whose name has a name space (go1.24
       writeStart: `if start.Name.Space != ""` — the printer does NOT track the enclosing default name space), as the
       first attribute, its value escaped like any attribute value;
     * attributes: the `,attr` fields in declaration order; `omitempty`: "" / 0 / false / nil / empty slice omitted; nil
       pointer omitted; string, int (FormatInt base 10), bool (FormatBool), []byte, time.Time (MarshalText: RFC 3339 with
       nanoseconds, an ERROR when the year is outside 0..9999);
     * content: the other fields in declaration order: `,chardata` (escaped text; a nil pointer writes nothing), element
       fields with their `a>b` parent paths (parentStack.trim / push: parents shared by consecutive fields are opened once,
       not opened for a nil pointer), nested structs, scalar element fields;
     * no indentation (Marshal, not MarshalIndent); an element without content is written <a></a>;
     * escaping of text and attribute values: xml.EscapeText  double quote -> &#34;  apostrophe -> &#39;  & < > -> &amp; &lt; &gt;
       TAB LF CR -> &#x9; &#xA; &#xD;   a rune outside the XML Char range or an invalid UTF-8 byte -> U+FFFD.
   Not modelled (the interpreter answers [Err (EOther "marshal: not modelled: ...")]; none occurs in the metadata types):
   Marshaler / MarshalerAttr implementations, attributes in a name space (prefix allocation), slices as attributes,
   `,innerxml`, `,comment`, `,cdata`, `,any`, an XMLName field without a name in its tag, embedded structs, interfaces,
   floats / unsigned integers, a time.Time outside UTC (a [GTime] is an instant; it is marshalled as t.UTC()).
   The tag-stack checks of writeEnd cannot fail for output produced by marshalValue and are not represented.

   Also here: the serialisation [go_write] of an element tree in encoding/xml's output syntax, the flattening of a tree into
   the printer's token stream, and a reader-side un-escaper with decimal references ([xml_read10]).  No proofs (P_Marshal.v). *)
From V Require Import Base Time Escape Xml SchemaDefs Schema.
Local Open Scope string_scope.
Local Open Scope list_scope.

(* ================================================================ 1. xml.EscapeText / printer.EscapeString *)
(* the switch of escapeText(w, s, escapeNewline = true): Some esc = the rune is replaced, None = copied *)
Definition go_esc (r : N) (w : nat) : option string :=
  if (r =? 34)%N then Some "&#34;"
  else if (r =? 39)%N then Some "&#39;"
  else if (r =? 38)%N then Some "&amp;"
  else if (r =? 60)%N then Some "&lt;"
  else if (r =? 62)%N then Some "&gt;"
  else if (r =? 9)%N then Some "&#x9;"
  else if (r =? 10)%N then Some "&#xA;"
  else if (r =? 13)%N then Some "&#xD;"
  else if negb (in_char_range r) || ((r =? RE)%N && Nat.eqb w 1) then Some repl_char
  else None.

Definition go_escape (s : string) : string := rune_map go_esc 0 true s.

(* ================================================================ 2. the printer's tokens *)
Inductive mtok :=
| MStart (name : string) (attrs : list (string * string))     (* <name k="v" ...>  (values not yet escaped) *)
| MEnd (name : string)                                        (* </name> *)
| MText (s : string).                                         (* EscapeText(s) *)

Definition dquote : string := String (Ascii.ascii_of_N 34) EmptyString.

Definition print_attr (kv : string * string) : string :=
  " " ++ fst kv ++ "=" ++ dquote ++ go_escape (snd kv) ++ dquote.

Fixpoint print_attrs (l : list (string * string)) : string :=
  match l with
  | [] => EmptyString
  | a :: r => print_attr a ++ print_attrs r
  end.

Definition print_mtok (t : mtok) : string :=
  match t with
  | MStart n a => "<" ++ n ++ print_attrs a ++ ">"
  | MEnd n => "</" ++ n ++ ">"
  | MText s => go_escape s
  end.

Fixpoint print_mtoks (l : list mtok) : string :=
  match l with
  | [] => EmptyString
  | t :: r => print_mtok t ++ print_mtoks r
  end.

(* ================================================================ 3. values *)
(* strconv.FormatInt(z, 10) *)
Definition int_text (z : Z) : string := string_of_list_ascii (append_int z 0).
(* strconv.FormatBool *)
Definition bool_text (b : bool) : string := if b then "true" else "false".

Definition not_modelled {A} (what : string) : res A := Err (EOther ("marshal: not modelled: " ++ what)%string).
Definition ill_typed {A} : res A := Err (EOther "marshal: value does not have the type of its field").
Definition time_error {A} : res A := Err (EOther "Time.MarshalText: year outside of range [0,9999]").

(* isEmptyValue *)
Definition is_empty_value (v : gval) : bool :=
  match v with
  | GStr s => s =?s ""
  | GInt z => (z =? 0)%Z
  | GBool b => negb b
  | GBytes _ s => s =?s ""
  | GPtr None => true
  | GPtr (Some _) => false
  | GSlice [] => true
  | GSlice (_ :: _) => false
  | GTime _ | GName _ _ | GStruct _ => false        (* structs are never empty *)
  end.

(* marshalSimple / MarshalText of a scalar *)
Definition simple_text (t : ftype) (v : gval) : res string :=
  match t, v with
  | TStr, GStr s => Ok s
  | TInt, GInt z => Ok (int_text z)
  | TBool, GBool b => Ok (bool_text b)
  | TBytes, GBytes _ s => Ok s
  | TTime, GTime i => match marshal_text_utc i with Some s => Ok s | None => time_error end
  | TStr, _ | TInt, _ | TBool, _ | TBytes, _ | TTime, _ => ill_typed
  | _, _ => Err (EOther "xml: unsupported type")
  end.

(* marshalAttr: None = no attribute written *)
Fixpoint attr_text (t : ftype) (v : gval) : res (option string) :=
  match t with
  | TPtr t' =>
      match v with
      | GPtr None => match t' with
                     | TTime => not_modelled "nil *time.Time attribute (MarshalText on a nil pointer panics)"
                     | _ => Ok None
                     end
      | GPtr (Some v') => attr_text t' v'
      | _ => ill_typed
      end
  | TSlice _ => not_modelled "slice-valued attribute"
  | TStruct _ | TName => Err (EOther "xml: unsupported type")
  | _ => do s <- simple_text t v; Ok (Some s)
  end.

Definition is_omit (omit : list (string * list string)) (sname fgo : string) : bool :=
  match assoc_get sname omit with
  | Some l => existsb (fun x => x =?s fgo) l
  | None => false
  end.

(* parentStack.trim: the common prefix that stays open, and the end tags written (innermost first) *)
Fixpoint common_prefix (a b : list string) : list string :=
  match a, b with
  | x :: a', y :: b' => if x =?s y then x :: common_prefix a' b' else []
  | _, _ => []
  end.
Definition trim_stack (stack parents : list string) : list string * list mtok :=
  let keep := common_prefix parents stack in
  (keep, map MEnd (rev (skipn (List.length keep) stack))).
(* parentStack.push of parents[len(stack):] *)
Definition push_stack (stack parents : list string) : list string * list mtok :=
  (stack ++ skipn (List.length stack) parents, map (fun p => MStart p []) (skipn (List.length stack) parents)).

Fixpoint gval_height (v : gval) : nat :=
  match v with
  | GStruct fs => S ((fix go (l : list (string * gval)) := match l with [] => O | (_, x) :: r => Nat.max (gval_height x) (go r) end) fs)
  | GPtr (Some x) => S (gval_height x)
  | GSlice l => S ((fix go (l : list gval) := match l with [] => O | x :: r => Nat.max (gval_height x) (go r) end) l)
  | _ => O
  end.

Section Marshal.
  Variable sch : schema.
  Variable omit : list (string * list string).

  (* the attributes of a struct value, in field order *)
  Fixpoint marshal_attrs (sname : string) (fs : list field) (vals : list (string * gval)) : res (list (string * string)) :=
    match fs with
    | [] => Ok []
    | f :: r =>
        match f_kind f with
        | KAttr ns name =>
            let v := field_get vals f in
            if is_omit omit sname (f_go f) && is_empty_value v then marshal_attrs sname r vals
            else if negb (ns =?s "") then not_modelled "attribute in a name space"
            else do o <- attr_text (f_type f) v;
                 do rest <- marshal_attrs sname r vals;
                 Ok (match o with Some s => (name, s) :: rest | None => rest end)
        | _ => marshal_attrs sname r vals
        end
    end.

  (* `,chardata`: indirect(vf), then the scalar / TextMarshaler text; a nil pointer writes nothing *)
  Fixpoint chardata_text (t : ftype) (v : gval) : res (list mtok) :=
    match t with
    | TPtr t' => match v with
                 | GPtr None => Ok []
                 | GPtr (Some v') => chardata_text t' v'
                 | _ => ill_typed
                 end
    | TStr | TInt | TBool | TBytes | TTime => do s <- simple_text t v; Ok [MText s]
    | _ => Ok []                                        (* other kinds: the switch of marshalStruct writes nothing *)
    end.

  (* writeStart .. writeEnd around [content]; the start name is (space, local) *)
  Definition element (space local : string) (attrs : list (string * string)) (content : list mtok) : list mtok :=
    MStart local ((if space =?s "" then [] else [("xmlns", space)]) ++ attrs) :: content ++ [MEnd local].

  (* printer.marshalValue(val, finfo, nil).  [fspace]/[fname]: name space and name of the field tag ("" "" = no field:
     the top-level call);  [oe]: the field is tagged omitempty *)
  Fixpoint marshal_val (fuel : nat) (t : ftype) (v : gval) (fspace fname : string) (oe : bool) {struct fuel} : res (list mtok) :=
    match fuel with
    | O => Err (EOther "out of fuel")
    | S fuel' =>
      if oe && is_empty_value v then Ok []
      else
        (* after the pointers have been followed *)
        (fix deref (dfuel : nat) (t : ftype) (v : gval) {struct dfuel} : res (list mtok) :=
           match dfuel with
           | O => Err (EOther "out of fuel")
           | S dfuel' =>
             match t with
             | TPtr t' =>
                 match v with
                 | GPtr None => Ok []
                 | GPtr (Some v') => deref dfuel' t' v'
                 | _ => ill_typed
                 end
             | TTime =>                          (* marshalTextInterface with defaultStart *)
                 do s <- simple_text TTime v;
                 Ok (if fname =?s "" then element "" "Time" [] [MText s] else element fspace fname [] [MText s])
             | TSlice t' =>
                 match v with
                 | GSlice l =>
                     (fix each (l : list gval) : res (list mtok) :=
                        match l with
                        | [] => Ok []
                        | x :: r => do a <- marshal_val fuel' t' x fspace fname oe;
                                    do b <- each r; Ok (a ++ b)
                        end) l
                 | _ => ill_typed
                 end
             | TStruct sname =>
                 match assoc_get sname sch, v with
                 | None, _ => Err (EOther "unknown struct")
                 | Some fs, GStruct vals =>
                     do nm <- match xml_name_of fs with
                              | Some (xs, xl) =>
                                  if xl =?s "" then not_modelled "XMLName field without a name in its tag"
                                  else Ok (xs, xl)
                              | None => Ok (if fname =?s "" then ("", sname) else (fspace, fname))
                              end;
                     do attrs <- marshal_attrs sname fs vals;
                     (* marshalStruct: the non-attribute fields in order, threading the parent stack *)
                     do content <-
                        (fix fields (l : list field) (stack : list string) : res (list mtok) :=
                           match l with
                           | [] => Ok (snd (trim_stack stack []))
                           | f :: r =>
                               let fv := field_get vals f in
                               match f_kind f with
                               | KAttr _ _ | KXMLName _ _ | KSkip => fields r stack
                               | KCharData =>
                                   let '(st1, ends) := trim_stack stack [] in
                                   do c <- chardata_text (f_type f) fv;
                                   do rest <- fields r st1; Ok (ends ++ c ++ rest)
                               | KInnerXML => not_modelled "innerxml field"
                               | KElem parents ens ename =>
                                   let '(st1, ends) := trim_stack stack parents in
                                   let '(st2, starts) :=
                                     if Nat.ltb (List.length st1) (List.length parents)
                                        && negb (match fv with GPtr None => true | _ => false end)
                                     then push_stack st1 parents else (st1, []) in
                                   do c <- marshal_val fuel' (f_type f) fv ens ename (is_omit omit sname (f_go f));
                                   do rest <- fields r st2; Ok (ends ++ starts ++ c ++ rest)
                               end
                           end) fs [];
                     Ok (element (fst nm) (snd nm) attrs content)
                 | Some _, _ => ill_typed
                 end
             | TName =>                          (* xml.Name: a struct type without marshalled fields *)
                 Ok (if fname =?s "" then element "" "Name" [] [] else element fspace fname [] [])
             | TStr | TInt | TBool | TBytes =>   (* scalar element: marshalSimple, escaped *)
                 do s <- simple_text t v;
                 if fname =?s "" then not_modelled "top-level scalar"
                 else Ok (element fspace fname [] [MText s])
             end
           end) fuel t v
    end.
End Marshal.

(* xml.Marshal(v) for v of struct type [name] (or a pointer to it): the token stream and the bytes *)
Definition marshal_value (sch : schema) (omit : list (string * list string)) (name : string) (v : gval) : res (list mtok) :=
  marshal_val sch omit (S (S (gval_height v)) + List.length sch) (TStruct name) v "" "" false.

Definition marshal_bytes (sch : schema) (omit : list (string * list string)) (name : string) (v : gval) : res string :=
  do toks <- marshal_value sch omit name v; Ok (print_mtoks toks).

(* ================================================================ 4. element trees in encoding/xml's output syntax *)
(* Trees are Xml.node (the name space of an element is carried by its xmlns attribute, as in the bytes). *)
Definition node_attrs (a : list attr) : list (string * string) :=
  map (fun x => ((if at_space x =?s "" then at_key x else (at_space x ++ ":" ++ at_key x)%string), at_val x)) a.
Definition node_name (sp t : string) : string := if sp =?s "" then t else (sp ++ ":" ++ t)%string.

(* the printer's token stream of a tree (elements and character data only) *)
Fixpoint tree_mtoks (n : node) : list mtok :=
  match n with
  | Elem sp t a k =>
      MStart (node_name sp t) (node_attrs a) ::
      (fix go (l : list node) : list mtok := match l with [] => [] | x :: r => tree_mtoks x ++ go r end) k
      ++ [MEnd (node_name sp t)]
  | Text s => [MText s]
  | _ => []
  end.

(* the bytes of a tree: <name k="escaped" ...> children </name>, never self-closing, text escaped *)
Fixpoint go_write (n : node) : string :=
  match n with
  | Elem sp t a k =>
      "<" ++ node_name sp t ++ print_attrs (node_attrs a) ++ ">" ++
      (fix go (l : list node) : string := match l with [] => EmptyString | x :: r => (go_write x ++ go r)%string end) k
      ++ "</" ++ node_name sp t ++ ">"
  | Text s => go_escape s
  | _ => EmptyString
  end.

(* ================================================================ 5. reader side *)
(* references a conforming reader expands: the five named ones, &#xH..; and &#D..; *)
Definition xml_ref10 (s : string) : option (string * nat) :=
  match xml_ref s with
  | Some x => Some x
  | None =>
      match s with
      | String _ (String h r) =>
          if is_ch 35 h then
            match parse_dec 0 0 r with
            | Some (n, k) => Some (utf8_encode n, (k + 3)%nat)
            | None => None
            end
          else None
      | _ => None
      end
  end.
(* what a reader recovers from raw attribute-value / character-data bytes: line ends normalised in the RAW text
   (XML 1.0 2.11), then references expanded (a character reference is NOT normalised: &#xD; stays U+000D) *)
Definition xml_read10 (s : string) : string := unesc_go xml_ref10 0 (xml_eol_normalize s).

(* the tree a reader holds after reading [go_write n]: the same elements, every attribute value and character datum being
   what it recovers from the escaped bytes *)
Fixpoint map_values (f : string -> string) (n : node) : node :=
  match n with
  | Elem sp t a k =>
      Elem sp t (map (fun x => {| at_space := at_space x; at_key := at_key x; at_val := f (at_val x) |}) a)
           (map (map_values f) k)
  | Text s => Text (f s)
  | other => other
  end.
Definition reader_tree (n : node) : node := map_values (fun v => xml_read10 (go_escape v)) n.

(* the token view of a PARSED document (what Decoder.Token yields for the bytes): the values are the reader's values, nothing
   is normalised on top -- the same function as Schema.view (xmlUnmarshalElement's canonical re-serialisation) and
   Schema.view_direct; Schema.view_original (etree's default write settings) would normalise U+000D once more *)
Fixpoint view_parsed (ns : list (string * string)) (n : node) : list xnode :=
  match n with
  | Elem sp tg attrs kids =>
      let ns' := push_decls ns attrs in
      [XElem (translate_name ns' sp tg true) tg
             (map (fun a => {| xa_space := translate_name ns' (at_space a) (at_key a) false;
                               xa_local := at_key a; xa_val := at_val a |}) attrs)
             (flat_map (view_parsed ns') kids)]
  | Text s => [XText s]
  | _ => []
  end.

(* xml.Unmarshal(bytes, &T{}) where [root] is the parsed document element of the bytes *)
Definition unmarshal_parsed (sch : schema) (name : string) (root : node) : res gval :=
  match view_parsed [] root with
  | [x] => unmarshal sch (Datatypes.S (Datatypes.S (height root)) + xsize x) (TStruct name) (GStruct []) x
  | _ => Err (EOther "no root element")
  end.

(* observable of the correspondence run *)
Definition marshal_obs (sch : schema) (omit : list (string * list string)) (name : string) (v : gval) : val :=
  res_val VS (marshal_bytes sch omit name v).
