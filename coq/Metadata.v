(* Metadata.v — executable model of SAMLServiceProvider.Metadata / MetadataWithSLO (saml.go) producing a record that
   mirrors types.EntityDescriptor (types/metadata.go), including the validity arithmetic:
     time.Duration(validityHours) * time.Hour      int64 nanoseconds, wraps modulo 2^64
     Time.UTC().Add(d)                             go1.24.0 time.go: Add / addSec (saturating on the internal seconds)
   Constants (binding, protocol namespace, advertised methods) come from Generated.v.
   The ORIGINAL code (git a3bc48c) is modelled as [metadata_orig] / [metadata_with_slo_orig] for the `_refuted` witnesses.
   encoding/xml marshalling of the descriptor: [marshal_descriptor] = the generic interpreter of Marshal.v run on the
   struct-tag schema of the marshalled types that gen/ extracts from /repo on every run (Generated.metadata_schema /
   metadata_omitempty); [descriptor_tree] is the hand-written SAML metadata document the theorems compare it with. *)
From V Require Import Base Time Escape Xml SchemaDefs Schema ConcDefs Generated Keys Marshal XmlTok.
Local Open Scope string_scope.
Local Open Scope list_scope.
Local Open Scope Z_scope.

(* ---------- int64 / time arithmetic ---------- *)
Definition two63 : Z := 9223372036854775808.
Definition two64 : Z := 18446744073709551616.
(* two's complement wrap-around of Go's int64 arithmetic *)
Definition wrap64 (z : Z) : Z := (z + two63) mod two64 - two63.

Definition second_ns : Z := 1000000000.
Definition hour_ns : Z := 3600000000000.              (* time.Hour *)
Definition seven_days_ns : Z := hour_ns * 24 * 7.     (* time.Hour * 24 * 7, a constant expression *)
Definition unix_to_internal : Z := 62135596800.       (* time.go: unixToInternal *)

(* time.go addSec on a Time without monotonic reading (UTC() strips it):
     sum := t.ext + d; if (sum > t.ext) == (d > 0) { t.ext = sum } else if d > 0 { max } else { -max } *)
Definition sat_add_sec (ext d : Z) : Z :=
  let sum := wrap64 (ext + d) in
  if Bool.eqb (ext <? sum) (0 <? d) then sum
  else if 0 <? d then two63 - 1 else - (two63 - 1).

(* time.go Add: dsec := d / 1e9; nsec := t.nsec() + d % 1e9 (truncated division); carry; addSec *)
Definition time_add (t : instant) (d : Z) : instant :=
  let dsec := Z.quot d second_ns in
  let nsec := i_nsec t + Z.rem d second_ns in
  let dn := if second_ns <=? nsec then (dsec + 1, nsec - second_ns)
            else if nsec <? 0 then (dsec - 1, nsec + second_ns)
            else (dsec, nsec) in
  {| i_sec := sat_add_sec (i_sec t + unix_to_internal) (fst dn) - unix_to_internal; i_nsec := snd dn |}.

(* instants for which Go's own representation is exact and Add cannot saturate: normalised nanoseconds and
   internal seconds within +-2^62 (about +-146e9 years) *)
Definition instant_ok (t : instant) : Prop :=
  0 <= i_nsec t < second_ns /\ - 4611686018427387904 <= i_sec t + unix_to_internal <= 4611686018427387904.

(* ---------- the descriptor ---------- *)
Record key_descriptor := {
  kd_use : string;
  kd_cert : string;              (* X509Certificate text: base64 of the certificate bytes *)
  kd_methods : list string;      (* EncryptionMethod Algorithm values (DigestMethod is nil for all of them) *)
  (* the complete shape of the Go value (not rendered by [kd_val]; what the translated source, GenMeta.v, is compared on) *)
  kd_key_info : list string;                 (* KeyInfo.X509Data.X509Certificates: every Data text, in order; kd_cert is the first *)
  kd_method_digests : list (option string)   (* DigestMethod of every EncryptionMethod, in order; None = nil *)
}.

Record entity_descriptor := {
  ed_valid_until : instant;
  ed_entity_id : string;
  ed_authn_requests_signed : bool;
  ed_want_assertions_signed : bool;
  ed_protocol : string;                              (* protocolSupportEnumeration *)
  ed_key_descriptors : list key_descriptor;
  ed_acs : list (string * string * Z);               (* AssertionConsumerService: Binding, Location, index *)
  ed_slo : list (string * string);                   (* SingleLogoutService: Binding, Location *)
  ed_spsso_present : bool                            (* SPSSODescriptor != nil (its fields are kept inline above; not in [ed_val]) *)
}.

Record md_config := {
  mc_keys : keycfg;
  mc_issuer : string;            (* ServiceProviderIssuer *)
  mc_acs_url : string;           (* AssertionConsumerServiceURL *)
  mc_slo_url : string;           (* ServiceProviderSLOURL *)
  mc_sign_requests : bool;       (* SignAuthnRequests *)
  mc_skip_sig : bool             (* SkipSignatureValidation *)
}.

Definition use_signing : string := "signing".
Definition use_encryption : string := "encryption".

Definition signing_descriptor (cert : string) : key_descriptor :=
  {| kd_use := use_signing; kd_cert := base64_encode cert; kd_methods := [];
     kd_key_info := [base64_encode cert]; kd_method_digests := [] |}.
Definition encryption_descriptor (methods : list string) (cert : string) : key_descriptor :=
  {| kd_use := use_encryption; kd_cert := base64_encode cert; kd_methods := methods;
     kd_key_info := [base64_encode cert]; kd_method_digests := map (fun _ => None) methods |}.

Definition descriptor (c : md_config) (valid_until : instant) (kds : list key_descriptor) (slo : bool) : entity_descriptor :=
  {| ed_valid_until := valid_until;
     ed_entity_id := mc_issuer c;
     ed_authn_requests_signed := mc_sign_requests c;
     ed_want_assertions_signed := negb (mc_skip_sig c);
     ed_protocol := c_SAMLProtocolNamespace;
     ed_key_descriptors := kds;
     ed_acs := [(c_BindingHttpPost, mc_acs_url c, 1)];
     ed_slo := if slo then [(c_BindingHttpPost, mc_slo_url c)] else [];
     ed_spsso_present := true |}.

(* ---------- saml.go: Metadata (CURRENT code) ---------- *)
Definition metadata (c : md_config) (now : instant) : res entity_descriptor :=
  do sc <- get_signing_cert (mc_keys c);
  let kds := if (sc =?s "")%string then [] else [signing_descriptor sc] in
  do ec <- get_encryption_cert_bytes (mc_keys c);
  (* "if encryptionCertBytes != nil": always true here, GetEncryptionCertBytes returned a non-empty slice *)
  let kds := kds ++ [encryption_descriptor advertised_methods_Metadata ec] in
  Ok (descriptor c (time_add now seven_days_ns) kds false).

(* ---------- saml.go: MetadataWithSLO (CURRENT code) ---------- *)
Definition metadata_with_slo (c : md_config) (now : instant) (validity_hours : Z) : res entity_descriptor :=
  do sc <- get_signing_cert_bytes (mc_keys c);
  do ec <- get_encryption_cert_bytes (mc_keys c);
  let h := if validity_hours <=? 0 then 24 * 7 else validity_hours in
  Ok (descriptor c (time_add now (wrap64 (h * hour_ns)))
        [signing_descriptor sc; encryption_descriptor advertised_methods_MetadataWithSLO ec] true).

(* ---------- ORIGINAL code (a3bc48c) ---------- *)
(* "if sp.GetSigningKey() != nil { signingCertBytes, err := sp.GetSigningCertBytes() ... }" *)
Definition metadata_orig (c : md_config) (now : instant) : res entity_descriptor :=
  do kds <- match get_signing_key (mc_keys c) with
            | Some _ => do sc <- get_signing_cert_bytes (mc_keys c); Ok [signing_descriptor sc]
            | None => Ok []
            end;
  do ec <- get_encryption_cert_bytes (mc_keys c);
  let kds := kds ++ [encryption_descriptor advertised_methods_Metadata ec] in
  Ok (descriptor c (time_add now seven_days_ns) kds false).

(* "validityHours = int64(time.Hour * 24 * 7)" ... "Add(time.Duration(validityHours))" *)
Definition metadata_with_slo_orig (c : md_config) (now : instant) (validity_hours : Z) : res entity_descriptor :=
  do sc <- get_signing_cert_bytes (mc_keys c);
  do ec <- get_encryption_cert_bytes (mc_keys c);
  let h := if validity_hours <=? 0 then seven_days_ns else validity_hours in
  Ok (descriptor c (time_add now h)
        [signing_descriptor sc; encryption_descriptor advertised_methods_MetadataWithSLO ec] true).

(* ---------- projections used by the theorems ---------- *)
Definition published (use : string) (ed : entity_descriptor) : list string :=
  map kd_cert (filter (fun kd => (kd_use kd =?s use)%string) (ed_key_descriptors ed)).

(* every method listed by some case list of a switch *)
Definition switch_cases_all (cases : list (list string)) : list string := List.concat cases.

(* ---------- xml.Marshal of the descriptor ---------- *)
(* the Go value as the interpreter of Marshal.v sees it: every field the source sets, by its Go name *)
Fixpoint method_gvals (ms : list string) (ds : list (option string)) : list gval :=
  match ms with
  | [] => []
  | m :: r =>
      GStruct [("Algorithm", GStr m);
               ("DigestMethod", GPtr (match hd None ds with
                                      | Some a => Some (GStruct [("Algorithm", GStr a)])
                                      | None => None
                                      end))] :: method_gvals r (tl ds)
  end.

Definition kd_gval (kd : key_descriptor) : gval :=
  GStruct [("Use", GStr (kd_use kd));
           ("KeyInfo", GStruct [("X509Data", GStruct [("X509Certificates",
                          GSlice (map (fun s => GStruct [("Data", GStr s)]) (kd_key_info kd)))])]);
           ("EncryptionMethods", GSlice (method_gvals (kd_methods kd) (kd_method_digests kd)))].

Definition descriptor_gval (d : entity_descriptor) : gval :=
  GStruct [("ValidUntil", GTime (ed_valid_until d));
           ("EntityID", GStr (ed_entity_id d));
           ("SPSSODescriptor", GPtr (if ed_spsso_present d then Some (GStruct [
               ("AuthnRequestsSigned", GBool (ed_authn_requests_signed d));
               ("WantAssertionsSigned", GBool (ed_want_assertions_signed d));
               ("ProtocolSupportEnumeration", GStr (ed_protocol d));
               ("KeyDescriptors", GSlice (map kd_gval (ed_key_descriptors d)));
               ("SingleLogoutServices", GSlice (map (fun e => match e with (b, l) =>
                                            GStruct [("Binding", GStr b); ("Location", GStr l)] end) (ed_slo d)));
               ("AssertionConsumerServices", GSlice (map (fun e => match e with (b, l, i) =>
                                            GStruct [("Binding", GStr b); ("Location", GStr l); ("Index", GInt i)] end) (ed_acs d)))])
             else None))].

(* xml.Marshal(descriptor): the bytes, or the error of time.Time.MarshalText *)
Definition marshal_descriptor (d : entity_descriptor) : res string :=
  marshal_bytes metadata_schema metadata_omitempty "EntityDescriptor" (descriptor_gval d).

(* The SAML metadata document of a descriptor, written down by hand (saml-metadata-2.0-os 2.3.2, 2.4.1, 2.4.1.1, 2.4.2,
   2.4.4; XML-Signature KeyInfo): element names, their name spaces (carried by xmlns attributes, as encoding/xml writes
   them: on every element whose Go type declares one; the other elements inherit the default name space in scope),
   attribute names and order, children in the order of the sequence, values un-escaped.  [vu] is the validUntil text. *)
Definition md_ns : string := "urn:oasis:names:tc:SAML:2.0:metadata".
Definition ds_ns : string := "http://www.w3.org/2000/09/xmldsig#".
Definition xa (k v : string) : attr := {| at_space := ""; at_key := k; at_val := v |}.

Definition method_tree (m : string) (dg : option string) : node :=
  Elem "" "EncryptionMethod" (if (m =?s "")%string then [] else [xa "Algorithm" m])
       (match dg with
        | Some a => [Elem "" "DigestMethod" (if (a =?s "")%string then [] else [xa "Algorithm" a]) []]
        | None => []
        end).
Fixpoint method_trees (ms : list string) (ds : list (option string)) : list node :=
  match ms with
  | [] => []
  | m :: r => method_tree m (hd None ds) :: method_trees r (tl ds)
  end.

Definition kd_tree (kd : key_descriptor) : node :=
  Elem "" "KeyDescriptor" [xa "xmlns" md_ns; xa "use" (kd_use kd)]
    (Elem "" "KeyInfo" [xa "xmlns" ds_ns]
       [Elem "" "X509Data" [xa "xmlns" ds_ns]
          (map (fun s => Elem "" "X509Certificate" [xa "xmlns" ds_ns] [Text s]) (kd_key_info kd))]
     :: method_trees (kd_methods kd) (kd_method_digests kd)).

Definition descriptor_tree_with (vu : string) (d : entity_descriptor) : node :=
  Elem "" "EntityDescriptor" [xa "xmlns" md_ns; xa "validUntil" vu; xa "entityID" (ed_entity_id d)]
    (if ed_spsso_present d then
       [Elem "" "SPSSODescriptor"
          [xa "xmlns" md_ns; xa "AuthnRequestsSigned" (bool_text (ed_authn_requests_signed d));
           xa "WantAssertionsSigned" (bool_text (ed_want_assertions_signed d));
           xa "protocolSupportEnumeration" (ed_protocol d)]
          (map kd_tree (ed_key_descriptors d)
           ++ map (fun e => match e with (b, l) => Elem "" "SingleLogoutService" [xa "Binding" b; xa "Location" l] [] end) (ed_slo d)
           ++ map (fun e => match e with (b, l, i) =>
                     Elem "" "AssertionConsumerService" [xa "Binding" b; xa "Location" l; xa "index" (int_text i)] [] end) (ed_acs d))]
     else []).

(* validUntil as time.Time.MarshalText writes it (RFC 3339, nanoseconds, "Z"); when MarshalText fails (year outside
   0..9999) there is no document: Marshal returns the error *)
Definition descriptor_tree (d : entity_descriptor) : option node :=
  match marshal_text_utc (ed_valid_until d) with
  | Some vu => Some (descriptor_tree_with vu d)
  | None => None
  end.

(* ---------- reading a descriptor back out of an unmarshalled value (Schema.gval), field by Go field name ---------- *)
Definition g_field (name : string) (g : gval) : option gval :=
  match g with GStruct fs => assoc_get name fs | _ => None end.
Definition g_sub (name : string) (o : option gval) : option gval :=
  match o with Some g => g_field name g | None => None end.
Definition g_str (o : option gval) : string := match o with Some (GStr s) => s | _ => "" end.
Definition g_bool (o : option gval) : bool := match o with Some (GBool b) => b | _ => false end.
Definition g_int (o : option gval) : Z := match o with Some (GInt z) => z | _ => 0 end.
Definition g_time (o : option gval) : instant := match o with Some (GTime t) => t | _ => zero_time end.
Definition g_slice (o : option gval) : list gval := match o with Some (GSlice l) => l | _ => [] end.

Definition gval_kd (g : gval) : key_descriptor :=
  let certs := map (fun x => g_str (g_field "Data" x))
                   (g_slice (g_sub "X509Certificates" (g_sub "X509Data" (g_field "KeyInfo" g)))) in
  let ms := g_slice (g_field "EncryptionMethods" g) in
  {| kd_use := g_str (g_field "Use" g);
     kd_cert := hd "" certs;
     kd_methods := map (fun m => g_str (g_field "Algorithm" m)) ms;
     kd_key_info := certs;
     kd_method_digests := map (fun m => match g_field "DigestMethod" m with
                                        | Some (GPtr (Some dg)) => Some (g_str (g_field "Algorithm" dg))
                                        | _ => None
                                        end) ms |}.

Definition gval_descriptor (g : gval) : entity_descriptor :=
  let sp := match g_field "SPSSODescriptor" g with Some (GPtr (Some s)) => Some s | _ => None end in
  {| ed_valid_until := g_time (g_field "ValidUntil" g);
     ed_entity_id := g_str (g_field "EntityID" g);
     ed_authn_requests_signed := g_bool (g_sub "AuthnRequestsSigned" sp);
     ed_want_assertions_signed := g_bool (g_sub "WantAssertionsSigned" sp);
     ed_protocol := g_str (g_sub "ProtocolSupportEnumeration" sp);
     ed_key_descriptors := map gval_kd (g_slice (g_sub "KeyDescriptors" sp));
     ed_acs := map (fun e => (g_str (g_field "Binding" e), g_str (g_field "Location" e), g_int (g_field "Index" e)))
                   (g_slice (g_sub "AssertionConsumerServices" sp));
     ed_slo := map (fun e => (g_str (g_field "Binding" e), g_str (g_field "Location" e)))
                   (g_slice (g_sub "SingleLogoutServices" sp));
     ed_spsso_present := match sp with Some _ => true | None => false end |}.

(* ---------- observables ---------- *)
Definition instant_val (t : instant) : val := VC "T" [VZ (i_sec t); VZ (i_nsec t)].
Definition kd_val (kd : key_descriptor) : val := VC "KD" [VS (kd_use kd); VS (kd_cert kd); VL (map VS (kd_methods kd))].
Definition ed_val (ed : entity_descriptor) : val :=
  VC "ED" [ instant_val (ed_valid_until ed); VS (ed_entity_id ed); VB (ed_authn_requests_signed ed);
            VB (ed_want_assertions_signed ed); VS (ed_protocol ed); VL (map kd_val (ed_key_descriptors ed));
            VL (map (fun e => match e with (b, l, i) => VL [VS b; VS l; VZ i] end) (ed_acs ed));
            VL (map (fun e => match e with (b, l) => VL [VS b; VS l] end) (ed_slo ed)) ].

(* what the reader-side models make of marshalled bytes: XmlTok.read_tree (encoding/xml RawToken + etree's tree builder),
   then Unmarshal (Schema.v on the generated metadata schema), projected like [ed_val]; compared with the real
   xml.Unmarshal of the real bytes *)
Definition readback_val (bytes : string) : val :=
  match read_tree bytes with
  | Ok t => match unmarshal_parsed metadata_schema "EntityDescriptor" t with
            | Ok g => VC "Ok" [ed_val (gval_descriptor g)]
            | Err _ => VC "UnmarshalErr" []
            end
  | Err _ => VC "ReadErr" []
  end.

(* the bytes of both variants (correspondence with xml.Marshal(sp.Metadata()) / xml.Marshal(sp.MetadataWithSLO(h))) and
   what is read back from them *)
Definition md_xml_obs (i : md_config * instant * Z) : val :=
  match i with
  | (c, now, h) =>
      let f d := res_val (fun b => VL [VS b; readback_val b]) (marshal_descriptor d) in
      VL [kres_val f (metadata c now); kres_val f (metadata_with_slo c now h)]
  end.

(* both variants for one configuration, clock and hour count *)
Definition md_obs (i : md_config * instant * Z) : val :=
  match i with (c, now, h) => VL [kres_val ed_val (metadata c now); kres_val ed_val (metadata_with_slo c now h)] end.

(* time_add alone, compared with Time.Add on sweeps of clocks and durations *)
Definition add_obs (i : instant * Z) : val :=
  match i with (t, d) => instant_val (time_add t d) end.
Definition hours_obs (h : Z) : val := VZ (wrap64 (h * hour_ns)).

(* one generated case of the C19 check: fields set directly, setter calls in order, options, clock, strings, hours *)
Record c19_case := {
  cc_fields : keycfg;
  cc_calls : list setter_call;
  cc_validate : bool;
  cc_now : instant;
  cc_alg : string;
  cc_certs : list (string * (instant * instant));
  cc_abbrev : list (string * string);
  cc_issuer : string;
  cc_acs_url : string;
  cc_slo_url : string;
  cc_sign_requests : bool;
  cc_skip_sig : bool;
  cc_hours : Z
}.

Definition c19_obs (k : c19_case) : val :=
  let (cfg, rs) := apply_calls (cc_fields k) (cc_calls k) in
  abbrev (cc_abbrev k) (VL [ VL rs;
       key_obs {| kcase_cfg := cfg; kcase_validate := cc_validate k; kcase_now := cc_now k; kcase_alg := cc_alg k;
                  kcase_certs := cc_certs k |};
       md_obs ({| mc_keys := cfg; mc_issuer := cc_issuer k; mc_acs_url := cc_acs_url k; mc_slo_url := cc_slo_url k;
                  mc_sign_requests := cc_sign_requests k; mc_skip_sig := cc_skip_sig k |}, cc_now k, cc_hours k) ]).

(* the marshalled bytes of both variants for the same generated case *)
Definition c19_xml_obs (k : c19_case) : val :=
  let (cfg, _) := apply_calls (cc_fields k) (cc_calls k) in
  abbrev (cc_abbrev k) (md_xml_obs ({| mc_keys := cfg; mc_issuer := cc_issuer k; mc_acs_url := cc_acs_url k; mc_slo_url := cc_slo_url k;
                 mc_sign_requests := cc_sign_requests k; mc_skip_sig := cc_skip_sig k |}, cc_now k, cc_hours k)).

(* stale-cache scenario: configuration [calls1], first signature, then [calls2], second signature *)
Definition c19_stale_obs (i : keycfg * list setter_call * list setter_call * string * list (string * string)) : val :=
  match i with
  | (fields, calls1, calls2, alg, tbl) =>
      let c1 := fst (apply_calls fields calls1) in
      let c2 := fst (apply_calls c1 calls2) in
      abbrev tbl (stale_obs alg c1 c2)
  end.
