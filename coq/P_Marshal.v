(* P_Marshal.v — lemmas about the model of encoding/xml.Marshal (Marshal.v) and the marshalled SP metadata (Metadata.v):
     1. the struct-tag schema of the marshalled types extracted from /repo equals the normative table (SamlSchema.v);
     2. xml.EscapeText: its output contains no '<', no double quote, no raw CR; a conforming reader (line-end
        normalisation, then the named / hexadecimal / decimal references) recovers every string XML can carry, U+000D
        included (it is written &#xD;); what XML cannot carry is replaced by U+FFFD (witness);
     3. printing the token stream of a tree = [go_write] of the tree; the tokenizer of P_Build.v accepts [go_write t] and
        yields exactly the tokens of t (balanced tags, the given names, every value escaped);
     4. for every descriptor Metadata() / MetadataWithSLO() return: the interpreter run on the generated schema succeeds
        and emits exactly the tokens of the hand-written metadata document [descriptor_tree]; outside years 0..9999 it
        returns MarshalText's error;
     5. Unmarshal (Schema.v's interpreter on the same generated schema) of that document gives back every value. *)
From V Require Import Base Time TimeProofs Escape EscapeProofs Xml SchemaDefs Schema ConcDefs Generated Keys Marshal Metadata
  SamlSchema P_Build P_Metadata.
Local Open Scope string_scope.
Local Open Scope list_scope.

(* ================================================================ 1. schema *)
Lemma marshal_schema_is_saml_metadata :
  metadata_schema = saml_metadata_schema /\ metadata_omitempty = saml_metadata_omitempty.
Proof. split; vm_compute; reflexivity. Qed.

(* ================================================================ 2. xml.EscapeText *)
Ltac gesc_inv F :=
  unfold go_esc in F;
  repeat match type of F with
         | None = Some _ => discriminate F
         | Some _ = Some _ => injection F as <-
         | (if ?b then _ else _) = Some _ => destruct b
         end.

Lemma go_escape_no_lt s : no_byte 60 (go_escape s) = true.
Proof.
  unfold no_byte, go_escape. apply rune_map_str_all.
  - bytes.
  - bytes.
  - intros rn w e F. gesc_inv F; reflexivity.
Qed.

Lemma go_escape_no_dq s : no_byte 34 (go_escape s) = true.
Proof.
  unfold no_byte, go_escape. apply rune_map_str_all.
  - bytes.
  - bytes.
  - intros rn w e F. gesc_inv F; reflexivity.
Qed.

Lemma go_escape_no_cr s : no_byte 13 (go_escape s) = true.
Proof.
  unfold no_byte, go_escape. apply rune_map_str_all.
  - bytes.
  - bytes.
  - intros rn w e F. gesc_inv F; reflexivity.
Qed.

Lemma go_undo c : (code c < 128)%N -> xml_rune_ok (code c) 1%nat = true ->
  match go_esc (code c) 1%nat with
  | Some e => forall rest, unesc_go xml_ref10 0 (e ++ rest) = String c (unesc_go xml_ref10 0 rest)
  | None => forall rest, unesc_go xml_ref10 0 (String c rest) = String c (unesc_go xml_ref10 0 rest)
  end.
Proof.
  intros L OK. unfold go_esc.
  destruct (N.eqb_spec (code c) 34) as [E|_]; [apply code_eq in E; subst c; intro; reflexivity|].
  destruct (N.eqb_spec (code c) 39) as [E|_]; [apply code_eq in E; subst c; intro; reflexivity|].
  destruct (N.eqb_spec (code c) 38) as [E|E38]; [apply code_eq in E; subst c; intro; reflexivity|].
  assert (NA : forall rest, unesc_go xml_ref10 0 (String c rest) = String c (unesc_go xml_ref10 0 rest)).
  { intro. apply unesc_not_amp. apply N.eqb_neq. exact E38. }
  destruct (N.eqb_spec (code c) 60) as [E|_]; [apply code_eq in E; subst c; intro; reflexivity|].
  destruct (N.eqb_spec (code c) 62) as [E|_]; [apply code_eq in E; subst c; intro; reflexivity|].
  destruct (N.eqb_spec (code c) 9) as [E|_]; [apply code_eq in E; subst c; intro; reflexivity|].
  destruct (N.eqb_spec (code c) 10) as [E|_]; [apply code_eq in E; subst c; intro; reflexivity|].
  destruct (N.eqb_spec (code c) 13) as [E|_]; [apply code_eq in E; subst c; intro; reflexivity|].
  unfold xml_rune_ok in OK. apply andb_true_iff in OK as [_ OK]. rewrite OK.
  destruct (N.eqb_spec (code c) RE) as [E|_]; [unfold RE in E; lia|]. exact NA.
Qed.

Lemma go_esc_high rn w : (128 <= rn)%N -> xml_rune_ok rn w = true -> go_esc rn w = None.
Proof.
  intros H OK. unfold go_esc.
  repeat match goal with
         | |- context [(rn =? ?k)%N] =>
             lazymatch k with RE => fail | _ => destruct (N.eqb_spec rn k); [lia|] end
         end.
  unfold xml_rune_ok, not_decode_error in OK.
  destruct (in_char_range rn), (rn =? RE)%N, (Nat.eqb w 1); cbn in *; congruence.
Qed.

(* Premise [valid_xml_text s]: well-formed UTF-8, every character in the XML Char production
   #x9 | #xA | #xD | [#x20-#xD7FF] | [#xE000-#xFFFD] | [#x10000-#x10FFFF].  U+000D needs no exception here: EscapeText
   writes it as &#xD;, the raw text contains no CR for the reader's line-end normalisation to touch, and a character
   reference is not normalised. *)
Theorem xml_read10_go_escape s : valid_xml_text s = true -> xml_read10 (go_escape s) = s.
Proof.
  intros V. unfold xml_read10. rewrite xml_eol_normalize_no_cr by apply go_escape_no_cr.
  unfold go_escape.
  apply (roundtrip_gen go_esc xml_rune_ok (unesc_go xml_ref10 0)).
  - reflexivity.
  - intros c rest H. apply unesc_not_amp, high_is_not_amp, H.
  - intros c L OK. apply (go_undo c L OK).
  - apply go_esc_high.
  - exact V.
  - reflexivity.
Qed.

(* what XML cannot carry is not preserved: NUL, U+FFFE and an invalid UTF-8 byte all come back as U+FFFD *)
Lemma uncarriable_replaced :
  map (fun s => xml_read10 (go_escape s)) [B [97; 0; 98]%N; B [239; 191; 190]%N; B [97; 255]%N]
  = [("a" ++ repl_char ++ "b")%string; repl_char; ("a" ++ repl_char)%string].
Proof. vm_compute. reflexivity. Qed.

(* U+000D is preserved (contrast P_Build.cr_value_not_recovered for etree's writer) *)
Lemma cr_preserved : go_escape cr_value = "a&#xD;b" /\ xml_read10 (go_escape cr_value) = cr_value.
Proof. vm_compute. split; reflexivity. Qed.

(* ================================================================ 3. trees, tokens, bytes *)
Lemma print_mtoks_app a b : print_mtoks (a ++ b) = (print_mtoks a ++ print_mtoks b)%string.
Proof.
  induction a as [|x a IH]; [reflexivity|]. cbn [app print_mtoks]. rewrite IH, app_assoc_s. reflexivity.
Qed.

Fixpoint kids_mtoks (l : list node) : list mtok :=
  match l with [] => [] | x :: r => tree_mtoks x ++ kids_mtoks r end.
Fixpoint go_write_kids (l : list node) : string :=
  match l with [] => EmptyString | x :: r => (go_write x ++ go_write_kids r)%string end.

Lemma tree_mtoks_elem sp t a k :
  tree_mtoks (Elem sp t a k) = MStart (Marshal.node_name sp t) (node_attrs a) :: kids_mtoks k ++ [MEnd (Marshal.node_name sp t)].
Proof.
  reflexivity.
Qed.

Lemma go_write_elem sp t a k :
  go_write (Elem sp t a k) =
  ("<" ++ Marshal.node_name sp t ++ print_attrs (node_attrs a) ++ ">" ++ go_write_kids k ++ "</" ++ Marshal.node_name sp t ++ ">")%string.
Proof.
  reflexivity.
Qed.

(* the bytes printed for the token stream of a tree are the serialisation of the tree *)
Theorem print_tree_mtoks n : print_mtoks (tree_mtoks n) = go_write n.
Proof.
  induction n as [sp t a k IHk | | | |] using node_ind_kids; try reflexivity.
  - rewrite tree_mtoks_elem, go_write_elem. cbn [print_mtoks print_mtok].
    rewrite print_mtoks_app. cbn [print_mtoks print_mtok]. rewrite !app_assoc_s. cbn [append].
    do 4 f_equal.
    assert (HK : print_mtoks (kids_mtoks k) = go_write_kids k).
    { induction IHk as [|x k Hx Hk IH]; [reflexivity|]. cbn [kids_mtoks go_write_kids]. rewrite print_mtoks_app, Hx, IH. reflexivity. }
    rewrite HK. reflexivity.
  - cbn [tree_mtoks print_mtoks print_mtok go_write]. apply app_nil_r_s.
Qed.

(* ---- the tokens a reader sees: P_Build's token type; start tags never self-closing, values escaped ---- *)
Definition gattrs (l : list (string * string)) : list (string * string) := map (fun kv => (fst kv, go_escape (snd kv))) l.

Fixpoint gtokens (n : node) : list tok :=
  match n with
  | Elem sp t a k =>
      TStart (Marshal.node_name sp t) (gattrs (node_attrs a)) false ::
      (fix tk (acc : string) (l : list node) : list tok :=
         match l with
         | [] => chars acc
         | Text s :: r => tk (acc ++ go_escape s)%string r
         | x :: r => chars acc ++ gtokens x ++ tk EmptyString r
         end) EmptyString k ++ [TEnd (Marshal.node_name sp t)]
  | Text s => chars (go_escape s)
  | _ => []
  end.

Fixpoint gtokens_kids (acc : string) (l : list node) : list tok :=
  match l with
  | [] => chars acc
  | Text s :: r => gtokens_kids (acc ++ go_escape s)%string r
  | x :: r => chars acc ++ gtokens x ++ gtokens_kids EmptyString r
  end.

Lemma gtokens_elem sp t a k :
  gtokens (Elem sp t a k) =
  TStart (Marshal.node_name sp t) (gattrs (node_attrs a)) false :: gtokens_kids EmptyString k ++ [TEnd (Marshal.node_name sp t)].
Proof.
  reflexivity.
Qed.

Fixpoint gnames_ok (n : node) : bool :=
  match n with
  | Elem sp t a k => name_ok (Marshal.node_name sp t) && forallb (fun kv => name_ok (fst kv)) (node_attrs a) && forallb gnames_ok k
  | Text _ => true
  | _ => false
  end.

Lemma run_gattr n a kv rest : name_ok (fst kv) = true ->
  run (StAttrs n a) (print_attr kv ++ rest) = run (StAttrs n (a ++ [(fst kv, go_escape (snd kv))])) rest.
Proof.
  intros H. unfold print_attr, dquote.
  destruct (fst kv) as [|c0 nm] eqn:N; [discriminate H|].
  cbn [name_ok str_all] in H. apply andb_true_iff in H as [H1 H2].
  destruct (name_char_facts c0 H1) as (F32 & _ & F47 & _ & _ & F62).
  rewrite !app_assoc_s. cbn [append run].
  replace (is_ch 32 " "%char) with true by reflexivity.
  cbn [run]. rewrite F32, F62, F47, H1.
  rewrite (run_attrname_acc nm H2). cbn [append run].
  replace (is_ch 61 "="%char) with true by reflexivity.
  cbn [run]. replace (is_ch 34 (Ascii.ascii_of_N 34)) with true by reflexivity.
  rewrite (run_val_acc (go_escape (snd kv)) (go_escape_no_dq _) (go_escape_no_lt _)). cbn [append run].
  replace (is_ch 34 (Ascii.ascii_of_N 34)) with true by reflexivity. reflexivity.
Qed.

Lemma run_gattrs l : forallb (fun kv => name_ok (fst kv)) l = true -> forall n a rest,
  run (StAttrs n a) (print_attrs l ++ rest) = run (StAttrs n (a ++ gattrs l)) rest.
Proof.
  induction l as [|x l IH]; intros H n a rest.
  - cbn [print_attrs gattrs map append]. rewrite app_nil_r. reflexivity.
  - cbn [forallb] in H. apply andb_true_iff in H as [H1 H2].
    cbn [print_attrs]. rewrite app_assoc_s. rewrite (run_gattr n a x _ H1). rewrite (IH H2).
    unfold gattrs. cbn [map]. rewrite <- app_assoc. reflexivity.
Qed.

Lemma run_name_gattrs l n rest :
  run (StName n) (print_attrs l ++ String ">"%char rest) = run (StAttrs n []) (print_attrs l ++ String ">"%char rest).
Proof.
  destruct l as [|x l].
  - reflexivity.
  - cbn [print_attrs]. unfold print_attr. rewrite !app_assoc_s. cbn [append run].
    replace (is_ch 32 " "%char) with true by reflexivity. reflexivity.
Qed.

Definition gelem_body (sp t : string) (a : list attr) (k : list node) : string :=
  (Marshal.node_name sp t ++ print_attrs (node_attrs a) ++ ">" ++ go_write_kids k ++ "</" ++ Marshal.node_name sp t ++ ">")%string.

Definition gscans (n : node) : Prop :=
  match n with
  | Elem sp t a k => forall rest,
      run StOpen (gelem_body sp t a k ++ rest) = app_opt (gtokens n) (run (StText EmptyString) rest)
  | _ => True
  end.

Lemma run_gkids k : Forall gscans k -> forallb gnames_ok k = true -> forall acc R,
  run (StText acc) (go_write_kids k ++ String "<"%char R) = app_opt (gtokens_kids acc k) (run StOpen R).
Proof.
  induction k as [|x k IH]; intros HF HN acc R.
  - cbn [go_write_kids append run gtokens_kids]. replace (is_ch 60 "<"%char) with true by reflexivity. reflexivity.
  - inversion HF as [|? ? Hx Hk]; subst. cbn [forallb] in HN. apply andb_true_iff in HN as [N1 N2].
    destruct x as [sp t a kk | s | s | t i | s]; try discriminate N1.
    + cbn [go_write_kids gtokens_kids]. rewrite go_write_elem.
      change ("<" ++ Marshal.node_name sp t ++ print_attrs (node_attrs a) ++ ">" ++ go_write_kids kk ++ "</" ++ Marshal.node_name sp t ++ ">")%string
        with (String "<"%char (gelem_body sp t a kk)).
      cbn [append run]. replace (is_ch 60 "<"%char) with true by reflexivity.
      rewrite app_assoc_s. cbn [gscans] in Hx. rewrite Hx. rewrite (IH Hk N2).
      rewrite !app_opt_app. rewrite <- app_assoc. reflexivity.
    + cbn [go_write_kids gtokens_kids go_write]. rewrite app_assoc_s.
      rewrite (run_text_acc (go_escape s) (go_escape_no_lt s)). apply (IH Hk N2).
Qed.

Lemma gscans_all n : gnames_ok n = true -> gscans n.
Proof.
  induction n as [sp t a k IHk | | | |] using node_ind_kids; intros HN; try exact I.
  cbn [gnames_ok] in HN. apply andb_true_iff in HN as [HN Nk]. apply andb_true_iff in HN as [Nn Na].
  assert (Forall gscans k) as Fk.
  { clear - IHk Nk. induction k as [|x k IH]; [constructor|].
    inversion IHk; subst. cbn [forallb] in Nk. apply andb_true_iff in Nk as [N1 N2]. constructor; auto. }
  cbn [gscans]. intros rest. rewrite gtokens_elem. unfold gelem_body.
  destruct (Marshal.node_name sp t) as [|c0 nm] eqn:FN; [discriminate Nn|].
  cbn [name_ok str_all] in Nn. apply andb_true_iff in Nn as [C0 Cn].
  destruct (name_char_facts c0 C0) as (_ & _ & F47 & _ & _ & F62).
  rewrite !app_assoc_s. cbn [append run]. rewrite F47, C0.
  rewrite (run_name_acc nm Cn). cbn [append].
  rewrite run_name_gattrs. rewrite (run_gattrs _ Na). cbn [app append run].
  replace (is_ch 32 ">"%char) with false by reflexivity. replace (is_ch 62 ">"%char) with true by reflexivity.
  rewrite (run_gkids k Fk Nk). cbn [run].
  replace (is_ch 47 "/"%char) with true by reflexivity.
  rewrite F62, C0.
  rewrite (run_endname_acc nm Cn). unfold snoc. cbn [append run]. replace (is_ch 62 ">"%char) with true by reflexivity.
  rewrite !app_opt_app. reflexivity.
Qed.

(* the tokenizer accepts the bytes of any tree whose names are names and yields exactly the tree's tokens *)
Theorem scan_go_write sp t a k :
  gnames_ok (Elem sp t a k) = true ->
  scan (go_write (Elem sp t a k)) = Some (gtokens (Elem sp t a k)).
Proof.
  intros HN. pose proof (gscans_all _ HN) as H. cbn [gscans] in H. specialize (H EmptyString).
  rewrite app_nil_r_s in H. unfold scan. rewrite go_write_elem.
  change ("<" ++ Marshal.node_name sp t ++ print_attrs (node_attrs a) ++ ">" ++ go_write_kids k ++ "</" ++ Marshal.node_name sp t ++ ">")%string
    with (String "<"%char (gelem_body sp t a k)).
  cbn [run]. replace (is_ch 60 "<"%char) with true by reflexivity.
  rewrite H. cbn [run chars]. cbn. rewrite app_nil_r. reflexivity.
Qed.

(* ================================================================ 4. the descriptors Metadata() / MetadataWithSLO() return *)
Definition shape_kds (with_sign : bool) (M : list string) (sc ec : string) : list key_descriptor :=
  (if with_sign then [signing_descriptor sc] else []) ++ [encryption_descriptor M ec].

Inductive md_shape (c : md_config) : entity_descriptor -> Prop :=
| ShapeMd vu (ws : bool) sc ec :
    md_shape c (descriptor c vu (shape_kds ws advertised_methods_Metadata sc ec) false)
| ShapeSlo vu sc ec :
    md_shape c (descriptor c vu (shape_kds true advertised_methods_MetadataWithSLO sc ec) true).

Lemma model_descriptor_shape c now h d :
  metadata c now = Ok d \/ metadata_with_slo c now h = Ok d -> md_shape c d.
Proof.
  intros [H|H].
  - rewrite metadata_error_cases in H.
    destruct (get_signing_cert (mc_keys c)) as [sc|e]; [|discriminate].
    destruct (get_encryption_cert (mc_keys c)) as [ec|e]; [|discriminate].
    destruct (ec =?s "")%string; [discriminate|]. injection H as <-.
    destruct (sc =?s "")%string.
    + exact (ShapeMd c _ false sc ec).
    + exact (ShapeMd c _ true sc ec).
  - rewrite metadata_with_slo_error_cases in H.
    destruct (get_signing_cert (mc_keys c)) as [sc|e]; [|discriminate].
    destruct (sc =?s "")%string; [discriminate|].
    destruct (get_encryption_cert (mc_keys c)) as [ec|e]; [|discriminate].
    destruct (ec =?s "")%string; [discriminate|]. injection H as <-.
    exact (ShapeSlo c _ sc ec).
Qed.

Ltac shape_cases Hs :=
  destruct Hs as [vu ws sc ec | vu sc ec]; [destruct ws|];
  unfold shape_kds, descriptor, signing_descriptor, encryption_descriptor in *;
  generalize dependent (base64_encode sc); generalize dependent (base64_encode ec); intros be bs.

(* the interpreter run on the schema extracted from /repo emits exactly the tokens of the hand-written document *)
Lemma marshal_value_of_shape c d txt :
  md_shape c d -> marshal_text_utc (ed_valid_until d) = Some txt ->
  marshal_value metadata_schema metadata_omitempty "EntityDescriptor" (descriptor_gval d)
  = Ok (tree_mtoks (descriptor_tree_with txt d)).
Proof.
  intros Hs. shape_cases Hs; cbn [ed_valid_until]; intros H.
  all: cbv - [marshal_text_utc]; rewrite H; reflexivity.
Qed.

(* a validUntil outside years 0..9999: xml.Marshal returns time.Time.MarshalText's error *)
Lemma marshal_value_of_shape_year_error c d :
  md_shape c d -> marshal_text_utc (ed_valid_until d) = None ->
  marshal_descriptor d = Err (EOther "Time.MarshalText: year outside of range [0,9999]").
Proof.
  intros Hs H.
  assert (Hv : marshal_value metadata_schema metadata_omitempty "EntityDescriptor" (descriptor_gval d)
               = Err (EOther "Time.MarshalText: year outside of range [0,9999]")).
  { revert H. shape_cases Hs; cbn [ed_valid_until]; intros H.
    all: cbv - [marshal_text_utc]; rewrite H; reflexivity. }
  unfold marshal_descriptor, marshal_bytes. rewrite Hv. reflexivity.
Qed.

Lemma names_ok_of_shape c d txt : md_shape c d -> gnames_ok (descriptor_tree_with txt d) = true.
Proof. intros Hs. shape_cases Hs; vm_compute; reflexivity. Qed.

(* WELL-FORMED, precisely: xml.Marshal succeeds; its bytes are the serialisation [go_write] of the element tree
   [descriptor_tree d] (properly nested start / end tags named as the SAML metadata schema names them, attribute values in
   double quotes, every value escaped by EscapeText); all element and attribute names are names; and the tokenizer accepts
   the bytes and yields exactly the tokens of that tree. *)
Theorem marshalled_metadata_well_formed c now h d :
  metadata c now = Ok d \/ metadata_with_slo c now h = Ok d ->
  -62167219200 <= i_sec (ed_valid_until d) < 253402300800 ->
  exists tree bytes,
    descriptor_tree d = Some tree
    /\ marshal_value metadata_schema metadata_omitempty "EntityDescriptor" (descriptor_gval d) = Ok (tree_mtoks tree)
    /\ marshal_descriptor d = Ok bytes
    /\ bytes = go_write tree
    /\ gnames_ok tree = true
    /\ scan bytes = Some (gtokens tree).
Proof.
  intros Hm Hy. apply model_descriptor_shape in Hm.
  pose proof (marshal_text_utc_in_range _ Hy) as Ht.
  set (txt := format_rfc3339nano_utc (ed_valid_until d)) in *.
  pose proof (marshal_value_of_shape c d txt Hm Ht) as Hv.
  pose proof (names_ok_of_shape c d txt Hm) as Hn.
  exists (descriptor_tree_with txt d), (go_write (descriptor_tree_with txt d)).
  split; [unfold descriptor_tree; rewrite Ht; reflexivity|].
  split; [exact Hv|].
  split; [unfold marshal_descriptor, marshal_bytes; rewrite Hv; cbn [bind]; rewrite print_tree_mtoks; reflexivity|].
  split; [reflexivity|]. split; [exact Hn|].
  unfold descriptor_tree_with in *. apply scan_go_write. exact Hn.
Qed.

Theorem marshalled_metadata_year_out_of_range c now h d :
  metadata c now = Ok d \/ metadata_with_slo c now h = Ok d ->
  marshal_text_utc (ed_valid_until d) = None ->
  descriptor_tree d = None /\ marshal_descriptor d = Err (EOther "Time.MarshalText: year outside of range [0,9999]").
Proof.
  intros Hm Ht. apply model_descriptor_shape in Hm. split.
  - unfold descriptor_tree. rewrite Ht. reflexivity.
  - exact (marshal_value_of_shape_year_error c d Hm Ht).
Qed.

(* ================================================================ 5. parsing back *)
Lemma ascii_valid_xml s : str_all (in_rng 32 126) s = true -> valid_xml_text s = true.
Proof.
  unfold valid_xml_text. induction s as [|c s IH]; intros H; [reflexivity|].
  cbn [str_all] in H. apply andb_true_iff in H as [H1 H2].
  assert (L : (code c <? 128)%N = true).
  { unfold in_rng in H1. apply andb_true_iff in H1 as [_ H1]. apply N.leb_le in H1. apply N.ltb_lt. lia. }
  cbn [valid_go]. unfold decode_rune. rewrite L. cbn [Nat.sub]. rewrite (IH H2), andb_true_r.
  assert (A : forall x, implb (in_rng 32 126 x) (xml_rune_ok (code x) 1%nat) = true) by bytes.
  specialize (A c). rewrite H1 in A. exact A.
Qed.

Lemma b64_char_printable : forall c, implb (b64_out_char c) (in_rng 32 126 c) = true.
Proof. bytes. Qed.

Lemma base64_valid_xml s : valid_xml_text (base64_encode s) = true.
Proof.
  apply ascii_valid_xml. apply (str_all_impl b64_out_char _ b64_char_printable). apply base64_charset.
Qed.

(* a reader gets back the very tree when every value in it can be carried by XML *)
Fixpoint values_valid (n : node) : bool :=
  match n with
  | Elem _ _ a k => forallb (fun x => valid_xml_text (at_val x)) a && forallb values_valid k
  | Text s => valid_xml_text s
  | _ => true
  end.

Lemma reader_tree_valid n : values_valid n = true -> reader_tree n = n.
Proof.
  unfold reader_tree.
  induction n as [sp t a k IHk | s | | |] using node_ind_kids; intros H; try reflexivity.
  - cbn [values_valid] in H. apply andb_true_iff in H as [Ha Hk]. cbn [map_values]. f_equal.
    + clear - Ha. induction a as [|x a IH]; [reflexivity|]. cbn [forallb] in Ha. apply andb_true_iff in Ha as [H1 H2].
      cbn [map]. rewrite (IH H2). destruct x as [xs xk xv]. cbn [at_space at_key at_val] in *.
      rewrite (xml_read10_go_escape _ H1). reflexivity.
    + clear - IHk Hk. induction IHk as [|x k Hx _ IH]; [reflexivity|]. cbn [forallb] in Hk. apply andb_true_iff in Hk as [H1 H2].
      cbn [map]. rewrite (Hx H1), (IH H2). reflexivity.
  - cbn [values_valid] in H. cbn [map_values]. rewrite (xml_read10_go_escape _ H). reflexivity.
Qed.

(* every string of a descriptor the model returns can be carried by XML when the three configured strings can *)
Lemma reader_tree_of_shape c d txt :
  md_shape c d ->
  valid_xml_text txt = true ->
  valid_xml_text (mc_issuer c) = true -> valid_xml_text (mc_acs_url c) = true -> valid_xml_text (mc_slo_url c) = true ->
  reader_tree (descriptor_tree_with txt d) = descriptor_tree_with txt d.
Proof.
  intros Hs Vt Vi Va Vl. apply reader_tree_valid.
  destruct c as [ks iss acs slo sr ss]. cbn [mc_issuer mc_acs_url mc_slo_url] in Vi, Va, Vl.
  destruct Hs as [vu ws sc ec | vu sc ec]; [destruct ws|].
  all: pose proof (base64_valid_xml sc) as Vs; pose proof (base64_valid_xml ec) as Ve.
  all: unfold shape_kds, descriptor, signing_descriptor, encryption_descriptor.
  all: generalize dependent (base64_encode sc); generalize dependent (base64_encode ec); intros be Ve bs Vs.
  all: destruct sr, ss.
  all: cbv - [valid_xml_text]; rewrite ?Vs, ?Ve, ?Vt, ?Vi, ?Va, ?Vl; vm_compute; reflexivity.
Qed.

(* Unmarshal (Schema.v's interpreter of xml.Unmarshal, on the same generated schema) of the metadata document gives back a
   value whose every field is the descriptor's: entityID, validUntil (the instant, to the nanosecond), both booleans,
   protocolSupportEnumeration, every KeyDescriptor (use, certificate texts, encryption methods and their digest methods in
   order), the endpoints (binding, location, index), SPSSODescriptor present *)
Lemma unmarshal_of_shape c d txt :
  md_shape c d -> parse_rfc3339_strict txt = Some (ed_valid_until d) ->
  exists g, unmarshal_parsed metadata_schema "EntityDescriptor" (descriptor_tree_with txt d) = Ok g /\ gval_descriptor g = d.
Proof.
  intros Hs.
  destruct c as [ks iss acs slo sr ss].
  destruct Hs as [vu ws sc ec | vu sc ec]; [destruct ws|].
  all: unfold shape_kds, descriptor, signing_descriptor, encryption_descriptor.
  all: generalize (base64_encode sc); generalize (base64_encode ec); intros be bs.
  all: cbn [ed_valid_until]; intros H.
  all: destruct sr, ss.
  all: eexists; split;
       [ cbv - [parse_rfc3339_strict String.append]; rewrite H; cbv - [String.append]; reflexivity
       | cbv - [String.append]; rewrite !app_nil_r_s; reflexivity ].
Qed.

Ltac Zify.zify_post_hook ::= Z.to_euclidean_division_equations.

(* the RFC 3339 text MarshalText writes is printable ASCII (digits, '-', ':', 'T', '.', 'Z') *)
Lemma str_all_of_list P l : str_all P (string_of_list_ascii l) = forallb P l.
Proof. induction l as [|c l IH]; [reflexivity|]. cbn [string_of_list_ascii str_all forallb]. rewrite IH. reflexivity. Qed.

Lemma digit_printable : forall c, implb (is_digit c) (in_rng 32 126 c) = true.
Proof. bytes. Qed.

Lemma digit_char_printable k : (0 <= k <= 9)%Z -> in_rng 32 126 (digit_char k) = true.
Proof.
  intros H. assert (E : (k = 0 \/ k = 1 \/ k = 2 \/ k = 3 \/ k = 4 \/ k = 5 \/ k = 6 \/ k = 7 \/ k = 8 \/ k = 9)%Z) by lia.
  repeat (destruct E as [->|E]; [reflexivity|]). subst k. reflexivity.
Qed.

Lemma D2_printable n : (0 <= n <= 99)%Z -> forallb (in_rng 32 126) (D2 n) = true.
Proof.
  intros H. unfold D2. cbn [forallb].
  rewrite !digit_char_printable by lia. reflexivity.
Qed.

Lemma D4_printable n : (0 <= n <= 9999)%Z -> forallb (in_rng 32 126) (D4 n) = true.
Proof.
  intros H. unfold D4. cbn [forallb].
  rewrite !digit_char_printable by lia. reflexivity.
Qed.

Lemma drop_zeros_forallb P l : forallb P l = true -> forallb P (drop_zeros l) = true.
Proof.
  induction l as [|c l IH]; intros H; [reflexivity|]. cbn [drop_zeros].
  destruct (Ascii.eqb c "0"); [|exact H]. cbn [forallb] in H. apply andb_true_iff in H as [_ H]. exact (IH H).
Qed.

Lemma forallb_impl_list {A} (P Q : A -> bool) l : (forall x, implb (P x) (Q x) = true) -> forallb P l = true -> forallb Q l = true.
Proof.
  intros HI. induction l as [|x l IH]; intros H; [reflexivity|]. cbn [forallb] in *. apply andb_true_iff in H as [H1 H2].
  specialize (HI x). rewrite H1 in HI. cbn in HI. rewrite HI, (IH H2). reflexivity.
Qed.

Lemma nano9_printable n : (0 <= n < 1000000000)%Z -> forallb (in_rng 32 126) (append_nano9 n) = true.
Proof.
  intros H. unfold append_nano9. destruct (n =? 0)%Z; [reflexivity|]. cbn [forallb]. rewrite forallb_rev.
  apply drop_zeros_forallb. rewrite forallb_rev. rewrite (append_int_9 n H). rewrite forallb_rev.
  apply (forallb_impl_list is_digit _ _ digit_printable). apply rdigs_all_digits.
Qed.

Lemma rfc3339nano_text_valid_xml t :
  (0 <= i_nsec t < 1000000000)%Z -> (-62167219200 <= i_sec t < 253402300800)%Z ->
  valid_xml_text (format_rfc3339nano_utc t) = true.
Proof.
  intros Hn Hy. apply ascii_valid_xml. unfold format_rfc3339nano_utc. rewrite str_all_of_list.
  destruct (format_date_time_canonical t Hy) as (y & m & d & hh & mi & ss & R & _ & F). rewrite F.
  assert (d <= 99)%Z as Hd.
  { destruct R as (_ & Hm & Hd & _). rewrite days_in_table in Hd by exact Hm.
    destruct (m =? 2)%Z; [destruct (is_leap y)|destruct (_ || _)]; lia. }
  repeat (rewrite ?forallb_app; cbn [forallb]).
  rewrite (D4_printable y), !D2_printable, (nano9_printable _ Hn) by lia. reflexivity.
Qed.

Theorem marshalled_metadata_parses_back c now h d :
  metadata c now = Ok d \/ metadata_with_slo c now h = Ok d ->
  0 <= i_nsec (ed_valid_until d) < 1000000000 ->
  -62167219200 <= i_sec (ed_valid_until d) < 253402300800 ->
  valid_xml_text (mc_issuer c) = true -> valid_xml_text (mc_acs_url c) = true -> valid_xml_text (mc_slo_url c) = true ->
  exists tree bytes g,
    descriptor_tree d = Some tree
    /\ marshal_descriptor d = Ok bytes
    /\ scan bytes = Some (gtokens tree)
    /\ reader_tree tree = tree
    /\ unmarshal_parsed metadata_schema "EntityDescriptor" tree = Ok g
    /\ gval_descriptor g = d.
Proof.
  intros Hm Hn Hy Vi Va Vl.
  destruct (marshalled_metadata_well_formed c now h d Hm Hy) as (tree & bytes & Ht & _ & Hb & _ & _ & Hs).
  apply model_descriptor_shape in Hm.
  destruct (unmarshal_marshal_text_roundtrip _ Hn Hy) as (txt & Htxt & Hp).
  unfold descriptor_tree in Ht. rewrite Htxt in Ht. injection Ht as <-.
  destruct (unmarshal_of_shape c d txt Hm Hp) as (g & Hg & Hd).
  exists (descriptor_tree_with txt d), bytes, g.
  split; [unfold descriptor_tree; rewrite Htxt; reflexivity|].
  split; [exact Hb|]. split; [exact Hs|].
  split; [|split; [exact Hg | exact Hd]].
  apply (reader_tree_of_shape c d txt Hm); try assumption.
  rewrite (marshal_text_utc_in_range _ Hy) in Htxt. injection Htxt as <-.
  apply rfc3339nano_text_valid_xml; assumption.
Qed.

(* ================================================================ 6. examples and witnesses (by computation) *)
Definition ex_cfg (issuer : string) : md_config :=
  {| mc_keys := Build_keycfg None None None None; mc_issuer := issuer; mc_acs_url := "https://sp.example.com/acs?a=1&b=2";
     mc_slo_url := "https://sp.example.com/slo"; mc_sign_requests := true; mc_skip_sig := false |}.
Definition ex_descriptor (issuer : string) (slo : bool) : entity_descriptor :=
  descriptor (ex_cfg issuer) {| i_sec := 1704164645; i_nsec := 120000000 |}
    (shape_kds true (if slo then advertised_methods_MetadataWithSLO else advertised_methods_Metadata) "cert-s" "cert-e") slo.
(* an entity ID with a quote, markup characters, TAB, CR LF and non-ASCII text *)
Definition ex_issuer : string := B [34; 60; 38; 62; 39; 9; 13; 10; 195; 188; 240; 159; 152; 128]%N.

Example ex_marshalled_bytes :
  marshal_descriptor (ex_descriptor ex_issuer false) =
  Ok ("<EntityDescriptor xmlns=""urn:oasis:names:tc:SAML:2.0:metadata"" validUntil=""2024-01-02T03:04:05.12Z"" entityID=""&#34;&lt;&amp;&gt;&#39;&#x9;&#xD;&#xA;"
      ++ B [195; 188; 240; 159; 152; 128]%N ++
      """><SPSSODescriptor xmlns=""urn:oasis:names:tc:SAML:2.0:metadata"" AuthnRequestsSigned=""true"" WantAssertionsSigned=""true"" protocolSupportEnumeration=""urn:oasis:names:tc:SAML:2.0:protocol""><KeyDescriptor xmlns=""urn:oasis:names:tc:SAML:2.0:metadata"" use=""signing""><KeyInfo xmlns=""http://www.w3.org/2000/09/xmldsig#""><X509Data xmlns=""http://www.w3.org/2000/09/xmldsig#""><X509Certificate xmlns=""http://www.w3.org/2000/09/xmldsig#"">Y2VydC1z</X509Certificate></X509Data></KeyInfo></KeyDescriptor><KeyDescriptor xmlns=""urn:oasis:names:tc:SAML:2.0:metadata"" use=""encryption""><KeyInfo xmlns=""http://www.w3.org/2000/09/xmldsig#""><X509Data xmlns=""http://www.w3.org/2000/09/xmldsig#""><X509Certificate xmlns=""http://www.w3.org/2000/09/xmldsig#"">Y2VydC1l</X509Certificate></X509Data></KeyInfo><EncryptionMethod Algorithm=""http://www.w3.org/2009/xmlenc11#aes128-gcm""></EncryptionMethod><EncryptionMethod Algorithm=""http://www.w3.org/2009/xmlenc11#aes192-gcm""></EncryptionMethod><EncryptionMethod Algorithm=""http://www.w3.org/2009/xmlenc11#aes256-gcm""></EncryptionMethod><EncryptionMethod Algorithm=""http://www.w3.org/2001/04/xmlenc#aes128-cbc""></EncryptionMethod><EncryptionMethod Algorithm=""http://www.w3.org/2001/04/xmlenc#aes256-cbc""></EncryptionMethod></KeyDescriptor><AssertionConsumerService Binding=""urn:oasis:names:tc:SAML:2.0:bindings:HTTP-POST"" Location=""https://sp.example.com/acs?a=1&amp;b=2"" index=""1""></AssertionConsumerService></SPSSODescriptor></EntityDescriptor>")%string.
Proof. vm_compute. reflexivity. Qed.

(* well-formed + parses back, checked by evaluation on both variants (the reader's tree, CR in the entity ID included) *)
Example ex_round_trip :
  forallb (fun slo =>
    let d := ex_descriptor ex_issuer slo in
    match descriptor_tree d, marshal_descriptor d with
    | Some tree, Ok bytes =>
        (bytes =?s go_write tree) && gnames_ok tree
        && match scan bytes with Some toks => Nat.eqb (List.length toks) (List.length (gtokens tree)) | None => false end
        && node_eqb (reader_tree tree) tree
        && match unmarshal_parsed metadata_schema "EntityDescriptor" (reader_tree tree) with
           | Ok g => val_eqb (ed_val (gval_descriptor g)) (ed_val d) && (ed_entity_id (gval_descriptor g) =?s ex_issuer)
           | Err _ => false
           end
    | _, _ => false
    end) [false; true] = true.
Proof. vm_compute. reflexivity. Qed.

(* REFUTED without the premise on strings: an entity ID XML cannot carry (here U+0000) is marshalled without error, and a
   reader gets U+FFFD in its place: the published entityID is not the configured one *)
Lemma uncarriable_entity_id_not_preserved :
  exists d tree bytes g,
    ed_entity_id d = B [97; 0; 98]%N /\ valid_xml_text (ed_entity_id d) = false
    /\ descriptor_tree d = Some tree /\ marshal_descriptor d = Ok bytes /\ bytes = go_write tree
    /\ unmarshal_parsed metadata_schema "EntityDescriptor" (reader_tree tree) = Ok g
    /\ ed_entity_id (gval_descriptor g) = ("a" ++ repl_char ++ "b")%string
    /\ ed_entity_id (gval_descriptor g) <> ed_entity_id d.
Proof.
  set (d := ex_descriptor (B [97; 0; 98]%N) false).
  destruct (descriptor_tree d) as [tree|] eqn:T; [|vm_compute in T; discriminate].
  destruct (marshal_descriptor d) as [bytes|] eqn:M; [|vm_compute in M; discriminate].
  destruct (unmarshal_parsed metadata_schema "EntityDescriptor" (reader_tree tree)) as [g|] eqn:U.
  2: { vm_compute in T. injection T as <-. vm_compute in U. discriminate. }
  exists d, tree, bytes, g.
  vm_compute in T. injection T as <-. vm_compute in M. injection M as <-. vm_compute in U. injection U as <-.
  repeat split; try (vm_compute; reflexivity). vm_compute. discriminate.
Qed.
