(* Uuid.v — model for property C18: uuid/uuid.go (NewV4, UUID.String) and the message ID "_"+uuid of
   build_request.go / build_logout_response.go.
   The bit masks, the format string and its slice arguments are NOT written here: they are the ones gen/
   re-extracts from uuid/uuid.go on every run (Generated.uuid_masks, uuid_format, uuid_format_args), and this
   file interprets them. No proofs of properties here (P_Uuid.v). *)
From V Require Import Base ConcDefs Generated.
Local Open Scope string_scope.
Local Open Scope list_scope.
Local Open Scope N_scope.

(* ---------- NewV4: the statements  u[d] = (u[s] | a) & b  applied in source order to the 16 random bytes ---------- *)
Fixpoint set_nth (i : nat) (v : N) (l : list N) : list N :=
  match l, i with
  | [], _ => []                       (* index out of range: Go would not compile / would panic; bytes unchanged *)
  | _ :: r, O => v :: r
  | x :: r, S i' => x :: set_nth i' v r
  end.

Definition apply_mask (b : list N) (m : N * N * N * N) : list N :=
  match m with
  | (d, s, o, a) => set_nth (N.to_nat d) (N.land (N.lor (nth (N.to_nat s) b 0) o) a) b
  end.

Definition apply_masks (b : list N) : list N := fold_left apply_mask uuid_masks b.

(* ---------- UUID.String: fmt.Sprintf(uuid_format, args...) for the verbs and slice arguments in use ---------- *)
Definition hexdig (up : bool) (k : N) : ascii :=
  nth (N.to_nat k) (list_ascii_of_string (if up then "0123456789ABCDEF" else "0123456789abcdef")) "?"%char.

(* %x / %X of a byte slice: two digits per byte, no separator *)
Definition hex2 (up : bool) (n : N) : string := String (hexdig up (n / 16)) (String (hexdig up (n mod 16)) "").
Fixpoint hex_bytes (up : bool) (l : list N) : string :=
  match l with [] => "" | n :: r => hex2 up n ++ hex_bytes up r end.

Definition is_digit (c : ascii) : bool := let n := N_of_ascii c in (48 <=? n) && (n <=? 57).

(* decimal literal, or the empty string (an omitted slice bound) *)
Fixpoint dec_digits (s : string) (acc : N) : option N :=
  match s with
  | "" => Some acc
  | String c r => if is_digit c then dec_digits r (acc * 10 + (N_of_ascii c - 48)) else None
  end.
Definition dec_opt (s : string) : option (option N) :=
  match s with "" => Some None | _ => option_map Some (dec_digits s 0) end.

Fixpoint split_colon (s : string) : option (string * string) :=
  match s with
  | "" => None
  | String c r => if Ascii.eqb c ":" then Some ("", r)
                  else match split_colon r with Some (a, b) => Some (String c a, b) | None => None end
  end.

Fixpoint drop_last_bracket (s : string) : option string :=
  match s with
  | "" => None
  | String c "" => if Ascii.eqb c "]" then Some "" else None
  | String c r => option_map (String c) (drop_last_bracket r)
  end.

(* an argument of the form  u[lo:hi]  (either bound may be omitted) evaluated on the 16 bytes *)
Definition slice_arg (b : list N) (arg : string) : option (list N) :=
  match arg with
  | String "u" (String "[" rest) =>
      match drop_last_bracket rest with
      | Some inner =>
          match split_colon inner with
          | Some (lo, hi) =>
              match dec_opt lo, dec_opt hi with
              | Some lo', Some hi' =>
                  let l := match lo' with Some x => N.to_nat x | None => O end in
                  let h := match hi' with Some x => N.to_nat x | None => List.length b end in
                  if (Nat.leb l h && Nat.leb h (List.length b))%bool then Some (firstn (h - l) (skipn l b)) else None
              | _, _ => None
              end
          | None => None
          end
      | None => None
      end
  | _ => None
  end.

Fixpoint slice_args (b : list N) (args : list string) : option (list (list N)) :=
  match args with
  | [] => Some []
  | a :: r => match slice_arg b a, slice_args b r with
              | Some x, Some xs => Some (x :: xs)
              | _, _ => None
              end
  end.

(* Sprintf restricted to literal bytes and the verbs %x and %X applied to byte slices; anything else
   (another verb, too few or too many operands) is outside the model: None *)
Fixpoint sprintf (fmt : string) (args : list (list N)) : option string :=
  match fmt with
  | "" => match args with [] => Some "" | _ => None end
  | String "%" (String v rest) =>
      match args with
      | a :: args' =>
          if Ascii.eqb v "x" then option_map (append (hex_bytes false a)) (sprintf rest args')
          else if Ascii.eqb v "X" then option_map (append (hex_bytes true a)) (sprintf rest args')
          else None
      | [] => None
      end
  | String c rest => option_map (String c) (sprintf rest args)
  end.

(* method String of UUID, on 16 bytes *)
Definition uuid_string (u : list N) : string :=
  match slice_args u uuid_format_args with
  | Some args => match sprintf uuid_format args with Some s => s | None => "" end
  | None => ""
  end.

(* NewV4().String() as a function of the 16 bytes rand.Read delivered *)
Definition uuid_of_bytes (b : list N) : string := uuid_string (apply_masks b).

(* the ID attribute of AuthnRequest / LogoutRequest / LogoutResponse:  "_" + uuid.NewV4().String() *)
Definition message_id (b : list N) : string := "_" ++ uuid_of_bytes b.

(* ---------- the free bits of each byte: those NewV4 neither sets nor clears ---------- *)
Definition free_mask (i : nat) : N :=
  fold_left (fun k m => match m with (d, _, o, a) => if N.to_nat d =? i then N.land (N.land k a) (N.lxor o 255) else k end)%nat
            uuid_masks 255.

Fixpoint free_bits_from (i : nat) (b : list N) : list N :=
  match b with [] => [] | x :: r => N.land x (free_mask i) :: free_bits_from (S i) r end.
Definition free_bits (b : list N) : list N := free_bits_from 0 b.

Fixpoint popcount8 (fuel : nat) (n : N) : nat :=
  match fuel with O => O | S f => ((if N.odd n then 1 else 0) + popcount8 f (n / 2))%nat end.
Definition free_bit_count : nat := fold_right Nat.add O (map (fun i => popcount8 8 (free_mask i)) (seq 0 16)).

(* ---------- character classes ---------- *)
Definition is_lower_hex (c : ascii) : bool :=
  let n := N_of_ascii c in ((48 <=? n) && (n <=? 57)) || ((97 <=? n) && (n <=? 102)).
(* the ASCII part of the XML NCName productions (xs:ID is an NCName): start = letter or '_' ; then also digit '-' '.' *)
Definition ncname_start (c : ascii) : bool :=
  let n := N_of_ascii c in ((65 <=? n) && (n <=? 90)) || ((97 <=? n) && (n <=? 122)) || (n =? 95).
Definition ncname_char (c : ascii) : bool :=
  let n := N_of_ascii c in ncname_start c || ((48 <=? n) && (n <=? 57)) || (n =? 45) || (n =? 46).
Definition is_ncname (s : string) : bool :=
  match s with
  | "" => false
  | String c r => ncname_start c && forallb ncname_char (list_ascii_of_string r)
  end.
(* [_0-9a-f-] *)
Definition id_char (c : ascii) : bool := is_lower_hex c || Ascii.eqb c "_" || Ascii.eqb c "-".

(* the 256 byte values *)
Definition all_bytes : list N := map N.of_nat (seq 0 256).

Definition uuid_val (b : list N) : val := VS (uuid_of_bytes b).
Definition uuid_string_val (b : list N) : val := VS (uuid_string b).
