(* CorrDiff.v — support for correspondence case files whose observables are long byte strings (whole URLs,
   whole HTML pages): the comparison is made INSIDE the evaluated function and a mismatch is reported as the
   position of the first differing byte with a few bytes of context, instead of printing both long values
   (printing hundreds of long strings took coqc tens of minutes when an implementation change made every
   case differ).  [same_as observed model] = VC "same" [] iff the two values are equal.  Not part of any model. *)
From V Require Import Base.
Local Open Scope list_scope.
Local Open Scope string_scope.

Fixpoint take (n : nat) (s : string) : string :=
  match n, s with
  | S k, String c r => String c (take k r)
  | _, _ => EmptyString
  end.

(* position of the first difference, with the next bytes of both strings *)
Fixpoint first_diff (pos : Z) (a b : string) : option (Z * string * string) :=
  match a, b with
  | EmptyString, EmptyString => None
  | String x a', String y b' => if Ascii.eqb x y then first_diff (pos + 1) a' b' else Some (pos, take 40 a, take 40 b)
  | _, _ => Some (pos, take 40 a, take 40 b)
  end.

Fixpoint val_diff (a b : val) {struct a} : val :=
  let fix list_diff (l1 l2 : list val) {struct l1} : list val :=
    match l1, l2 with
    | [], [] => []
    | x :: r1, y :: r2 => val_diff x y :: list_diff r1 r2
    | _, _ => [VC "length-differs" []]
    end in
  match a, b with
  | VS x, VS y =>
      match first_diff 0 x y with
      | None => VC "=" []
      | Some (p, xa, yb) => VC "differs-at-byte" [VZ p; VC "model" [VS xa]; VC "observed" [VS yb]]
      end
  | VL l1, VL l2 => VL (list_diff l1 l2)
  | VC t1 l1, VC t2 l2 =>
      if t1 =?s t2 then VC t1 (list_diff l1 l2)
      else VC "constructor-differs" [VC "model" [VS t1]; VC "observed" [VS t2]]
  | _, _ => if val_eqb a b then VC "=" [] else VC "differs" []
  end.

Definition same_as (observed model : val) : val :=
  if val_eqb model observed then VC "same" [] else VC "differs" [val_diff model observed].
