(* Redirect.v — executable model of the HTTP-Redirect binding builders of gosaml2:
     build_request.go: buildAuthURLFromDocument, BuildAuthURLFromDocument, BuildAuthURLRedirect,
                       buildLogoutURLFromDocument, BuildLogoutURLRedirect, signatureInputString
   and of the parts of net/url (go1.24.0) and goxmldsig v1.5.0 they use:
     url.Values (Add / Get / Encode), url.ParseQuery as used by URL.Query(), the tail of URL.String(),
     SigningContext.SetSignatureMethod / GetSignatureMethodIdentifier.
   Inputs: url.Parse's split of the IdP URL into (text before the query, raw query, escaped fragment) —
   an argument here, computed by the model of url.Parse / URL.String in Url.v ([Url.url_parse_split]);
   oracles: etree's serialisation of the document; the DEFLATE bytes; the signer.
   No proofs here (P_Redirect.v). *)
From V Require Import Base Escape SchemaDefs ConcDefs Generated.
Local Open Scope list_scope.
Local Open Scope string_scope.   (* ++ is string append; list append is written %list *)

(* ================================================================ url.Values *)
(* map[string][]string: association list with pairwise distinct keys (invariant [values_wf],
   kept by [values_add]); the order of the entries is immaterial because Encode sorts the keys. *)
Definition values := list (string * list string).

(* v[key] = append(v[key], value) *)
Fixpoint values_add (k v : string) (m : values) : values :=
  match m with
  | [] => [(k, [v])]
  | (k', vs) :: r => if k' =?s k then (k', (vs ++ [v])%list) :: r else (k', vs) :: values_add k v r
  end.

(* v[key] (nil when absent) *)
Fixpoint values_lookup (k : string) (m : values) : list string :=
  match m with
  | [] => []
  | (k', vs) :: r => if k' =?s k then vs else values_lookup k r
  end.

(* Values.Get: the FIRST value, "" when there is none *)
Definition values_get (k : string) (m : values) : string :=
  match values_lookup k m with v :: _ => v | [] => "" end.

Definition values_keys (m : values) : list string := map fst m.

(* ================================================================ url.ParseQuery (through URL.Query, errors dropped) *)
Definition amp : ascii := byte 38.
Definition eqs : ascii := byte 61.

(* strings.Cut(s, "&") repeated: the pieces between '&' *)
Fixpoint amp_pieces (s : string) : list string :=
  match s with
  | EmptyString => [EmptyString]
  | String c r =>
      if is_ch 38 c then EmptyString :: amp_pieces r
      else match amp_pieces r with
           | h :: t => String c h :: t
           | [] => [String c EmptyString]
           end
  end.

(* strings.Cut(s, "=") : before, after ("" when there is no '=') *)
Fixpoint cut_eq (s : string) : string * string :=
  match s with
  | EmptyString => (EmptyString, EmptyString)
  | String c r => if is_ch 61 c then (EmptyString, r) else let '(a, b) := cut_eq r in (String c a, b)
  end.

Definition nonempty (s : string) : bool := match s with EmptyString => false | _ => true end.

(* the raw (still encoded) key/value pairs of a query string, empty pieces skipped as parseQuery does *)
Definition split_query (q : string) : list (string * string) :=
  map cut_eq (filter nonempty (amp_pieces q)).

Definition has_semicolon (s : string) : bool := negb (str_all (fun c => negb (is_ch 59 c)) s).

(* one iteration of the loop of parseQuery *)
Definition parse_query_step (m : values) (kv : string * string) : values :=
  if has_semicolon (fst kv) || has_semicolon (snd kv) then m       (* "invalid semicolon separator": skipped *)
  else match query_unescape (fst kv) with
       | None => m                                                  (* bad escape in the key: skipped *)
       | Some k =>
           match query_unescape (snd kv) with
           | None => m                                              (* bad escape in the value: skipped *)
           | Some v => values_add k v m
           end
       end.

Definition parse_query (q : string) : values := fold_left parse_query_step (split_query q) [].

(* ================================================================ goxmldsig signing context (v1.5.0) *)
Inductive hash_alg := SHA1 | SHA256 | SHA384 | SHA512.
Inductive key_alg := KRSA | KECDSA | KUnknown.      (* getPublicKeyAlgorithm: RSA when a KeyStore is used *)

Definition hash_eqb (a b : hash_alg) : bool :=
  match a, b with SHA1, SHA1 | SHA256, SHA256 | SHA384, SHA384 | SHA512, SHA512 => true | _, _ => false end.
Definition key_alg_eqb (a b : key_alg) : bool :=
  match a, b with KRSA, KRSA | KECDSA, KECDSA | KUnknown, KUnknown => true | _, _ => false end.

(* xml_constants.go: signatureMethodIdentifiers *)
Definition signature_method_identifiers : list (key_alg * hash_alg * string) :=
  [ (KRSA, SHA1, "http://www.w3.org/2000/09/xmldsig#rsa-sha1");
    (KRSA, SHA256, "http://www.w3.org/2001/04/xmldsig-more#rsa-sha256");
    (KRSA, SHA384, "http://www.w3.org/2001/04/xmldsig-more#rsa-sha384");
    (KRSA, SHA512, "http://www.w3.org/2001/04/xmldsig-more#rsa-sha512");
    (KECDSA, SHA1, "http://www.w3.org/2001/04/xmldsig-more#ecdsa-sha1");
    (KECDSA, SHA256, "http://www.w3.org/2001/04/xmldsig-more#ecdsa-sha256");
    (KECDSA, SHA384, "http://www.w3.org/2001/04/xmldsig-more#ecdsa-sha384");
    (KECDSA, SHA512, "http://www.w3.org/2001/04/xmldsig-more#ecdsa-sha512") ].

(* signatureMethodsByIdentifier[algorithmID] *)
Definition method_by_identifier (id : string) : option (key_alg * hash_alg) :=
  match find (fun e => snd e =?s id) signature_method_identifiers with
  | Some (kh, _) => Some kh
  | None => None
  end.

(* NewSigningContext / NewDefaultSigningContext set Hash = SHA256; SetSignatureMethod(alg) changes it
   only when alg is known and fits the key type (its error is ignored by SigningContext()). *)
Definition context_hash (k : key_alg) (configured : string) : hash_alg :=
  match method_by_identifier configured with
  | Some (k', h) => if key_alg_eqb k' k then h else SHA256
  | None => SHA256
  end.

(* GetSignatureMethodIdentifier: signatureMethodIdentifiers[algo][ctx.Hash], "" when absent *)
Definition signature_method_identifier (k : key_alg) (h : hash_alg) : string :=
  match find (fun e => key_alg_eqb (fst (fst e)) k && hash_eqb (snd (fst e)) h) signature_method_identifiers with
  | Some (_, id) => id
  | None => ""
  end.

(* ================================================================ build_request.go *)
Definition p_SAMLRequest := "SAMLRequest".
Definition p_RelayState := "RelayState".
Definition p_SigAlg := "SigAlg".
Definition p_Signature := "Signature".
Definition saml_params : list string := [p_SAMLRequest; p_RelayState; p_SigAlg; p_Signature].

(* signatureInputString *)
Definition signature_input_string (saml_request relay_state sig_alg : string) : string :=
  let params :=
    if relay_state =?s "" then [(p_SAMLRequest, saml_request); (p_SigAlg, sig_alg)]
    else [(p_SAMLRequest, saml_request); (p_RelayState, relay_state); (p_SigAlg, sig_alg)] in
  fold_left (fun buf kv =>
               (if nonempty buf then buf ++ String amp EmptyString else buf)
               ++ query_escape (fst kv) ++ String eqs (query_escape (snd kv)))
            params EmptyString.

(* the ordered-parameter loop of buildLogoutURLFromDocument: paramValueMap holds SAMLRequest, SigAlg and,
   when the relay state is not empty, RelayState; each present entry is encoded with a one-entry
   url.Values and the pieces are joined with '&' *)
Definition logout_signed_string (saml_request relay_state sig_alg : string) : string :=
  let param_value_map : values :=
    values_add p_SigAlg sig_alg
      ((if relay_state =?s "" then (fun m => m) else values_add p_RelayState relay_state)
         (values_add p_SAMLRequest saml_request [])) in
  fold_left (fun ss k =>
               match values_lookup k param_value_map with
               | v :: _ =>
                   let e := values_encode (values_add k v []) in
                   if nonempty ss then ss ++ String amp EmptyString ++ e else e
               | [] => ss
               end)
            [p_SAMLRequest; p_RelayState; p_SigAlg] EmptyString.

(* what url.Parse found: the text URL.String() writes before the query, the raw query, and the
   text it writes after it ("" or "#" followed by the escaped fragment) *)
Record parsed_url := { pu_prefix : string; pu_raw_query : string; pu_fragment : string }.

(* URL.String() once RawQuery has been replaced *)
Definition url_string (u : parsed_url) (raw_query : string) (force_query : bool) : string :=
  pu_prefix u ++ (if force_query || nonempty raw_query then String (byte 63) raw_query else EmptyString) ++ pu_fragment u.

Record redirect_config := {
  rc_sign_authn_requests : bool;      (* sp.SignAuthnRequests *)
  rc_algorithm : string;              (* sp.SignAuthnRequestsAlgorithm *)
  rc_key_alg : key_alg                (* type of the key the signing context holds *)
}.

(* result: the URL and, when a signature was made, the hash and the exact octets handed to the signer *)
Definition redirect_result := (string * option (hash_alg * string))%type.

Section Signer.
  (* ctx.SignString(content) with ctx.Hash = h: raw signature bytes, or failure *)
  Variable sign : hash_alg -> string -> option string.

  (* the query built by buildAuthURLFromDocument from the IdP URL's own parameters q0 *)
  Definition auth_query (cfg : redirect_config) (relay_state binding deflated : string) (q0 : values)
    : res (values * option (hash_alg * string)) :=
    let qs := values_add p_SAMLRequest (base64_encode deflated) q0 in
    let qs := if relay_state =?s "" then qs else values_add p_RelayState relay_state qs in
    if rc_sign_authn_requests cfg && (binding =?s c_BindingHttpRedirect) then
      let h := context_hash (rc_key_alg cfg) (rc_algorithm cfg) in
      let qs := values_add p_SigAlg (signature_method_identifier (rc_key_alg cfg) h) qs in
      let msg := signature_input_string (values_get p_SAMLRequest qs) (values_get p_RelayState qs) (values_get p_SigAlg qs) in
      match sign h msg with
      | None => Err (EOther "unable to sign query string of redirect URL: %v")   (* fmt.Errorf: the format string *)
      | Some raw => Ok (values_add p_Signature (base64_encode raw) qs, Some (h, msg))
      end
    else Ok (qs, None).

  (* buildAuthURLFromDocument; [parsed] = None when url.Parse fails *)
  Definition build_auth_url (cfg : redirect_config) (parsed : option parsed_url)
             (relay_state binding deflated : string) : res redirect_result :=
    match parsed with
    | None => Err (EOther "url.Parse")
    | Some u =>
        do r <- auth_query cfg relay_state binding deflated (parse_query (pu_raw_query u));
        Ok (url_string u (values_encode (fst r)) false, snd r)
    end.

  (* the query built by buildLogoutURLFromDocument (signing does not depend on SignAuthnRequests) *)
  Definition logout_query (cfg : redirect_config) (relay_state binding deflated : string) (q0 : values)
    : res (values * option (hash_alg * string)) :=
    let qs := values_add p_SAMLRequest (base64_encode deflated) q0 in
    let qs := if relay_state =?s "" then qs else values_add p_RelayState relay_state qs in
    if binding =?s c_BindingHttpRedirect then
      let h := context_hash (rc_key_alg cfg) (rc_algorithm cfg) in
      let alg := signature_method_identifier (rc_key_alg cfg) h in
      let qs := values_add p_SigAlg alg qs in
      let msg := logout_signed_string (base64_encode deflated) relay_state alg in
      match sign h msg with
      | None => Err (EOther "unable to sign query string of redirect URL: %v")   (* fmt.Errorf: the format string *)
      | Some raw => Ok (values_add p_Signature (base64_encode raw) qs, Some (h, msg))
      end
    else Ok (qs, None).

  Definition build_logout_url (cfg : redirect_config) (parsed : option parsed_url)
             (relay_state binding deflated : string) : res redirect_result :=
    match parsed with
    | None => Err (EOther "url.Parse")
    | Some u =>
        do r <- logout_query cfg relay_state binding deflated (parse_query (pu_raw_query u));
        Ok (url_string u (values_encode (fst r)) false, snd r)
    end.
End Signer.

(* the two flows side by side (used to state theorems once for both) *)
Inductive flow := FAuthn | FLogout.
Definition build_url sign (f : flow) :=
  match f with FAuthn => build_auth_url sign | FLogout => build_logout_url sign end.
(* when a signature is made: redirect binding, and for AuthnRequests only if SignAuthnRequests is set *)
Definition signing_applies (f : flow) (cfg : redirect_config) (binding : string) : bool :=
  match f with FAuthn => rc_sign_authn_requests cfg | FLogout => true end && (binding =?s c_BindingHttpRedirect).

Definition opt_list (o : option string) : list string := match o with Some v => [v] | None => [] end.

(* BuildAuthURLFromDocument / BuildAuthURLRedirect / BuildLogoutURLRedirect *)
Definition build_auth_url_from_document sign cfg parsed relay deflated :=
  build_auth_url sign cfg parsed relay c_BindingHttpPost deflated.
Definition build_auth_url_redirect sign cfg parsed relay deflated :=
  build_auth_url sign cfg parsed relay c_BindingHttpRedirect deflated.
Definition build_logout_url_redirect sign cfg parsed relay deflated :=
  build_logout_url sign cfg parsed relay c_BindingHttpRedirect deflated.

(* ================================================================ reading a URL back (used to state the theorems) *)
(* the still-encoded values of parameter [k] in a raw query, in order of appearance *)
Definition url_values (k : string) (raw_query : string) : list string :=
  map snd (filter (fun p => fst p =?s k) (split_query raw_query)).

(* the octet string of saml-bindings 3.4.4.1 cut out of the URL's own (encoded) values *)
Definition octets_to_sign (v_request : string) (v_relay : option string) (v_sigalg : string) : string :=
  "SAMLRequest=" ++ v_request
  ++ match v_relay with Some v => "&RelayState=" ++ v | None => "" end
  ++ "&SigAlg=" ++ v_sigalg.

(* ================================================================ observables for the correspondence check *)
Definition hash_val (h : hash_alg) : val :=
  VS (match h with SHA1 => "SHA1" | SHA256 => "SHA256" | SHA384 => "SHA384" | SHA512 => "SHA512" end).

Definition redirect_result_val (r : redirect_result) : val :=
  VL [VS (fst r); opt_val (fun hm => VL [hash_val (fst hm); VS (snd hm)]) (snd r)].

(* flow: "authn-post-binding" | "authn-redirect" | "logout-redirect"; sig = what the signer returned *)
Definition run_redirect (flow : string) (cfg : redirect_config) (parsed : option parsed_url)
           (relay deflated : string) (sig : option string) : val :=
  let sign := fun (_ : hash_alg) (_ : string) => sig in
  res_val redirect_result_val
    (if flow =?s "authn-post-binding" then build_auth_url_from_document sign cfg parsed relay deflated
     else if flow =?s "authn-redirect" then build_auth_url_redirect sign cfg parsed relay deflated
     else build_logout_url_redirect sign cfg parsed relay deflated).

Definition values_val (m : values) : val :=
  VL (map (fun kv => VL [VS (fst kv); VL (map VS (snd kv))]) (sort_kv m)).
