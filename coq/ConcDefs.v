(* ConcDefs.v — vocabulary in which gen/ renders the lock/access shape of SigningContext(). *)
From V Require Import Base.

Inductive action :=
| ARLock | ARUnlock | ALock | AUnlock | ADeferUnlock | ADeferRUnlock
| AReadCtx              (* read of sp.signingContext *)
| AWriteCtx             (* assignment to sp.signingContext *)
| AWriteCtxField        (* assignment to a field of *sp.signingContext *)
| AUseCtx               (* method call on sp.signingContext *)
| AIfLocalNonNilReturn  (* if signingContext != nil { return signingContext } on the local copy *)
| ABranch | AElse | AEndBranch
| AReturnCtx            (* return sp.signingContext *)
| AReturnLocal.

Definition action_eqb (a b : action) : bool :=
  match a, b with
  | ARLock, ARLock | ARUnlock, ARUnlock | ALock, ALock | AUnlock, AUnlock
  | ADeferUnlock, ADeferUnlock | ADeferRUnlock, ADeferRUnlock | AReadCtx, AReadCtx
  | AWriteCtx, AWriteCtx | AWriteCtxField, AWriteCtxField | AUseCtx, AUseCtx
  | AIfLocalNonNilReturn, AIfLocalNonNilReturn | ABranch, ABranch | AElse, AElse
  | AEndBranch, AEndBranch | AReturnCtx, AReturnCtx | AReturnLocal, AReturnLocal => true
  | _, _ => false
  end.
