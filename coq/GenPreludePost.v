(* GenPreludePost.v — target combinators of the function-body translator for the HTTP-POST binding form builders
   (gen/unit_Post.go -> GenPost.v): buildAuthBodyPostFromDocument, buildLogoutBodyPostFromDocument,
   buildLogoutResponseBodyPostFromDocument, BuildAuthBodyPost and the exported wrappers.
   Representation chosen by the unit:
     *template.Template   -> the template TEXT (html/template parses at Parse; escaping analysis and execution happen at
                             Execute, which is PostForm.render)
     bytes.Buffer         -> its contents
     struct{ F string … } -> association list field name -> value (PostForm.lookup_field reads it)
   Each definition models ONE Go operation.  Executable; no proofs. *)
From V Require Import Base Escape PostForm GenPrelude.
Local Open Scope list_scope.
Local Open Scope string_scope.   (* ++ is string append *)

(* template.New(name): an empty template.  The name only shows in error texts (errors are compared by class). *)
Definition tmpl_new (name : string) : string := "".

(* t.Parse(text): the text becomes the template's definition; a text outside the lexical subset PostForm.parse_template
   understands ({{.Field}} actions only) is an error here, so that template.Must PANICS on it (conservative: the Go parser
   accepts more) *)
Definition tmpl_parse (t : string) (text : string) : res (option string) :=
  match parse_template text with
  | Some _ => Ok (Some text)
  | None => Err (EOther "template: parse error")
  end.

(* template.Must(t, err): panics (None) when err != nil; the template otherwise (a nil template beside a nil error does not
   occur with tmpl_parse and is treated like an error) *)
Definition tmpl_must (r : res (option string)) : option string :=
  match r with Ok (Some t) => Some t | _ => None end.

(* what text/template has written to the writer when execution stops at a field it cannot evaluate: everything before it *)
Fixpoint exec_prefix (cs : list cseg) (data : list (string * string)) : string :=
  match cs with
  | [] => ""
  | CLit s :: r => s ++ exec_prefix r data
  | CAct e f :: r =>
      match lookup_field f data with
      | None => ""
      | Some v => apply_esc e v ++ exec_prefix r data
      end
  end.
Definition partial_render (t : string) (data : list (string * string)) : string :=
  match compile t with Some cs => exec_prefix cs data | None => "" end.   (* an escaping error comes before any output *)

(* t.Execute(&buf, data): PostForm.render appended to the buffer; (new buffer contents, error) *)
Definition tmpl_execute (t : string) (buf : string) (data : list (string * string)) : string * option err :=
  match render t data with
  | Ok out => (buf ++ out, None)
  | Err e => (buf ++ partial_render t data, Some e)
  end.
