(* Prop_C08.v — property C08: genuine responses are reproduced faithfully.
   Proved here: accessor semantics, summary extraction, and text recovery across comments / processing instructions
   (decoding is invariant under inserting or removing them at any depth: the comment-injection defence at tree level).
   NOT a theorem (established by the correspondence run + spec oracle over the generated layouts; would need a model of
   canonicalisation): that every conforming serialisation is accepted — see DESIGN.md, C08 "partial". *)
From V Require Import Base Time Xml Ns SchemaDefs Schema Types Profile Decode Response P_C08.

Theorem C08_values_lookup_is_last_attribute_with_that_name : forall k attrs,
  values_lookup k (values_of attrs) = last_named k attrs.
Proof. exact values_of_lookup. Qed.
Print Assumptions C08_values_lookup_is_last_attribute_with_that_name.

Theorem C08_accessors : forall attrs k,
  let m := Some (values_of attrs) in
  match last_named k attrs with
  | Some a => values_get m k = match at_values a with v :: _ => av_value v | [] => "" end /\
              values_get_all m k = map av_value (at_values a) /\
              values_get_size m k = Z.of_nat (List.length (at_values a))
  | None => values_get m k = "" /\ values_get_all m k = [] /\ values_get_size m k = 0%Z
  end.
Proof. exact accessors_spec. Qed.
Print Assumptions C08_accessors.

Theorem C08_accessors_nil_map : forall k,
  values_get None k = "" /\ values_get_all None k = [] /\ values_get_size None k = 0%Z.
Proof. exact accessors_nil_map. Qed.
Print Assumptions C08_accessors_nil_map.

Theorem C08_info_extraction : forall cfg now r i,
  retrieve_info_of cfg now r = Ok i ->
  exists a rest sub nid,
    r_assertions r = a :: rest /\ a_subject a = Some sub /\ sub_name_id sub = Some nid /\
    ai_name_id i = nid /\
    ai_values i = match a_attribute_statement a with Some attrs => values_of attrs | None => [] end /\
    ai_assertions i = r_assertions r /\
    ai_session_index i = match a_authn_statement a with Some s => as_session_index s | None => "" end /\
    ai_authn_instant i = match a_authn_statement a with Some s => as_authn_instant s | None => None end /\
    ai_session_not_on_or_after i = match a_authn_statement a with Some s => as_session_not_on_or_after s | None => None end /\
    (a_attribute_statement a = None -> cfg_allow_missing_attrs cfg = true).
Proof. exact info_extraction. Qed.
Print Assumptions C08_info_extraction.

Theorem C08_decoding_ignores_comments : forall sch name root,
  unmarshal_element sch name (strip root) = unmarshal_element sch name root.
Proof. exact unmarshal_ignores_comments. Qed.
Print Assumptions C08_decoding_ignores_comments.

Theorem C08_text_is_concatenation_of_all_character_data : forall ns kids,
  text_of_kids (flat_map (view ns) kids) =
  fold_right String.append "" (map (fun n => match n with Text s => s | _ => "" end) kids).
Proof. exact text_of_view_kids. Qed.
Print Assumptions C08_text_is_concatenation_of_all_character_data.

(* what validation decodes are the values of the (verified) element, U+000D, TAB and LF included: xmlUnmarshalElement writes
   the element with CanonicalText / CanonicalAttrVal (since 2164cf6; C08_source_xmlUnmarshalElement_writes_values_canonically
   below), so these characters go out as character references and the decoder gives them back
   (C08_canonical_text_recovers_value: the reader on the canonical escaper's output is the identity).
   (1) the attribute fields of the root are the last attribute of that name, exactly; (2) character data: the theorem above;
   (3) a document with &#13; &#9; &#10; in InResponseTo and &#13;&#10; .. &#9;&#xD; in the Issuer, from the bytes to the
   struct, through both serialisations: the repaired code reports the element's values (as the pre-decoder does), the
   original code reported them end-of-line normalised. *)
From V Require Import Generated P_Schema P_C20 XmlTok P_XmlTok P_XmlTokC20 Canon.
Theorem C08_decoded_values_keep_carriage_returns :
  (forall root r, unmarshal_response root = Ok r ->
     r_id r = element_attr "ID" root /\ r_in_response_to r = element_attr "InResponseTo" root /\
     r_destination r = element_attr "Destination" root /\ r_version r = element_attr "Version" root) /\
  (read_tree crs_doc = Ok (crs_tree crs_attr_value crs_text_value) /\
   (match unmarshal_response (crs_tree crs_attr_value crs_text_value) with Ok r => Some (r_in_response_to r, r_issuer r) | Err _ => None end)
     = Some (crs_attr_value, Some crs_text_value) /\
   (match predecode_bytes crs_doc with Ok b => Some (br_in_response_to b, br_issuer b) | Err _ => None end)
     = Some (crs_attr_value, Some crs_text_value) /\
   read_tree (c14n_write (crs_tree crs_attr_value crs_text_value)) = Ok (crs_tree crs_attr_value crs_text_value) /\
   (match unmarshal_response_original (crs_tree crs_attr_value crs_text_value) with Ok r => Some (r_in_response_to r, r_issuer r) | Err _ => None end)
     = Some (("_q" ++ lf1 ++ tab1 ++ lf1 ++ "x")%string, Some ("idp" ++ lf1 ++ "a" ++ tab1 ++ lf1)%string) /\
   read_tree (Build.etree_write (crs_tree crs_attr_value crs_text_value))
     = Ok (crs_tree ("_q" ++ lf1 ++ tab1 ++ lf1 ++ "x")%string ("idp" ++ lf1 ++ "a" ++ tab1 ++ lf1)%string)).
Proof. exact (conj response_root_attributes_exact decoded_values_keep_carriage_returns_example). Qed.
Print Assumptions C08_decoded_values_keep_carriage_returns.

(* tie to the source text of this run: the write settings read off xmlUnmarshalElement's body select that view *)
Theorem C08_source_xmlUnmarshalElement_writes_values_canonically : forall sch name root,
  unmarshal_element_source sch name root = unmarshal_element sch name root.
Proof. exact source_xmlUnmarshalElement_is_the_model. Qed.
Print Assumptions C08_source_xmlUnmarshalElement_writes_values_canonically.

(* ---- the decode schema extracted from /repo's struct tags on this run IS the SAML-core binding table ---- *)
From V Require Import SchemaDefs Generated SamlSchema P_SamlSchema.
Theorem C08_decode_schema_is_saml_core : xml_schema = saml_core_schema.
Proof. exact schema_is_saml_core. Qed.
Print Assumptions C08_decode_schema_is_saml_core.

(* ---- tie to the source text: RetrieveAssertionInfo and the Values accessors (GenFuncs.v, re-translated on every run) ---- *)
From V Require Import Profile GenPrelude GenFuncs P_GenFuncs.
Theorem C08_source_RetrieveAssertionInfo_is_the_model : forall cfg now enc (v : res response),
  G_RetrieveAssertionInfo cfg now enc (res_some v) = PVal (res_some (retrieve_info cfg now v)).
Proof. exact G_RetrieveAssertionInfo_eq. Qed.
Print Assumptions C08_source_RetrieveAssertionInfo_is_the_model.

Theorem C08_source_Values_accessors_are_the_model : forall m now k,
  G_Values_Get m now k = PVal (values_get m k) /\
  G_Values_GetSize m now k = PVal (values_get_size m k) /\
  G_Values_GetAll m now k = PVal (values_get_all m k).
Proof. intros m now k. exact (conj (G_Values_Get_eq m now k) (conj (G_Values_GetSize_eq m now k) (G_Values_GetAll_eq m now k))). Qed.
Print Assumptions C08_source_Values_accessors_are_the_model.

(* the composed source (P_Pipeline.v): whenever ValidateEncodedResponse over the translated parseResponse / decryptAssertions /
   getDecryptCert / DecryptBytes / validation stage accepts with response r, the model accepts with the same r, and the
   translated RetrieveAssertionInfo handed that result returns exactly the model's summary of r *)
From V Require Import Xml Ns Decode Decrypt Deflate Response Keys GenPreludeD GenPreludeT GenPreludeE GenPreludeK GenPreludeDeflate
     GenTree GenDecrypt GenDecTree GenKeys GenDeflate P_GenTree P_GenDecTree P_Pipeline.
Theorem C08_source_info_pipeline :
  forall inflate read_from_bytes rt_ok dsig rsa_oaep rsa_pkcs1 gcm_open cbc_decrypt sha1_hex parse_cert cfg kc venc now enc r,
    G_ValidateEncodedResponse (src_parse inflate read_from_bytes rt_ok cfg) dsig
      (src_decrypt_all inflate read_from_bytes rt_ok rsa_oaep rsa_pkcs1 gcm_open cbc_decrypt parse_cert cfg kc venc now) cfg now enc
    = PVal (Ok (Some r)) ->
    entry (model_parse inflate read_from_bytes rt_ok cfg) enc
      (validate_response_tree dsig
         (src_chain inflate read_from_bytes rt_ok rsa_oaep rsa_pkcs1 gcm_open cbc_decrypt sha1_hex parse_cert cfg kc venc now) cfg now)
    = Ok (Some r) /\
    G_RetrieveAssertionInfo cfg now enc (Ok (Some r)) = PVal (res_some (retrieve_info cfg now (Ok r))).
Proof. exact source_info_pipeline. Qed.
Print Assumptions C08_source_info_pipeline.

(* ---- layout invariance of what is signed: goxmldsig's canonicalisers as a function (Canon.v, corresponded byte for byte with
        the real library by the DSIG stream under C02), for every tree ---- *)
From V Require Import Escape Build Dsig Canon P_Canon.
From Coq Require Import Permutation.

(* (a) the without-comments algorithms give the same bytes with every comment, at any depth, removed (or added) *)
Theorem C08_canonical_form_ignores_comments : forall a n,
  keeps_comments a = false -> canon_model a (strip_comments n) = canon_model a n.
Proof. exact canon_ignores_comments. Qed.
Print Assumptions C08_canonical_form_ignores_comments.

Theorem C08_canonical_form_same_modulo_comments : forall a n1 n2,
  keeps_comments a = false -> strip_comments n1 = strip_comments n2 -> canon_model a n1 = canon_model a n2.
Proof. exact canon_same_modulo_comments. Qed.
Print Assumptions C08_canonical_form_same_modulo_comments.

(* (c) permuting the attributes of any number of elements does not change the canonical bytes, PROVIDED SortedAttrs.Less
   can tell the attributes of each element apart ([all_sort_total]: pairwise distinct qualified names -- which well-formed XML
   guarantees -- and no two prefixed attributes with the same local name, see C08_sort_premise_characterised).
   PARTIAL as to the algorithms: the inclusive ones (c14n 1.0 REC, c14n 1.1, null); for the exclusive ones by correspondence. *)
Theorem C08_canonical_form_ignores_attribute_order_partial : forall a n n',
  inclusive a = true -> all_sort_total n = true -> attrs_permuted n n' -> canon_model a n' = canon_model a n.
Proof. exact canon_ignores_attribute_order_inclusive. Qed.
Print Assumptions C08_canonical_form_ignores_attribute_order_partial.

Theorem C08_sorted_attributes_ignore_order : forall l l',
  sort_total l = true -> Permutation l l' -> sort_attrs l' = sort_attrs l.
Proof. exact sort_attrs_perm. Qed.
Print Assumptions C08_sorted_attributes_ignore_order.

Theorem C08_sort_premise_characterised : forall l,
  sort_total l = true <->
  NoDup l /\ forall x y, In x l -> In y l -> x <> y ->
             at_key x <> at_key y \/ (at_space x <> at_space y /\ (prefixed x && prefixed y = false)).
Proof. exact sort_total_iff. Qed.
Print Assumptions C08_sort_premise_characterised.

(* without that premise the statement is FALSE of goxmldsig (fidelity fact, checked against the real library by the fixed
   cases of the canon set): two prefixed attributes with the same local name whose prefixes are declared on an ancestor keep
   their document order under the inclusive algorithms (W3C C14N orders them by name-space URI) *)
Theorem C08_canonical_form_ignores_attribute_order_namesakes_refuted :
  exists n n', attrs_permuted n n' /\
    canon_model (C11 false) n = Some "<r xmlns:a=""urn:x:a"" xmlns:b=""urn:x:b""><e b:k=""1"" a:k=""2""></e></r>" /\
    canon_model (C11 false) n' = Some "<r xmlns:a=""urn:x:a"" xmlns:b=""urn:x:b""><e a:k=""2"" b:k=""1""></e></r>" /\
    canon_model (CRec false) n <> canon_model (CRec false) n' /\
    canon_model CNull n <> canon_model CNull n' /\
    canon_model (CExc "" false) n = canon_model (CExc "" false) n'.
Proof. exact canon_attribute_order_matters_for_namesakes. Qed.
Print Assumptions C08_canonical_form_ignores_attribute_order_namesakes_refuted.

(* (d) a reader recovers exactly the value from the canonical form: character data through end-of-line handling and
   reference expansion, attribute values even through white-space normalisation (CR, and in attributes TAB and LF, are
   written as character references); the escapers are injective; character data cut into several tokens (CDATA section,
   removed comment) gives the bytes of the concatenation *)
Theorem C08_canonical_text_recovers_value : forall s,
  valid_xml_text s = true ->
  canon_text_read (etree_escape CanonText s) = s /\ canon_attr_read (etree_escape CanonAttr s) = s.
Proof. exact canon_values_recovered. Qed.
Print Assumptions C08_canonical_text_recovers_value.

Theorem C08_canonical_escape_injective : forall m s1 s2,
  valid_xml_text s1 = true -> valid_xml_text s2 = true -> etree_escape m s1 = etree_escape m s2 -> s1 = s2.
Proof. exact canon_escape_injective. Qed.
Print Assumptions C08_canonical_escape_injective.

Theorem C08_canonical_text_tokens_concatenate : forall a b rest,
  valid_utf8 a = true ->
  c14n_write_kids (Text a :: Text b :: rest) = c14n_write_kids (Text (a ++ b) :: rest).
Proof. exact canon_text_tokens_concatenate. Qed.
Print Assumptions C08_canonical_text_tokens_concatenate.

(* (b) inclusive algorithms: re-declaring on the element at ANY path p a prefix (or the default name space) with the URI in
   force there ([seen_at] = what canonicalPrepInner has recorded on the way down; [decl_redundant] = it repeats that) does
   not change the canonical bytes, provided SortedAttrs.Less can tell that element's attributes apart *)
From V Require Import P_DsigExact.
Theorem C08_canonical_form_ignores_redundant_namespace_declarations : forall a root p sp tg pre d post kids s,
  inclusive a = true ->
  node_at root p = Some (Elem sp tg (pre ++ post) kids) -> seen_at [] root p = Some s ->
  sort_total (pre ++ d :: post) = true -> is_ns_decl d = true -> decl_redundant s d = true ->
  canon_model a (subst_at root p (Elem sp tg (pre ++ d :: post) kids)) = canon_model a root.
Proof. exact canon_ignores_redundant_declaration. Qed.
Print Assumptions C08_canonical_form_ignores_redundant_namespace_declarations.

(* without that premise FALSE of goxmldsig (fidelity fact; both documents are fixed cases of the canon set): the redundant
   declaration brings the prefix's URI into the slice SortedAttrs.Less reads and two namesake attributes change places *)
Theorem C08_redundant_declaration_reorders_namesakes_refuted :
  exists root p sp tg pre d post kids s,
    node_at root p = Some (Elem sp tg (pre ++ post) kids) /\ seen_at [] root p = Some s /\
    is_ns_decl d = true /\ decl_redundant s d = true /\
    canon_model (C11 false) root = Some "<r xmlns:a=""urn:x:a"" xmlns:b=""urn:x:b""><e a:k=""2"" b:k=""1""></e></r>" /\
    canon_model (C11 false) (subst_at root p (Elem sp tg (pre ++ d :: post) kids))
      = Some "<r xmlns:a=""urn:x:a"" xmlns:b=""urn:x:b""><e b:k=""1"" a:k=""2""></e></r>".
Proof. exact canon_redundant_declaration_reorders_namesakes. Qed.
Print Assumptions C08_redundant_declaration_reorders_namesakes_refuted.

(* (e) through the signature model Dsig.v with the canonicaliser oracle instantiated by canon_model.
   PARTIAL.  Attribute order: for the usual transform list (enveloped-signature, then an inclusive canonicalisation) two
   trees that differ by attribute order anywhere -- inside the Signature element too -- put the SAME bytes to the digest.
   Gap: not proved that findSignature, given such trees, leaves such trees behind with the same signature path / reference. *)
Theorem C08_digest_input_ignores_attribute_order_partial : forall root1 root2 p r t1 t2 c0 el1 a1,
  ref_transforms r = [t1; t2] -> tr_alg t1 = alg_enveloped -> P_Dsig.c14n_of t2 = Some c0 -> inclusive c0 = true ->
  all_sort_total root1 = true -> attrs_permuted root1 root2 ->
  transform root1 p r = Ok (el1, a1) ->
  exists el2, transform root2 p r = Ok (el2, a1) /\ canon_model a1 el2 = canon_model a1 el1.
Proof. exact digest_input_ignores_attribute_order. Qed.
Print Assumptions C08_digest_input_ignores_attribute_order_partial.

(* PARTIAL.  Comments: if the elements the canonicaliser is asked about for two roots differ by comments only and the
   reference names a without-comments algorithm, the digest input obs_ref_bytes is the same.  Gap: that two roots which
   differ by comments outside the Signature element lead to such queries (the signature path shifts with the comments). *)
Theorem C08_digest_input_ignores_comments_partial : forall reparse root1 root2 el1 el2 a,
  obs_ref_query canon_model reparse root1 = Ok (el1, a) -> obs_ref_query canon_model reparse root2 = Ok (el2, a) ->
  keeps_comments a = false -> strip_comments el1 = strip_comments el2 ->
  obs_ref_bytes canon_model reparse root1 = obs_ref_bytes canon_model reparse root2.
Proof. exact digest_input_ignores_comments. Qed.
Print Assumptions C08_digest_input_ignores_comments_partial.

(* ---- (f) the WHOLE verdict of the signature model (Dsig.v with canon := canon_model; digest, signature check, certificate
        parser and re-parse arbitrary) under a change of comment layout: closes the gap of
        C08_digest_input_ignores_comments_partial.  findSignature on the stripped tree makes the same visits (comments cost
        nothing of the 1000-visit budget: no budget premise), leaves the stripped tree behind and unmarshals the same
        types.Signature; the PATH of the signature differs (a comment before it shifts the child index) and is translated by
        [npath]: parent context, element and removeElementAtPath agree along translated paths. ---- *)
From V Require Import P_Layout.

(* path translation, by its properties: the node at the translated path of the stripped tree is the stripped node; the
   parent context is the same; removing there is removing here *)
Theorem C08_signature_path_translation : forall p n p',
  npath n p = Some p' ->
  (exists s, node_at n p = Some s /\ node_at (strip_comments n) p' = Some (strip_comments s)) /\
  (forall c, parent_ctx c (strip_comments n) p' = parent_ctx c n p) /\
  remove_at_path (strip_comments n) p' = option_map strip_comments (remove_at_path n p).
Proof. intros p n p' H. exact (conj (npath_node_at p n p' H) (conj (fun c => npath_parent_ctx p n p' c H) (npath_remove p n p' H))). Qed.
Print Assumptions C08_signature_path_translation.

Theorem C08_find_signature_ignores_comments : forall root, is_elem root = true ->
  match find_signature root with
  | Err e => find_signature (strip_comments root) = Err e
  | Ok (root', f1) =>
      exists f2, find_signature (strip_comments root) = Ok (strip_comments root', f2) /\
                 fs_sig f2 = fs_sig f1 /\ fs_si_alg f2 = fs_si_alg f1 /\
                 fs_si_detached f2 = strip_comments (fs_si_detached f1) /\
                 npath root' (fs_path f1) = Some (fs_path f2)
  end.
Proof. exact find_signature_sc. Qed.
Print Assumptions C08_find_signature_ignores_comments.

(* Premises, both about what the pipeline itself reads (they cannot be read off the tree alone: the reference used is the
   one in the RE-PARSED canonical SignedInfo bytes, an oracle):
     si_comment_safe f   : SignedInfo's canonicaliser drops comments, or SignedInfo holds no comment;
     ref_comment_safe r  : the reference lists enveloped-signature at most once and its transforms end with a canonicaliser
                           that drops comments (no c14n transform = the null canonicaliser, which KEEPS them).
   Then every comment of the document may go -- before the Signature, inside SignedInfo, inside DigestValue / SignatureValue /
   X509Certificate text -- and the verdict (accepted with the same verified element, missing, fatal) is the same. *)
Theorem C08_validation_ignores_comments : forall digest sig_ok parse_cert reparse store now root,
  (forall rf, find_signature root = Ok rf ->
              keeps_comments (fs_si_alg (snd rf)) = false \/ strip_comments (fs_si_detached (snd rf)) = fs_si_detached (snd rf)) ->
  (forall r, picked_reference reparse root = Ok r ->
             Nat.leb (enveloped_count (ref_transforms r)) 1 && negb (keeps_comments (effective_alg r)) = true) ->
  dsig_validate canon_model digest sig_ok parse_cert reparse store now (strip_comments root) =
  dsig_validate canon_model digest sig_ok parse_cert reparse store now root.
Proof. exact validation_ignores_comments. Qed.
Print Assumptions C08_validation_ignores_comments.

(* two serialisations that differ by comments only, anywhere *)
Theorem C08_validation_same_modulo_comments : forall digest sig_ok parse_cert reparse store now root1 root2,
  strip_comments root1 = strip_comments root2 ->
  (forall rf, find_signature root1 = Ok rf -> si_comment_safe (snd rf)) ->
  (forall rf, find_signature root2 = Ok rf -> si_comment_safe (snd rf)) ->
  (forall r, picked_reference reparse root1 = Ok r -> ref_comment_safe r = true) ->
  dsig_validate canon_model digest sig_ok parse_cert reparse store now root1 =
  dsig_validate canon_model digest sig_ok parse_cert reparse store now root2.
Proof. exact validation_same_modulo_comments'. Qed.
Print Assumptions C08_validation_same_modulo_comments.

(* non-vacuity: a signed document (exc-c14n twice) with a comment at every place one can go -- the signature's path is [3]
   with them and [1] without --: premises hold, accepted on both sides; and with SignedInfo canonicalised WITH comments,
   comments everywhere outside SignedInfo *)
Theorem C08_validation_ignores_comments_example :
  (let root := LayoutEx.doc alg_exc LayoutEx.usual LayoutEx.C LayoutEx.C in
   strip_comments root = LayoutEx.base alg_exc LayoutEx.usual /\ root <> LayoutEx.base alg_exc LayoutEx.usual /\
   (exists r f, find_signature root = Ok (r, f) /\ fs_path f = [3%nat]) /\
   (exists r f, find_signature (strip_comments root) = Ok (r, f) /\ fs_path f = [1%nat]) /\
   (forall rf, find_signature root = Ok rf -> si_comment_safe (snd rf)) /\
   (forall r, picked_reference (LayoutEx.reparse alg_exc LayoutEx.usual) root = Ok r -> ref_comment_safe r = true) /\
   LayoutEx.run alg_exc LayoutEx.usual root = DOk LayoutEx.verified /\
   LayoutEx.run alg_exc LayoutEx.usual (strip_comments root) = DOk LayoutEx.verified) /\
  (let root := LayoutEx.doc alg_exc_wc LayoutEx.usual LayoutEx.C [] in
   (forall rf, find_signature root = Ok rf -> si_comment_safe (snd rf)) /\
   (forall r, picked_reference (LayoutEx.reparse alg_exc_wc LayoutEx.usual) root = Ok r -> ref_comment_safe r = true) /\
   LayoutEx.run alg_exc_wc LayoutEx.usual root = DOk LayoutEx.verified /\
   LayoutEx.run alg_exc_wc LayoutEx.usual (strip_comments root) = DOk LayoutEx.verified).
Proof. exact (conj LayoutEx.comments_everywhere LayoutEx.comments_outside_signed_info). Qed.
Print Assumptions C08_validation_ignores_comments_example.

(* WITHOUT the premises FALSE of the faithful model -- by design of the with-comments algorithms (a comment inside a
   SignedInfo canonicalised with comments; inside an element digested under a with-comments transform or under no
   canonicalisation transform: the null canonicaliser keeps comments), and, a curiosity of removeElementAtPath (fixed case
   of the DSIG stream confirms it on the real library): a reference listing enveloped-signature TWICE removes, the second
   time, whatever token stands at the signature's index -- the following element in the comment-free document (accepted,
   that element not digested nor returned), a comment in the commented one (error) *)
Theorem C08_validation_ignores_comments_without_premises_refuted :
  (exists root, LayoutEx.run alg_exc_wc LayoutEx.usual (strip_comments root) = DOk LayoutEx.verified /\
                LayoutEx.run alg_exc_wc LayoutEx.usual root = DErr) /\
  (exists root, LayoutEx.run alg_exc [alg_enveloped; alg_exc_wc] (strip_comments root) = DOk LayoutEx.verified /\
                LayoutEx.run alg_exc [alg_enveloped; alg_exc_wc] root = DErr) /\
  (exists root, LayoutEx.run alg_exc [alg_enveloped] (strip_comments root) = DOk LayoutEx.verified /\
                LayoutEx.run alg_exc [alg_enveloped] root = DErr) /\
  (exists root, LayoutEx.run alg_exc [alg_enveloped; alg_enveloped; alg_exc] (strip_comments root) = DOk LayoutEx.verified /\
                LayoutEx.run alg_exc [alg_enveloped; alg_enveloped; alg_exc] root = DErr /\
                keeps_comments (CExc "" false) = false).
Proof. exact validation_comments_matter_without_premises. Qed.
Print Assumptions C08_validation_ignores_comments_without_premises_refuted.

(* ---- (g) the SAML layer over that signature model: a Response whose own signature is found (accepted or fatally
        rejected), or any Response when signature checking is off, gives the same Response / AssertionInfo / error in both
        comment layouts.  PARTIAL: the unsigned-Response path (every assertion validated separately) is not covered. ---- *)
Theorem C08_accepted_whatever_comment_layout :
  forall digest sig_ok parse_cert reparse decrypt store cfg now root,
    let dsig := dsig_validate canon_model digest sig_ok parse_cert reparse store now in
    (forall rf, find_signature root = Ok rf -> si_comment_safe (snd rf)) ->
    (forall r, picked_reference reparse root = Ok r -> ref_comment_safe r = true) ->
    cfg_skip_sig cfg = true \/ dsig root <> DMissing ->
    validate_response_tree dsig decrypt cfg now (strip_comments root) = validate_response_tree dsig decrypt cfg now root /\
    retrieve_assertion_info_tree dsig decrypt cfg now (strip_comments root) = retrieve_assertion_info_tree dsig decrypt cfg now root.
Proof. exact response_ignores_comments. Qed.
Print Assumptions C08_accepted_whatever_comment_layout.

(* ---- (h) the whole verdict under a change of ATTRIBUTE ORDER: closes the gap of
        C08_digest_input_ignores_attribute_order_partial for the layouts [po]: in any number of elements whose tag is not
        Signature, at any depth, the unprefixed non-declaration attributes (ID, Version, IssueInstant, Destination, ...) move
        freely -- among themselves and relative to the others --, the declarations and prefixed attributes keep their
        relative order ([fixed_part]), and SortedAttrs.Less can tell the element's attributes apart ([sort_total]); elements
        tagged Signature are left alone with all they contain.  Then findSignature makes the same visits with the same
        name-space contexts (they read the declarations in order), finds the same signature at the same path and leaves
        behind trees related in the same way.
        PARTIAL as to the reference's canonicaliser (inclusive ones, as C08_canonical_form_ignores_attribute_order_partial:
        for exc-c14n the sorted slice also holds the declarations it adds) and as to the permutations (declarations /
        prefixed attributes changing places would need contexts compared up to lookup). ---- *)
Theorem C08_layouts_related_by_attribute_order : forall sp tg a k sp' tg' a' k',
  po (Elem sp tg a k) (Elem sp' tg' a' k') <->
  sp = sp' /\ tg = tg' /\
  if String.eqb tg "Signature" then a = a' /\ k = k'
  else (a = a' \/ (Permutation a a' /\ fixed_part a' = fixed_part a /\ sort_total a = true)) /\ po_kids k k'.
Proof. exact po_elem. Qed.
Print Assumptions C08_layouts_related_by_attribute_order.

Theorem C08_find_signature_ignores_attribute_order : forall root root',
  po root root' -> id_of root' = id_of root ->
  match find_signature root with
  | Err e => find_signature root' = Err e
  | Ok (r1, f) => exists r1', find_signature root' = Ok (r1', f) /\ po r1 r1'
  end.
Proof. exact find_signature_po. Qed.
Print Assumptions C08_find_signature_ignores_attribute_order.

Theorem C08_validation_ignores_attribute_order : forall digest sig_ok parse_cert reparse store now root1 root2,
  po root1 root2 -> id_of root2 = id_of root1 ->
  (forall r, picked_reference reparse root1 = Ok r -> inclusive (effective_alg r) = true) ->
  dsig_validate canon_model digest sig_ok parse_cert reparse store now root2 =
  dsig_validate canon_model digest sig_ok parse_cert reparse store now root1.
Proof. exact validation_ignores_attribute_order. Qed.
Print Assumptions C08_validation_ignores_attribute_order.

(* the premise on the ID attribute holds when at most one attribute of the root has the local name ID *)
Theorem C08_id_lookup_ignores_attribute_order : forall key a a',
  Permutation a a' -> (List.length (filter (fun x => String.eqb (at_key x) key) a) <= 1)%nat ->
  select_attr key a' = select_attr key a.
Proof. exact select_attr_perm. Qed.
Print Assumptions C08_id_lookup_ignores_attribute_order.

Theorem C08_validation_ignores_attribute_order_example :
  po LayoutEx2.base2 (LayoutEx2.doc2 LayoutEx2.ra2 LayoutEx2.ia2) /\ LayoutEx2.base2 <> LayoutEx2.doc2 LayoutEx2.ra2 LayoutEx2.ia2 /\
  id_of (LayoutEx2.doc2 LayoutEx2.ra2 LayoutEx2.ia2) = id_of LayoutEx2.base2 /\
  (forall r, picked_reference LayoutEx2.reparse2 LayoutEx2.base2 = Ok r -> inclusive (effective_alg r) = true) /\
  LayoutEx2.run2 LayoutEx2.base2 = DOk LayoutEx.verified /\
  LayoutEx2.run2 (LayoutEx2.doc2 LayoutEx2.ra2 LayoutEx2.ia2) = DOk LayoutEx.verified.
Proof. exact LayoutEx2.attributes_moved. Qed.
Print Assumptions C08_validation_ignores_attribute_order_example.

(* WITHOUT the premise on the ID attribute FALSE of the faithful model (fidelity fact of goxmldsig / etree, fixed cases of the
   DSIG stream confirm it on the real library): root.SelectAttr("ID") takes the first attribute whose LOCAL name is ID;
   a root carrying ID="x" and p:ID="y" has the same canonical bytes in both orders, is accepted with ID first and is
   "not signed" (ErrMissingSignature: gosaml2 goes on to the unsigned-Response path) with p:ID first *)
Theorem C08_validation_attribute_order_id_namesake_refuted :
  exists digest sig_ok parse_cert reparse store now root1 root2 v,
    po root1 root2 /\ id_of root1 = "x"%string /\ id_of root2 = "y"%string /\
    (forall r, picked_reference reparse root1 = Ok r -> inclusive (effective_alg r) = true) /\
    canon_model (C11 false) root1 = canon_model (C11 false) root2 /\
    dsig_validate canon_model digest sig_ok parse_cert reparse store now root1 = DOk v /\
    dsig_validate canon_model digest sig_ok parse_cert reparse store now root2 = DMissing.
Proof. exact validation_attribute_order_matters_for_id_namesakes. Qed.
Print Assumptions C08_validation_attribute_order_id_namesake_refuted.

(* the SAML layer, signed-Response path *)
Theorem C08_accepted_whatever_attribute_order :
  forall digest sig_ok parse_cert reparse decrypt store cfg now root1 root2,
    let dsig := dsig_validate canon_model digest sig_ok parse_cert reparse store now in
    po root1 root2 -> id_of root2 = id_of root1 ->
    (forall r, picked_reference reparse root1 = Ok r -> inclusive (effective_alg r) = true) ->
    cfg_skip_sig cfg = false -> dsig root1 <> DMissing ->
    validate_response_tree dsig decrypt cfg now root2 = validate_response_tree dsig decrypt cfg now root1 /\
    retrieve_assertion_info_tree dsig decrypt cfg now root2 = retrieve_assertion_info_tree dsig decrypt cfg now root1.
Proof. exact response_ignores_attribute_order. Qed.
Print Assumptions C08_accepted_whatever_attribute_order.
