(* SamlSchema.v — the normative vocabulary the implementation must use, written down independently of the source:
   element / attribute names and name spaces of SAML 2.0 core (saml-core-2.0-os), the XML-Encryption / XML-Signature
   algorithm identifiers, and the decode schema (which XML name and kind each decoded struct field binds to).
   Prop files prove that what the translator extracts from /repo on every run (Generated.v) EQUALS this table, so a
   change of a struct tag or of a constant is a broken proof obligation. Hand-maintained; no proofs here. *)
From V Require Import Base SchemaDefs.

Definition saml_core_schema : list (string * list field) := [
  ("Assertion", [
    {| f_go := "XMLName"; f_kind := KXMLName "urn:oasis:names:tc:SAML:2.0:assertion" "Assertion"; f_type := TName |};
    {| f_go := "Version"; f_kind := KAttr "" "Version"; f_type := TStr |};
    {| f_go := "ID"; f_kind := KAttr "" "ID"; f_type := TStr |};
    {| f_go := "IssueInstant"; f_kind := KAttr "" "IssueInstant"; f_type := TTime |};
    {| f_go := "Issuer"; f_kind := KElem [] "" "Issuer"; f_type := (TPtr (TStruct "Issuer")) |};
    {| f_go := "Signature"; f_kind := KElem [] "" "Signature"; f_type := (TPtr (TStruct "Signature")) |};
    {| f_go := "Subject"; f_kind := KElem [] "" "Subject"; f_type := (TPtr (TStruct "Subject")) |};
    {| f_go := "Conditions"; f_kind := KElem [] "" "Conditions"; f_type := (TPtr (TStruct "Conditions")) |};
    {| f_go := "AttributeStatement"; f_kind := KElem [] "" "AttributeStatement"; f_type := (TPtr (TStruct "AttributeStatement")) |};
    {| f_go := "AuthnStatement"; f_kind := KElem [] "" "AuthnStatement"; f_type := (TPtr (TStruct "AuthnStatement")) |};
    {| f_go := "SignatureValidated"; f_kind := KSkip; f_type := TBool |}]);
  ("Attribute", [
    {| f_go := "XMLName"; f_kind := KXMLName "urn:oasis:names:tc:SAML:2.0:assertion" "Attribute"; f_type := TName |};
    {| f_go := "FriendlyName"; f_kind := KAttr "" "FriendlyName"; f_type := TStr |};
    {| f_go := "Name"; f_kind := KAttr "" "Name"; f_type := TStr |};
    {| f_go := "NameFormat"; f_kind := KAttr "" "NameFormat"; f_type := TStr |};
    {| f_go := "Values"; f_kind := KElem [] "" "AttributeValue"; f_type := (TSlice (TStruct "AttributeValue")) |}]);
  ("AttributeStatement", [
    {| f_go := "XMLName"; f_kind := KXMLName "urn:oasis:names:tc:SAML:2.0:assertion" "AttributeStatement"; f_type := TName |};
    {| f_go := "Attributes"; f_kind := KElem [] "" "Attribute"; f_type := (TSlice (TStruct "Attribute")) |}]);
  ("AttributeValue", [
    {| f_go := "XMLName"; f_kind := KXMLName "urn:oasis:names:tc:SAML:2.0:assertion" "AttributeValue"; f_type := TName |};
    {| f_go := "Type"; f_kind := KAttr "" "xsi:type"; f_type := TStr |};
    {| f_go := "Value"; f_kind := KCharData; f_type := TStr |}]);
  ("Audience", [
    {| f_go := "XMLName"; f_kind := KXMLName "urn:oasis:names:tc:SAML:2.0:assertion" "Audience"; f_type := TName |};
    {| f_go := "Value"; f_kind := KCharData; f_type := TStr |}]);
  ("AudienceRestriction", [
    {| f_go := "XMLName"; f_kind := KXMLName "urn:oasis:names:tc:SAML:2.0:assertion" "AudienceRestriction"; f_type := TName |};
    {| f_go := "Audiences"; f_kind := KElem [] "" "Audience"; f_type := (TSlice (TStruct "Audience")) |}]);
  ("AuthnContext", [
    {| f_go := "XMLName"; f_kind := KXMLName "urn:oasis:names:tc:SAML:2.0:assertion" "AuthnContext"; f_type := TName |};
    {| f_go := "AuthnContextClassRef"; f_kind := KElem [] "" "AuthnContextClassRef"; f_type := (TPtr (TStruct "AuthnContextClassRef")) |}]);
  ("AuthnContextClassRef", [
    {| f_go := "XMLName"; f_kind := KXMLName "urn:oasis:names:tc:SAML:2.0:assertion" "AuthnContextClassRef"; f_type := TName |};
    {| f_go := "Value"; f_kind := KCharData; f_type := TStr |}]);
  ("AuthnStatement", [
    {| f_go := "XMLName"; f_kind := KXMLName "urn:oasis:names:tc:SAML:2.0:assertion" "AuthnStatement"; f_type := TName |};
    {| f_go := "SessionIndex"; f_kind := KAttr "" "SessionIndex"; f_type := TStr |};
    {| f_go := "AuthnInstant"; f_kind := KAttr "" "AuthnInstant"; f_type := (TPtr TTime) |};
    {| f_go := "SessionNotOnOrAfter"; f_kind := KAttr "" "SessionNotOnOrAfter"; f_type := (TPtr TTime) |};
    {| f_go := "AuthnContext"; f_kind := KElem [] "" "AuthnContext"; f_type := (TPtr (TStruct "AuthnContext")) |}]);
  ("Conditions", [
    {| f_go := "XMLName"; f_kind := KXMLName "urn:oasis:names:tc:SAML:2.0:assertion" "Conditions"; f_type := TName |};
    {| f_go := "NotBefore"; f_kind := KAttr "" "NotBefore"; f_type := TStr |};
    {| f_go := "NotOnOrAfter"; f_kind := KAttr "" "NotOnOrAfter"; f_type := TStr |};
    {| f_go := "AudienceRestrictions"; f_kind := KElem [] "" "AudienceRestriction"; f_type := (TSlice (TStruct "AudienceRestriction")) |};
    {| f_go := "OneTimeUse"; f_kind := KElem [] "" "OneTimeUse"; f_type := (TPtr (TStruct "OneTimeUse")) |};
    {| f_go := "ProxyRestriction"; f_kind := KElem [] "" "ProxyRestriction"; f_type := (TPtr (TStruct "ProxyRestriction")) |}]);
  ("DigestMethod", [
    {| f_go := "Algorithm"; f_kind := KAttr "" "Algorithm"; f_type := TStr |}]);
  ("EncryptedAssertion", [
    {| f_go := "XMLName"; f_kind := KXMLName "urn:oasis:names:tc:SAML:2.0:assertion" "EncryptedAssertion"; f_type := TName |};
    {| f_go := "EncryptionMethod"; f_kind := KElem ["EncryptedData"] "" "EncryptionMethod"; f_type := (TStruct "EncryptionMethod") |};
    {| f_go := "EncryptedKey"; f_kind := KElem ["EncryptedData"; "KeyInfo"] "" "EncryptedKey"; f_type := (TStruct "EncryptedKey") |};
    {| f_go := "DetEncryptedKey"; f_kind := KElem [] "" "EncryptedKey"; f_type := (TStruct "EncryptedKey") |};
    {| f_go := "CipherValue"; f_kind := KElem ["EncryptedData"; "CipherData"] "" "CipherValue"; f_type := TStr |}]);
  ("EncryptedKey", [
    {| f_go := "X509Data"; f_kind := KElem ["KeyInfo"; "X509Data"] "" "X509Certificate"; f_type := TStr |};
    {| f_go := "CipherValue"; f_kind := KElem ["CipherData"] "" "CipherValue"; f_type := TStr |};
    {| f_go := "EncryptionMethod"; f_kind := KElem [] "" "EncryptionMethod"; f_type := (TStruct "EncryptionMethod") |}]);
  ("EncryptionMethod", [
    {| f_go := "Algorithm"; f_kind := KAttr "" "Algorithm"; f_type := TStr |};
    {| f_go := "DigestMethod"; f_kind := KElem [] "" "DigestMethod"; f_type := (TPtr (TStruct "DigestMethod")) |}]);
  ("Issuer", [
    {| f_go := "XMLName"; f_kind := KXMLName "urn:oasis:names:tc:SAML:2.0:assertion" "Issuer"; f_type := TName |};
    {| f_go := "Value"; f_kind := KCharData; f_type := TStr |}]);
  ("LogoutRequest", [
    {| f_go := "XMLName"; f_kind := KXMLName "urn:oasis:names:tc:SAML:2.0:protocol" "LogoutRequest"; f_type := TName |};
    {| f_go := "ID"; f_kind := KAttr "" "ID"; f_type := TStr |};
    {| f_go := "Version"; f_kind := KAttr "" "Version"; f_type := TStr |};
    {| f_go := "IssueInstant"; f_kind := KAttr "" "IssueInstant"; f_type := TTime |};
    {| f_go := "Destination"; f_kind := KAttr "" "Destination"; f_type := TStr |};
    {| f_go := "Issuer"; f_kind := KElem [] "" "Issuer"; f_type := (TPtr (TStruct "Issuer")) |};
    {| f_go := "NameID"; f_kind := KElem [] "" "NameID"; f_type := (TPtr (TStruct "NameID")) |};
    {| f_go := "SignatureValidated"; f_kind := KSkip; f_type := TBool |}]);
  ("LogoutResponse", [
    {| f_go := "XMLName"; f_kind := KXMLName "urn:oasis:names:tc:SAML:2.0:protocol" "LogoutResponse"; f_type := TName |};
    {| f_go := "ID"; f_kind := KAttr "" "ID"; f_type := TStr |};
    {| f_go := "InResponseTo"; f_kind := KAttr "" "InResponseTo"; f_type := TStr |};
    {| f_go := "Destination"; f_kind := KAttr "" "Destination"; f_type := TStr |};
    {| f_go := "Version"; f_kind := KAttr "" "Version"; f_type := TStr |};
    {| f_go := "IssueInstant"; f_kind := KAttr "" "IssueInstant"; f_type := TTime |};
    {| f_go := "Status"; f_kind := KElem [] "" "Status"; f_type := (TPtr (TStruct "Status")) |};
    {| f_go := "Issuer"; f_kind := KElem [] "" "Issuer"; f_type := (TPtr (TStruct "Issuer")) |};
    {| f_go := "SignatureValidated"; f_kind := KSkip; f_type := TBool |}]);
  ("NameID", [
    {| f_go := "XMLName"; f_kind := KXMLName "urn:oasis:names:tc:SAML:2.0:assertion" "NameID"; f_type := TName |};
    {| f_go := "Value"; f_kind := KCharData; f_type := TStr |}]);
  ("OneTimeUse", [
    {| f_go := "XMLName"; f_kind := KXMLName "urn:oasis:names:tc:SAML:2.0:assertion" "OneTimeUse"; f_type := TName |}]);
  ("ProxyRestriction", [
    {| f_go := "XMLName"; f_kind := KXMLName "urn:oasis:names:tc:SAML:2.0:assertion" "ProxyRestriction"; f_type := TName |};
    {| f_go := "Count"; f_kind := KAttr "" "Count"; f_type := TInt |};
    {| f_go := "Audience"; f_kind := KElem [] "" "Audience"; f_type := (TSlice (TStruct "Audience")) |}]);
  ("Response", [
    {| f_go := "XMLName"; f_kind := KXMLName "urn:oasis:names:tc:SAML:2.0:protocol" "Response"; f_type := TName |};
    {| f_go := "ID"; f_kind := KAttr "" "ID"; f_type := TStr |};
    {| f_go := "InResponseTo"; f_kind := KAttr "" "InResponseTo"; f_type := TStr |};
    {| f_go := "Destination"; f_kind := KAttr "" "Destination"; f_type := TStr |};
    {| f_go := "Version"; f_kind := KAttr "" "Version"; f_type := TStr |};
    {| f_go := "IssueInstant"; f_kind := KAttr "" "IssueInstant"; f_type := TTime |};
    {| f_go := "Status"; f_kind := KElem [] "" "Status"; f_type := (TPtr (TStruct "Status")) |};
    {| f_go := "Issuer"; f_kind := KElem [] "" "Issuer"; f_type := (TPtr (TStruct "Issuer")) |};
    {| f_go := "Assertions"; f_kind := KElem [] "" "Assertion"; f_type := (TSlice (TStruct "Assertion")) |};
    {| f_go := "EncryptedAssertions"; f_kind := KElem [] "" "EncryptedAssertion"; f_type := (TSlice (TStruct "EncryptedAssertion")) |};
    {| f_go := "SignatureValidated"; f_kind := KSkip; f_type := TBool |}]);
  ("Signature", [
    {| f_go := "SignatureDocument"; f_kind := KInnerXML; f_type := TBytes |}]);
  ("Status", [
    {| f_go := "XMLName"; f_kind := KXMLName "urn:oasis:names:tc:SAML:2.0:protocol" "Status"; f_type := TName |};
    {| f_go := "StatusCode"; f_kind := KElem [] "" "StatusCode"; f_type := (TPtr (TStruct "StatusCode")) |}]);
  ("StatusCode", [
    {| f_go := "XMLName"; f_kind := KXMLName "urn:oasis:names:tc:SAML:2.0:protocol" "StatusCode"; f_type := TName |};
    {| f_go := "Value"; f_kind := KAttr "" "Value"; f_type := TStr |}]);
  ("Subject", [
    {| f_go := "XMLName"; f_kind := KXMLName "urn:oasis:names:tc:SAML:2.0:assertion" "Subject"; f_type := TName |};
    {| f_go := "NameID"; f_kind := KElem [] "" "NameID"; f_type := (TPtr (TStruct "NameID")) |};
    {| f_go := "SubjectConfirmation"; f_kind := KElem [] "" "SubjectConfirmation"; f_type := (TPtr (TStruct "SubjectConfirmation")) |}]);
  ("SubjectConfirmation", [
    {| f_go := "XMLName"; f_kind := KXMLName "urn:oasis:names:tc:SAML:2.0:assertion" "SubjectConfirmation"; f_type := TName |};
    {| f_go := "Method"; f_kind := KAttr "" "Method"; f_type := TStr |};
    {| f_go := "SubjectConfirmationData"; f_kind := KElem [] "" "SubjectConfirmationData"; f_type := (TPtr (TStruct "SubjectConfirmationData")) |}]);
  ("SubjectConfirmationData", [
    {| f_go := "XMLName"; f_kind := KXMLName "urn:oasis:names:tc:SAML:2.0:assertion" "SubjectConfirmationData"; f_type := TName |};
    {| f_go := "NotOnOrAfter"; f_kind := KAttr "" "NotOnOrAfter"; f_type := TStr |};
    {| f_go := "Recipient"; f_kind := KAttr "" "Recipient"; f_type := TStr |};
    {| f_go := "InResponseTo"; f_kind := KAttr "" "InResponseTo"; f_type := TStr |}]);
  ("UnverifiedBaseResponse", [
    {| f_go := "XMLName"; f_kind := KXMLName "urn:oasis:names:tc:SAML:2.0:protocol" "Response"; f_type := TName |};
    {| f_go := "ID"; f_kind := KAttr "" "ID"; f_type := TStr |};
    {| f_go := "InResponseTo"; f_kind := KAttr "" "InResponseTo"; f_type := TStr |};
    {| f_go := "Destination"; f_kind := KAttr "" "Destination"; f_type := TStr |};
    {| f_go := "Version"; f_kind := KAttr "" "Version"; f_type := TStr |};
    {| f_go := "Issuer"; f_kind := KElem [] "" "Issuer"; f_type := (TPtr (TStruct "Issuer")) |}])
].

(* names used in typed errors and in built messages, algorithm identifiers *)
Definition saml_vocabulary : list (string * string) := [
  ("c_ReasonUnsupported", "Unsupported");
  ("c_ReasonExpired", "Expired");
  ("c_SubjMethodBearer", "urn:oasis:names:tc:SAML:2.0:cm:bearer");
  ("c_ResponseTag", "Response");
  ("c_AssertionTag", "Assertion");
  ("c_EncryptedAssertionTag", "EncryptedAssertion");
  ("c_SubjectTag", "Subject");
  ("c_NameIdTag", "NameID");
  ("c_SubjectConfirmationTag", "SubjectConfirmation");
  ("c_SubjectConfirmationDataTag", "SubjectConfirmationData");
  ("c_AttributeStatementTag", "AttributeStatement");
  ("c_AttributeValueTag", "AttributeValue");
  ("c_ConditionsTag", "Conditions");
  ("c_AudienceRestrictionTag", "AudienceRestriction");
  ("c_AudienceTag", "Audience");
  ("c_OneTimeUseTag", "OneTimeUse");
  ("c_ProxyRestrictionTag", "ProxyRestriction");
  ("c_IssuerTag", "Issuer");
  ("c_StatusTag", "Status");
  ("c_StatusCodeTag", "StatusCode");
  ("c_DestinationAttr", "Destination");
  ("c_VersionAttr", "Version");
  ("c_IdAttr", "ID");
  ("c_MethodAttr", "Method");
  ("c_RecipientAttr", "Recipient");
  ("c_NameAttr", "Name");
  ("c_NotBeforeAttr", "NotBefore");
  ("c_NotOnOrAfterAttr", "NotOnOrAfter");
  ("c_CountAttr", "Count");
  ("c_NameIdFormatPersistent", "urn:oasis:names:tc:SAML:2.0:nameid-format:persistent");
  ("c_NameIdFormatTransient", "urn:oasis:names:tc:SAML:2.0:nameid-format:transient");
  ("c_NameIdFormatEmailAddress", "urn:oasis:names:tc:SAML:1.1:nameid-format:emailAddress");
  ("c_NameIdFormatUnspecified", "urn:oasis:names:tc:SAML:1.1:nameid-format:unspecified");
  ("c_NameIdFormatX509SubjectName", "urn:oasis:names:tc:SAML:1.1:nameid-format:x509SubjectName");
  ("c_StatusCodeSuccess", "urn:oasis:names:tc:SAML:2.0:status:Success");
  ("c_StatusCodePartialLogout", "urn:oasis:names:tc:SAML:2.0:status:PartialLogout");
  ("c_StatusCodeUnknownPrincipal", "urn:oasis:names:tc:SAML:2.0:status:UnknownPrincipal");
  ("c_BindingHttpPost", "urn:oasis:names:tc:SAML:2.0:bindings:HTTP-POST");
  ("c_BindingHttpRedirect", "urn:oasis:names:tc:SAML:2.0:bindings:HTTP-Redirect");
  ("c_SAMLAssertionNamespace", "urn:oasis:names:tc:SAML:2.0:assertion");
  ("c_SAMLProtocolNamespace", "urn:oasis:names:tc:SAML:2.0:protocol");
  ("t_MethodRSAOAEP", "http://www.w3.org/2001/04/xmlenc#rsa-oaep-mgf1p");
  ("t_MethodRSAOAEP2", "http://www.w3.org/2009/xmlenc11#rsa-oaep");
  ("t_MethodRSAv1_5", "http://www.w3.org/2001/04/xmlenc#rsa-1_5");
  ("t_MethodAES128GCM", "http://www.w3.org/2009/xmlenc11#aes128-gcm");
  ("t_MethodAES192GCM", "http://www.w3.org/2009/xmlenc11#aes192-gcm");
  ("t_MethodAES256GCM", "http://www.w3.org/2009/xmlenc11#aes256-gcm");
  ("t_MethodAES128CBC", "http://www.w3.org/2001/04/xmlenc#aes128-cbc");
  ("t_MethodAES256CBC", "http://www.w3.org/2001/04/xmlenc#aes256-cbc");
  ("t_MethodTripleDESCBC", "http://www.w3.org/2001/04/xmlenc#tripledes-cbc");
  ("t_MethodSHA1", "http://www.w3.org/2000/09/xmldsig#sha1");
  ("t_MethodSHA256", "http://www.w3.org/2000/09/xmldsig#sha256");
  ("t_MethodSHA512", "http://www.w3.org/2000/09/xmldsig#sha512")].

(* ---- SAML 2.0 metadata (saml-metadata-2.0-os; sstc-saml-metadata-algsupport for Extensions) as the MARSHALLED Go types
   must spell it: for each struct the XML name and name space it is written under (md: urn:oasis:names:tc:SAML:2.0:metadata,
   ds: http://www.w3.org/2000/09/xmldsig#; a struct without XMLName is written under the name of the field that holds it,
   in the name space in scope), every attribute (validUntil, entityID, protocolSupportEnumeration, use, Binding, Location,
   ResponseLocation, index, Algorithm, ... with the capitalisation of the schema), every child element in the order of the
   schema's sequence as far as the library emits it, character data; and which of them are optional on output (omitempty:
   ResponseLocation, the three role / Extensions children of EntityDescriptor, DigestMethod, Algorithm of the method
   elements, MinKeySize / MaxKeySize).  Written by hand; P_Marshal.v proves the schema extracted from /repo on this run
   equal to it. ---- *)
Definition saml_metadata_schema : list (string * list field) := [
  ("Attribute", [
    {| f_go := "XMLName"; f_kind := KXMLName "urn:oasis:names:tc:SAML:2.0:assertion" "Attribute"; f_type := TName |};
    {| f_go := "FriendlyName"; f_kind := KAttr "" "FriendlyName"; f_type := TStr |};
    {| f_go := "Name"; f_kind := KAttr "" "Name"; f_type := TStr |};
    {| f_go := "NameFormat"; f_kind := KAttr "" "NameFormat"; f_type := TStr |};
    {| f_go := "Values"; f_kind := KElem [] "" "AttributeValue"; f_type := (TSlice (TStruct "AttributeValue")) |}]);
  ("AttributeValue", [
    {| f_go := "XMLName"; f_kind := KXMLName "urn:oasis:names:tc:SAML:2.0:assertion" "AttributeValue"; f_type := TName |};
    {| f_go := "Type"; f_kind := KAttr "" "xsi:type"; f_type := TStr |};
    {| f_go := "Value"; f_kind := KCharData; f_type := TStr |}]);
  ("DigestMethod", [
    {| f_go := "Algorithm"; f_kind := KAttr "" "Algorithm"; f_type := TStr |}]);
  ("EncryptionMethod", [
    {| f_go := "Algorithm"; f_kind := KAttr "" "Algorithm"; f_type := TStr |};
    {| f_go := "DigestMethod"; f_kind := KElem [] "" "DigestMethod"; f_type := (TPtr (TStruct "DigestMethod")) |}]);
  ("Endpoint", [
    {| f_go := "Binding"; f_kind := KAttr "" "Binding"; f_type := TStr |};
    {| f_go := "Location"; f_kind := KAttr "" "Location"; f_type := TStr |};
    {| f_go := "ResponseLocation"; f_kind := KAttr "" "ResponseLocation"; f_type := TStr |}]);
  ("EntityDescriptor", [
    {| f_go := "XMLName"; f_kind := KXMLName "urn:oasis:names:tc:SAML:2.0:metadata" "EntityDescriptor"; f_type := TName |};
    {| f_go := "ValidUntil"; f_kind := KAttr "" "validUntil"; f_type := TTime |};
    {| f_go := "EntityID"; f_kind := KAttr "" "entityID"; f_type := TStr |};
    {| f_go := "SPSSODescriptor"; f_kind := KElem [] "" "SPSSODescriptor"; f_type := (TPtr (TStruct "SPSSODescriptor")) |};
    {| f_go := "IDPSSODescriptor"; f_kind := KElem [] "" "IDPSSODescriptor"; f_type := (TPtr (TStruct "IDPSSODescriptor")) |};
    {| f_go := "Extensions"; f_kind := KElem [] "" "Extensions"; f_type := (TPtr (TStruct "Extensions")) |}]);
  ("Extensions", [
    {| f_go := "DigestMethod"; f_kind := KElem [] "" "DigestMethod"; f_type := (TPtr (TStruct "DigestMethod")) |};
    {| f_go := "SigningMethod"; f_kind := KElem [] "" "SigningMethod"; f_type := (TPtr (TStruct "SigningMethod")) |}]);
  ("IDPSSODescriptor", [
    {| f_go := "XMLName"; f_kind := KXMLName "urn:oasis:names:tc:SAML:2.0:metadata" "IDPSSODescriptor"; f_type := TName |};
    {| f_go := "WantAuthnRequestsSigned"; f_kind := KAttr "" "WantAuthnRequestsSigned"; f_type := TBool |};
    {| f_go := "KeyDescriptors"; f_kind := KElem [] "" "KeyDescriptor"; f_type := (TSlice (TStruct "KeyDescriptor")) |};
    {| f_go := "NameIDFormats"; f_kind := KElem [] "" "NameIDFormat"; f_type := (TSlice (TStruct "NameIDFormat")) |};
    {| f_go := "SingleSignOnServices"; f_kind := KElem [] "" "SingleSignOnService"; f_type := (TSlice (TStruct "SingleSignOnService")) |};
    {| f_go := "SingleLogoutServices"; f_kind := KElem [] "" "SingleLogoutService"; f_type := (TSlice (TStruct "SingleLogoutService")) |};
    {| f_go := "Attributes"; f_kind := KElem [] "" "Attribute"; f_type := (TSlice (TStruct "Attribute")) |};
    {| f_go := "Extensions"; f_kind := KElem [] "" "Extensions"; f_type := (TPtr (TStruct "Extensions")) |}]);
  ("IndexedEndpoint", [
    {| f_go := "Binding"; f_kind := KAttr "" "Binding"; f_type := TStr |};
    {| f_go := "Location"; f_kind := KAttr "" "Location"; f_type := TStr |};
    {| f_go := "Index"; f_kind := KAttr "" "index"; f_type := TInt |}]);
  ("KeyDescriptor", [
    {| f_go := "XMLName"; f_kind := KXMLName "urn:oasis:names:tc:SAML:2.0:metadata" "KeyDescriptor"; f_type := TName |};
    {| f_go := "Use"; f_kind := KAttr "" "use"; f_type := TStr |};
    {| f_go := "KeyInfo"; f_kind := KElem [] "" "KeyInfo"; f_type := (TStruct "KeyInfo") |};
    {| f_go := "EncryptionMethods"; f_kind := KElem [] "" "EncryptionMethod"; f_type := (TSlice (TStruct "EncryptionMethod")) |}]);
  ("KeyInfo", [
    {| f_go := "XMLName"; f_kind := KXMLName "http://www.w3.org/2000/09/xmldsig#" "KeyInfo"; f_type := TName |};
    {| f_go := "X509Data"; f_kind := KElem [] "" "X509Data"; f_type := (TStruct "X509Data") |}]);
  ("NameIDFormat", [
    {| f_go := "XMLName"; f_kind := KXMLName "urn:oasis:names:tc:SAML:2.0:metadata" "NameIDFormat"; f_type := TName |};
    {| f_go := "Value"; f_kind := KCharData; f_type := TStr |}]);
  ("SPSSODescriptor", [
    {| f_go := "XMLName"; f_kind := KXMLName "urn:oasis:names:tc:SAML:2.0:metadata" "SPSSODescriptor"; f_type := TName |};
    {| f_go := "AuthnRequestsSigned"; f_kind := KAttr "" "AuthnRequestsSigned"; f_type := TBool |};
    {| f_go := "WantAssertionsSigned"; f_kind := KAttr "" "WantAssertionsSigned"; f_type := TBool |};
    {| f_go := "ProtocolSupportEnumeration"; f_kind := KAttr "" "protocolSupportEnumeration"; f_type := TStr |};
    {| f_go := "KeyDescriptors"; f_kind := KElem [] "" "KeyDescriptor"; f_type := (TSlice (TStruct "KeyDescriptor")) |};
    {| f_go := "SingleLogoutServices"; f_kind := KElem [] "" "SingleLogoutService"; f_type := (TSlice (TStruct "Endpoint")) |};
    {| f_go := "NameIDFormats"; f_kind := KElem [] "" "NameIDFormat"; f_type := (TSlice TStr) |};
    {| f_go := "AssertionConsumerServices"; f_kind := KElem [] "" "AssertionConsumerService"; f_type := (TSlice (TStruct "IndexedEndpoint")) |};
    {| f_go := "Extensions"; f_kind := KElem [] "" "Extensions"; f_type := (TPtr (TStruct "Extensions")) |}]);
  ("SigningMethod", [
    {| f_go := "Algorithm"; f_kind := KAttr "" "Algorithm"; f_type := TStr |};
    {| f_go := "MinKeySize"; f_kind := KAttr "" "MinKeySize"; f_type := TStr |};
    {| f_go := "MaxKeySize"; f_kind := KAttr "" "MaxKeySize"; f_type := TStr |}]);
  ("SingleLogoutService", [
    {| f_go := "XMLName"; f_kind := KXMLName "urn:oasis:names:tc:SAML:2.0:metadata" "SingleLogoutService"; f_type := TName |};
    {| f_go := "Binding"; f_kind := KAttr "" "Binding"; f_type := TStr |};
    {| f_go := "Location"; f_kind := KAttr "" "Location"; f_type := TStr |}]);
  ("SingleSignOnService", [
    {| f_go := "XMLName"; f_kind := KXMLName "urn:oasis:names:tc:SAML:2.0:metadata" "SingleSignOnService"; f_type := TName |};
    {| f_go := "Binding"; f_kind := KAttr "" "Binding"; f_type := TStr |};
    {| f_go := "Location"; f_kind := KAttr "" "Location"; f_type := TStr |}]);
  ("X509Certificate", [
    {| f_go := "XMLName"; f_kind := KXMLName "http://www.w3.org/2000/09/xmldsig#" "X509Certificate"; f_type := TName |};
    {| f_go := "Data"; f_kind := KCharData; f_type := TStr |}]);
  ("X509Data", [
    {| f_go := "XMLName"; f_kind := KXMLName "http://www.w3.org/2000/09/xmldsig#" "X509Data"; f_type := TName |};
    {| f_go := "X509Certificates"; f_kind := KElem [] "" "X509Certificate"; f_type := (TSlice (TStruct "X509Certificate")) |}])
].
Definition saml_metadata_omitempty : list (string * list string) := [
  ("DigestMethod", ["Algorithm"]);
  ("EncryptionMethod", ["Algorithm"; "DigestMethod"]);
  ("Endpoint", ["ResponseLocation"]);
  ("EntityDescriptor", ["SPSSODescriptor"; "IDPSSODescriptor"; "Extensions"]);
  ("Extensions", ["DigestMethod"; "SigningMethod"]);
  ("IDPSSODescriptor", ["Extensions"]);
  ("SPSSODescriptor", ["Extensions"]);
  ("SigningMethod", ["MinKeySize"; "MaxKeySize"])
].
