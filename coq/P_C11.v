(* P_C11.v — property C11: padding / nonce round trips of DecryptBytes, key-transport dispatch, EncryptedKey placement,
   advertised methods are handled by non-default branches. *)
From V Require Import Base Xml Ns Generated Decode Response Decrypt P_Decrypt.
From V Require Escape EscapeProofs.
Local Open Scope string_scope.
Local Open Scope list_scope.

(* XML-Enc block padding for a plaintext of n bytes: 1..16 bytes making the total a multiple of the block size,
   ARBITRARY filler, the last byte is the number of padding bytes *)
Definition xmlenc_padding (n : nat) (pad : string) : Prop :=
  1 <= slen pad <= 16 /\ Nat.modulo (n + slen pad) 16 = 0 /\ last_byte pad = Some (ascii_of_N (N.of_nat (slen pad))).

Definition expected_hash (d : option string) : option hash_id :=
  match d with
  | None => Some HSha1
  | Some a => if (a =?s "") || (a =?s t_MethodSHA1) then Some HSha1
              else if a =?s t_MethodSHA256 then Some HSha256
              else if a =?s t_MethodSHA512 then Some HSha512
              else None
  end.

Definition after_unwrap (o : option string) : outcome string :=
  match o with None => ORet (Err (E "rsa internal error")) | Some pt => ORet (new_cipher pt) end.

(* the recipient certificate check passes: no certificate embedded, or exactly the SP's first certificate *)
Definition x509_ok (cert : sp_cert) (ek : enc_key) : Prop :=
  ek_x509 ek = "" \/ exists c0 rest, sc_chain cert = c0 :: rest /\ Escape.base64_decode (ek_x509 ek) = Some c0.

Definition handled (alg : string) : Prop :=
  exists i, first_case alg decrypt_bytes_cases 0 = Some i /\ (i = 0 \/ i = 1).
Definition handledb (alg : string) : bool :=
  match first_case alg decrypt_bytes_cases 0 with Some 0 | Some 1 => true | _ => false end.
Lemma handledb_handled l : forallb handledb l = true -> Forall handled l.
Proof.
  intros H. apply Forall_forall. intros x Hx. rewrite forallb_forall in H. specialize (H x Hx).
  unfold handledb in H. unfold handled. destruct (first_case x decrypt_bytes_cases 0) as [[|[|n]]|]; try discriminate;
    eexists; split; try reflexivity; auto.
Qed.

Lemma switch_of_first cases x i : first_case x cases 0 = Some i -> switch_branch cases x = Some i.
Proof. intros H. unfold switch_branch. rewrite H. reflexivity. Qed.

Lemma string_eqb_refl s : (s =?s s) = true.
Proof. apply String.eqb_refl. Qed.

Section C11.
  Variable rsa_oaep : hash_id -> string -> option string.
  Variable rsa_pkcs1 : string -> option string.
  Variable gcm_open : string -> string -> string -> option string.
  Variable cbc_decrypt : string -> string -> string -> string.
  Variable sha1_hex : string -> string.

  Notation dsk := (decrypt_symmetric_key rsa_oaep rsa_pkcs1 sha1_hex).
  Notation db := (decrypt_bytes rsa_oaep rsa_pkcs1 gcm_open cbc_decrypt sha1_hex).

  (* ---- padding removal ---- *)
  Lemma unpad_pad p pad : xmlenc_padding (slen p) pad -> unpad_guarded (p ++ pad)%string = ORet (Ok p).
  Proof.
    intros ((Hlo & Hhi) & _ & Hlast).
    assert (Hne : pad <> EmptyString) by (intros ->; cbn in Hlo; lia).
    assert (HL : last_byte (p ++ pad)%string = Some (ascii_of_N (N.of_nat (slen pad)))) by (rewrite last_byte_app; assumption).
    assert (Hcode : N_of_ascii (ascii_of_N (N.of_nat (slen pad))) = N.of_nat (slen pad)) by (apply N_ascii_embedding; lia).
    assert (HZ : is_zero_byte (ascii_of_N (N.of_nat (slen pad))) = false).
    { unfold is_zero_byte. rewrite Hcode. apply N.eqb_neq. lia. }
    unfold unpad_guarded. rewrite (trim_id_last_nonzero _ _ HL HZ). rewrite slen_app.
    destruct (Nat.eqb (slen p + slen pad) 0) eqn:E0; [apply Nat.eqb_eq in E0; lia|].
    rewrite HL, Hcode. rewrite nat_N_Z.
    replace (Z.of_nat (slen p + slen pad) - Z.of_nat (slen pad))%Z with (Z.of_nat (slen p)) by lia.
    destruct (Z.ltb (Z.of_nat (slen p)) 0) eqn:EZ; [apply Z.ltb_lt in EZ; lia|].
    rewrite Nat2Z.id. rewrite slice_to_some by (rewrite slen_app; lia). rewrite take_app_exact. reflexivity.
  Qed.

  (* the laws of the ciphers that the round trips need (trusted base; exercised by the correspondence run) *)
  Section CbcLaws.
    Variable cbc_encrypt : string -> string -> string -> string.
    Hypothesis H_cbc : forall k iv x, Nat.modulo (slen x) 16 = 0 -> cbc_decrypt k iv (cbc_encrypt k iv x) = x.
    Hypothesis H_cbc_len : forall k iv x, slen (cbc_encrypt k iv x) = slen x.

    Lemma cbc_unpad_pad k iv p pad :
      slen iv = 16 -> xmlenc_padding (slen p) pad ->
      cbc_branch cbc_decrypt k (iv ++ cbc_encrypt k iv (p ++ pad))%string = ORet (Ok p).
    Proof.
      intros Hiv Hpad. pose proof Hpad as ((Hlo & Hhi) & Hmod & _).
      assert (Hx : slen (p ++ pad)%string = slen p + slen pad) by apply slen_app.
      assert (H16 : 16 <= slen p + slen pad).
      { apply Nat.mod_divides in Hmod; [|lia]. destruct Hmod as [q Hq]. destruct q; lia. }
      unfold cbc_branch, aes_block_size. rewrite slen_app, H_cbc_len, Hx, Hiv.
      destruct (Nat.ltb (16 + (slen p + slen pad)) (2 * 16)) eqn:EL; [apply Nat.ltb_lt in EL; lia|]. cbn [orb].
      replace (Nat.modulo (16 + (slen p + slen pad)) 16) with 0
        by (symmetry; rewrite <- Nat.add_mod_idemp_r, Hmod by lia; reflexivity).
      cbn [Nat.eqb negb].
      rewrite <- Hiv at 1. rewrite slice_to_some by (rewrite slen_app; lia). rewrite take_app_exact.
      rewrite <- Hiv at 1. rewrite slice_from_some by (rewrite slen_app; lia). rewrite drop_app_exact.
      rewrite Hiv, H_cbc_len, Hx, Hmod. cbn [Nat.eqb negb].
      rewrite H_cbc by (rewrite Hx; exact Hmod). apply unpad_pad. exact Hpad.
    Qed.

    (* DecryptBytes level: CBC *)
    Theorem cbc_roundtrip cert ea k iv p pad :
      dsk (Some cert) (chosen_key ea) = ORet (Ok k) ->
      first_case (em_algorithm (ea_method ea)) decrypt_bytes_cases 0 = Some 1 ->
      ea_cipher_value ea = Escape.base64_encode (iv ++ cbc_encrypt k iv (p ++ pad))%string ->
      slen iv = 16 -> xmlenc_padding (slen p) pad ->
      db (Some cert) ea = ORet (Ok p).
    Proof.
      intros Hk Halg Hcv Hiv Hpad. unfold decrypt_bytes.
      rewrite Hcv, EscapeProofs.base64_decode_encode, Hk, (switch_of_first _ _ _ Halg).
      apply cbc_unpad_pad; assumption.
    Qed.
  End CbcLaws.

  Section GcmLaws.
    Variable gcm_seal : string -> string -> string -> string.
    Hypothesis H_gcm : forall k n x, gcm_open k n (gcm_seal k n x) = Some x.

    Lemma gcm_nonce_split k nonce p :
      slen nonce = 12 -> gcm_branch gcm_open k (nonce ++ gcm_seal k nonce p)%string = ORet (Ok p).
    Proof.
      intros Hn. unfold gcm_branch, gcm_nonce_size. rewrite slen_app, Hn.
      destruct (Nat.ltb (12 + slen (gcm_seal k nonce p)) 12) eqn:EL; [apply Nat.ltb_lt in EL; lia|].
      rewrite <- Hn at 1. rewrite slice_to_some by (rewrite slen_app; lia). rewrite take_app_exact.
      rewrite <- Hn at 1. rewrite slice_from_some by (rewrite slen_app; lia). rewrite drop_app_exact.
      rewrite H_gcm. reflexivity.
    Qed.

    (* DecryptBytes level: GCM *)
    Theorem gcm_roundtrip cert ea k nonce p :
      dsk (Some cert) (chosen_key ea) = ORet (Ok k) ->
      first_case (em_algorithm (ea_method ea)) decrypt_bytes_cases 0 = Some 0 ->
      ea_cipher_value ea = Escape.base64_encode (nonce ++ gcm_seal k nonce p)%string ->
      slen nonce = 12 ->
      db (Some cert) ea = ORet (Ok p).
    Proof.
      intros Hk Halg Hcv Hn. unfold decrypt_bytes.
      rewrite Hcv, EscapeProofs.base64_decode_encode, Hk, (switch_of_first _ _ _ Halg).
      apply gcm_nonce_split; assumption.
    Qed.
  End GcmLaws.

  (* ---- key transport ---- *)
  Lemma select_digest_spec m :
    select_digest m = match expected_hash (em_digest m) with
                      | None => Err (E "unsupported digest algorithm")
                      | Some h => Ok (Some h)
                      end.
  Proof.
    unfold select_digest, expected_hash. destruct (em_digest m) as [a|]; [|reflexivity].
    cbv [switch_branch key_digest_cases first_case default_case mem_str existsb t_MethodSHA1 t_MethodSHA256 t_MethodSHA512].
    destruct (String.eqb a ""); [reflexivity|].
    destruct (String.eqb a "http://www.w3.org/2000/09/xmldsig#sha1"); [reflexivity|]. cbn [orb].
    destruct (String.eqb a "http://www.w3.org/2000/09/xmldsig#sha256"); [reflexivity|].
    destruct (String.eqb a "http://www.w3.org/2000/09/xmldsig#sha512"); reflexivity.
  Qed.

  Theorem key_transport_dispatch cert ek ct :
    sc_key cert = KRsa -> sc_chain cert <> [] -> x509_ok cert ek ->
    Escape.base64_decode (ek_cipher_value ek) = Some ct ->
    dsk (Some cert) ek =
      match expected_hash (em_digest (ek_method ek)) with
      | None => ORet (Err (E "unsupported digest algorithm"))
      | Some h =>
          let alg := em_algorithm (ek_method ek) in
          if alg =?s "" then ORet (Err (E "missing encryption algorithm"))
          else if (alg =?s t_MethodRSAOAEP) || (alg =?s t_MethodRSAOAEP2) then after_unwrap (rsa_oaep h ct)
          else if alg =?s t_MethodRSAv1_5 then after_unwrap (rsa_pkcs1 ct)
          else ORet (Err (E "unsupported encryption algorithm"))
      end.
  Proof.
    intros Hrsa Hchain Hx Hct. unfold decrypt_symmetric_key.
    destruct (sc_chain cert) as [|c0 rest] eqn:EC; [contradiction|]. cbn [List.length Nat.ltb Nat.leb].
    assert (HX : (if ek_x509 ek =?s "" then ORet (Ok tt)
             else match Escape.base64_decode (ek_x509 ek) with
                  | None => ORet (Err (E "error decoding EncryptedKey certificate"))
                  | Some enc_cert =>
                      match nth_error (c0 :: rest) 0 with
                      | None => OPanic "index out of range: cert.Certificate[0]"
                      | Some cert0 =>
                          if cert0 =?s enc_cert then ORet (Ok tt)
                          else
                            obind (debug_key_fp cert0 (sha1_hex cert0)) (fun _ =>
                            obind (debug_key_fp enc_cert (sha1_hex enc_cert)) (fun _ =>
                            ORet (Err (E "key decryption attempted with mismatched cert"))))
                      end
                  end) = ORet (Ok tt)).
    { destruct Hx as [->|(c0' & rest' & Hc & Hd)]; [reflexivity|].
      try rewrite EC in Hc. injection Hc as <- <-. destruct (ek_x509 ek =?s ""); [reflexivity|].
      rewrite Hd. cbn [nth_error]. rewrite string_eqb_refl. reflexivity. }
    rewrite HX. cbn [obind]. rewrite Hct, Hrsa, select_digest_spec.
    destruct (expected_hash (em_digest (ek_method ek))) as [h|]; [|reflexivity].
    cbv zeta. set (alg := em_algorithm (ek_method ek)).
    cbv [switch_branch key_transport_cases first_case default_case mem_str existsb t_MethodRSAOAEP t_MethodRSAOAEP2 t_MethodRSAv1_5].
    destruct (String.eqb alg ""); [reflexivity|]. cbn [orb].
    destruct (String.eqb alg "http://www.w3.org/2001/04/xmlenc#rsa-oaep-mgf1p"); [reflexivity|].
    destruct (String.eqb alg "http://www.w3.org/2009/xmlenc11#rsa-oaep"); [reflexivity|]. cbn [orb].
    destruct (String.eqb alg "http://www.w3.org/2001/04/xmlenc#rsa-1_5"); reflexivity.
  Qed.

  (* an embedded recipient certificate that is not the SP's refuses the key (no unwrap is attempted) *)
  Theorem key_transport_mismatch_refused cert ek c0 rest other :
    sc_chain cert = c0 :: rest -> ek_x509 ek <> "" -> Escape.base64_decode (ek_x509 ek) = Some other -> other <> c0 ->
    dsk (Some cert) ek = ORet (Err (E "key decryption attempted with mismatched cert")).
  Proof.
    intros Hc Hne Hd Hdiff. unfold decrypt_symmetric_key. rewrite Hc. cbn [List.length Nat.ltb Nat.leb].
    apply str_eqb_neq in Hne. rewrite Hne, Hd. cbn [nth_error].
    assert (Hn : (c0 =?s other) = false) by (apply str_eqb_neq; congruence). rewrite Hn.
    destruct (debug_key_fp_total c0 (sha1_hex c0)) as [r1 ->].
    destruct (debug_key_fp_total other (sha1_hex other)) as [r2 H2]. cbn [obind]. rewrite H2. reflexivity.
  Qed.

  (* ---- EncryptedKey placement ---- *)
  Theorem encrypted_key_placement :
    (forall ea, ek_cipher_value (ea_key ea) <> "" -> chosen_key ea = ea_key ea) /\
    (forall ea, ek_cipher_value (ea_key ea) = "" -> chosen_key ea = ea_det_key ea) /\
    (forall cert ea ea', ea_method ea = ea_method ea' -> ea_cipher_value ea = ea_cipher_value ea' ->
                         chosen_key ea = chosen_key ea' -> db cert ea = db cert ea').
  Proof.
    repeat split.
    - intros ea H. unfold chosen_key. apply str_eqb_neq in H. rewrite H. reflexivity.
    - intros ea H. unfold chosen_key. rewrite H. reflexivity.
    - intros cert ea ea' Hm Hc Hk. unfold decrypt_bytes. rewrite Hm, Hc, Hk. reflexivity.
  Qed.
End C11.

(* ---- advertised methods (computed from the generated lists) ---- *)
Theorem advertised_subset_supported :
  Forall handled advertised_methods_Metadata /\ Forall handled advertised_methods_MetadataWithSLO /\
  advertised_methods_Metadata <> [] /\ advertised_methods_MetadataWithSLO <> [].
Proof.
  repeat split; try (apply handledb_handled; vm_compute; reflexivity); discriminate.
Qed.

(* ---------------------------------------------------------------- examples with concrete bytes *)
(* oracles: every unwrap yields a 16-byte key; CBC and GCM "encryption" are the identity (the laws hold trivially) *)
Definition x_key : string := "0123456789abcdef".
Definition x_oaep (h : hash_id) (ct : string) : option string :=
  match h with HSha256 => Some x_key | _ => None end.             (* only the SHA-256 unwrap succeeds *)
Definition x_pkcs1 (_ : string) : option string := None.
Definition x_gcm (_ _ c : string) : option string := Some c.
Definition x_cbc (_ _ d : string) : string := d.
Definition x_cert : sp_cert := {| sc_chain := ["DER"]; sc_key := KRsa |}.
Definition x_ek (cv : string) : enc_key :=
  {| ek_x509 := Escape.base64_encode "DER"; ek_cipher_value := cv;
     ek_method := {| em_algorithm := t_MethodRSAOAEP2; em_digest := Some t_MethodSHA256 |} |}.
Fixpoint xrep (n : nat) (c : ascii) : string := match n with O => EmptyString | S m => String c (xrep m c) end.

(* plaintext ending in two zero bytes, arbitrary filler 0xAA, pad length 9: returned exactly; key in the DETACHED
   EncryptedKey because the inline one has an empty CipherValue; digest SHA-256 selects the SHA-256 unwrap *)
Example c11_cbc_trailing_zeros :
  let p := ("hello" ++ String (ascii_of_N 0) (String (ascii_of_N 0) ""))%string in
  let pad := (xrep 8 (ascii_of_N 170) ++ String (ascii_of_N 9) "")%string in
  decrypt_bytes x_oaep x_pkcs1 x_gcm x_cbc (fun _ => "") (Some x_cert)
    {| ea_method := {| em_algorithm := t_MethodAES256CBC; em_digest := None |};
       ea_key := x_ek ""; ea_det_key := x_ek "QUJD";
       ea_cipher_value := Escape.base64_encode (xrep 16 "i"%char ++ p ++ pad)%string |} = ORet (Ok p).
Proof. vm_compute. reflexivity. Qed.

Example c11_gcm :
  decrypt_bytes x_oaep x_pkcs1 x_gcm x_cbc (fun _ => "") (Some x_cert)
    {| ea_method := {| em_algorithm := t_MethodAES192GCM; em_digest := None |};
       ea_key := x_ek "QUJD"; ea_det_key := x_ek "";
       ea_cipher_value := Escape.base64_encode (xrep 12 "n"%char ++ "plain")%string |} = ORet (Ok "plain").
Proof. vm_compute. reflexivity. Qed.

(* digest SHA-1 (absent DigestMethod) asks the SHA-1 unwrap, which fails here: the dispatch is observable *)
Example c11_digest_selects_unwrap :
  decrypt_symmetric_key x_oaep x_pkcs1 (fun _ => "") (Some x_cert)
    {| ek_x509 := ""; ek_cipher_value := "QUJD"; ek_method := {| em_algorithm := t_MethodRSAOAEP; em_digest := None |} |}
  = ORet (Err (E "rsa internal error")).
Proof. vm_compute. reflexivity. Qed.

Example c11_padding_nonvacuous : xmlenc_padding 7 (xrep 8 (ascii_of_N 170) ++ String (ascii_of_N 9) "")%string.
Proof. unfold xmlenc_padding. vm_compute. repeat split; lia. Qed.
