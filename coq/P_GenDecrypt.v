(* P_GenDecrypt.v — the decryption glue as TRANSLATED from /repo/types on this run (GenDecrypt.v) computes, for every
   input and every behaviour of the crypto oracles, what the hand-written model Decrypt.v computes: same bytes, same
   panic / error / value outcome.  Error TEXTS are not compared (fmt.Errorf formats are not modelled); the
   correspondence run compares them by label. *)
From V Require Import Base Time Types Generated Decode Decrypt GenPrelude GenPreludeD GenDecrypt P_Decrypt.
From V Require Escape.
From Coq Require Import ZifyBool Lia ZArith Arith.
Local Open Scope string_scope.
Local Open Scope nat_scope.

Definition erase_pm (p : pm (res string)) : option (option string) :=
  match p with PVal (Ok s) => Some (Some s) | PVal (Err _) => Some None | PPanic => None end.
Definition erase_out (o : outcome string) : option (option string) :=
  match o with ORet (Ok s) => Some (Some s) | ORet (Err _) => Some None | OPanic _ => None end.

Lemma zslice_to_nat s n : zslice_to s (Z.of_nat n) = slice_to s n.
Proof. unfold zslice_to. destruct (Z.of_nat n <? 0)%Z eqn:E; [lia|]. now rewrite Nat2Z.id. Qed.
Lemma zslice_from_nat s n : zslice_from s (Z.of_nat n) = slice_from s n.
Proof. unfold zslice_from. destruct (Z.of_nat n <? 0)%Z eqn:E; [lia|]. now rewrite Nat2Z.id. Qed.

Lemma nth_byte_last s : s <> EmptyString -> nth_byte s (slen s - 1) = last_byte s.
Proof.
  induction s as [|c r IH]; [congruence|]. intros _. unfold slen in *. cbn [String.length last_byte].
  destruct r as [|c' r']; [reflexivity|].
  replace (S (String.length (String c' r')) - 1)%nat with (S (String.length (String c' r') - 1))%nat by (cbn; lia).
  cbn [nth_byte]. apply IH. congruence.
Qed.

Lemma Z_ltb_nat a b : (Z.of_nat a <? Z.of_nat b)%Z = Nat.ltb a b.
Proof. destruct (Nat.ltb_spec a b); [apply Z.ltb_lt|apply Z.ltb_ge]; lia. Qed.
Lemma Z_eqb_nat a b : (Z.of_nat a =? Z.of_nat b)%Z = Nat.eqb a b.
Proof. destruct (Nat.eqb_spec a b); [apply Z.eqb_eq|apply Z.eqb_neq]; lia. Qed.
Lemma zrem_nat a b : b <> 0 -> zrem (Z.of_nat a) (Z.of_nat b) = Some (Z.of_nat (Nat.modulo a b)).
Proof.
  intros Hb. unfold zrem. destruct (Z.of_nat b =? 0)%Z eqn:E; [lia|]. f_equal.
  rewrite Z.rem_mod_nonneg by lia. symmetry. apply Nat2Z.inj_mod.
Qed.
Lemma zslice_to_pos s z : (0 <= z)%Z -> zslice_to s z = slice_to s (Z.to_nat z).
Proof. intros H. unfold zslice_to. destruct (z <? 0)%Z eqn:E; [lia|reflexivity]. Qed.
Lemma zindex_str_last s : s <> EmptyString -> zindex_str s (Z.of_nat (String.length s) - 1) = last_byte s.
Proof.
  intros H. unfold zindex_str. assert (0 < String.length s) by (destruct s; [congruence|cbn; lia]).
  destruct (Z.of_nat (String.length s) - 1 <? 0)%Z eqn:E; [lia|].
  replace (Z.to_nat (Z.of_nat (String.length s) - 1)) with (slen s - 1) by (unfold slen; lia).
  now apply nth_byte_last.
Qed.

(* the padding removal as the translated code performs it (Z arithmetic) is the model's [unpad_guarded] *)
Definition gen_unpad (d : string) : ctl (res string) unit unit :=
  if (Z.of_nat (String.length d) =? 0)%Z then CRet (Err (EOther "invalid CBC padding: decrypted data is empty"))
  else match zindex_str d (Z.of_nat (String.length d) - 1) with
       | None => CPanic
       | Some x16 =>
           if (Z.of_nat (String.length d) - Z.of_N (N_of_ascii x16) <? 0)%Z
           then CRet (Err (EOther "invalid CBC padding: pad length %d exceeds data size %d"))
           else match zslice_to d (Z.of_nat (String.length d) - Z.of_N (N_of_ascii x16)) with
                | None => CPanic
                | Some x17 => CRet (Ok x17)
                end
       end.
Lemma gen_unpad_is_model raw : erase_pm (run_fn (gen_unpad (trim_right_zero raw))) = erase_out (unpad_guarded raw).
Proof.
  unfold gen_unpad, unpad_guarded, run_fn. set (d := trim_right_zero raw).
  rewrite (Z_eqb_nat _ 0). unfold slen.
  destruct (Nat.eqb_spec (String.length d) 0) as [E0|E0]; [reflexivity|].
  rewrite zindex_str_last by (destruct d; [cbn in E0; congruence|congruence]).
  destruct (last_byte d) as [p|]; [|reflexivity].
  destruct (Z.of_nat (String.length d) - Z.of_N (N_of_ascii p) <? 0)%Z eqn:EN; [reflexivity|].
  rewrite zslice_to_pos by lia.
  destruct (slice_to d _); reflexivity.
Qed.

Section Tie.
  Variable rsa_oaep : hash_id -> string -> option string.
  Variable rsa_pkcs1 : string -> option string.
  Variable gcm_open : string -> string -> string -> option string.
  Variable cbc_decrypt : string -> string -> string -> string.
  Variable sha1_hex : string -> string.

  Notation dsk := (decrypt_symmetric_key rsa_oaep rsa_pkcs1 sha1_hex).
  Notation db := (decrypt_bytes rsa_oaep rsa_pkcs1 gcm_open cbc_decrypt sha1_hex).
  Notation G_dsk := (G_EncryptedKey_DecryptSymmetricKey rsa_oaep rsa_pkcs1).
  Notation G_db := (G_EncryptedAssertion_DecryptBytes rsa_oaep rsa_pkcs1 gcm_open cbc_decrypt).

  Ltac dsk_tail :=
    unfold b64_decode;
    match goal with |- context [Escape.base64_decode ?x] => destruct (Escape.base64_decode x) as [ct|] end;
    cbn [err_of_res is_nil negb]; [|reflexivity];
    unfold key_is_rsa;
    match goal with |- context [sc_key ?c] => destruct (sc_key c) end; cbn [bindc]; [|reflexivity];
    unfold select_digest, switch_branch, first_case, default_case, mem_str, key_digest_cases, key_transport_cases, existsb,
      t_MethodSHA1, t_MethodSHA256, t_MethodSHA512, t_MethodRSAOAEP, t_MethodRSAOAEP2, t_MethodRSAv1_5;
    match goal with |- context [em_digest ?m] => destruct (em_digest m) as [alg|] end; cbn [is_nil bindc];
    rewrite ?Bool.orb_false_r, ?Bool.orb_assoc;
    repeat (match goal with |- context [if ?c then _ else _] =>
              lazymatch c with context [String.eqb] => destruct c eqn:? end end; cbn [bindc is_nil negb]);
    try reflexivity;
    unfold oaep, pkcs1;
    repeat match goal with
           | |- context [rsa_oaep ?h ?c] => destruct (rsa_oaep h c)
           | |- context [rsa_pkcs1 ?c] => destruct (rsa_pkcs1 c)
           end; cbn [err_of_res is_nil negb]; try reflexivity;
    unfold new_cipher; destruct (aes_key_ok _); reflexivity.

  Theorem G_DecryptSymmetricKey_is_model ek cert : erase_pm (G_dsk ek cert) = erase_out (dsk cert ek).
  Proof.
    unfold G_EncryptedKey_DecryptSymmetricKey, decrypt_symmetric_key, run_fn.
    destruct cert as [cert|]; [|reflexivity].
    replace (Z.of_nat (List.length (sc_chain cert)) <? 1)%Z with (Nat.ltb (List.length (sc_chain cert)) 1)
      by (destruct (Nat.ltb_spec (List.length (sc_chain cert)) 1); symmetry; [apply Z.ltb_lt|apply Z.ltb_ge]; lia).
    destruct (Nat.ltb (List.length (sc_chain cert)) 1) eqn:EL; [reflexivity|].
    apply Nat.ltb_ge in EL.
    destruct (sc_chain cert) as [|cert0 rest] eqn:EC; [cbn in EL; lia|].
    unfold zindex. cbn [Z.ltb Z.compare Z.to_nat nth_error].
    assert (TAIL : forall u : unit, u = tt -> True) by trivial. clear TAIL.
    destruct (ek_x509 ek =?s "") eqn:EX; cbn [negb bindc obind].
    - dsk_tail.
    - unfold b64_decode at 1 2. destruct (Escape.base64_decode (ek_x509 ek)) as [enc|]; cbn [err_of_res is_nil negb bindc]; [|reflexivity].
      destruct (cert0 =?s enc) eqn:EQ; cbn [negb bindc obind].
      + dsk_tail.
      + destruct (debug_key_fp_total cert0 (sha1_hex cert0)) as [r1 ->].
        destruct (debug_key_fp_total enc (sha1_hex enc)) as [r2 H2]. cbn [obind]. rewrite H2. reflexivity.
  Qed.

  Ltac gcm_case :=
    unfold gcm_branch, slen; rewrite Z_ltb_nat, zslice_to_nat, zslice_from_nat;
    match goal with |- context [Nat.ltb ?a ?b] => destruct (Nat.ltb a b) end; cbn [bindc]; [reflexivity|];
    match goal with |- context [slice_to ?a ?b] => destruct (slice_to a b) end; [|reflexivity];
    match goal with |- context [slice_from ?a ?b] => destruct (slice_from a b) end; [|reflexivity];
    unfold aead_open; match goal with |- context [gcm_open ?a ?b ?c] => destruct (gcm_open a b c) end; reflexivity.
  Ltac cbc_case :=
    unfold cbc_branch, slen;
    change (2 * Z.of_nat aes_block_size)%Z with (Z.of_nat (2 * aes_block_size));
    rewrite Z_ltb_nat, zrem_nat by (unfold aes_block_size; discriminate);
    match goal with |- context [Nat.ltb ?a ?b] => destruct (Nat.ltb a b) end; cbn [orb bindc]; [reflexivity|];
    rewrite (Z_eqb_nat _ 0);
    match goal with |- context [Nat.eqb (Nat.modulo ?a ?b) 0] => destruct (Nat.eqb (Nat.modulo a b) 0) end; cbn [negb bindc]; [|reflexivity];
    rewrite zslice_to_nat, zslice_from_nat;
    match goal with |- context [slice_to ?a ?b] => destruct (slice_to a b) as [iv|] end; [|reflexivity];
    match goal with |- context [slice_from ?a ?b] => destruct (slice_from a b) as [rest|] end; [|reflexivity];
    unfold cbc_new, cbc_crypt, slen;
    match goal with |- context [Nat.eqb (String.length ?v) ?b] => destruct (Nat.eqb (String.length v) b) end; cbn [negb fst snd]; [|reflexivity];
    match goal with |- context [Nat.eqb (Nat.modulo ?a ?b) 0] => destruct (Nat.eqb (Nat.modulo a b) 0) end; cbn [negb]; [|reflexivity];
    rewrite <- gen_unpad_is_model; unfold gen_unpad, run_fn;
    match goal with |- context [trim_right_zero ?x] => generalize (trim_right_zero x); intros d end;
    repeat match goal with |- context [if ?c then _ else _] => destruct c | |- context [match ?x with Some _ => _ | None => _ end] => destruct x end; reflexivity.

  Lemma key_tie k cert :
    match G_dsk k cert, dsk cert k with
    | PVal (Ok a), ORet (Ok b) => a = b
    | PVal (Err _), ORet (Err _) => True
    | PPanic, OPanic _ => True
    | _, _ => False
    end.
  Proof.
    pose proof (G_DecryptSymmetricKey_is_model k cert) as H.
    destruct (G_dsk k cert) as [[a|e]|]; destruct (dsk cert k) as [[b|e']|w]; cbn in H; try discriminate; try exact I.
    now inversion H.
  Qed.

  Theorem G_DecryptBytes_is_model ea cert : erase_pm (G_db ea cert) = erase_out (db cert ea).
  Proof.
    unfold G_EncryptedAssertion_DecryptBytes, decrypt_bytes, run_fn.
    unfold b64_decode. destruct (Escape.base64_decode (ea_cipher_value ea)) as [data|]; cbn [err_of_res is_nil negb]; [|reflexivity].
    cbn [bindc]. unfold chosen_key.
    destruct (ek_cipher_value (ea_key ea) =?s ""); cbn [bindc].
    all: match goal with |- context [dsk ?c ?k] => pose proof (key_tie k c) as HK;
           destruct (G_dsk k c) as [[a|e]|]; destruct (dsk c k) as [[b|e']|w]; try contradiction; try reflexivity; subst b end.
    all: cbn [err_of_res is_nil negb].
    all: unfold switch_branch, first_case, default_case, mem_str, existsb, decrypt_bytes_cases,
           t_MethodAES128GCM, t_MethodAES192GCM, t_MethodAES256GCM, t_MethodAES128CBC, t_MethodAES256CBC, t_MethodTripleDESCBC.
    all: rewrite !Bool.orb_false_r, !Bool.orb_assoc.
    all: match goal with |- context [if ?c then _ else if ?d then _ else CRet _] => destruct c eqn:EG; [|destruct d eqn:EC] end.
    all: cbn [bindc new_gcm err_of_res is_nil negb]; try reflexivity.
    - (* AES-GCM, inline key *) gcm_case.
    - (* CBC *) cbc_case.
    - gcm_case.
    - cbc_case.
  Qed.

  (* consequences for the SOURCE TEXT of this run *)
  Theorem G_DecryptBytes_never_panics ea cert : exists r, G_db ea (Some cert) = PVal r.
  Proof.
    pose proof (G_DecryptBytes_is_model ea (Some cert)) as H.
    destruct (decrypt_bytes_total rsa_oaep rsa_pkcs1 gcm_open cbc_decrypt sha1_hex cert ea) as [r Hr].
    rewrite Hr in H. destruct (G_db ea (Some cert)) as [v|]; [eexists; reflexivity|]. destruct r; discriminate.
  Qed.
  Theorem G_DecryptSymmetricKey_never_panics ek cert : exists r, G_dsk ek (Some cert) = PVal r.
  Proof.
    pose proof (G_DecryptSymmetricKey_is_model ek (Some cert)) as H.
    destruct (decrypt_symmetric_key_total rsa_oaep rsa_pkcs1 sha1_hex cert ek) as [r Hr].
    rewrite Hr in H. destruct (G_dsk ek (Some cert)) as [v|]; [eexists; reflexivity|]. destruct r; discriminate.
  Qed.
  Theorem G_DecryptBytes_value_iff ea cert s :
    G_db ea cert = PVal (Ok s) <-> db cert ea = ORet (Ok s).
  Proof.
    pose proof (G_DecryptBytes_is_model ea cert) as H.
    destruct (G_db ea cert) as [[a|e]|]; destruct (db cert ea) as [[b|e']|w]; cbn in H; try discriminate;
      split; intros E; inversion E; subst; inversion H; subst; reflexivity.
  Qed.
End Tie.
