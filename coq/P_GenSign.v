(* P_GenSign.v — the lazily created signing context and the enveloped-signing functions as TRANSLATED from /repo on this run
   (GenSign.v: saml.go SigningContext; build_request.go / build_logout_response.go Sign{AuthnRequest,LogoutRequest,LogoutResponse}
   and the Build*Document wrappers) equal the hand-written models, for every configuration, cache state, element, clock, random
   id and behaviour of the oracles:
     - SigningContext = Keys.signing_context (key choice, the two panics) + Build.set_signature_method (hash table) + the
       canonicaliser override of Build.signing_context, created once and cached (Keys.signing_context_cached);
     - Sign* = Build.construct_signature on that context followed by Build.sign_placement (Issuer, Signature, the rest);
       under the builders' precondition (the element has an element child first) the index panic is unreachable;
     - the wrappers = the builders of GenBuild.v / Build.v with includeSig fixed, BuildAuthRequest = etree_write of the document.
   These functions CAN panic (no key at all, a nil signer in an override, an element without children): the statements are
   equalities with a pm-valued model, and the panic cases are characterised. *)
From Coq Require Import Lia.
From V Require Import Base Time Xml Generated Keys GenPrelude GenFuncs GenPreludeB GenBuild GenPreludeSign GenSign P_GenKeys.
From V Require Build P_Sign P_GenBuild.
Local Open Scope string_scope.
Local Open Scope list_scope.

(* the identifier table of Keys.v (known_signature_methods) and the one of Build.v (signature_method_ids) have the same keys *)
Lemma known_method_iff (alg : string) :
  existsb (String.eqb alg) known_signature_methods
  = match Build.method_by_id alg Build.signature_method_ids with Some _ => true | None => false end.
Proof.
  unfold known_signature_methods, Build.signature_method_ids.
  cbn [existsb Build.method_by_id].
  repeat match goal with |- context [String.eqb alg ?s] => destruct (String.eqb alg s); cbn [orb]; try reflexivity end.
Qed.

Section Tie.
  Variable pk_of : signer -> Build.pk_alg.
  Variable key_name : signer -> string.
  Variable crypto_of : dctx -> node -> res (string * string).
  Variable sign_el : node -> res node.

  Local Notation abs_keys := (abs_keys pk_of key_name).
  Local Notation abs_ctx := (abs_ctx pk_of key_name).
  Local Notation abs_keycfg := (abs_keycfg pk_of key_name).

  Lemma dctx_pk_abs k : dctx_pk pk_of k = Build.ctx_pk (abs_keys k).
  Proof. destruct k as [s certs|[st|]]; reflexivity. Qed.

  (* ================================================================ SigningContext *)
  (* the context a configuration yields on first use: Keys.v decides the key and the two panics, Build.v the hash and the
     canonicaliser *)
  Definition new_ctx (sp : sign_cfg) : outcome dctx :=
    let alg := Build.b_sign_algorithm (sc_b sp) in
    match signing_context alg (sc_keys sp) with
    | OPanic m => OPanic m
    | ORet (Err e) => ORet (Err e)
    | ORet (Ok k) =>
        match Build.set_signature_method (abs_keys k) Build.default_hash alg with
        | OPanic m => OPanic m
        | ORet (Err e) => ORet (Err e)
        | ORet (Ok h) => ORet (Ok {| dc_keys := k; dc_hash := h; dc_canon := P_Sign.effective_canon (sc_b sp) |})
        end
    end.

  (* the receiver after the call and the returned pointer *)
  Definition signing_context_model (sp : sign_cfg) : pm (sign_cfg * option dctx) :=
    match sc_cache sp with
    | Some d => PVal (sp, Some d)
    | None => match new_ctx sp with ORet (Ok d) => PVal (set_sc_cache (Some d) sp, Some d) | _ => PPanic end
    end.

  Theorem G_SigningContext_is_model sp now : G_SigningContext pk_of sp now = signing_context_model sp.
  Proof.
    destruct sp as [[spi idpi acs sso slo fa ip nif rc sar alg can] [ef sf eo so] cache].
    unfold G_SigningContext, signing_context_model, new_ctx, signing_context, build_signing_context, run_fn.
    cbn [sc_cache sc_keys sc_b kc_sign_override kc_sign_field kc_enc_override kc_enc_field Build.b_sign_algorithm Build.b_canonicalizer].
    destruct cache as [d|]; [reflexivity|]. cbn [is_nil negb].
    rewrite known_method_iff.
    unfold dsig_SetSignatureMethod, Build.set_signature_method, P_Sign.effective_canon.
    cbn [Build.b_canonicalizer].
    destruct (Build.method_by_id alg Build.signature_method_ids) as [[p h]|] eqn:M.
    all: destruct can as [cn|].
    all: destruct so as [ks|]; destruct sf as [st|]; destruct eo as [ke|]; cbn [is_nil andb negb bindc].
    all: try (destruct (ks_signer ks) as [s|] eqn:KS); try (destruct (ks_signer ke) as [s'|] eqn:KE).
    all: cbn [dsig_NewSigningContext err_of_res ptr_of_res is_nil negb bindc set_sc_cache sc_cache sc_b sc_keys
              dsig_NewDefaultSigningContext dc_keys dctx_pk abs_keys Build.ctx_pk option_map Build.b_sign_algorithm Build.b_canonicalizer].
    all: rewrite ?G_GetSigningKey_eq; cbn [get_signing_key get_encryption_key kc_sign_field kc_enc_field].
    all: try rewrite M.
    all: cbn [dsig_NewSigningContext err_of_res ptr_of_res is_nil negb bindc set_sc_cache sc_cache sc_b sc_keys
              dsig_NewDefaultSigningContext dc_keys dctx_pk abs_keys Build.ctx_pk option_map Build.b_sign_algorithm Build.b_canonicalizer
              abs_over Build.ok_pk].
    all: try reflexivity.
    all: try destruct ef as [est|].
    all: rewrite ?M.
    all: cbn [dsig_NewSigningContext err_of_res ptr_of_res is_nil negb bindc set_sc_cache sc_cache sc_b sc_keys
              dsig_NewDefaultSigningContext dc_keys dctx_pk abs_keys Build.ctx_pk option_map Build.b_sign_algorithm Build.b_canonicalizer
              abs_over Build.ok_pk].
    all: repeat match goal with |- context [Build.pk_eqb ?a ?b] => destruct (Build.pk_eqb a b) end; try reflexivity.
  Qed.

  (* only the cache changes, and it is what is returned *)
  Corollary signing_context_frame sp now sp' r : G_SigningContext pk_of sp now = PVal (sp', r) ->
    sc_b sp' = sc_b sp /\ sc_keys sp' = sc_keys sp /\ sc_cache sp' = r /\ r <> None /\
    (forall d, sc_cache sp = Some d -> sp' = sp /\ r = Some d).
  Proof.
    rewrite G_SigningContext_is_model. unfold signing_context_model.
    destruct (sc_cache sp) as [d|] eqn:C.
    - intros [= <- <-]. split; [reflexivity|]. split; [reflexivity|]. split; [exact C|]. split; [discriminate|].
      intros d' [= <-]. split; reflexivity.
    - destruct (new_ctx sp) as [[d|e]|m]; try discriminate. intros [= <- <-].
      split; [reflexivity|]. split; [reflexivity|]. split; [reflexivity|]. split; [discriminate|]. intros d'; discriminate.
  Qed.

  (* ---- the key part is Keys.v's cached signing context ---- *)
  Lemma chosen_keys_have_a_hash alg c k : signing_context alg c = ORet (Ok k) ->
    exists h, Build.set_signature_method (abs_keys k) Build.default_hash alg = ORet (Ok h).
  Proof.
    unfold Build.set_signature_method. intros S.
    destruct (Build.method_by_id alg Build.signature_method_ids) as [[p h]|] eqn:M; [|eauto].
    destruct (Build.ctx_pk (abs_keys k)) as [pk|] eqn:P; [eauto|]. exfalso.
    destruct k as [s certs|[st|]]; try discriminate P.
    revert S. unfold signing_context, build_signing_context. rewrite known_method_iff, M.
    destruct c as [ef sf eo so]. cbn [kc_sign_override kc_sign_field kc_enc_override].
    destruct so as [ks|]; [destruct (ks_signer ks); discriminate|].
    destruct sf as [st|]; [cbn [get_signing_key kc_sign_field]; discriminate|].
    destruct eo as [ke|]; [destruct (ks_signer ke); discriminate|].
    destruct (get_signing_key _); discriminate.
  Qed.

  Definition keys_view (r : pm (sign_cfg * option dctx)) : pm (option sign_ctx * option sign_ctx) :=
    match r with
    | PVal (sp', c) => PVal (option_map dc_keys (sc_cache sp'), option_map dc_keys c)
    | PPanic => PPanic
    end.
  (* Keys.signing_context_cached: (outcome, cache afterwards); the state after a panic is not observable in pm *)
  Definition cached_view (p : outcome sign_ctx * option sign_ctx) : pm (option sign_ctx * option sign_ctx) :=
    match p with
    | (ORet (Ok k), cache') => PVal (cache', Some k)
    | _ => PPanic
    end.

  Theorem G_SigningContext_is_keys_model sp now :
    keys_view (G_SigningContext pk_of sp now)
    = cached_view (signing_context_cached (option_map dc_keys (sc_cache sp)) (Build.b_sign_algorithm (sc_b sp)) (sc_keys sp)).
  Proof.
    rewrite G_SigningContext_is_model. unfold signing_context_model, signing_context_cached.
    destruct (sc_cache sp) as [d|] eqn:C; cbn [option_map]; [cbn [keys_view cached_view option_map]; rewrite C; reflexivity|].
    unfold new_ctx.
    destruct (signing_context (Build.b_sign_algorithm (sc_b sp)) (sc_keys sp)) as [[k|e]|m] eqn:S; try reflexivity.
    destruct (chosen_keys_have_a_hash _ _ _ S) as [h H]. rewrite H. reflexivity.
  Qed.

  (* ---- the whole context is Build.v's signing context of the same configuration (fresh SP, keys set through the setters) ---- *)
  Lemma keys_choice_abs alg c : setters_wf c ->
    match signing_context alg c with
    | ORet (Ok k) => abs_keys k = Build.signing_ctx_keys (abs_keycfg c)
    | ORet (Err _) => False
    | OPanic _ => Build.ctx_pk (Build.signing_ctx_keys (abs_keycfg c)) = None /\
                  Build.method_by_id alg Build.signature_method_ids <> None
    end.
  Proof.
    destruct c as [ef sf eo so]. intros [We Ws]. cbn [kc_enc_override kc_sign_override override_wf] in We, Ws.
    unfold signing_context, build_signing_context, Build.signing_ctx_keys, abs_keycfg, abs_override.
    cbn [kc_sign_override kc_sign_field kc_enc_override kc_enc_field Build.k_sig_over Build.k_sig_field Build.k_enc_over Build.k_enc_field].
    destruct so as [ks|].
    { cbn [override_wf] in Ws. destruct (ks_signer ks) as [s|]; [reflexivity|congruence]. }
    destruct sf as [st|]; cbn [option_map get_signing_key kc_sign_field]; [reflexivity|].
    destruct eo as [ke|].
    { cbn [override_wf] in We. destruct (ks_signer ke) as [s|]; [reflexivity|congruence]. }
    cbn [get_encryption_key kc_enc_field]. destruct ef as [st|]; cbn [option_map]; [reflexivity|].
    rewrite known_method_iff. destruct (Build.method_by_id alg Build.signature_method_ids); [split; [reflexivity|discriminate]|reflexivity].
  Qed.

  Lemma new_ctx_build sp : setters_wf (sc_keys sp) ->
    match new_ctx sp with
    | ORet (Ok d) => Build.signing_context (sc_b sp) (abs_keycfg (sc_keys sp)) = ORet (Ok (abs_ctx d))
    | ORet (Err _) => False
    | OPanic _ => exists w, Build.signing_context (sc_b sp) (abs_keycfg (sc_keys sp)) = OPanic w
    end.
  Proof.
    intros W. unfold new_ctx, Build.signing_context.
    pose proof (keys_choice_abs (Build.b_sign_algorithm (sc_b sp)) _ W) as K.
    destruct (signing_context (Build.b_sign_algorithm (sc_b sp)) (sc_keys sp)) as [[k|e]|m]; [|exact K|].
    - rewrite <- K.
      destruct (Build.set_signature_method (abs_keys k) Build.default_hash (Build.b_sign_algorithm (sc_b sp))) as [[h|e]|w] eqn:H.
      + reflexivity.
      + revert H. unfold Build.set_signature_method.
        destruct (Build.method_by_id _ _) as [[p h]|]; [destruct (Build.ctx_pk _)|]; discriminate.
      + eauto.
    - destruct K as [P M]. unfold Build.set_signature_method. rewrite P.
      destruct (Build.method_by_id _ _) as [[p h]|]; [eauto|congruence].
  Qed.

  Definition build_view (r : pm (sign_cfg * option dctx)) : pm (option Build.sign_ctx) :=
    match r with PVal (_, c) => PVal (option_map abs_ctx c) | PPanic => PPanic end.
  Definition outcome_view {A} (o : outcome A) : pm (option A) :=
    match o with ORet (Ok a) => PVal (Some a) | _ => PPanic end.

  Theorem G_SigningContext_is_build_model sp now : sc_cache sp = None -> setters_wf (sc_keys sp) ->
    build_view (G_SigningContext pk_of sp now) = outcome_view (Build.signing_context (sc_b sp) (abs_keycfg (sc_keys sp))).
  Proof.
    intros C W. rewrite G_SigningContext_is_model. unfold signing_context_model. rewrite C.
    pose proof (new_ctx_build sp W) as N.
    destruct (new_ctx sp) as [[d|e]|m]; [rewrite N; reflexivity|contradiction|].
    destruct N as [w ->]. reflexivity.
  Qed.

  (* ================================================================ Sign{AuthnRequest,LogoutRequest,LogoutResponse} *)
  Definition sign_model (sp : sign_cfg) (el : node) : pm (sign_cfg * res (option node)) :=
    match signing_context_model sp with
    | PPanic => PPanic
    | PVal (sp', None) => PPanic
    | PVal (sp', Some d) =>
        match Build.construct_signature (abs_ctx d) el (crypto_of d el) with
        | OPanic _ => PPanic
        | ORet (Err e) => PVal (sp', Err e)
        | ORet (Ok (el', sig)) =>
            match Build.sign_placement el' sig with      (* ret.Child[0], sig, ret.Child[1:] *)
            | ORet (Ok t) => PVal (sp', Ok (Some t))
            | _ => PPanic
            end
        end
    end.

  Lemma lslice_from_1 {A} (c0 : A) rest : lslice_from (c0 :: rest) 1 = Some rest.
  Proof.
    unfold lslice_from. cbn [List.length].
    destruct (Z.ltb_spec (Z.of_nat (S (List.length rest))) 1); [lia|]. reflexivity.
  Qed.

  Ltac sign_tac G :=
    intros sp now el; unfold G, sign_model, run_fn;
    rewrite G_SigningContext_is_model;
    destruct (signing_context_model sp) as [[sp' [d|]]|]; cbn [fst snd]; try reflexivity;
    unfold dsig_ConstructSignature;
    destruct (Build.construct_signature (abs_ctx d) el (crypto_of d el)) as [[[el' sig]|e]|m];
    cbn [fst snd ptr_of_res err_of_res is_nil negb]; try reflexivity;
    destruct el' as [s t a [|c0 rest]| | | |]; cbn [kids_of zindex Z.ltb Z.compare Z.to_nat nth_error Build.sign_placement]; try reflexivity;
    rewrite lslice_from_1; reflexivity.

  Theorem G_SignAuthnRequest_is_model : forall sp now el,
    G_SignAuthnRequest pk_of key_name crypto_of sp now el = sign_model sp el.
  Proof. sign_tac G_SignAuthnRequest. Qed.

  Theorem G_SignLogoutRequest_is_model : forall sp now el,
    G_SignLogoutRequest pk_of key_name crypto_of sp now el = sign_model sp el.
  Proof. sign_tac G_SignLogoutRequest. Qed.

  Theorem G_SignLogoutResponse_is_model : forall sp now el,
    G_SignLogoutResponse pk_of key_name crypto_of sp now el = sign_model sp el.
  Proof. sign_tac G_SignLogoutResponse. Qed.

  (* ---- the index panic ret.Child[0] / ret.Child[1:] is unreachable when the element starts with an element child (what the
     three builders establish: the Issuer is created first, P_Sign.pre_sign_tree_shape) ---- *)
  Lemma exc_kids_first f comments s t a k rest kids' :
    Build.exc_kids f comments (Elem s t a k :: rest) = Ok kids' -> exists c0' rest', kids' = c0' :: rest'.
  Proof.
    unfold Build.exc_kids. intros H. cbn in H.
    destruct (f (Elem s t a k)) as [k'|e]; [|discriminate H].
    match type of H with match ?g with _ => _ end = _ => destruct g as [r'|e]; [|discriminate H] end.
    injection H as <-. cbn [app]. eauto.
  Qed.

  Lemma canon_keeps_first_element c el c0 rest el' :
    kids_of el = c0 :: rest -> is_elem c0 = true -> Build.canon_apply c el = Ok el' ->
    exists c0' rest', kids_of el' = c0' :: rest'.
  Proof.
    intros K E. destruct c as [incl comments|cid]; cbn [Build.canon_apply]; [|intros [= <-]; eauto].
    destruct el as [s t a ks| | | |]; try discriminate K. cbn [kids_of] in K. subst ks.
    destruct c0 as [s0 t0 a0 k0| | | |]; try discriminate E.
    cbn [Build.exc_c14n].
    destruct (Ns.sub_context Ns.default_ctx a) as [scope|e]; [|discriminate].
    match goal with |- match ?g with _ => _ end = _ -> _ => destruct g as [[news decl]|e]; [|discriminate] end.
    match goal with |- match ?g with _ => _ end = _ -> _ => destruct g as [kids'|e] eqn:X; [|discriminate] end.
    intros [= <-]. cbn [kids_of]. eapply exc_kids_first. exact X.
  Qed.

  Theorem sign_model_no_index_panic sp el c0 rest sp' d :
    signing_context_model sp = PVal (sp', Some d) ->
    dctx_pk pk_of (dc_keys d) <> None ->            (* the context has a key: always, unless the SP has no key at all *)
    kids_of el = c0 :: rest -> is_elem c0 = true -> (* the element has an element child first *)
    sign_model sp el <> PPanic.
  Proof.
    intros S P K E. unfold sign_model. rewrite S. unfold Build.construct_signature.
    rewrite dctx_pk_abs in P. cbn [abs_ctx GenPreludeSign.abs_ctx Build.cx_keys Build.cx_hash Build.cx_canon].
    destruct (Build.ctx_pk (abs_keys (dc_keys d))) as [pk|]; [|congruence].
    destruct (Build.id_by_method pk (dc_hash d) Build.signature_method_ids); [|discriminate].
    destruct (Build.canon_apply (dc_canon d) el) as [el'|e] eqn:C; [|discriminate].
    destruct (crypto_of d el) as [[dv sv]|e]; [|discriminate].
    destruct (Build.ctx_certs _) as [certs|e]; [|discriminate].
    destruct (canon_keeps_first_element _ _ _ _ _ K E C) as (c0' & rest' & K').
    destruct el' as [s1 t1 a1 ks| | | |]; try discriminate K'. cbn [kids_of] in K'. subst ks.
    cbn [Build.sign_placement]. discriminate.
  Qed.

  (* ---- Sign* is Build.sign_element of the same configuration (fresh SP, keys set through the setters) ---- *)
  Definition result_view {A B} (r : pm (A * B)) : pm B := match r with PVal (_, b) => PVal b | PPanic => PPanic end.
  Definition outcome_res_view (o : outcome node) : pm (res (option node)) :=
    match o with ORet (Ok n) => PVal (Ok (Some n)) | ORet (Err e) => PVal (Err e) | OPanic _ => PPanic end.

  Theorem sign_model_is_build_model sp el crypto :
    sc_cache sp = None -> setters_wf (sc_keys sp) -> (forall d, crypto_of d el = crypto) ->
    result_view (sign_model sp el) = outcome_res_view (Build.sign_element (sc_b sp) (abs_keycfg (sc_keys sp)) el crypto).
  Proof.
    intros C W X. unfold sign_model, signing_context_model, Build.sign_element. rewrite C.
    pose proof (new_ctx_build sp W) as N.
    destruct (new_ctx sp) as [[d|e]|m]; [rewrite N|contradiction|destruct N as [w ->]; reflexivity].
    rewrite X.
    destruct (Build.construct_signature (abs_ctx d) el crypto) as [[[el' sig]|e]|w]; try reflexivity.
    destruct el' as [s t a [|c0 rest]| | | |]; reflexivity.
  Qed.

  (* the three facts about one Sign* function, packaged for Prop_C13.v *)
  Definition sign_tie (G : sign_cfg -> instant -> node -> pm (sign_cfg * res (option node))) : Prop :=
    forall sp now el,
      G sp now el = sign_model sp el /\
      (forall crypto, sc_cache sp = None -> setters_wf (sc_keys sp) -> (forall d, crypto_of d el = crypto) ->
         result_view (G sp now el) = outcome_res_view (Build.sign_element (sc_b sp) (abs_keycfg (sc_keys sp)) el crypto)) /\
      (forall c0 rest sp' d,
         signing_context_model sp = PVal (sp', Some d) -> dctx_pk pk_of (dc_keys d) <> None ->
         kids_of el = c0 :: rest -> is_elem c0 = true -> G sp now el <> PPanic).

  Lemma sign_tie_of G : (forall sp now el, G sp now el = sign_model sp el) -> sign_tie G.
  Proof.
    intros H sp now el. rewrite H. split; [reflexivity|]. split.
    - intros crypto. apply sign_model_is_build_model.
    - intros c0 rest sp' d. apply sign_model_no_index_panic.
  Qed.

  Theorem SignAuthnRequest_tie : sign_tie (G_SignAuthnRequest pk_of key_name crypto_of).
  Proof. apply sign_tie_of, G_SignAuthnRequest_is_model. Qed.
  Theorem SignLogoutRequest_tie : sign_tie (G_SignLogoutRequest pk_of key_name crypto_of).
  Proof. apply sign_tie_of, G_SignLogoutRequest_is_model. Qed.
  Theorem SignLogoutResponse_tie : sign_tie (G_SignLogoutResponse pk_of key_name crypto_of).
  Proof. apply sign_tie_of, G_SignLogoutResponse_is_model. Qed.

  (* ================================================================ the Build*Document wrappers and BuildAuthRequest *)
  (* they call the builders of GenBuild.v (proved equal to Build.v in P_GenBuild.v for every signing step) with includeSig fixed *)
  Theorem G_BuildAuthRequestDocument_is_model sp now id :
    G_BuildAuthRequestDocument sign_el sp now id
    = PVal (P_GenBuild.built sign_el (Build.b_sign_authn_requests (sc_b sp)) (Build.build_authn_request (sc_b sp) id now)).
  Proof.
    unfold G_BuildAuthRequestDocument, run_fn. rewrite P_GenBuild.G_buildAuthnRequest_is_model.
    rewrite Bool.andb_true_r. reflexivity.
  Qed.

  Theorem G_BuildAuthRequestDocumentNoSig_is_model sp now id :
    G_BuildAuthRequestDocumentNoSig sign_el sp now id = PVal (Ok (Some (Build.build_authn_request (sc_b sp) id now))).
  Proof.
    unfold G_BuildAuthRequestDocumentNoSig, run_fn. rewrite P_GenBuild.G_buildAuthnRequest_is_model.
    rewrite Bool.andb_false_r. reflexivity.
  Qed.

  Theorem G_BuildLogoutRequestDocument_is_model sp now name_id session_index id :
    G_BuildLogoutRequestDocument sign_el sp now name_id session_index id
    = PVal (P_GenBuild.built sign_el true (Build.build_logout_request (sc_b sp) id now name_id session_index)).
  Proof. unfold G_BuildLogoutRequestDocument, run_fn. rewrite P_GenBuild.G_buildLogoutRequest_is_model. reflexivity. Qed.

  Theorem G_BuildLogoutRequestDocumentNoSig_is_model sp now name_id session_index id :
    G_BuildLogoutRequestDocumentNoSig sign_el sp now name_id session_index id
    = PVal (Ok (Some (Build.build_logout_request (sc_b sp) id now name_id session_index))).
  Proof. unfold G_BuildLogoutRequestDocumentNoSig, run_fn. rewrite P_GenBuild.G_buildLogoutRequest_is_model. reflexivity. Qed.

  Theorem G_BuildLogoutResponseDocument_is_model sp now status req_id id :
    G_BuildLogoutResponseDocument sign_el sp now status req_id id
    = PVal (P_GenBuild.built sign_el true (Build.build_logout_response (sc_b sp) id now status req_id)).
  Proof. unfold G_BuildLogoutResponseDocument, run_fn. rewrite P_GenBuild.G_buildLogoutResponse_is_model. reflexivity. Qed.

  Theorem G_BuildLogoutResponseDocumentNoSig_is_model sp now status req_id id :
    G_BuildLogoutResponseDocumentNoSig sign_el sp now status req_id id
    = PVal (Ok (Some (Build.build_logout_response (sc_b sp) id now status req_id))).
  Proof. unfold G_BuildLogoutResponseDocumentNoSig, run_fn. rewrite P_GenBuild.G_buildLogoutResponse_is_model. reflexivity. Qed.

  (* BuildAuthRequest: the serialisation (Build.etree_write) of the document BuildAuthRequestDocument returns *)
  Definition doc_string (r : res (option node)) : res string :=
    match r with
    | Ok (Some root) => Ok (Build.etree_write root)
    | Ok None => Ok ""                                  (* not returned by the builders *)
    | Err e => Err e
    end.

  Theorem G_BuildAuthRequest_is_model sp now id :
    G_BuildAuthRequest sign_el sp now id
    = PVal (doc_string (P_GenBuild.built sign_el (Build.b_sign_authn_requests (sc_b sp)) (Build.build_authn_request (sc_b sp) id now))).
  Proof.
    unfold G_BuildAuthRequest, run_fn. rewrite G_BuildAuthRequestDocument_is_model. unfold P_GenBuild.built.
    destruct (Build.b_sign_authn_requests (sc_b sp)); [|reflexivity].
    destruct (sign_el _) as [n|e]; reflexivity.
  Qed.

  (* ================================================================ the loop closed *)
  (* GenBuild.v / the wrappers above take the signing step as a Section variable [sign_el].  When that step IS the translated
     Sign* function run on this receiver, the document returned is Build.v's message_doc (the model of C13 / C15), and the
     whole call panics exactly when the model does. *)
  Definition step_of (r : pm (sign_cfg * res (option node))) : option (res node) :=
    match r with
    | PVal (_, Ok (Some n)) => Some (Ok n)
    | PVal (_, Err e) => Some (Err e)
    | _ => None
    end.

  Lemma sign_step sp el crypto :
    sc_cache sp = None -> setters_wf (sc_keys sp) -> (forall d, crypto_of d el = crypto) ->
    match Build.sign_element (sc_b sp) (abs_keycfg (sc_keys sp)) el crypto with
    | OPanic _ => sign_model sp el = PPanic
    | ORet r => step_of (sign_model sp el) = Some r
    end.
  Proof.
    intros C W X. pose proof (sign_model_is_build_model sp el crypto C W X) as H.
    destruct (Build.sign_element _ _ el crypto) as [[n|e]|w]; destruct (sign_model sp el) as [[sp' [[n'|]|e']]|];
      cbn in H; try discriminate H; try reflexivity; injection H; intros; subst; reflexivity.
  Qed.

  Definition doc_of (o : outcome node) : res (option node) :=
    match o with ORet (Ok n) => Ok (Some n) | ORet (Err e) => Err e | OPanic _ => Ok None end.

  Theorem BuildAuthRequestDocument_end_to_end sp now id crypto :
    sc_cache sp = None -> setters_wf (sc_keys sp) ->
    let el := Build.build_authn_request (sc_b sp) id now in
    let step := G_SignAuthnRequest pk_of key_name crypto_of sp now el in
    (forall d, crypto_of d el = crypto) ->
    match Build.message_doc (sc_b sp) (abs_keycfg (sc_keys sp)) Build.MAuthn id now true crypto with
    | OPanic _ => Build.b_sign_authn_requests (sc_b sp) = true /\ step = PPanic
    | ORet r => (Build.b_sign_authn_requests (sc_b sp) = true -> step_of step = Some (sign_el el)) ->
                G_BuildAuthRequestDocument sign_el sp now id = PVal (doc_of (ORet r))
    end.
  Proof.
    intros C W el step X. subst step. rewrite G_SignAuthnRequest_is_model, G_BuildAuthRequestDocument_is_model.
    cbn [Build.message_doc]. unfold Build.authn_request_doc, P_GenBuild.built. fold el. rewrite Bool.andb_true_r.
    destruct (Build.b_sign_authn_requests (sc_b sp)); [|intros _; reflexivity].
    pose proof (sign_step sp el crypto C W X) as S.
    destruct (Build.sign_element _ _ el crypto) as [r|w]; [|split; [reflexivity|exact S]].
    intros H. specialize (H eq_refl). rewrite S in H. injection H as <-. destruct r; reflexivity.
  Qed.

  Theorem BuildLogoutRequestDocument_end_to_end sp now name_id session_index id crypto :
    sc_cache sp = None -> setters_wf (sc_keys sp) ->
    let el := Build.build_logout_request (sc_b sp) id now name_id session_index in
    let step := G_SignLogoutRequest pk_of key_name crypto_of sp now el in
    (forall d, crypto_of d el = crypto) ->
    match Build.message_doc (sc_b sp) (abs_keycfg (sc_keys sp)) (Build.MLogoutRequest name_id session_index) id now true crypto with
    | OPanic _ => step = PPanic
    | ORet r => step_of step = Some (sign_el el) ->
                G_BuildLogoutRequestDocument sign_el sp now name_id session_index id = PVal (doc_of (ORet r))
    end.
  Proof.
    intros C W el step X. subst step. rewrite G_SignLogoutRequest_is_model, G_BuildLogoutRequestDocument_is_model.
    cbn [Build.message_doc]. unfold Build.logout_request_doc, P_GenBuild.built. fold el.
    pose proof (sign_step sp el crypto C W X) as S.
    destruct (Build.sign_element _ _ el crypto) as [r|w]; [|exact S].
    intros H. rewrite S in H. injection H as <-. destruct r; reflexivity.
  Qed.

  Theorem BuildLogoutResponseDocument_end_to_end sp now status req_id id crypto :
    sc_cache sp = None -> setters_wf (sc_keys sp) ->
    let el := Build.build_logout_response (sc_b sp) id now status req_id in
    let step := G_SignLogoutResponse pk_of key_name crypto_of sp now el in
    (forall d, crypto_of d el = crypto) ->
    match Build.message_doc (sc_b sp) (abs_keycfg (sc_keys sp)) (Build.MLogoutResponse status req_id) id now true crypto with
    | OPanic _ => step = PPanic
    | ORet r => step_of step = Some (sign_el el) ->
                G_BuildLogoutResponseDocument sign_el sp now status req_id id = PVal (doc_of (ORet r))
    end.
  Proof.
    intros C W el step X. subst step. rewrite G_SignLogoutResponse_is_model, G_BuildLogoutResponseDocument_is_model.
    cbn [Build.message_doc]. unfold Build.logout_response_doc, P_GenBuild.built. fold el.
    pose proof (sign_step sp el crypto C W X) as S.
    destruct (Build.sign_element _ _ el crypto) as [r|w]; [|exact S].
    intros H. rewrite S in H. injection H as <-. destruct r; reflexivity.
  Qed.
End Tie.

(* the SigningContext facts packaged for Prop_C13.v *)
Theorem SigningContext_tie pk_of key_name sp now :
  G_SigningContext pk_of sp now = signing_context_model pk_of key_name sp /\
  keys_view (G_SigningContext pk_of sp now)
    = cached_view (signing_context_cached (option_map dc_keys (sc_cache sp)) (Build.b_sign_algorithm (sc_b sp)) (sc_keys sp)) /\
  (sc_cache sp = None -> setters_wf (sc_keys sp) ->
     build_view pk_of key_name (G_SigningContext pk_of sp now)
     = outcome_view (Build.signing_context (sc_b sp) (abs_keycfg pk_of key_name (sc_keys sp)))) /\
  (forall sp' r, G_SigningContext pk_of sp now = PVal (sp', r) ->
     sc_b sp' = sc_b sp /\ sc_keys sp' = sc_keys sp /\ sc_cache sp' = r /\ r <> None /\
     (forall d, sc_cache sp = Some d -> sp' = sp /\ r = Some d)).
Proof.
  split; [apply G_SigningContext_is_model|]. split; [apply (G_SigningContext_is_keys_model pk_of key_name)|].
  split; [apply G_SigningContext_is_build_model|]. intros sp' r. apply (signing_context_frame pk_of key_name).
Qed.

(* the hypotheses of the statements above are satisfiable, and the model is not vacuous: an SP whose signing key was set through
   SetSPSigningKeyStore (RSA signer 7, rsa-sha512 configured, exclusive canonicaliser) *)
Example ex_signing_context :
  let k := {| ks_signer := Some (rsa_signer 7); ks_cert := "CERT" |} in
  let sp := {| sc_b := {| Build.b_sp_issuer := "sp"; Build.b_idp_issuer := "idp"; Build.b_acs_url := "acs"; Build.b_idp_sso_url := "sso";
                          Build.b_idp_slo_url := "slo"; Build.b_force_authn := false; Build.b_is_passive := false;
                          Build.b_name_id_format := ""; Build.b_rac := None; Build.b_sign_authn_requests := true;
                          Build.b_sign_algorithm := "http://www.w3.org/2001/04/xmldsig-more#rsa-sha512";
                          Build.b_canonicalizer := Some (Build.CanonExc [] false) |};
               sc_keys := {| kc_enc_field := None; kc_sign_field := None; kc_enc_override := None; kc_sign_override := Some k |};
               sc_cache := None |} in
  let d := {| dc_keys := CtxSigner (rsa_signer 7) ["CERT"]; dc_hash := Build.SHA512; dc_canon := Build.CanonExc [] false |} in
  setters_wf (sc_keys sp) /\
  G_SigningContext (fun _ => Build.PK_RSA) sp {| i_sec := 0; i_nsec := 0 |} = PVal (set_sc_cache (Some d) sp, Some d) /\
  G_SigningContext (fun _ => Build.PK_RSA) (set_sc_cache (Some d) sp) {| i_sec := 0; i_nsec := 0 |} = PVal (set_sc_cache (Some d) sp, Some d).
Proof. split; [split; cbn; [exact I|discriminate]|]. split; vm_compute; reflexivity. Qed.

Theorem document_wrappers_tie (sign_el : node -> res node) sp now id name_id session_index status req_id :
  G_BuildAuthRequestDocument sign_el sp now id
    = PVal (P_GenBuild.built sign_el (Build.b_sign_authn_requests (sc_b sp)) (Build.build_authn_request (sc_b sp) id now)) /\
  G_BuildAuthRequestDocumentNoSig sign_el sp now id = PVal (Ok (Some (Build.build_authn_request (sc_b sp) id now))) /\
  G_BuildAuthRequest sign_el sp now id
    = PVal (doc_string (P_GenBuild.built sign_el (Build.b_sign_authn_requests (sc_b sp)) (Build.build_authn_request (sc_b sp) id now))) /\
  G_BuildLogoutRequestDocument sign_el sp now name_id session_index id
    = PVal (P_GenBuild.built sign_el true (Build.build_logout_request (sc_b sp) id now name_id session_index)) /\
  G_BuildLogoutRequestDocumentNoSig sign_el sp now name_id session_index id
    = PVal (Ok (Some (Build.build_logout_request (sc_b sp) id now name_id session_index))) /\
  G_BuildLogoutResponseDocument sign_el sp now status req_id id
    = PVal (P_GenBuild.built sign_el true (Build.build_logout_response (sc_b sp) id now status req_id)) /\
  G_BuildLogoutResponseDocumentNoSig sign_el sp now status req_id id
    = PVal (Ok (Some (Build.build_logout_response (sc_b sp) id now status req_id))).
Proof.
  repeat split.
  - apply G_BuildAuthRequestDocument_is_model.
  - apply G_BuildAuthRequestDocumentNoSig_is_model.
  - apply G_BuildAuthRequest_is_model.
  - apply G_BuildLogoutRequestDocument_is_model.
  - apply G_BuildLogoutRequestDocumentNoSig_is_model.
  - apply G_BuildLogoutResponseDocument_is_model.
  - apply G_BuildLogoutResponseDocumentNoSig_is_model.
Qed.

Theorem signed_documents_tie pk_of key_name crypto_of (sign_el : node -> res node) sp now id crypto :
  sc_cache sp = None -> setters_wf (sc_keys sp) ->
  (let el := Build.build_authn_request (sc_b sp) id now in
   let step := G_SignAuthnRequest pk_of key_name crypto_of sp now el in
   (forall d, crypto_of d el = crypto) ->
   match Build.message_doc (sc_b sp) (abs_keycfg pk_of key_name (sc_keys sp)) Build.MAuthn id now true crypto with
   | OPanic _ => Build.b_sign_authn_requests (sc_b sp) = true /\ step = PPanic
   | ORet r => (Build.b_sign_authn_requests (sc_b sp) = true -> step_of step = Some (sign_el el)) ->
               G_BuildAuthRequestDocument sign_el sp now id = PVal (doc_of (ORet r))
   end) /\
  (forall name_id session_index,
   let el := Build.build_logout_request (sc_b sp) id now name_id session_index in
   let step := G_SignLogoutRequest pk_of key_name crypto_of sp now el in
   (forall d, crypto_of d el = crypto) ->
   match Build.message_doc (sc_b sp) (abs_keycfg pk_of key_name (sc_keys sp)) (Build.MLogoutRequest name_id session_index) id now true crypto with
   | OPanic _ => step = PPanic
   | ORet r => step_of step = Some (sign_el el) ->
               G_BuildLogoutRequestDocument sign_el sp now name_id session_index id = PVal (doc_of (ORet r))
   end) /\
  (forall status req_id,
   let el := Build.build_logout_response (sc_b sp) id now status req_id in
   let step := G_SignLogoutResponse pk_of key_name crypto_of sp now el in
   (forall d, crypto_of d el = crypto) ->
   match Build.message_doc (sc_b sp) (abs_keycfg pk_of key_name (sc_keys sp)) (Build.MLogoutResponse status req_id) id now true crypto with
   | OPanic _ => step = PPanic
   | ORet r => step_of step = Some (sign_el el) ->
               G_BuildLogoutResponseDocument sign_el sp now status req_id id = PVal (doc_of (ORet r))
   end).
Proof.
  intros C W. split; [|split].
  - apply BuildAuthRequestDocument_end_to_end; assumption.
  - intros n s. apply BuildLogoutRequestDocument_end_to_end; assumption.
  - intros st rq. apply BuildLogoutResponseDocument_end_to_end; assumption.
Qed.
