(* P_Ns.v — reasoning principles for the namespace-aware traversals of Ns.v:
   an invariant rule (what a successful traversal establishes about its final state) and a coverage rule
   (a successful traversal has run the handler, successfully, on EVERY element of the tree). *)
From V Require Import Base Xml Ns.
Local Open Scope string_scope.
Local Open Scope list_scope.

(* induction principle for the nested inductive [node] *)
Lemma node_ind' (P : node -> Prop) :
  (forall sp tg attrs kids, Forall P kids -> P (Elem sp tg attrs kids)) ->
  (forall s, P (Text s)) -> (forall s, P (Comment s)) -> (forall t i, P (ProcInst t i)) -> (forall s, P (Directive s)) ->
  forall n, P n.
Proof.
  intros HE HT HC HP HD.
  fix IH 1. intros n. destruct n as [sp tg attrs kids | s | s | t i | s].
  - apply HE. induction kids as [|k r IHk]; constructor; [apply IH | exact IHk].
  - apply HT.
  - apply HC.
  - apply HP.
  - apply HD.
Qed.

(* the subtree of [n] reached by a path of child-token indices *)
Fixpoint subtree (n : node) (p : list nat) : option node :=
  match p with
  | [] => Some n
  | i :: r => match nth_error (kids_of n) i with Some k => subtree k r | None => None end
  end.

(* the namespace context in force AT the element reached by [p] (its own declarations included) *)
Fixpoint ctx_at (ctx : nsctx) (n : node) (p : list nat) : option nsctx :=
  match n with
  | Elem _ _ attrs kids =>
      match sub_context ctx attrs with
      | Ok ctx' =>
          match p with
          | [] => Some ctx'
          | i :: r => match nth_error kids i with Some k => ctx_at ctx' k r | None => None end
          end
      | Err _ => None
      end
  | _ => None
  end.

Lemma subtree_app n p q m : subtree n p = Some m -> subtree n (p ++ q) = subtree m q.
Proof.
  revert n. induction p as [|i p IH]; intros n H; cbn in *.
  - inversion H; reflexivity.
  - destruct (nth_error (kids_of n) i); [apply IH; exact H | discriminate].
Qed.

Section TraverseRules.
  Context {S : Type}.
  Variable h : nsctx -> list nat -> node -> S -> res S.

  (* the loop over the children, named so that lemmas can mention it *)
  Fixpoint go (ctx' : nsctx) (path : list nat) (ks : list node) (i : nat) (st : nat * S) : res (nat * S) :=
    match ks with
    | [] => Ok st
    | k :: r =>
        match k with
        | Elem _ _ _ _ => do st' <- traverse h ctx' (path ++ [i]) k st; go ctx' path r (Datatypes.S i) st'
        | _ => go ctx' path r (Datatypes.S i) st
        end
    end.

  Lemma traverse_unfold ctx path sp tg attrs kids st :
    traverse h ctx path (Elem sp tg attrs kids) st =
    match fst st with
    | O => Err (EOther "traversal limit reached")
    | Datatypes.S lim' =>
        do ctx' <- sub_context ctx attrs;
        do s' <- h ctx' path (Elem sp tg attrs kids) (snd st);
        go ctx' path kids O (lim', s')
    end.
  Proof.
    cbn [traverse]. destruct (fst st); [reflexivity|].
    destruct (sub_context ctx attrs) as [ctx'|e]; cbn [bind]; [|reflexivity].
    destruct (h ctx' path (Elem sp tg attrs kids) (snd st)) as [s'|e]; cbn [bind]; [|reflexivity].
    assert (E : forall ks i st0,
      (fix go0 (ks : list node) (i : nat) (st : nat * S) {struct ks} : res (nat * S) :=
         match ks with
         | [] => Ok st
         | k :: r =>
             match k with
             | Elem _ _ _ _ => do st' <- traverse h ctx' (path ++ [i]) k st; go0 r (Datatypes.S i) st'
             | _ => go0 r (Datatypes.S i) st
             end
         end) ks i st0 = go ctx' path ks i st0).
    { induction ks as [|k r IH]; intros i st0; [reflexivity|].
      destruct k; cbn [go]; try apply IH.
      destruct (traverse h ctx' (path ++ [i]) (Elem space tag attrs0 kids0) st0); cbn [bind]; [apply IH | reflexivity]. }
    apply E.
  Qed.

  (* ---- invariant rule ---- *)
  Section Invariant.
    Variable Inv : S -> Prop.

    Lemma traverse_inv : forall el ctx base st st',
      (forall ctx' rel e s s', subtree el rel = Some e -> ctx_at ctx el rel = Some ctx' ->
                               h ctx' (base ++ rel) e s = Ok s' -> Inv s -> Inv s') ->
      Inv (snd st) -> traverse h ctx base el st = Ok st' -> Inv (snd st').
    Proof.
      induction el as [sp tg attrs kids IHk | | | | ] using node_ind'; intros ctx base st st' Hh Hi Ht;
        try (cbn in Ht; inversion Ht; subst; exact Hi).
      rewrite traverse_unfold in Ht.
      destruct (fst st) as [|lim']; [discriminate|].
      destruct (sub_context ctx attrs) as [ctx'|e] eqn:ES; cbn [bind] in Ht; [|discriminate].
      destruct (h ctx' base (Elem sp tg attrs kids) (snd st)) as [s1|e] eqn:EH; cbn [bind] in Ht; [|discriminate].
      assert (Hi1 : Inv s1).
      { eapply (Hh ctx' [] (Elem sp tg attrs kids)); eauto.
        - cbn. rewrite ES. reflexivity.
        - rewrite app_nil_r. exact EH. }
      (* loop over children, generalised on the index offset *)
      assert (Hgo : forall ks i st0 st1,
                 (forall j k, nth_error ks j = Some k -> nth_error kids (i + j) = Some k) ->
                 Forall (fun k => forall ctx base st st',
                            (forall ctx' rel e s s', subtree k rel = Some e -> ctx_at ctx k rel = Some ctx' ->
                                                     h ctx' (base ++ rel) e s = Ok s' -> Inv s -> Inv s') ->
                            Inv (snd st) -> traverse h ctx base k st = Ok st' -> Inv (snd st')) ks ->
                 Inv (snd st0) -> go ctx' base ks i st0 = Ok st1 -> Inv (snd st1)).
      { induction ks as [|k r IHr]; intros i st0 st1 Hidx HF Hi0 Hg; cbn [go] in Hg.
        - inversion Hg; subst; exact Hi0.
        - inversion HF as [|? ? Hk HFr]; subst.
          assert (Hidx' : forall j k0, nth_error r j = Some k0 -> nth_error kids (Datatypes.S i + j) = Some k0).
          { intros j k0 Hj. specialize (Hidx (Datatypes.S j) k0 Hj). rewrite <- plus_n_Sm in Hidx. exact Hidx. }
          destruct k as [ksp ktg kattrs kkids | | | | ]; try (apply (IHr (Datatypes.S i) st0 st1 Hidx' HFr Hi0 Hg)).
          destruct (traverse h ctx' (base ++ [i]) (Elem ksp ktg kattrs kkids) st0) as [stk|e] eqn:ET; cbn [bind] in Hg; [|discriminate].
          apply (IHr (Datatypes.S i) stk st1 Hidx' HFr); [|exact Hg].
          eapply Hk; [|exact Hi0|exact ET].
          intros ctx2 rel e s s' Hsub Hctx Hcall HI.
          eapply (Hh ctx2 (i :: rel) e); eauto.
          + cbn [subtree kids_of]. specialize (Hidx O _ eq_refl). rewrite Nat.add_0_r in Hidx. rewrite Hidx. exact Hsub.
          + cbn [ctx_at]. rewrite ES. specialize (Hidx O _ eq_refl). rewrite Nat.add_0_r in Hidx. rewrite Hidx. exact Hctx.
          + rewrite <- app_assoc in Hcall. exact Hcall. }
      apply (Hgo kids O (lim', s1) st'); auto.
    Qed.
  End Invariant.

  (* ---- coverage rule ---- *)
  Lemma traverse_covers : forall el ctx base st st',
    traverse h ctx base el st = Ok st' ->
    forall rel e, subtree el rel = Some e -> is_elem e = true ->
      exists ctx' s s', ctx_at ctx el rel = Some ctx' /\ h ctx' (base ++ rel) e s = Ok s'.
  Proof.
    induction el as [sp tg attrs kids IHk | | | | ] using node_ind'; intros ctx base st st' Ht rel e Hsub He;
      try (destruct rel as [|i0 rel0]; cbn in Hsub; [inversion Hsub; subst; discriminate | destruct i0; discriminate]).
    rewrite traverse_unfold in Ht.
    destruct (fst st) as [|lim']; [discriminate|].
    destruct (sub_context ctx attrs) as [ctx'|er] eqn:ES; cbn [bind] in Ht; [|discriminate].
    destruct (h ctx' base (Elem sp tg attrs kids) (snd st)) as [s1|er] eqn:EH; cbn [bind] in Ht; [|discriminate].
    destruct rel as [|i rel].
    - cbn in Hsub. inversion Hsub; subst. exists ctx', (snd st), s1. split.
      + cbn. rewrite ES. reflexivity.
      + rewrite app_nil_r. exact EH.
    - cbn [subtree kids_of] in Hsub.
      destruct (nth_error kids i) as [k|] eqn:EN; [|discriminate].
      (* the loop reaches child i *)
      assert (Hgo : forall ks off st0 st1,
                 go ctx' base ks off st0 = Ok st1 ->
                 forall j, nth_error ks j = Some k -> is_elem k = true ->
                   exists stj stj', traverse h ctx' (base ++ [off + j]) k stj = Ok stj').
      { induction ks as [|k0 r IHr]; intros off st0 st1 Hg j Hj Hke; [destruct j; discriminate|].
        cbn [go] in Hg. destruct j as [|j].
        - cbn in Hj. inversion Hj; subst k0. destruct k; try discriminate.
          destruct (traverse h ctx' (base ++ [off]) (Elem space tag attrs0 kids0) st0) as [stk|er] eqn:ET; cbn [bind] in Hg; [|discriminate].
          rewrite Nat.add_0_r. eauto.
        - cbn in Hj. rewrite <- plus_n_Sm.
          destruct k0; try (eapply (IHr (Datatypes.S off)); eauto; fail).
          destruct (traverse h ctx' (base ++ [off]) (Elem space tag attrs0 kids0) st0) as [stk|er]; cbn [bind] in Hg; [|discriminate].
          eapply (IHr (Datatypes.S off)); eauto. }
      assert (Hke : is_elem k = true).
      { destruct rel as [|i2 rel2]; cbn in Hsub.
        - inversion Hsub; subst; exact He.
        - destruct k; cbn in Hsub; try (destruct i2; discriminate). reflexivity. }
      destruct (Hgo kids O _ _ Ht i EN Hke) as (stj & stj' & Htk).
      rewrite Forall_forall in IHk.
      assert (Hin : In k kids) by (eapply nth_error_In; eauto).
      destruct (IHk k Hin ctx' (base ++ [0 + i]) stj stj' Htk rel e Hsub He) as (ctx2 & s & s' & Hc & Hcall).
      exists ctx2, s, s'. split.
      + cbn [ctx_at]. rewrite ES, EN. exact Hc.
      + cbn [Nat.add] in Hcall. rewrite <- app_assoc in Hcall. exact Hcall.
  Qed.
End TraverseRules.

(* ---- the same two rules for NSFindIterate ---- *)
Definition resolves (ctx : nsctx) (e : node) (namespace tag : string) : bool :=
  match lookup_prefix ctx (space_of e) with
  | Some ns => (ns =?s namespace) && (tag_of e =?s tag)
  | None => false
  end.

Section FindIterateRules.
  Context {S : Type}.
  Variable namespace tag : string.
  Variable h : nsctx -> list nat -> node -> S -> res S.

  Lemma find_iterate_inv (Inv : S -> Prop) el s s' :
    (forall ctx rel e s0 s1, subtree el rel = Some e -> ctx_at default_ctx el rel = Some ctx ->
                             resolves ctx e namespace tag = true -> h ctx rel e s0 = Ok s1 -> Inv s0 -> Inv s1) ->
    Inv s -> find_iterate namespace tag h el s = Ok s' -> Inv s'.
  Proof.
    intros Hh Hi Hf. unfold find_iterate in Hf.
    match type of Hf with (do r <- ?T; _) = _ => destruct T as [[lim sf]|e] eqn:ET end; cbn [bind] in Hf; [|discriminate].
    inversion Hf; subst s'. cbn [snd].
    change sf with (snd (lim, sf)).
    eapply (traverse_inv _ Inv el default_ctx [] (traversal_limit, s)); [|exact Hi|exact ET].
    intros ctx' rel e s0 s1 Hsub Hctx Hcall HI. cbn [app] in Hcall.
    unfold resolves in Hh.
    specialize (Hh ctx' rel e s0 s1 Hsub Hctx).
    destruct (lookup_prefix ctx' (space_of e)) as [ns|]; [|discriminate].
    destruct ((ns =?s namespace) && (tag_of e =?s tag)) eqn:EM.
    - eapply Hh; eauto.
    - inversion Hcall; subst; exact HI.
  Qed.

  (* every element of the tree that resolves to (namespace, tag) was handled successfully *)
  Lemma find_iterate_covers el s s' :
    find_iterate namespace tag h el s = Ok s' ->
    forall rel e ctx, subtree el rel = Some e -> is_elem e = true -> ctx_at default_ctx el rel = Some ctx ->
      resolves ctx e namespace tag = true ->
      exists s0 s1, h ctx rel e s0 = Ok s1.
  Proof.
    intros Hf rel e ctx Hsub He Hctx Hres. unfold find_iterate in Hf.
    match type of Hf with (do r <- ?T; _) = _ => destruct T as [[lim sf]|er] eqn:ET end; cbn [bind] in Hf; [|discriminate].
    destruct (traverse_covers _ el default_ctx [] _ _ ET rel e Hsub He) as (ctx' & s0 & s1 & Hc & Hcall).
    rewrite Hctx in Hc. inversion Hc; subst ctx'. cbn [app] in Hcall.
    unfold resolves in Hres.
    destruct (lookup_prefix ctx (space_of e)) as [ns|]; [|discriminate].
    rewrite Hres in Hcall. eauto.
  Qed.

  (* ... and every element's prefix is declared *)
  Lemma find_iterate_prefixes_declared el s s' :
    find_iterate namespace tag h el s = Ok s' ->
    forall rel e ctx, subtree el rel = Some e -> is_elem e = true -> ctx_at default_ctx el rel = Some ctx ->
      lookup_prefix ctx (space_of e) <> None.
  Proof.
    intros Hf rel e ctx Hsub He Hctx. unfold find_iterate in Hf.
    match type of Hf with (do r <- ?T; _) = _ => destruct T as [[lim sf]|er] eqn:ET end; cbn [bind] in Hf; [|discriminate].
    destruct (traverse_covers _ el default_ctx [] _ _ ET rel e Hsub He) as (ctx' & s0 & s1 & Hc & Hcall).
    rewrite Hctx in Hc. inversion Hc; subst ctx'.
    destruct (lookup_prefix ctx (space_of e)); [discriminate|discriminate].
  Qed.
End FindIterateRules.

(* ---- NSFindOneChild: what its three outcomes say about the direct children ----
   [HasChild ns tag root]: some direct child ELEMENT of root resolves to (ns, tag) in the context in force at that child
   (default context + root's declarations + the child's own). *)
Definition HasChild (namespace tag : string) (root : node) : Prop :=
  exists i e ctx, subtree root [i] = Some e /\ is_elem e = true /\ ctx_at default_ctx root [i] = Some ctx /\
                  resolves ctx e namespace tag = true.

Lemma sub_ctx_ok c attrs c' : sub_ctx c attrs = Ok c' <-> sub_context c attrs = Ok c'.
Proof. unfold sub_ctx. destruct (sub_context c attrs); split; intros H; inversion H; reflexivity. Qed.

Lemma find_child_loop_none c namespace tag ks : forall i lim lim',
  find_child_loop c namespace tag ks i lim = Ok (None, lim') ->
  forall j e c2, nth_error ks j = Some e -> is_elem e = true -> sub_context c (attrs_of e) = Ok c2 ->
    resolves c2 e namespace tag = false.
Proof.
  induction ks as [|k r IH]; intros i lim lim' H j e c2 Hj He Hc; [destruct j; discriminate|].
  cbn [find_child_loop] in H.
  destruct k as [sp tg attrs kk| | | | ].
  - destruct lim as [|lim0]; [discriminate|].
    destruct (sub_ctx c attrs) as [c0|er] eqn:ES; cbn [bind] in H; [|discriminate].
    apply sub_ctx_ok in ES.
    destruct (lookup_prefix c0 sp) as [n|] eqn:EL; [|discriminate].
    destruct ((n =?s namespace) && (tg =?s tag))%bool eqn:EM; [discriminate|].
    destruct j as [|j].
    + cbn in Hj. inversion Hj; subst e. cbn [attrs_of] in Hc. rewrite ES in Hc. inversion Hc; subst c2.
      unfold resolves. cbn [space_of tag_of]. rewrite EL. exact EM.
    + cbn in Hj. eapply IH; eauto.
  - destruct j as [|j]; [cbn in Hj; inversion Hj; subst e; discriminate|cbn in Hj; eapply IH; eauto].
  - destruct j as [|j]; [cbn in Hj; inversion Hj; subst e; discriminate|cbn in Hj; eapply IH; eauto].
  - destruct j as [|j]; [cbn in Hj; inversion Hj; subst e; discriminate|cbn in Hj; eapply IH; eauto].
  - destruct j as [|j]; [cbn in Hj; inversion Hj; subst e; discriminate|cbn in Hj; eapply IH; eauto].
Qed.

Lemma find_child_loop_some c namespace tag ks : forall i lim lim' j s,
  find_child_loop c namespace tag ks i lim = Ok (Some (j, s), lim') ->
  exists d c2, j = i + d /\ nth_error ks d = Some s /\ is_elem s = true /\ sub_context c (attrs_of s) = Ok c2 /\
               resolves c2 s namespace tag = true.
Proof.
  induction ks as [|k r IH]; intros i lim lim' j s H; cbn [find_child_loop] in H; [discriminate|].
  assert (Hrec : forall lim0, find_child_loop c namespace tag r (Datatypes.S i) lim0 = Ok (Some (j, s), lim') ->
            exists d c2, j = i + d /\ nth_error (k :: r) d = Some s /\ is_elem s = true /\ sub_context c (attrs_of s) = Ok c2 /\
                         resolves c2 s namespace tag = true).
  { intros lim0 H0. destruct (IH _ _ _ _ _ H0) as (d & c2 & -> & Hn & He & Hc & Hr).
    exists (Datatypes.S d), c2. repeat split; auto. rewrite <- plus_n_Sm. reflexivity. }
  destruct k as [sp tg attrs kk| | | | ]; try (eapply Hrec; exact H).
  destruct lim as [|lim0]; [discriminate|].
  destruct (sub_ctx c attrs) as [c0|er] eqn:ES; cbn [bind] in H; [|discriminate].
  apply sub_ctx_ok in ES.
  destruct (lookup_prefix c0 sp) as [n|] eqn:EL; [|discriminate].
  destruct ((n =?s namespace) && (tg =?s tag))%bool eqn:EM.
  - inversion H; subst. exists 0, c0. repeat split; auto.
    unfold resolves. cbn [space_of tag_of]. rewrite EL. exact EM.
  - eapply Hrec; exact H.
Qed.

Lemma has_child_inv namespace tag sp tg attrs kids :
  HasChild namespace tag (Elem sp tg attrs kids) <->
  exists c i e c2, sub_context default_ctx attrs = Ok c /\ nth_error kids i = Some e /\ is_elem e = true /\
                   sub_context c (attrs_of e) = Ok c2 /\ resolves c2 e namespace tag = true.
Proof.
  unfold HasChild. cbn [subtree kids_of ctx_at]. split.
  - intros (i & e & ctx & Hs & He & Hc & Hr).
    destruct (sub_context default_ctx attrs) as [c|er]; [|discriminate].
    destruct (nth_error kids i) as [k|] eqn:EN; [|discriminate]. inversion Hs; subst k.
    destruct e as [sp' tg' at' kk'| | | | ]; try discriminate. cbn [ctx_at] in Hc.
    destruct (sub_context c at') as [c2|er] eqn:E2; [|discriminate]. inversion Hc; subst ctx.
    exists c, i, (Elem sp' tg' at' kk'), c2. auto.
  - intros (c & i & e & c2 & Hc & Hn & He & Hc2 & Hr). exists i, e, c2. rewrite Hc, Hn.
    destruct e as [sp' tg' at' kk'| | | | ]; try discriminate. cbn [ctx_at attrs_of] in *. rewrite Hc2. auto.
Qed.

(* "no such child" is only ever answered when there is none ... *)
Lemma ns_find_one_child_none root namespace tag :
  ns_find_one_child root namespace tag = Ok None -> ~ HasChild namespace tag root.
Proof.
  unfold ns_find_one_child, find_one_child. intros H HC.
  destruct root as [sp tg attrs kids| | | | ];
    try (destruct HC as (i & e & ctx & Hs & _); cbn in Hs; destruct i; discriminate).
  apply has_child_inv in HC as (c & i & e & c2 & Hc & Hn & He & Hc2 & Hr).
  cbn [attrs_of kids_of] in H. apply sub_ctx_ok in Hc. rewrite Hc in H. cbn [bind] in H.
  destruct (find_child_loop c namespace tag kids 0 traversal_limit) as [[[[j s]|] lim']|er] eqn:EF; cbn [bind fst option_map] in H;
    try discriminate.
  rewrite (find_child_loop_none _ _ _ _ _ _ _ EF i e c2 Hn He Hc2) in Hr. discriminate.
Qed.

(* ... and a child that is answered is one *)
Lemma ns_find_one_child_some root namespace tag s :
  ns_find_one_child root namespace tag = Ok (Some s) -> HasChild namespace tag root.
Proof.
  unfold ns_find_one_child, find_one_child. intros H.
  destruct root as [sp tg attrs kids| | | | ]; try (cbn in H; discriminate).
  cbn [attrs_of kids_of] in H.
  destruct (sub_ctx default_ctx attrs) as [c|er] eqn:ES; cbn [bind] in H; [|discriminate].
  apply sub_ctx_ok in ES.
  destruct (find_child_loop c namespace tag kids 0 traversal_limit) as [[[[j s']|] lim']|er] eqn:EF; cbn [bind fst option_map] in H;
    try discriminate.
  destruct (find_child_loop_some _ _ _ _ _ _ _ _ _ EF) as (d & c2 & _ & Hn & He & Hc2 & Hr).
  apply has_child_inv. exists c, d, s', c2. auto.
Qed.

(* so: with such a child, the lookup finds a ds:Signature-like child or fails (budget, undeclared prefix or reserved
   declaration on an EARLIER sibling) — it never reports absence *)
Lemma ns_find_one_child_has_child root namespace tag :
  HasChild namespace tag root ->
  (exists s, ns_find_one_child root namespace tag = Ok (Some s)) \/ (exists e, ns_find_one_child root namespace tag = Err e).
Proof.
  intros HC. destruct (ns_find_one_child root namespace tag) as [[s|]|e] eqn:EF; eauto.
  exfalso. exact (ns_find_one_child_none _ _ _ EF HC).
Qed.
