(* Decrypt.v — hand-written model of the decryption glue of gosaml2 with Go's THREE outcomes explicit
   (normal return with a value, normal return with an error, panic):

     types/encrypted_key.go        (ek *EncryptedKey) DecryptSymmetricKey, debugKeyFp
     types/encrypted_assertion.go  (ea *EncryptedAssertion) DecryptBytes        (current, repaired code)
                                   the same function at commit a3bc48c          ([decrypt_bytes_unrepaired])
     decode_response.go            decryptAssertions (closure decryptAssertion), parseResponse

   Every slice expression, index expression, nil dereference and explicit panic(...) of the modelled code is
   written with its guard and yields [OPanic] when the guard fails, so that "never panics" is a theorem with
   content (P_Decrypt.v) and not a by-product of totality.

   Oracles are Section variables (never axioms); the theorems hold for EVERY behaviour of them:
     rsa_oaep h ct   rsa.DecryptOAEP(h, rand, pk, ct, nil) with the SP private key  (None = error)
     rsa_pkcs1 ct    rsa.DecryptPKCS1v15(rand, pk, ct)                               (None = error)
     gcm_open k n c  cipher.NewGCM(aes.NewCipher(k)).Open(nil, n, c, nil)            (None = authentication failure)
     cbc_decrypt k iv d   cipher.NewCBCDecrypter(aes.NewCipher(k), iv).CryptBlocks   (raw, still padded)
     parse_doc, rt_ok     maybeDeflate + etree ReadFromBytes, xml-roundtrip-validator (decryptAssertions only)
   base64 is not an oracle: Escape.base64_decode is the model of base64.StdEncoding.DecodeString.
   aes.NewCipher is modelled concretely (it succeeds iff the key has 16, 24 or 32 bytes); the AES block size (16) and
   the GCM standard nonce size (12) are constants of crypto/aes and crypto/cipher.

   The dispatch of the three Go switch statements is driven by the case lists that gen/ re-extracts from the source
   on every run (Generated.decrypt_bytes_cases, key_transport_cases, key_digest_cases): an algorithm dropped from a
   case list in the Go code changes this model. *)
From V Require Import Base Xml Ns Generated Decode Response.
From V Require Escape.
Local Open Scope string_scope.
Local Open Scope list_scope.

(* ---------------------------------------------------------------- bytes *)
Fixpoint take (n : nat) (s : string) : string :=
  match n, s with
  | O, _ => EmptyString
  | S m, String c r => String c (take m r)
  | S _, EmptyString => EmptyString
  end.
Fixpoint drop (n : nat) (s : string) : string :=
  match n, s with
  | O, _ => s
  | S m, String _ r => drop m r
  | S _, EmptyString => EmptyString
  end.

Definition slen (s : string) : nat := String.length s.

(* s[:n]  — Go checks n <= cap(s) for slices; the model checks the STRONGER n <= len(s) (for strings they coincide).
   Wherever the modelled code evaluates s[:n] it also evaluates s[n:] in the same statement or has established
   n <= len(s), so the panic behaviour is the same (see the comment at [decrypt_bytes_unrepaired]). *)
Definition slice_to (s : string) (n : nat) : option string :=
  if Nat.leb n (slen s) then Some (take n s) else None.
(* s[n:]  — panics unless n <= len(s) *)
Definition slice_from (s : string) (n : nat) : option string :=
  if Nat.leb n (slen s) then Some (drop n s) else None.
(* s[lo:hi] on a Go string *)
Definition slice (s : string) (lo hi : nat) : option string :=
  if Nat.leb lo hi && Nat.leb hi (slen s) then Some (take (hi - lo) (drop lo s)) else None.

Definition is_zero_byte (c : ascii) : bool := (N_of_ascii c =? 0)%N.

(* bytes.TrimRight(data, "\x00") *)
Fixpoint trim_right_zero (s : string) : string :=
  match s with
  | EmptyString => EmptyString
  | String c r =>
      match trim_right_zero r with
      | EmptyString => if is_zero_byte c then EmptyString else String c EmptyString
      | r' => String c r'
      end
  end.

(* data[len(data)-1]: None when the index is -1 *)
Fixpoint last_byte (s : string) : option ascii :=
  match s with
  | EmptyString => None
  | String c EmptyString => Some c
  | String _ r => last_byte r
  end.

Definition obind {A B} (o : outcome A) (f : A -> outcome B) : outcome B :=
  match o with
  | ORet (Ok a) => f a
  | ORet (Err e) => ORet (Err e)
  | OPanic w => OPanic w
  end.

(* ---------------------------------------------------------------- Go switch statements *)
(* The case lists of a switch as gen/ extracts them: one list of constant values per clause, [] for default.
   [switch_branch cases x]: index of the clause Go executes for tag value x (first clause listing x, else the
   default clause wherever it stands); None = no clause applies and there is no default (fall out of the switch). *)
Definition mem_str (x : string) (l : list string) : bool := existsb (String.eqb x) l.
Fixpoint first_case (x : string) (cases : list (list string)) (i : nat) : option nat :=
  match cases with
  | [] => None
  | c :: r => if mem_str x c then Some i else first_case x r (S i)
  end.
Fixpoint default_case (cases : list (list string)) (i : nat) : option nat :=
  match cases with
  | [] => None
  | [] :: _ => Some i
  | _ :: r => default_case r (S i)
  end.
Definition switch_branch (cases : list (list string)) (x : string) : option nat :=
  match first_case x cases 0 with
  | Some i => Some i
  | None => default_case cases 0
  end.

(* ---------------------------------------------------------------- constants of Go's crypto packages *)
Definition aes_block_size : nat := 16.          (* crypto/aes BlockSize *)
Definition gcm_nonce_size : nat := 12.          (* crypto/cipher gcmStandardNonceSize *)
(* aes.NewCipher(key): KeySizeError unless len(key) is 16, 24 or 32 *)
Definition aes_key_ok (k : string) : bool :=
  let n := slen k in Nat.eqb n 16 || Nat.eqb n 24 || Nat.eqb n 32.

Inductive hash_id := HSha1 | HSha256 | HSha512.
(* dynamic type of cert.PrivateKey: *rsa.PrivateKey, or anything else (nil included) *)
Inductive key_kind := KRsa | KOther.
(* tls.Certificate as far as the code reads it: the DER chain and the private key's kind *)
Record sp_cert := { sc_chain : list string; sc_key : key_kind }.

(* error labels: the harness maps the Go error text to the same labels (class "Other" for the other properties) *)
Definition E (label : string) : err := EOther label.
(* fmt.Errorf("cannot decrypt, error retrieving private key: %s", err): the cause stays visible in the label *)
Definition wrap_key_error (e : err) : err :=
  match e with
  | EOther l => EOther ("key: " ++ l)
  | _ => EOther "key: ?"
  end.

(* ---------------------------------------------------------------- debugKeyFp (types/encrypted_key.go) *)
(* only used for an error message; modelled because it contains slice expressions.  [sum] is the lower-case hex
   text of the SHA-1 digest (an oracle value: any string). *)
Fixpoint fp_loop (fuel idx : nat) (sum ret : string) : outcome string :=
  match fuel with
  | O => ORet (Ok ret)
  | S f =>
      (* for idx := 0; idx+1 < len(sum); idx += 2 *)
      if Nat.ltb (idx + 1) (slen sum) then
        match slice sum idx (idx + 2) with                          (* sum[idx : idx+2] *)
        | None => OPanic "slice bounds out of range: sum[idx:idx+2]"
        | Some part =>
            fp_loop f (idx + 2) sum (if Nat.eqb idx 0 then (ret ++ part)%string else (ret ++ ":" ++ part)%string)
        end
      else ORet (Ok ret)
  end.
Definition debug_key_fp (key_bytes sum : string) : outcome string :=
  if Nat.ltb (slen key_bytes) 1 then ORet (Ok "") else fp_loop (S (slen sum)) 0 sum "".

Section Decrypt.
  Variable rsa_oaep : hash_id -> string -> option string.
  Variable rsa_pkcs1 : string -> option string.
  Variable gcm_open : string -> string -> string -> option string.
  Variable cbc_decrypt : string -> string -> string -> string.
  Variable sha1_hex : string -> string.           (* for debugKeyFp's message only *)

  (* the digest switch of DecryptSymmetricKey; the result None is Go's nil hash.Hash (no clause applied) *)
  Definition select_digest (m : enc_method) : res (option hash_id) :=
    match em_digest m with
    | None => Ok (Some HSha1)                                     (* DigestMethod == nil: default SHA-1 *)
    | Some alg =>
        match switch_branch key_digest_cases alg with
        | Some 0 => Ok (Some HSha1)                               (* case "", MethodSHA1 *)
        | Some 1 => Ok (Some HSha256)                             (* case MethodSHA256 *)
        | Some 2 => Ok (Some HSha512)                             (* case MethodSHA512 *)
        | Some _ => Err (E "unsupported digest algorithm")        (* default *)
        | None => Ok None
        end
    end.

  (* aes.NewCipher(pt) *)
  Definition new_cipher (pt : string) : res string :=
    if aes_key_ok pt then Ok pt else Err (E "aes: invalid key size").

  (* (ek *EncryptedKey) DecryptSymmetricKey(cert *tls.Certificate) (cipher.Block, error).
     The returned cipher.Block is represented by its key bytes. *)
  Definition decrypt_symmetric_key (cert : option sp_cert) (ek : enc_key) : outcome string :=
    match cert with
    | None => OPanic "nil pointer dereference: cert.Certificate"
    | Some cert =>
        (* if len(cert.Certificate) < 1 *)
        if Nat.ltb (List.length (sc_chain cert)) 1 then
          ORet (Err (E "decryption tls.Certificate has no public certs attached"))
        else
          (* if ek.X509Data != "" { decode; compare with cert.Certificate[0] } *)
          obind
            (if ek_x509 ek =?s "" then ORet (Ok tt)
             else match Escape.base64_decode (ek_x509 ek) with
                  | None => ORet (Err (E "error decoding EncryptedKey certificate"))
                  | Some enc_cert =>
                      match nth_error (sc_chain cert) 0 with                         (* cert.Certificate[0] *)
                      | None => OPanic "index out of range: cert.Certificate[0]"
                      | Some cert0 =>
                          if cert0 =?s enc_cert then ORet (Ok tt)                    (* bytes.Equal *)
                          else
                            (* the message needs debugKeyFp of both certificates *)
                            obind (debug_key_fp cert0 (sha1_hex cert0)) (fun _ =>
                            obind (debug_key_fp enc_cert (sha1_hex enc_cert)) (fun _ =>
                            ORet (Err (E "key decryption attempted with mismatched cert"))))
                      end
                  end)
            (fun _ =>
          (* cipherText, err := base64.StdEncoding.DecodeString(ek.CipherValue) *)
          match Escape.base64_decode (ek_cipher_value ek) with
          | None => ORet (Err (E "base64: EncryptedKey CipherValue"))
          | Some cipher_text =>
              (* switch pk := cert.PrivateKey.(type) { case *rsa.PrivateKey: ... } *)
              match sc_key cert with
              | KOther => ORet (Err (E "no cipher for decoding symmetric key"))
              | KRsa =>
                  match select_digest (ek_method ek) with
                  | Err e => ORet (Err e)
                  | Ok h =>
                      match switch_branch key_transport_cases (em_algorithm (ek_method ek)) with
                      | Some 0 => ORet (Err (E "missing encryption algorithm"))        (* case "" *)
                      | Some 1 =>                                                       (* case MethodRSAOAEP, MethodRSAOAEP2 *)
                          match h with
                          | None => OPanic "nil hash.Hash passed to rsa.DecryptOAEP"
                          | Some h =>
                              match rsa_oaep h cipher_text with
                              | None => ORet (Err (E "rsa internal error"))
                              | Some pt => ORet (new_cipher pt)
                              end
                          end
                      | Some 2 =>                                                       (* case MethodRSAv1_5 *)
                          match rsa_pkcs1 cipher_text with
                          | None => ORet (Err (E "rsa internal error"))
                          | Some pt => ORet (new_cipher pt)
                          end
                      | Some _ => ORet (Err (E "unsupported encryption algorithm"))    (* default *)
                      | None => ORet (Err (E "no cipher for decoding symmetric key"))  (* falls out of the switch *)
                      end
                  end
              end
          end)
    end.

  (* which EncryptedKey DecryptBytes uses: the inline one unless its CipherValue is empty *)
  Definition chosen_key (ea : enc_assertion) : enc_key :=
    if ek_cipher_value (ea_key ea) =?s "" then ea_det_key ea else ea_key ea.

  (* the AES-GCM branch of DecryptBytes (k = key bytes of the cipher.Block; cipher.NewGCM(k) cannot fail for AES) *)
  Definition gcm_branch (k data : string) : outcome string :=
    (* if len(data) < c.NonceSize() *)
    if Nat.ltb (slen data) gcm_nonce_size then ORet (Err (E "encrypted data is shorter than the AES-GCM nonce"))
    else
      (* nonce, data := data[:c.NonceSize()], data[c.NonceSize():] *)
      match slice_to data gcm_nonce_size, slice_from data gcm_nonce_size with
      | Some nonce, Some rest =>
          match gcm_open k nonce rest with
          | None => ORet (Err (E "cannot open AES-GCM"))
          | Some plain => ORet (Ok plain)
          end
      | _, _ => OPanic "slice bounds out of range: data[:NonceSize], data[NonceSize:]"
      end.

  (* padding removal after CryptBlocks, shared by the repaired and the unrepaired code up to the guards *)
  Definition unpad_guarded (raw : string) : outcome string :=
    let data := trim_right_zero raw in                        (* data = bytes.TrimRight(data, "\x00") *)
    if Nat.eqb (slen data) 0 then ORet (Err (E "invalid CBC padding: decrypted data is empty"))
    else
      match last_byte data with                                 (* padLength := data[len(data)-1] *)
      | None => OPanic "index out of range [-1]"
      | Some p =>
          let last_good := (Z.of_nat (slen data) - Z.of_N (N_of_ascii p))%Z in
          if (last_good <? 0)%Z then ORet (Err (E "invalid CBC padding: pad length exceeds data size"))
          else match slice_to data (Z.to_nat last_good) with    (* data[:lastGoodIndex] *)
               | None => OPanic "slice bounds out of range: data[:lastGoodIndex]"
               | Some r => ORet (Ok r)
               end
      end.

  (* the CBC branch of DecryptBytes *)
  Definition cbc_branch (k data : string) : outcome string :=
    (* if len(data) < 2*k.BlockSize() || len(data)%k.BlockSize() != 0 *)
    if Nat.ltb (slen data) (2 * aes_block_size) || negb (Nat.eqb (Nat.modulo (slen data) aes_block_size) 0) then
      ORet (Err (E "encrypted data is not a multiple of the expected CBC block size"))
    else
      (* nonce, data := data[:k.BlockSize()], data[k.BlockSize():] *)
      match slice_to data aes_block_size, slice_from data aes_block_size with
      | Some iv, Some rest =>
          (* cipher.NewCBCDecrypter panics unless len(iv) == BlockSize; CryptBlocks panics on partial blocks *)
          if negb (Nat.eqb (slen iv) aes_block_size) then OPanic "cipher.NewCBCDecrypter: IV length must equal block size"
          else if negb (Nat.eqb (Nat.modulo (slen rest) aes_block_size) 0) then OPanic "crypto/cipher: input not full blocks"
          else unpad_guarded (cbc_decrypt k iv rest)
      | _, _ => OPanic "slice bounds out of range: data[:BlockSize], data[BlockSize:]"
      end.

  (* (ea *EncryptedAssertion) DecryptBytes(cert *tls.Certificate) ([]byte, error) *)
  Definition decrypt_bytes (cert : option sp_cert) (ea : enc_assertion) : outcome string :=
    (* data, err := base64.StdEncoding.DecodeString(ea.CipherValue) *)
    match Escape.base64_decode (ea_cipher_value ea) with
    | None => ORet (Err (E "base64: EncryptedData CipherValue"))
    | Some data =>
        match decrypt_symmetric_key cert (chosen_key ea) with
        | OPanic w => OPanic w
        | ORet (Err e) => ORet (Err (wrap_key_error e))           (* fmt.Errorf("cannot decrypt, error retrieving private key: %s", err) *)
        | ORet (Ok k) =>
            match switch_branch decrypt_bytes_cases (em_algorithm (ea_method ea)) with
            | Some 0 => gcm_branch k data                          (* case MethodAES128GCM, MethodAES192GCM, MethodAES256GCM *)
            | Some 1 => cbc_branch k data                          (* case MethodAES128CBC, MethodAES256CBC, MethodTripleDESCBC *)
            | Some _ => ORet (Err (E "unknown symmetric encryption method"))    (* default *)
            | None => ORet (Err (E "unknown symmetric encryption method"))      (* a switch without default does not compile here *)
            end
        end
    end.

  (* ---- the code before commit 429ddf8 (git show a3bc48c:types/encrypted_assertion.go) ----
     Differences: no length check before the nonce split, only the modulo check before the IV split, no check
     before data[len(data)-1] and data[:lastGoodIndex].
     Note on data[:n]: for a []byte Go compares n with cap(data), and base64's DecodeString may return a slice
     whose capacity exceeds its length; but the same statement also evaluates data[n:], which panics iff
     n > len(data).  So the statement panics iff n > len(data), which is what the model says. *)
  Definition unpad_unguarded (raw : string) : outcome string :=
    let data := trim_right_zero raw in
    match last_byte data with
    | None => OPanic "index out of range [-1]"
    | Some p =>
        let last_good := (Z.of_nat (slen data) - Z.of_N (N_of_ascii p))%Z in
        if (last_good <? 0)%Z then OPanic "slice bounds out of range: data[:lastGoodIndex]"
        else match slice_to data (Z.to_nat last_good) with
             | None => OPanic "slice bounds out of range: data[:lastGoodIndex]"
             | Some r => ORet (Ok r)
             end
    end.

  Definition decrypt_bytes_unrepaired (cert : option sp_cert) (ea : enc_assertion) : outcome string :=
    match Escape.base64_decode (ea_cipher_value ea) with
    | None => ORet (Err (E "base64: EncryptedData CipherValue"))
    | Some data =>
        match decrypt_symmetric_key cert (chosen_key ea) with
        | OPanic w => OPanic w
        | ORet (Err e) => ORet (Err (wrap_key_error e))
        | ORet (Ok k) =>
            match switch_branch decrypt_bytes_cases (em_algorithm (ea_method ea)) with
            | Some 0 =>
                match slice_to data gcm_nonce_size, slice_from data gcm_nonce_size with
                | Some nonce, Some rest =>
                    match gcm_open k nonce rest with
                    | None => ORet (Err (E "cannot open AES-GCM"))
                    | Some plain => ORet (Ok plain)
                    end
                | _, _ => OPanic "slice bounds out of range: data[:NonceSize], data[NonceSize:]"
                end
            | Some 1 =>
                if negb (Nat.eqb (Nat.modulo (slen data) aes_block_size) 0) then
                  ORet (Err (E "encrypted data is not a multiple of the expected CBC block size"))
                else
                  match slice_to data aes_block_size, slice_from data aes_block_size with
                  | Some iv, Some rest => unpad_unguarded (cbc_decrypt k iv rest)
                  | _, _ => OPanic "slice bounds out of range: data[:BlockSize], data[BlockSize:]"
                  end
            | _ => ORet (Err (E "unknown symmetric encryption method"))
            end
        end
    end.

  (* ---------------------------------------------------------------- decode_response.go: decryptAssertions *)
  Variable get_cert : res sp_cert.                 (* sp.getDecryptCert(): depends on the configuration only *)
  Variable parse_doc : string -> res (option node).  (* maybeDeflate(ReadFromBytes): the document, i.e. its optional root element *)
  Variable rt_ok : string -> bool.                 (* rtvalidator.Validate *)

  (* parseResponse(raw, maxSize): the returned document is represented by doc.Root() (nil = None) *)
  Definition parse_response (raw : string) : res (option node) :=
    do doc <- parse_doc raw;
    match doc with
    | None => Err (E "unable to parse response")                   (* el := doc.Root(); if el == nil *)
    | Some _ => if rt_ok raw then Ok doc else Err (E "rtvalidator")
    end.

  (* panic-free reading of DecryptBytes, used to instantiate the [decrypt] oracle of Response.v *)
  Definition decrypt_bytes_r (cert : sp_cert) (ea : enc_assertion) : res string :=
    match decrypt_bytes (Some cert) ea with
    | ORet r => r
    | OPanic _ => Err (E "panic")
    end.

  (* the chain run on one detached EncryptedAssertion (Response.v's [decrypt] oracle, refined) *)
  Definition decrypt_chain (det : node) : res node :=
    do ea <- unmarshal_enc_assertion det;
    do cert <- get_cert;
    do raw <- decrypt_bytes_r cert ea;
    do doc <- parse_response raw;
    match doc with
    | Some root => Ok root
    | None => Err (E "no root")
    end.

  (* What encryptedElement.Parent() is at the time the closure runs.  The traversal started at [el]; the element
     reached by [path] (child-token indices from [el]) has as parent
       - for path []: whatever is above [el] ([root_parent]: None = nil, Some tag = an element; for the root
         element of an etree.Document that is the document's own pseudo element, tag ""),
       - for path [i]: [el], unless child i has already been removed by RemoveChild (then nil),
       - otherwise: a descendant of [el]. *)
  Inductive parent_ref := PNil | PAbove (tag : string) | PEl | PInside.
  Definition parent_of (root_parent : option string) (removed : list nat) (path : list nat) : parent_ref :=
    match path with
    | [] => match root_parent with None => PNil | Some t => PAbove t end
    | [i] => if existsb (Nat.eqb i) removed then PNil else PEl
    | _ => PInside
    end.

  (* the closure decryptAssertion; state = (indices of removed children, plaintext roots appended so far) *)
  Definition decrypt_assertion_o (root_parent : option string) (ctx : nsctx) (path : list nat) (e : node)
             (st : list nat * list node) : outcome (list nat * list node) :=
    (* if encryptedElement.Parent() != el { return fmt.Errorf("...: %s", encryptedElement.Parent().Tag) } *)
    match parent_of root_parent (fst st) path with
    | PNil => OPanic "nil pointer dereference: encryptedElement.Parent().Tag"
    | PAbove _ | PInside => ORet (Err (EOther "found encrypted assertion with unexpected parent element"))
    | PEl =>
        match detach ctx e with                                              (* etreeutils.NSDetatch *)
        | Err _ => ORet (Err (EOther "wrapped"))
        | Ok det =>
        match unmarshal_enc_assertion det with                               (* xmlUnmarshalElement *)
        | Err _ => ORet (Err (EOther "wrapped"))
        | Ok ea =>
        match get_cert with                                                  (* sp.getDecryptCert(), cached *)
        | Err _ => ORet (Err (EOther "wrapped"))
        | Ok cert =>
        match decrypt_bytes (Some cert) ea with                              (* encryptedAssertion.DecryptBytes(decryptCert) *)
        | OPanic w => OPanic w
        | ORet (Err _) => ORet (Err (EOther "wrapped"))
        | ORet (Ok raw) =>
        match parse_response raw with                                        (* parseResponse(raw, ...) *)
        | Err _ => ORet (Err (EOther "wrapped"))
        | Ok doc =>
            (* if el.RemoveChild(encryptedElement) == nil { panic("unable to remove encrypted assertion") }
               etree: RemoveChild(t) returns nil iff t.Parent() != el *)
            match parent_of root_parent (fst st) path, path with
            | PEl, [i] =>
                (* el.AddChild(doc.Root()) *)
                match doc with
                | None => OPanic "nil pointer dereference: AddChild(doc.Root()) with a nil root"
                | Some root => ORet (Ok (i :: fst st, snd st ++ [root]))
                end
            | _, _ => OPanic "unable to remove encrypted assertion"
            end
        end end end end end
    end.

  (* NSTraverse / NSFindIterate for handlers that may panic (same shape as Ns.traverse / Ns.find_iterate) *)
  Section TraverseO.
    Context {S : Type}.
    Variable handle : nsctx -> list nat -> node -> S -> outcome S.

    Fixpoint traverse_o (ctx : nsctx) (path : list nat) (el : node) (st : nat * S) {struct el} : outcome (nat * S) :=
      match el with
      | Elem sp tg attrs kids =>
          match fst st with
          | O => ORet (Err (EOther "traversal limit reached"))
          | Datatypes.S lim' =>
              match sub_context ctx attrs with
              | Err e => ORet (Err e)
              | Ok ctx' =>
                  obind (handle ctx' path el (snd st)) (fun s' =>
                  (fix go (ks : list node) (i : nat) (st : nat * S) {struct ks} : outcome (nat * S) :=
                     match ks with
                     | [] => ORet (Ok st)
                     | k :: r =>
                         match k with
                         | Elem _ _ _ _ => obind (traverse_o ctx' (path ++ [i]) k st) (fun st' => go r (Datatypes.S i) st')
                         | _ => go r (Datatypes.S i) st
                         end
                     end) kids O (lim', s'))
              end
          end
      | _ => ORet (Ok st)
      end.
  End TraverseO.

  Definition find_iterate_o {S} (namespace tag : string)
             (handle : nsctx -> list nat -> node -> S -> outcome S) (el : node) (s : S) : outcome S :=
    obind (traverse_o (fun ctx path e s =>
                         match lookup_prefix ctx (space_of e) with
                         | None => ORet (Err (EOther "undeclared namespace prefix"))
                         | Some ns => if (ns =?s namespace) && (tag_of e =?s tag) then handle ctx path e s else ORet (Ok s)
                         end)
                      default_ctx [] el (traversal_limit, s))
          (fun r => ORet (Ok (snd r))).

  (* (sp *SAMLServiceProvider) decryptAssertions(el): the resulting tree *)
  Definition decrypt_assertions_o (root_parent : option string) (el : node) : outcome node :=
    obind (find_iterate_o c_SAMLAssertionNamespace c_EncryptedAssertionTag (decrypt_assertion_o root_parent) el ([], []))
          (fun st =>
             match el with
             | Elem sp tg attrs kids => ORet (Ok (Elem sp tg attrs (remove_indices_from 0 (fst st) kids ++ snd st)))
             | other_node => ORet (Ok other_node)
             end).
End Decrypt.

(* ---------------------------------------------------------------- table-driven oracles for the correspondence run *)
Definition hash_eqb (a b : hash_id) : bool :=
  match a, b with HSha1, HSha1 | HSha256, HSha256 | HSha512, HSha512 => true | _, _ => false end.

(* RSA unwrap answers computed by the harness with the real key: (None = PKCS#1 v1.5, Some h = OAEP with h) *)
Fixpoint unwrap_table (t : list (option hash_id * string * option string)) (h : option hash_id) (ct : string) : option string :=
  match t with
  | [] => None
  | (h', ct', r) :: rest =>
      if (match h, h' with None, None => true | Some a, Some b => hash_eqb a b | _, _ => false end) && (ct =?s ct')
      then r else unwrap_table rest h ct
  end.
(* raw AES answers computed by the harness with crypto/aes + crypto/cipher on exactly these bytes *)
Fixpoint gcm_table (t : list (string * string * string * option string)) (k n c : string) : option string :=
  match t with
  | [] => None
  | (k', n', c', r) :: rest => if (k =?s k') && (n =?s n') && (c =?s c') then r else gcm_table rest k n c
  end.
Fixpoint cbc_table (t : list (string * string * string * string)) (k iv d : string) : string :=
  match t with
  | [] => "<cbc oracle: unknown input>"
  | (k', iv', d', r) :: rest => if (k =?s k') && (iv =?s iv') && (d =?s d') then r else cbc_table rest k iv d
  end.

Record crypto_tables := {
  ct_unwrap : list (option hash_id * string * option string);
  ct_gcm : list (string * string * string * option string);
  ct_cbc : list (string * string * string * string) }.

Definition decrypt_bytes_t (t : crypto_tables) : option sp_cert -> enc_assertion -> outcome string :=
  decrypt_bytes (fun h ct => unwrap_table (ct_unwrap t) (Some h) ct) (fun ct => unwrap_table (ct_unwrap t) None ct)
                (gcm_table (ct_gcm t)) (cbc_table (ct_cbc t)) (fun _ => "").
Definition decrypt_bytes_unrepaired_t (t : crypto_tables) : option sp_cert -> enc_assertion -> outcome string :=
  decrypt_bytes_unrepaired (fun h ct => unwrap_table (ct_unwrap t) (Some h) ct) (fun ct => unwrap_table (ct_unwrap t) None ct)
                (gcm_table (ct_gcm t)) (cbc_table (ct_cbc t)) (fun _ => "").

(* observable of DecryptBytes: plaintext bytes, or the error label, or the panic *)
Definition outcome_val {A} (f : A -> val) (o : outcome A) : val :=
  match o with
  | ORet (Ok a) => VC "Ok" [f a]
  | ORet (Err (EOther l)) => VC "Err" [VS l]
  | ORet (Err e) => VC "Err" [err_val e]
  | OPanic _ => VC "Panic" []
  end.

(* decryptAssertions with table-driven oracles (correspondence with sp.decryptAssertions through the verif hook):
   the parse table answers maybeDeflate + ReadFromBytes + rtvalidator on the plaintext bytes
   (Ok None = a document without root element) *)
Fixpoint parse_table (t : list (string * res (option node))) (raw : string) : res (option node) :=
  match t with
  | [] => Err (EOther "parse oracle: unknown input")
  | (k, v) :: r => if raw =?s k then v else parse_table r raw
  end.

Definition decrypt_assertions_t (t : crypto_tables) (cert : res sp_cert) (pt : list (string * res (option node)))
           (root_parent : option string) (el : node) : outcome node :=
  decrypt_assertions_o (fun h ct => unwrap_table (ct_unwrap t) (Some h) ct) (fun ct => unwrap_table (ct_unwrap t) None ct)
                       (gcm_table (ct_gcm t)) (cbc_table (ct_cbc t)) (fun _ => "")
                       cert (parse_table pt) (fun _ => true) root_parent el.

(* observable: the tree left behind is compared inside Coq with the tree the implementation left behind *)
Definition tree_outcome_val (expected : option node) (o : outcome node) : val :=
  match o with
  | ORet (Ok t) => VC "Ok" [VB (match expected with Some e => node_eqb t e | None => false end)]
  | ORet (Err _) => VC "Err" []
  | OPanic _ => VC "Panic" []
  end.
