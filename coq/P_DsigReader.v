(* P_DsigReader.v -- the canonical writer followed by the reader: what goxmldsig's verifier decodes IS the prepared tree.

     1. tokens / tree of a canonical document: [ctoks], and etree's readFrom on them gives [normalise] (P_XmlTok);
     2. the tokenizer model on the bytes Canon.c14n_write emits (etree WriteTo under CanonicalEndTags / CanonicalText /
        CanonicalAttrVal): always an end tag; "&#xD;" "&#x9;" "&#xA;" character references; '>' bare in attribute values;
        quotes bare in character data; comments;
     3. canonical_bytes_read_back :  read_tree (c14n_write p) = Ok (normalise p)   for every element tree p whose names the
        real reader splits back and whose values are well-formed text in the XML Char range ([c14n_wf]);
     4. canon_model a t = Some b  ->  read_tree b = Ok (normalise (the prepared tree));  the premise carried over from the
        presented element t to the prepared tree for every algorithm (canonicalPrep only sorts and drops attributes;
        TransformExcC14n adds declarations whose prefix and value come from a declaration in scope) and through
        removeElementAtPath;
     5. dsig_sound_reader : Dsig.v's soundness with canon := canon_model and reparse := reparse_model.

   What [c14n_wf] excludes, explicitly: directives inside the canonicalised element (the canonicalisers keep them; the
   round trip is not proved for them), processing instructions whose target is "xml" or whose instruction starts with white
   space or holds "?>", comments containing "--" or ending in '-' (the reader refuses or changes them; no reader-produced
   tree has one, the target "xml" aside), values that are not valid UTF-8 in the Char range (the writer replaces
   such runes by U+FFFD: the tree read back differs).  U+000D IS covered: the canonical writer emits "&#xD;". *)
From Coq Require Import Lia.
From V Require Import Base Time Escape EscapeProofs Xml Ns SchemaDefs Schema Build P_Build XmlNameTables XmlTok P_XmlTok Response Dsig P_Dsig P_DsigExact Canon P_Canon DsigReader.
Local Open Scope string_scope.
Local Open Scope list_scope.

(* ================================================================ 1. tokens of a tree, comments included *)
Fixpoint ctoks (n : node) : list rtok :=
  match n with
  | Elem sp t a k =>
      RStart sp t a ::
      (fix ck (acc : string) (l : list node) : list rtok :=
         match l with
         | [] => rchars acc
         | Text s :: r => ck (acc ++ s)%string r
         | x :: r => rchars acc ++ ctoks x ++ ck EmptyString r
         end) EmptyString k ++ [REnd sp t]
  | Text s => rchars s
  | Comment s => [RComment s]
  | ProcInst t i => [RProcInst t i]
  | Directive s => [RDirective s]
  end.

Fixpoint ckids (acc : string) (l : list node) : list rtok :=
  match l with
  | [] => rchars acc
  | Text s :: r => ckids (acc ++ s)%string r
  | x :: r => rchars acc ++ ctoks x ++ ckids EmptyString r
  end.

Lemma ctoks_elem sp t a k : ctoks (Elem sp t a k) = RStart sp t a :: ckids EmptyString k ++ [REnd sp t].
Proof. reflexivity. Qed.

Definition is_text (n : node) : bool := match n with Text _ => true | _ => false end.

(* etree's readFrom on the tokens of ANY tree: no well-formedness is needed at this stage *)
Lemma cbuild_tree : forall n, is_text n = false ->
  forall rest stack cur, build true (ctoks n ++ rest) stack cur = build true rest stack (normalise n :: cur).
Proof.
  induction n as [sp t a k IHk | s | s | tg i | s] using node_ind_kids; intros HT; try discriminate HT;
    try (intros rest stack cur; reflexivity).
  intros rest stack cur. rewrite ctoks_elem, normalise_elem. cbn [app build].
  assert (HK : forall l, Forall (fun n => is_text n = false ->
                 forall rest stack cur, build true (ctoks n ++ rest) stack cur = build true rest stack (normalise n :: cur)) l ->
               forall acc rest stack cur,
               build true (ckids acc l ++ rest) stack cur = build true rest stack (rev (norm_kids acc l) ++ cur)).
  { clear. induction l as [|x l IH]; intros HF acc rest stack cur.
    - cbn [ckids norm_kids]. apply build_rchars.
    - inversion HF as [|? ? Hx Hl]; subst.
      destruct x as [sp t a kk | s | s | tg i | s].
      + cbn [ckids norm_kids]. rewrite <- !app_assoc. rewrite build_rchars.
        rewrite (Hx eq_refl). rewrite (IH Hl).
        rewrite rev_app_distr. cbn [rev]. rewrite <- !app_assoc. cbn [app]. reflexivity.
      + cbn [ckids norm_kids]. apply (IH Hl).
      + cbn [ckids norm_kids]. rewrite <- !app_assoc. rewrite build_rchars.
        rewrite (Hx eq_refl). rewrite (IH Hl).
        rewrite rev_app_distr. cbn [rev]. rewrite <- !app_assoc. cbn [app]. reflexivity.
      + cbn [ckids norm_kids]. rewrite <- !app_assoc. rewrite build_rchars.
        rewrite (Hx eq_refl). rewrite (IH Hl).
        rewrite rev_app_distr. cbn [rev]. rewrite <- !app_assoc. cbn [app]. reflexivity.
      + cbn [ckids norm_kids]. rewrite <- !app_assoc. rewrite build_rchars.
        rewrite (Hx eq_refl). rewrite (IH Hl).
        rewrite rev_app_distr. cbn [rev]. rewrite <- !app_assoc. cbn [app]. reflexivity. }
  rewrite <- app_assoc. rewrite (HK k IHk). cbn [app build f_tag f_space f_attrs f_before].
  rewrite !String.eqb_refl. cbn [andb]. rewrite app_nil_r, rev_involutive. reflexivity.
Qed.

(* the read-back tree WITHOUT attribute de-duplication *)
Fixpoint normalise_raw (n : node) : node :=
  match n with
  | Elem sp t a k =>
      Elem sp t a
        ((fix nk (acc : string) (l : list node) : list node :=
            match l with
            | [] => flush acc
            | Text s :: r => nk (acc ++ s)%string r
            | x :: r => flush acc ++ normalise_raw x :: nk EmptyString r
            end) EmptyString k)
  | other => other
  end.
Fixpoint norm_kids_raw (acc : string) (l : list node) : list node :=
  match l with
  | [] => flush acc
  | Text s :: r => norm_kids_raw (acc ++ s)%string r
  | x :: r => flush acc ++ normalise_raw x :: norm_kids_raw EmptyString r
  end.
Lemma normalise_raw_elem sp t a k : normalise_raw (Elem sp t a k) = Elem sp t a (norm_kids_raw EmptyString k).
Proof. reflexivity. Qed.

(* the same with PreserveDuplicateAttrs (what the Token() loop of Decoder.Decode sees: no de-duplication) *)
Lemma cbuild_tree_raw : forall n, is_text n = false ->
  forall rest stack cur, build false (ctoks n ++ rest) stack cur = build false rest stack (normalise_raw n :: cur).
Proof.
  induction n as [sp t a k IHk | s | s | tg i | s] using node_ind_kids; intros HT; try discriminate HT;
    try (intros rest stack cur; reflexivity).
  intros rest stack cur. rewrite ctoks_elem, normalise_raw_elem. cbn [app build].
  assert (HK : forall l, Forall (fun n => is_text n = false ->
                 forall rest stack cur, build false (ctoks n ++ rest) stack cur = build false rest stack (normalise_raw n :: cur)) l ->
               forall acc rest stack cur,
               build false (ckids acc l ++ rest) stack cur = build false rest stack (rev (norm_kids_raw acc l) ++ cur)).
  { clear. induction l as [|x l IH]; intros HF acc rest stack cur.
    - cbn [ckids norm_kids_raw]. apply build_rchars.
    - inversion HF as [|? ? Hx Hl]; subst.
      destruct x as [sp t a kk | s | s | tg i | s].
      + cbn [ckids norm_kids_raw]. rewrite <- !app_assoc. rewrite build_rchars.
        rewrite (Hx eq_refl). rewrite (IH Hl).
        rewrite rev_app_distr. cbn [rev]. rewrite <- !app_assoc. cbn [app]. reflexivity.
      + cbn [ckids norm_kids_raw]. apply (IH Hl).
      + cbn [ckids norm_kids_raw]. rewrite <- !app_assoc. rewrite build_rchars.
        rewrite (Hx eq_refl). rewrite (IH Hl).
        rewrite rev_app_distr. cbn [rev]. rewrite <- !app_assoc. cbn [app]. reflexivity.
      + cbn [ckids norm_kids_raw]. rewrite <- !app_assoc. rewrite build_rchars.
        rewrite (Hx eq_refl). rewrite (IH Hl).
        rewrite rev_app_distr. cbn [rev]. rewrite <- !app_assoc. cbn [app]. reflexivity.
      + cbn [ckids norm_kids_raw]. rewrite <- !app_assoc. rewrite build_rchars.
        rewrite (Hx eq_refl). rewrite (IH Hl).
        rewrite rev_app_distr. cbn [rev]. rewrite <- !app_assoc. cbn [app]. reflexivity. }
  rewrite <- app_assoc. rewrite (HK k IHk). cbn [app build f_tag f_space f_attrs f_before].
  rewrite !String.eqb_refl. cbn [andb]. rewrite app_nil_r, rev_involutive. reflexivity.
Qed.

(* ================================================================ 2. statement-level definitions *)
(* a comment the reader accepts and gives back: no "--" inside, no '-' at the end *)
Fixpoint comment_go (prev_dash : bool) (s : string) : bool :=
  match s with
  | EmptyString => negb prev_dash
  | String c r => if is_ch 45 c then negb prev_dash && comment_go true r else comment_go false r
  end.
Definition comment_ok (s : string) : bool := comment_go false s.

(* a processing instruction the reader accepts and gives back: the target is a name (not "xml": the declaration checks are
   not part of this round trip), the instruction does not start with white space (the reader skips it) and holds no "?>" *)
Fixpoint pi_go (prev_q : bool) (s : string) : bool :=
  match s with
  | EmptyString => true
  | String c r => negb (prev_q && is_ch 62 c) && pi_go (is_ch 63 c) r
  end.
Definition pi_inst_ok (i : string) : bool :=
  match i with EmptyString => true | String c _ => negb (is_space c) && pi_go false i end.
Definition pi_ok (t i : string) : bool :=
  is_name t && str_all name_cont t && negb (t =?s "xml") && pi_inst_ok i.

Definition cattr_ok (x : attr) : bool := xname_ok (at_space x) (at_key x) && valid_xml_text (at_val x).

(* element trees the canonical writer's output of which is read back: names the real reader accepts and splits back into
   the same (space, tag); values = valid UTF-8 in the XML Char range (U+000D allowed); comments as above;
   processing instructions as above; directives excluded *)
Fixpoint c14n_wf (n : node) : bool :=
  match n with
  | Elem sp t a k => xname_ok sp t && forallb cattr_ok a && forallb c14n_wf k
  | Text s => valid_xml_text s
  | Comment s => comment_ok s
  | ProcInst t i => pi_ok t i
  | Directive _ => false
  end.
Definition c14n_wf_elem (n : node) : bool := is_elem n && c14n_wf n.

(* ================================================================ 3. the tokenizer on canonical text *)
(* which reading mode a canonical escaping mode is read in *)
Definition cmode_ok (em : escape_mode) (m : tmode) : Prop :=
  match em, m with
  | CanonText, MTop => True
  | CanonAttr, MAttr q _ _ _ _ _ => q = byte 34
  | _, _ => False
  end.

Lemma step_push_top cs b0 b1 buf c :
  is_ch 62 c = false -> is_ch 60 c = false -> is_ch 38 c = false -> is_ch 13 c = false -> is_ch 13 b1 = false ->
  step cs (SText MTop b0 b1 buf) c = Go (SText MTop b1 c (String c buf)).
Proof.
  intros F62 F60 F38 F13 Hb. cbn [step]. unfold text_step. rewrite F62, F60. cbn [andb]. rewrite F38, F13, Hb. reflexivity.
Qed.

Lemma step_push_attr cs e l a ks kl b0 b1 buf c :
  is_ch 34 c = false -> is_ch 60 c = false -> is_ch 38 c = false -> is_ch 13 c = false -> is_ch 13 b1 = false ->
  step cs (SText (MAttr (byte 34) e l a ks kl) b0 b1 buf) c = Go (SText (MAttr (byte 34) e l a ks kl) b1 c (String c buf)).
Proof.
  intros F34 F60 F38 F13 Hb. cbn [step]. unfold text_step. cbn [is_attr_mode negb].
  rewrite Bool.andb_false_r. cbn [andb]. rewrite F60. cbn [andb].
  pose proof (not_dq_eqb c) as Q. rewrite F34 in Q. cbn [negb implb] in Q. apply negb_true_iff in Q. rewrite Q.
  rewrite F38, F13, Hb. reflexivity.
Qed.

(* the three character references the canonical writer emits *)
Lemma run_charref cs m b0 b1 buf rest : tmode_ok m ->
  run cs (SText m b0 b1 buf) ("&#x9;" ++ rest) = run cs (SText m zero zero (String (byte 9) buf)) rest /\
  run cs (SText m b0 b1 buf) ("&#xA;" ++ rest) = run cs (SText m zero zero (String (byte 10) buf)) rest /\
  run cs (SText m b0 b1 buf) ("&#xD;" ++ rest) = run cs (SText m zero zero (String (byte 13) buf)) rest.
Proof.
  intros Hm. destruct m as [| |q esp elo attrs ksp klo]; [ | contradiction | cbn [tmode_ok] in Hm; subst q ];
  repeat split; reflexivity.
Qed.

Ltac neq_is_ch :=
  repeat match goal with H : code ?c <> ?k |- _ => apply N.eqb_neq in H end;
  unfold is_ch; assumption.

(* an ASCII character of a valid text, written by escapeCanonicalText and read as character data *)
Lemma canon_text_ascii c : (code c < 128)%N -> xml_rune_ok (code c) 1%nat = true ->
  (etree_esc CanonText (code c) 1%nat = None /\ is_ch 13 c = false /\
   forall cs b0 b1 buf, is_ch 13 b1 = false -> step cs (SText MTop b0 b1 buf) c = Go (SText MTop b1 c (String c buf))) \/
  (exists e, etree_esc CanonText (code c) 1%nat = Some e /\
     forall cs b0 b1 buf rest, run cs (SText MTop b0 b1 buf) (e ++ rest) = run cs (SText MTop zero zero (String c buf)) rest).
Proof.
  intros L OK. unfold etree_esc.
  destruct (N.eqb_spec (code c) 38) as [E|E38].
  { apply code_eq in E; subst c. right. eexists. split; [reflexivity|]. intros. apply (run_ent cs MTop); exact I. }
  destruct (N.eqb_spec (code c) 60) as [E|E60].
  { apply code_eq in E; subst c. right. eexists. split; [reflexivity|]. intros. apply (run_ent cs MTop); exact I. }
  destruct (N.eqb_spec (code c) 62) as [E|E62].
  { apply code_eq in E; subst c. right. eexists. split; [reflexivity|]. intros. apply (run_ent cs MTop); exact I. }
  destruct (N.eqb_spec (code c) 39) as [E|E39].
  { apply code_eq in E; subst c. left. split; [reflexivity|]. split; [reflexivity|]. intros. apply step_push_top; (reflexivity || assumption). }
  destruct (N.eqb_spec (code c) 34) as [E|E34].
  { apply code_eq in E; subst c. left. split; [reflexivity|]. split; [reflexivity|]. intros. apply step_push_top; (reflexivity || assumption). }
  destruct (N.eqb_spec (code c) 9) as [E|E9].
  { apply code_eq in E; subst c. left. split; [reflexivity|]. split; [reflexivity|]. intros. apply step_push_top; (reflexivity || assumption). }
  destruct (N.eqb_spec (code c) 10) as [E|E10].
  { apply code_eq in E; subst c. left. split; [reflexivity|]. split; [reflexivity|]. intros. apply step_push_top; (reflexivity || assumption). }
  destruct (N.eqb_spec (code c) 13) as [E|E13].
  { apply code_eq in E; subst c. right. eexists. split; [reflexivity|]. intros. apply (run_charref cs MTop); exact I. }
  left. split.
  { unfold xml_rune_ok in OK. apply andb_true_iff in OK as [_ OK]. rewrite OK.
    destruct (N.eqb_spec (code c) RE) as [E|_]; [unfold RE in E; lia|]. reflexivity. }
  split; [neq_is_ch|]. intros. apply step_push_top; try assumption; neq_is_ch.
Qed.

(* ... written by escapeCanonicalAttr and read inside double quotes *)
Lemma canon_attr_ascii e l a ks kl c : (code c < 128)%N -> xml_rune_ok (code c) 1%nat = true ->
  let m := MAttr (byte 34) e l a ks kl in
  (etree_esc CanonAttr (code c) 1%nat = None /\ is_ch 13 c = false /\
   forall cs b0 b1 buf, is_ch 13 b1 = false -> step cs (SText m b0 b1 buf) c = Go (SText m b1 c (String c buf))) \/
  (exists x, etree_esc CanonAttr (code c) 1%nat = Some x /\
     forall cs b0 b1 buf rest, run cs (SText m b0 b1 buf) (x ++ rest) = run cs (SText m zero zero (String c buf)) rest).
Proof.
  intros L OK m. unfold etree_esc.
  destruct (N.eqb_spec (code c) 38) as [E|E38].
  { apply code_eq in E; subst c. right. eexists. split; [reflexivity|]. intros. apply (run_ent cs m); reflexivity. }
  destruct (N.eqb_spec (code c) 60) as [E|E60].
  { apply code_eq in E; subst c. right. eexists. split; [reflexivity|]. intros. apply (run_ent cs m); reflexivity. }
  destruct (N.eqb_spec (code c) 62) as [E|E62].
  { apply code_eq in E; subst c. left. split; [reflexivity|]. split; [reflexivity|]. intros. apply step_push_attr; (reflexivity || assumption). }
  destruct (N.eqb_spec (code c) 39) as [E|E39].
  { apply code_eq in E; subst c. left. split; [reflexivity|]. split; [reflexivity|]. intros. apply step_push_attr; (reflexivity || assumption). }
  destruct (N.eqb_spec (code c) 34) as [E|E34].
  { apply code_eq in E; subst c. right. eexists. split; [reflexivity|]. intros. apply (run_ent cs m); reflexivity. }
  destruct (N.eqb_spec (code c) 9) as [E|E9].
  { apply code_eq in E; subst c. right. eexists. split; [reflexivity|]. intros. apply (run_charref cs m); reflexivity. }
  destruct (N.eqb_spec (code c) 10) as [E|E10].
  { apply code_eq in E; subst c. right. eexists. split; [reflexivity|]. intros. apply (run_charref cs m); reflexivity. }
  destruct (N.eqb_spec (code c) 13) as [E|E13].
  { apply code_eq in E; subst c. right. eexists. split; [reflexivity|]. intros. apply (run_charref cs m); reflexivity. }
  left. split.
  { unfold xml_rune_ok in OK. apply andb_true_iff in OK as [_ OK]. rewrite OK.
    destruct (N.eqb_spec (code c) RE) as [E|_]; [unfold RE in E; lia|]. reflexivity. }
  split; [neq_is_ch|]. intros. apply step_push_attr; try assumption; neq_is_ch.
Qed.

(* both modes at once *)
Lemma canon_ascii_written em m c : cmode_ok em m -> (code c < 128)%N -> xml_rune_ok (code c) 1%nat = true ->
  (etree_esc em (code c) 1%nat = None /\ is_ch 13 c = false /\
   forall cs b0 b1 buf, is_ch 13 b1 = false -> step cs (SText m b0 b1 buf) c = Go (SText m b1 c (String c buf))) \/
  (exists x, etree_esc em (code c) 1%nat = Some x /\
     forall cs b0 b1 buf rest, run cs (SText m b0 b1 buf) (x ++ rest) = run cs (SText m zero zero (String c buf)) rest).
Proof.
  intros Hm L OK. destruct em; try contradiction.
  - destruct m; try contradiction. apply canon_text_ascii; assumption.
  - destruct m as [| |q e l a ks kl]; try contradiction. cbn [cmode_ok] in Hm. subst q. apply canon_attr_ascii; assumption.
Qed.

(* a byte >= 0x80 is pushed in both modes *)
Lemma canon_high_step em m c : cmode_ok em m -> (128 <=? code c)%N = true ->
  is_ch 13 c = false /\
  forall cs b0 b1 buf, is_ch 13 b1 = false -> step cs (SText m b0 b1 buf) c = Go (SText m b1 c (String c buf)).
Proof.
  intros Hm Hh. pose proof (high_plain c) as P. rewrite Hh in P. cbn [implb] in P.
  destruct (plain_inv c P) as (F38 & F60 & F62 & F39 & F34 & F13).
  split; [exact F13|]. intros cs b0 b1 buf Hb.
  destruct em; try contradiction.
  - destruct m; try contradiction. apply step_push_top; assumption.
  - destruct m as [| |q e l a ks kl]; try contradiction. cbn [cmode_ok] in Hm. subst q. apply step_push_attr; assumption.
Qed.

Lemma canon_text_roundtrip cs em m : cmode_ok em m ->
  forall s skip, valid_go xml_rune_ok skip s = true -> contsb skip s = true ->
  forall b0 b1 buf rest, is_ch 13 b1 = false ->
  exists b0' b1', is_ch 13 b1' = false /\
    run cs (SText m b0 b1 buf) (rune_map (etree_esc em) skip true s ++ rest) =
    run cs (SText m b0' b1' (srev_app s buf)) rest.
Proof.
  intros Hm. induction s as [|c s IH]; intros skip V C b0 b1 buf rest Hb.
  - exists b0, b1. split; [exact Hb|]. reflexivity.
  - cbn [rune_map valid_go srev_app] in *.
    destruct skip as [|k].
    + destruct (decode_rune (String c s)) as [rn w] eqn:D. apply decode_spec in D.
      apply andb_true_iff in V as [Vok Vrest].
      destruct D as [(L & -> & ->) | (Hh & Hr & Hc & Hw)].
      * cbn [Nat.sub] in *.
        destruct (canon_ascii_written em m c Hm L Vok) as [(F & NC & P) | (e & F & R)]; rewrite F.
        -- cbn [append]. rewrite run_cons, (P cs b0 b1 buf Hb).
           apply (IH 0%nat Vrest eq_refl). exact NC.
        -- rewrite rune_map_copy_irrelevant, app_assoc_s, (R cs b0 b1 buf _).
           apply (IH 0%nat Vrest eq_refl). reflexivity.
      * rewrite (etree_esc_high em rn w Hr Vok). cbn [append].
        apply N.leb_le in Hh. destruct (canon_high_step em m c Hm Hh) as [NC P].
        rewrite run_cons, (P cs b0 b1 buf Hb).
        apply (IH (w - 1)%nat Vrest Hc). exact NC.
    + cbn [contsb] in C. apply andb_true_iff in C as [C1 C2]. cbn [append].
      destruct (canon_high_step em m c Hm C1) as [NC P].
      rewrite run_cons, (P cs b0 b1 buf Hb).
      apply (IH k V C2). exact NC.
Qed.

(* ---- one attribute, the attribute list ---- *)
Lemma run_c14n_attr cs esp elo ra x rest : cattr_ok x = true ->
  run cs (SAttrs esp elo ra) (c14n_write_attr x ++ rest) = run cs (SAttrs esp elo (x :: ra)) rest.
Proof.
  unfold cattr_ok. intros H. apply andb_true_iff in H as [Hn Vv].
  destruct (xname_finish _ _ Hn) as (c0 & nm & FN & C0 & Cn & Fin).
  unfold c14n_write_attr, dq. rewrite FN. rewrite !app_assoc_s. cbn [append].
  rewrite run_cons, step_attrs_space.
  destruct (name_cont_inv c0 C0) as (F47 & _ & _ & Fsp & F62 & _ & _).
  rewrite run_cons. cbn [step]. unfold attrs_step. rewrite Fsp, F47, F62, C0.
  rewrite (run_attr_name cs esp elo ra nm Cn). cbn [append].
  rewrite run_cons, step_attrname_eq, Fin.
  rewrite run_cons, step_attrq_dq.
  destruct (canon_text_roundtrip cs CanonAttr (MAttr (byte 34) esp elo ra (at_space x) (at_key x)) eq_refl (at_val x) 0%nat Vv eq_refl
              zero zero EmptyString (String (byte 34) rest) eq_refl) as (b0' & b1' & _ & R).
  unfold etree_escape. rewrite R.
  rewrite run_cons, step_text_attr_dq. rewrite text_data_valid; rewrite srev_srev_app; [|exact Vv].
  destruct x; reflexivity.
Qed.

Lemma run_c14n_attrs cs esp elo l : forallb cattr_ok l = true -> forall ra rest,
  run cs (SAttrs esp elo ra) (c14n_write_attrs l ++ rest) = run cs (SAttrs esp elo (rev l ++ ra)) rest.
Proof.
  induction l as [|x l IH]; intros H ra rest; [reflexivity|].
  cbn [forallb] in H. apply andb_true_iff in H as [H1 H2].
  cbn [c14n_write_attrs rev]. rewrite app_assoc_s, (run_c14n_attr cs esp elo ra x _ H1), (IH H2).
  rewrite <- app_assoc. reflexivity.
Qed.

(* ---- comments ---- *)
Lemma run_comment_body cs rest : forall s b0 b1 buf,
  comment_go (is_ch 45 b1) s = true -> is_ch 45 b0 && is_ch 45 b1 = false ->
  run cs (SComment b0 b1 buf) (s ++ "-->" ++ rest) = emit [RComment (srev buf ++ s)] (run cs S0 rest).
Proof.
  induction s as [|c s IH]; intros b0 b1 buf HG HB.
  - cbn [comment_go] in HG. apply negb_true_iff in HG.
    cbn [append]. rewrite run_cons. cbn [step]. rewrite HB.
    rewrite run_cons. cbn [step]. rewrite HG. cbn [andb].
    rewrite run_cons. cbn [step]. replace (is_ch 45 "-"%char) with true by reflexivity. cbn [andb].
    replace (is_ch 62 ">"%char) with true by reflexivity. cbn [drop2 drop1]. rewrite app_nil_r_s. reflexivity.
  - change ((String c s ++ "-->" ++ rest)%string) with (String c (s ++ "-->" ++ rest)).
    rewrite run_cons. cbn [step]. rewrite HB.
    cbn [comment_go] in HG.
    assert (HB' : is_ch 45 b1 && is_ch 45 c = false /\ comment_go (is_ch 45 c) s = true).
    { destruct (is_ch 45 c).
      - apply andb_true_iff in HG as [HN HG']. apply negb_true_iff in HN. rewrite HN. split; [reflexivity | exact HG'].
      - split; [apply Bool.andb_false_r | exact HG]. }
    destruct HB' as [HB' HG'].
    rewrite (IH b1 c (String c buf) HG' HB'). rewrite srev_cons, app_assoc_s. reflexivity.
Qed.

Lemma run_comment cs s rest : comment_ok s = true ->
  run cs SLt ("!--" ++ s ++ "-->" ++ rest) = emit [RComment s] (run cs S0 rest).
Proof.
  intros H. change ("!--" ++ s ++ "-->" ++ rest)%string with (String "!"%char (String "-"%char (String "-"%char (s ++ "-->" ++ rest)))).
  rewrite run_cons. cbn [step].
  replace (is_ch 47 "!"%char) with false by reflexivity. replace (is_ch 63 "!"%char) with false by reflexivity.
  replace (is_ch 33 "!"%char) with true by reflexivity. rewrite run_cons. cbn [step].
  replace (is_ch 45 "-"%char) with true by reflexivity. rewrite run_cons. cbn [step].
  replace (is_ch 45 "-"%char) with true by reflexivity.
  rewrite (run_comment_body cs rest s zero zero EmptyString H eq_refl). reflexivity.
Qed.

(* ---- processing instructions ---- *)
Lemma run_pi_target cs x : str_all name_cont x = true -> forall acc rest,
  run cs (SPITarget acc) (x ++ rest) = run cs (SPITarget (srev_app x acc)) rest.
Proof.
  induction x as [|c x IH]; intros H acc rest; [reflexivity|].
  cbn [str_all] in H. apply andb_true_iff in H as [H1 H2].
  cbn [append srev_app]. rewrite run_cons. cbn [step]. rewrite H1. apply IH, H2.
Qed.

Lemma run_pi_body cs t rest : (t =?s "xml") = false -> forall i b0 buf,
  pi_go (is_ch 63 b0) i = true ->
  run cs (SPIBody t b0 buf) (i ++ "?>" ++ rest) = emit [RProcInst t (srev buf ++ i)] (run cs S0 rest).
Proof.
  intros Hx. induction i as [|c i IH]; intros b0 buf HG.
  - change ("" ++ "?>" ++ rest)%string with (String "?"%char (String ">"%char rest)).
    rewrite run_cons. cbn [step]. unfold pi_body_step at 1.
    replace (is_ch 62 "?"%char) with false by reflexivity. rewrite Bool.andb_false_r.
    rewrite run_cons. cbn [step]. unfold pi_body_step.
    replace (is_ch 63 "?"%char) with true by reflexivity. replace (is_ch 62 ">"%char) with true by reflexivity. cbn [andb drop1].
    unfold pi_finish. rewrite Hx. cbn [andb]. rewrite app_nil_r_s. reflexivity.
  - change ((String c i ++ "?>" ++ rest)%string) with (String c (i ++ "?>" ++ rest)).
    cbn [pi_go] in HG. apply andb_true_iff in HG as [HN HG]. apply negb_true_iff in HN.
    rewrite run_cons. cbn [step]. unfold pi_body_step at 1. rewrite HN.
    rewrite (IH c (String c buf) HG). rewrite srev_cons, app_assoc_s. reflexivity.
Qed.

Definition pi_text (t i : string) : string := "?" ++ t ++ (if i =?s "" then EmptyString else " " ++ i) ++ "?>".

Lemma run_pi cs t i rest : pi_ok t i = true ->
  run cs SLt (pi_text t i ++ rest) = emit [RProcInst t i] (run cs S0 rest).
Proof.
  unfold pi_ok. intros H. apply andb_true_iff in H as [H Hi]. apply andb_true_iff in H as [H Hx].
  apply andb_true_iff in H as [Hn Hc]. apply negb_true_iff in Hx.
  destruct t as [|c0 nm]; [discriminate Hn|].
  cbn [str_all] in Hc. apply andb_true_iff in Hc as [C0 Cn].
  unfold pi_text. rewrite !app_assoc_s.
  change ("?" ++ String c0 nm ++ (if i =?s "" then EmptyString else " " ++ i) ++ "?>" ++ rest)%string
    with (String "?"%char (String c0 (nm ++ (if i =?s "" then EmptyString else " " ++ i) ++ "?>" ++ rest))).
  rewrite run_cons. cbn [step].
  replace (is_ch 47 "?"%char) with false by reflexivity. replace (is_ch 63 "?"%char) with true by reflexivity.
  rewrite run_cons. cbn [step]. rewrite C0.
  rewrite (run_pi_target cs nm Cn).
  set (acc := srev_app nm (String c0 EmptyString)).
  assert (Fin : finish_name acc = Some (String c0 nm)).
  { unfold finish_name, acc. rewrite srev_srev_app. change (srev (String c0 "") ++ nm)%string with (String c0 nm). rewrite Hn. reflexivity. }
  (* a byte that is neither a name byte nor white space starts the body *)
  assert (Hbody : forall c R, name_cont c = false -> is_space c = false ->
            run cs (SPITarget acc) (String c R) = run cs (SPIBody (String c0 nm) zero EmptyString) (String c R)).
  { intros c R Hnc Hsp. rewrite !run_cons. cbn [step]. rewrite Hnc, Fin. unfold pi_space_step. rewrite Hsp. reflexivity. }
  destruct i as [|c1 r1].
  - cbn [String.eqb]. change (EmptyString ++ "?>" ++ rest)%string with (String "?"%char (String ">"%char rest)).
    rewrite (Hbody "?"%char _ eq_refl eq_refl).
    change (String "?"%char (String ">"%char rest)) with ("" ++ "?>" ++ rest)%string.
    rewrite (run_pi_body cs (String c0 nm) rest Hx EmptyString zero EmptyString eq_refl). reflexivity.
  - cbn [pi_inst_ok] in Hi. apply andb_true_iff in Hi as [Hsp HG]. apply negb_true_iff in Hsp.
    replace (String c1 r1 =?s "") with false by reflexivity.
    rewrite !app_assoc_s.
    change (" " ++ String c1 r1 ++ "?>" ++ rest)%string with (String " "%char (String c1 (r1 ++ "?>" ++ rest))).
    rewrite run_cons. cbn [step]. replace (name_cont " "%char) with false by reflexivity. rewrite Fin.
    unfold pi_space_step at 1. replace (is_space " "%char) with true by reflexivity.
    assert (Hsp2 : run cs (SPISpace (String c0 nm)) (String c1 (r1 ++ "?>" ++ rest)) =
                   run cs (SPIBody (String c0 nm) zero EmptyString) (String c1 (r1 ++ "?>" ++ rest))).
    { rewrite !run_cons. cbn [step]. unfold pi_space_step. rewrite Hsp. reflexivity. }
    rewrite Hsp2.
    change (String c1 (r1 ++ "?>" ++ rest)) with (String c1 r1 ++ "?>" ++ rest)%string.
    rewrite (run_pi_body cs (String c0 nm) rest Hx (String c1 r1) zero EmptyString HG). reflexivity.
Qed.

(* ---- elements ---- *)
Definition celem_body (sp t : string) (a : list attr) (k : list node) : string :=
  full_name sp t ++ c14n_write_attrs a ++ ">" ++ c14n_write_kids k ++ "</" ++ full_name sp t ++ ">".

Definition creads (cs : bool) (n : node) : Prop :=
  match n with
  | Elem sp t a k => forall rest, run cs SLt (celem_body sp t a k ++ rest) = emit (ctoks n) (run cs S0 rest)
  | _ => True
  end.

Lemma run_ckids cs k : Forall (creads cs) k -> forallb c14n_wf k = true ->
  forall b0 b1 racc R, is_ch 13 b1 = false -> valid_xml_text (srev racc) = true ->
  run cs (SText MTop b0 b1 racc) (c14n_write_kids k ++ String "<"%char R) = emit (ckids (srev racc) k) (run cs SLt R).
Proof.
  induction k as [|x k IH]; intros HF HW b0 b1 racc R Hb V.
  - cbn [c14n_write_kids append ckids]. apply run_text_lt, V.
  - inversion HF as [|? ? Hx Hk]; subst. cbn [forallb] in HW. apply andb_true_iff in HW as [W1 W2].
    destruct x as [sp t a kk | s | s | tg i | s]; try discriminate W1.
    + cbn [c14n_write_kids ckids]. rewrite c14n_write_elem.
      change ("<" ++ full_name sp t ++ c14n_write_attrs a ++ ">" ++ c14n_write_kids kk ++ "</" ++ full_name sp t ++ ">")%string
        with (String "<"%char (celem_body sp t a kk)).
      cbn [append]. rewrite (run_text_lt cs b0 b1 racc _ V).
      cbn [creads] in Hx. rewrite app_assoc_s, Hx. change S0 with (SText MTop zero zero EmptyString).
      rewrite (IH Hk W2 zero zero EmptyString R eq_refl eq_refl).
      rewrite !emit_emit. change (srev "") with "". rewrite <- app_assoc. reflexivity.
    + cbn [c14n_write_kids ckids c14n_write c14n_wf] in *.
      rewrite app_assoc_s.
      destruct (canon_text_roundtrip cs CanonText MTop I s 0%nat W1 eq_refl b0 b1 racc (c14n_write_kids k ++ String "<"%char R) Hb)
        as (b0' & b1' & Hb' & Rt).
      unfold etree_escape. rewrite Rt.
      assert (V' : valid_xml_text (srev (srev_app s racc)) = true).
      { rewrite srev_srev_app. apply valid_xml_text_app; assumption. }
      rewrite (IH Hk W2 b0' b1' _ R Hb' V'). rewrite srev_srev_app. reflexivity.
    + cbn [c14n_write_kids ckids c14n_write ctoks c14n_wf] in *.
      change ("<!--" ++ s ++ "-->")%string with (String "<"%char ("!--" ++ s ++ "-->")).
      rewrite !app_assoc_s. cbn [append]. rewrite (run_text_lt cs b0 b1 racc _ V).
      rewrite (app_assoc_s s "-->").
      change (String "!"%char (String "-"%char (String "-"%char (s ++ "-->" ++ c14n_write_kids k ++ String "<"%char R))))
        with ("!--" ++ s ++ "-->" ++ (c14n_write_kids k ++ String "<"%char R))%string.
      rewrite (run_comment cs s _ W1). change S0 with (SText MTop zero zero EmptyString).
      rewrite (IH Hk W2 zero zero EmptyString R eq_refl eq_refl).
      rewrite !emit_emit. change (srev "") with "". rewrite <- app_assoc. reflexivity.
    + cbn [c14n_write_kids ckids c14n_write ctoks c14n_wf] in *.
      change ("<?" ++ tg ++ (if i =?s "" then EmptyString else " " ++ i) ++ "?>")%string with (String "<"%char (pi_text tg i)).
      cbn [append]. rewrite (run_text_lt cs b0 b1 racc _ V).
      rewrite app_assoc_s, (run_pi cs tg i _ W1). change S0 with (SText MTop zero zero EmptyString).
      rewrite (IH Hk W2 zero zero EmptyString R eq_refl eq_refl).
      rewrite !emit_emit. change (srev "") with "". rewrite <- app_assoc. reflexivity.
Qed.

Lemma creads_all cs n : c14n_wf n = true -> creads cs n.
Proof.
  induction n as [sp t a k IHk | | | |] using node_ind_kids; intros W; try exact I.
  cbn [c14n_wf] in W. apply andb_true_iff in W as [W Wk]. apply andb_true_iff in W as [Wn Wa].
  assert (Fk : Forall (creads cs) k).
  { clear - IHk Wk. induction k as [|x k IH]; [constructor|].
    inversion IHk; subst. cbn [forallb] in Wk. apply andb_true_iff in Wk as [N1 N2]. constructor; auto. }
  cbn [creads]. intros rest. rewrite ctoks_elem. unfold celem_body.
  destruct (xname_finish _ _ Wn) as (c0 & nm & FN & C0 & Cn & Fin). rewrite FN.
  destruct (name_cont_inv c0 C0) as (F47 & F63 & F33 & _).
  rewrite !app_assoc_s. cbn [append]. rewrite run_cons. cbn [step]. rewrite F47, F63, F33, C0.
  rewrite (run_start_name cs nm Cn).
  set (acc := srev_app nm (String c0 EmptyString)) in *.
  assert (Hhead : forall tail,
            run cs (SStartName acc) (c14n_write_attrs a ++ String ">"%char tail) =
            run cs (SAttrs sp t []) (c14n_write_attrs a ++ String ">"%char tail)).
  { intros tail. destruct a as [|x l].
    - cbn [c14n_write_attrs append]. rewrite !run_cons.
      rewrite (step_after_name cs acc sp t ">"%char eq_refl Fin). reflexivity.
    - cbn [c14n_write_attrs]. unfold c14n_write_attr. rewrite !app_assoc_s. cbn [append]. rewrite !run_cons.
      rewrite (step_after_name cs acc sp t " "%char eq_refl Fin). reflexivity. }
  rewrite Hhead.
  rewrite (run_c14n_attrs cs sp t a Wa). rewrite app_nil_r.
  rewrite run_cons.
  replace (step cs (SAttrs sp t (rev a)) ">"%char) with (Emit [RStart sp t (rev (rev a))] S0) by reflexivity.
  rewrite rev_involutive.
  change S0 with (SText MTop zero zero EmptyString) at 1.
  rewrite (run_ckids cs k Fk Wk zero zero EmptyString _ eq_refl eq_refl).
  (* "/name>" *)
  rewrite run_cons. replace (step cs SLt "/"%char) with (Go SEndName0) by reflexivity.
  rewrite run_cons. cbn [step]. rewrite C0. rewrite (run_end_name cs nm Cn). fold acc.
  rewrite run_cons. cbn [step]. replace (name_cont ">"%char) with false by reflexivity. rewrite Fin.
  replace (end_space_step sp t ">"%char) with (Emit [REnd sp t] S0) by reflexivity.
  rewrite !emit_emit. reflexivity.
Qed.

(* ================================================================ 4. the round trip *)
Theorem canonical_bytes_tokens cs sp t a k : c14n_wf (Elem sp t a k) = true ->
  run cs S0 (c14n_write (Elem sp t a k)) = (ctoks (Elem sp t a k), false).
Proof.
  intros W. pose proof (creads_all cs _ W) as H. cbn [creads] in H. specialize (H EmptyString).
  rewrite app_nil_r_s in H. rewrite c14n_write_elem.
  change ("<" ++ full_name sp t ++ c14n_write_attrs a ++ ">" ++ c14n_write_kids k ++ "</" ++ full_name sp t ++ ">")%string
    with (String "<"%char (celem_body sp t a k)).
  rewrite run_cons. replace (step cs S0 "<"%char) with (Go SLt) by reflexivity.
  rewrite H. unfold emit. cbn. rewrite app_nil_r. reflexivity.
Qed.

Theorem canonical_bytes_read_back p : c14n_wf_elem p = true ->
  raw_tokens (c14n_write p) = Ok (ctoks p) /\
  read_doc true (c14n_write p) = Ok [normalise p] /\
  read_tree (c14n_write p) = Ok (normalise p).
Proof.
  unfold c14n_wf_elem. intros W. apply andb_true_iff in W as [HE W].
  destruct p as [sp t a k| | | |]; try discriminate HE.
  assert (T : raw_tokens (c14n_write (Elem sp t a k)) = Ok (ctoks (Elem sp t a k))).
  { unfold raw_tokens, tokens_of. rewrite (canonical_bytes_tokens true sp t a k W). reflexivity. }
  assert (D : read_doc true (c14n_write (Elem sp t a k)) = Ok [normalise (Elem sp t a k)]).
  { unfold read_doc. rewrite T. cbn [bind].
    rewrite <- (app_nil_r (ctoks (Elem sp t a k))). rewrite (cbuild_tree (Elem sp t a k) eq_refl). reflexivity. }
  split; [exact T|]. split; [exact D|].
  unfold read_tree, read_root. rewrite D. reflexivity.
Qed.

(* what xml.Unmarshal (a fresh decoder, either CharsetReader setting: there is no XML declaration) consumes from the canonical
   bytes -- goxmldsig reads the canonical SignedInfo bytes this way, validate.go:295 -- is the same element without attribute
   de-duplication; for an element whose attribute lists hold no repeated name it IS the tree read_tree returns *)
Fixpoint dup_free (n : node) : bool :=
  match n with
  | Elem _ _ a k => list_eqb attr_eqb (dedupe_attrs a) a && forallb dup_free k
  | _ => true
  end.

Lemma attr_eqb_eq x y : attr_eqb x y = true -> x = y.
Proof.
  unfold attr_eqb. intros H. apply andb_true_iff in H as [H H3]. apply andb_true_iff in H as [H1 H2].
  apply String.eqb_eq in H1, H2, H3. destruct x, y. cbn in *. subst. reflexivity.
Qed.
Lemma list_eqb_attr_eq : forall l1 l2, list_eqb attr_eqb l1 l2 = true -> l1 = l2.
Proof.
  induction l1 as [|x r IH]; intros [|y r2] H; try discriminate; [reflexivity|].
  cbn [list_eqb] in H. apply andb_true_iff in H as [H1 H2]. apply attr_eqb_eq in H1. subst. f_equal. apply IH, H2.
Qed.

Lemma normalise_dup_free : forall n, dup_free n = true -> normalise n = normalise_raw n.
Proof.
  induction n as [sp t a k IHk | | | |] using node_ind_kids; intros H; try reflexivity.
  cbn [dup_free] in H. apply andb_true_iff in H as [Ha Hk]. apply list_eqb_attr_eq in Ha.
  rewrite normalise_elem, normalise_raw_elem, Ha. f_equal.
  generalize EmptyString. induction k as [|x k IH]; intros acc; [reflexivity|].
  inversion IHk as [|? ? Hx Hr]; subst. cbn [forallb] in Hk. apply andb_true_iff in Hk as [H1 H2].
  destruct x as [xsp xt xa xk | s | s | tg i | s]; cbn [norm_kids norm_kids_raw];
    try (rewrite (IH Hr H2); reflexivity).
  rewrite (Hx H1), (IH Hr H2). reflexivity.
Qed.

Theorem canonical_bytes_token_view c p : c14n_wf_elem p = true ->
  token_view_with c (c14n_write p) = Ok (normalise_raw p) /\
  (dup_free p = true -> token_view_with c (c14n_write p) = read_tree (c14n_write p)).
Proof.
  intros W. pose proof W as W0. unfold c14n_wf_elem in W. apply andb_true_iff in W as [HE W].
  destruct p as [sp t a k| | | |]; try discriminate HE.
  assert (T : token_view_with c (c14n_write (Elem sp t a k)) = Ok (normalise_raw (Elem sp t a k))).
  { unfold token_view_with, token_prefix. rewrite (canonical_bytes_tokens (cs_flag c) sp t a k W). cbn [fst].
    apply (build_tv_skip (ctoks (Elem sp t a k)) [] [normalise_raw (Elem sp t a k)]); [|reflexivity|reflexivity].
    rewrite <- (app_nil_r (ctoks (Elem sp t a k))). rewrite (cbuild_tree_raw (Elem sp t a k) eq_refl). reflexivity. }
  split; [exact T|]. intros D. rewrite T. destruct (canonical_bytes_read_back _ W0) as (_ & _ & R). rewrite R.
  rewrite (normalise_dup_free _ D). reflexivity.
Qed.

(* ================================================================ 5. Canonicalize, then re-parse *)
(* the tree the verifier decodes from the canonical bytes IS the prepared tree (normalised: adjacent character data merged,
   empty character data gone, duplicated attributes collapsed) *)
Theorem canonical_bytes_reparse a t b p :
  canon_model a t = Some b -> canon_prep a t = Some p -> c14n_wf_elem p = true ->
  read_tree b = Ok (normalise p) /\ reparse_model b = Some (normalise p).
Proof.
  unfold canon_model. intros HB HP W. rewrite HP in HB. cbn [option_map] in HB. injection HB as <-.
  destruct (canonical_bytes_read_back p W) as (_ & _ & R). split; [exact R|]. unfold reparse_model. rewrite R. reflexivity.
Qed.

(* statement quantified as the DSIG theorem wants it: every tree, every algorithm *)
Theorem canonical_bytes_reparse_to_prepared_tree : forall a t b,
  canon_model a t = Some b ->
  exists p, canon_prep a t = Some p /\ b = c14n_write p /\
            (c14n_wf_elem p = true -> read_tree b = Ok (normalise p) /\ reparse_model b = Some (normalise p)).
Proof.
  intros a t b HB. unfold canon_model in HB. destruct (canon_prep a t) as [p|] eqn:HP; [|discriminate].
  cbn [option_map] in HB. injection HB as <-. exists p. split; [reflexivity|]. split; [reflexivity|].
  intros W. destruct (canonical_bytes_read_back p W) as (_ & _ & R). split; [exact R|]. unfold reparse_model. rewrite R. reflexivity.
Qed.

(* ---- the premise carried from the presented tree to the prepared one, inclusive algorithms ----
   canonicalPrep sorts the attributes and drops redundant declarations: every attribute of the result is one of the input *)
Lemma swap_with_prev_Forall (P : attr -> Prop) : forall j l, Forall P l -> Forall P (swap_with_prev l j).
Proof.
  induction j as [|j IH]; intros l H; [destruct l; exact H|].
  destruct l as [|x r]; [destruct j; exact H|].
  inversion H as [|? ? Hx Hr]; subst.
  destruct j as [|j'].
  - cbn [swap_with_prev]. destruct r as [|y r']; [exact H|]. inversion Hr; subst. repeat constructor; assumption.
  - change (swap_with_prev (x :: r) (S (S j'))) with (x :: swap_with_prev r (S j')). constructor; [exact Hx|]. apply IH, Hr.
Qed.

Lemma sink_Forall (P : attr -> Prop) : forall j l, Forall P l -> Forall P (sink l j).
Proof.
  induction j as [|j IH]; intros l H; [exact H|].
  cbn [sink]. destruct (attr_less l (nth (S j) l zero_attr) (nth j l zero_attr)); [|exact H].
  apply IH, swap_with_prev_Forall, H.
Qed.

Lemma sort_attrs_Forall (P : attr -> Prop) l : Forall P l -> Forall P (sort_attrs l).
Proof.
  unfold sort_attrs. generalize (seq 1 (List.length l - 1)). intros js. revert l.
  induction js as [|j js IH]; intros l H; [exact H|]. cbn [fold_left]. apply IH, sink_Forall, H.
Qed.

Lemma prep_attrs_Forall (P : attr -> Prop) : forall l seen, Forall P l -> Forall P (fst (prep_attrs l seen)).
Proof.
  induction l as [|x r IH]; intros seen H; [constructor|].
  inversion H as [|? ? Hx Hr]; subst. cbn [prep_attrs].
  destruct (negb (at_space x =?s "xmlns") && negb (is_default_decl x)).
  { specialize (IH seen Hr). destruct (prep_attrs r seen) as [r' s']. cbn [fst] in *. constructor; assumption. }
  destruct (at_space x =?s "xmlns").
  { destruct (assoc_get ("xmlns:" ++ at_key x) seen) as [uri|].
    - destruct (at_val x =?s uri); [apply IH, Hr|].
      specialize (IH (assoc_set ("xmlns:" ++ at_key x) (at_val x) seen) Hr).
      destruct (prep_attrs r _) as [r' s']. cbn [fst] in *. constructor; assumption.
    - specialize (IH (assoc_set ("xmlns:" ++ at_key x) (at_val x) seen) Hr).
      destruct (prep_attrs r _) as [r' s']. cbn [fst] in *. constructor; assumption. }
  cbv zeta.
  destruct (negb (at_val x =?s match assoc_get "xmlns" seen with Some u => u | None => "" end)); [|apply IH, Hr].
  specialize (IH (assoc_set "xmlns" (at_val x) seen) Hr).
  destruct (prep_attrs r _) as [r' s']. cbn [fst] in *. constructor; assumption.
Qed.

Lemma forallb_Forall_true {A} (f : A -> bool) l : forallb f l = true <-> Forall (fun x => f x = true) l.
Proof.
  induction l as [|x r IH]; cbn [forallb]; [split; [constructor | reflexivity]|].
  rewrite andb_true_iff, IH. split; [intros [H1 H2]; constructor; assumption | intros H; inversion H; subst; split; assumption].
Qed.

Lemma canonical_prep_wf : forall n seen c, c14n_wf n = true -> c14n_wf (canonical_prep seen c n) = true.
Proof.
  induction n as [sp t a k IHk | | | |] using node_ind_kids; intros seen c W; try exact W.
  rewrite canonical_prep_elem. cbn [c14n_wf] in *.
  apply andb_true_iff in W as [W Wk]. apply andb_true_iff in W as [Wn Wa].
  rewrite Wn. cbn [andb]. apply andb_true_iff. split.
  - apply forallb_Forall_true. apply prep_attrs_Forall, sort_attrs_Forall. apply forallb_Forall_true, Wa.
  - generalize (snd (prep_attrs (sort_attrs a) seen)). intros seen'.
    clear Wn Wa. induction k as [|x k IH]; [reflexivity|].
    inversion IHk as [|? ? Hx Hk]; subst. cbn [forallb] in Wk. apply andb_true_iff in Wk as [W1 W2].
    cbn [cprep_kids]. destruct (negb c && is_comment x); [apply IH; assumption|].
    cbn [forallb]. rewrite (Hx seen' c W1). cbn [andb]. apply IH; assumption.
Qed.

Lemma canonical_prep_is_elem n seen c : is_elem (canonical_prep seen c n) = is_elem n.
Proof. destruct n as [sp t a k| | | |]; try reflexivity. rewrite canonical_prep_elem. reflexivity. Qed.

(* for c14n 1.1, c14n 1.0 (REC) and the null canonicaliser the premise may be stated on the PRESENTED element *)
Theorem canonical_bytes_reparse_inclusive a t b :
  inclusive a = true -> c14n_wf_elem t = true -> canon_model a t = Some b ->
  exists p, canon_prep a t = Some p /\ read_tree b = Ok (normalise p) /\ reparse_model b = Some (normalise p).
Proof.
  intros HI W HB. unfold c14n_wf_elem in W. apply andb_true_iff in W as [HE W].
  destruct (canonical_bytes_reparse_to_prepared_tree a t b HB) as (p & HP & _ & HR).
  exists p. split; [exact HP|]. apply HR.
  unfold c14n_wf_elem. destruct a as [pl c|c|c|]; try discriminate HI; cbn [canon_prep] in HP; injection HP as <-;
    rewrite canonical_prep_is_elem, HE; cbn [andb]; apply canonical_prep_wf, W.
Qed.

(* ---- ... and for the exclusive algorithms ----
   TransformExcC14n drops the declarations and ADDS xmlns / xmlns:p attributes for the visibly used prefixes, with the value in
   scope.  Prefix and value come from a declaration attribute of the element or an ancestor (or from the default context), so
   the added attribute is reader-valid because that declaration was: no arithmetic on names is needed. *)
Definition ctx_entry_ok (kv : string * string) : Prop :=
  valid_xml_text (snd kv) = true /\ (fst kv = "" \/ xname_ok "xmlns" (fst kv) = true).
Definition ctx_ok (ctx : nsctx) : Prop := Forall ctx_entry_ok ctx.

Lemma default_ctx_ok : ctx_ok default_ctx.
Proof.
  unfold ctx_ok, default_ctx.
  constructor; [split; [vm_compute; reflexivity | left; reflexivity]|].
  constructor; [split; [vm_compute; reflexivity | right; vm_compute; reflexivity]|].
  constructor; [split; [vm_compute; reflexivity | right; vm_compute; reflexivity]|].
  constructor.
Qed.

Lemma lookup_ok : forall ctx p ns, ctx_ok ctx -> lookup_prefix ctx p = Some ns ->
  valid_xml_text ns = true /\ (p = "" \/ xname_ok "xmlns" p = true).
Proof.
  induction ctx as [|[k v] r IH]; intros p ns HC HL; [discriminate|].
  inversion HC as [|? ? [Hv Hk] Hr]; subst. cbn [lookup_prefix] in HL. cbn [fst snd] in *.
  destruct (k =?s p) eqn:E.
  - apply String.eqb_eq in E. subst k. injection HL as <-. split; assumption.
  - apply (IH p ns Hr HL).
Qed.

Lemma sub_context_ok : forall attrs ctx c, ctx_ok ctx -> Forall (fun x => cattr_ok x = true) attrs ->
  sub_context ctx attrs = Ok c -> ctx_ok c.
Proof.
  induction attrs as [|a r IH]; intros ctx c HC HA HS.
  - cbn [sub_context] in HS. injection HS as <-. exact HC.
  - inversion HA as [|? ? Ha Hr]; subst. cbn [sub_context] in HS.
    unfold cattr_ok in Ha. apply andb_true_iff in Ha as [Hn Hv].
    destruct (at_space a =?s "xmlns") eqn:E1.
    + apply String.eqb_eq in E1. rewrite E1 in Hn.
      destruct ((at_key a =?s "xml") && negb (at_val a =?s XMLNamespace)); [discriminate|].
      destruct (at_key a =?s "xmlns"); [discriminate|].
      apply (IH ((at_key a, at_val a) :: ctx) c); [|exact Hr|exact HS]. constructor; [|exact HC]. split; [exact Hv | right; exact Hn].
    + destruct ((at_space a =?s "") && (at_key a =?s "xmlns")).
      * destruct (at_val a =?s XMLNSNamespace); [discriminate|].
        apply (IH (("", at_val a) :: ctx) c); [|exact Hr|exact HS]. constructor; [|exact HC]. split; [exact Hv | left; reflexivity].
      * apply (IH _ c HC Hr HS).
Qed.

Lemma sub_ctx_ok attrs ctx c : ctx_ok ctx -> Forall (fun x => cattr_ok x = true) attrs -> sub_ctx ctx attrs = Ok c -> ctx_ok c.
Proof.
  unfold sub_ctx. intros HC HA HS. destruct (sub_context ctx attrs) as [c'|e] eqn:E; [|discriminate].
  injection HS as <-. exact (sub_context_ok attrs ctx c' HC HA E).
Qed.

Lemma exc_scan_keep (P : attr -> Prop) incl : forall attrs, Forall P attrs -> Forall P (snd (exc_scan attrs incl)).
Proof.
  induction attrs as [|a r IH]; intros H; [constructor|].
  inversion H as [|? ? Ha Hr]; subst. specialize (IH Hr). cbn [exc_scan].
  destruct (exc_scan r incl) as [vis keep]. cbn [snd] in *.
  destruct (at_space a =?s "xmlns"); [exact IH|]. destruct (is_default_decl a); [exact IH|]. cbn [snd]. constructor; assumption.
Qed.

Lemma exc_declare_ok scope : ctx_ok scope -> forall vis declared da,
  exc_declare vis scope declared = Ok da -> Forall (fun x => cattr_ok x = true) (snd da).
Proof.
  intros HC. induction vis as [|p r IH]; intros declared da HD.
  - cbn [exc_declare] in HD. injection HD as <-. constructor.
  - cbn [exc_declare] in HD.
    destruct (match lookup_prefix declared p, lookup_prefix scope p with Some d, Some v => d =?s v | _, _ => false end).
    + apply (IH declared da HD).
    + destruct (lookup_prefix scope p) as [ns|] eqn:EL; [|discriminate].
      destruct (exc_declare r scope ((p, ns) :: declared)) as [rest|e] eqn:ER; [|discriminate].
      cbn [bind] in HD. injection HD as <-. cbn [snd].
      destruct (lookup_ok scope p ns HC EL) as [Hv Hp].
      constructor; [|apply (IH _ rest ER)].
      unfold cattr_ok. destruct (p =?s "") eqn:Ep; cbn [at_space at_key at_val]; rewrite Hv, andb_true_r.
      * vm_compute. reflexivity.
      * destruct Hp as [Hp|Hp]; [subst p; discriminate Ep | exact Hp].
Qed.

Lemma exc_prep_wf : forall n ctx declared incl c p, ctx_ok ctx -> c14n_wf n = true ->
  exc_prep ctx declared incl c n = Ok p -> c14n_wf p = true /\ is_elem p = is_elem n.
Proof.
  induction n as [sp t a k IHk | | | |] using node_ind_kids; intros ctx declared incl c p HC W HP;
    try (cbn [exc_prep] in HP; injection HP as <-; split; [exact W | reflexivity]).
  rewrite exc_prep_elem in HP. cbn [c14n_wf] in W.
  apply andb_true_iff in W as [W Wk]. apply andb_true_iff in W as [Wn Wa].
  apply forallb_Forall_true in Wa.
  destruct (sub_ctx ctx a) as [scope|e] eqn:ES; [|discriminate]. cbn [bind] in HP.
  destruct (exc_declare (sp :: fst (exc_scan a incl)) scope declared) as [da|e] eqn:ED; [|discriminate]. cbn [bind] in HP.
  destruct (eprep_kids scope (fst da) incl c k) as [kids'|e] eqn:EK; [|discriminate]. cbn [bind] in HP.
  injection HP as <-. split; [|reflexivity].
  pose proof (sub_ctx_ok a ctx scope HC Wa ES) as HS.
  cbn [c14n_wf]. rewrite Wn. cbn [andb]. apply andb_true_iff. split.
  - apply forallb_Forall_true. apply sort_attrs_Forall. apply Forall_app. split.
    + apply exc_scan_keep, Wa.
    + apply (exc_declare_ok scope HS _ _ _ ED).
  - clear ED Wn Wa ES. generalize dependent kids'. generalize (fst da). intros dcl.
    induction k as [|x k IH]; intros kids' EK.
    + cbn [eprep_kids] in EK. injection EK as <-. reflexivity.
    + inversion IHk as [|? ? Hx Hk]; subst. cbn [forallb] in Wk. apply andb_true_iff in Wk as [W1 W2].
      cbn [eprep_kids] in EK. destruct (negb c && is_comment x); [apply (IH Hk W2 _ EK)|].
      destruct (exc_prep scope dcl incl c x) as [x'|e] eqn:EX; [|discriminate]. cbn [bind] in EK.
      destruct (eprep_kids scope dcl incl c k) as [r'|e] eqn:ER; [|discriminate]. cbn [bind] in EK.
      injection EK as <-. cbn [forallb]. destruct (Hx scope dcl incl c x' HS W1 EX) as [Wx _]. rewrite Wx. cbn [andb].
      apply (IH Hk W2 _ eq_refl).
Qed.

(* every algorithm: the premise stated on the PRESENTED element *)
Theorem canon_prep_wf a t p : c14n_wf_elem t = true -> canon_prep a t = Some p -> c14n_wf_elem p = true.
Proof.
  unfold c14n_wf_elem. intros W HP. apply andb_true_iff in W as [HE W].
  destruct a as [pl c|c|c|]; cbn [canon_prep] in HP.
  - destruct (exc_prep default_ctx default_ctx (fields pl) c t) as [q|e] eqn:EQ; [|discriminate]. injection HP as <-.
    destruct (exc_prep_wf t _ _ _ _ _ default_ctx_ok W EQ) as [Wq Eq]. rewrite Eq, HE, Wq. reflexivity.
  - injection HP as <-. rewrite canonical_prep_is_elem, HE. cbn [andb]. apply canonical_prep_wf, W.
  - injection HP as <-. rewrite canonical_prep_is_elem, HE. cbn [andb]. apply canonical_prep_wf, W.
  - injection HP as <-. rewrite canonical_prep_is_elem, HE. cbn [andb]. apply canonical_prep_wf, W.
Qed.

Theorem canonical_bytes_reparse_presented a t b :
  c14n_wf_elem t = true -> canon_model a t = Some b ->
  exists p, canon_prep a t = Some p /\ read_tree b = Ok (normalise p) /\ reparse_model b = Some (normalise p).
Proof.
  intros W HB. destruct (canonical_bytes_reparse_to_prepared_tree a t b HB) as (p & HP & _ & HR).
  exists p. split; [exact HP|]. apply HR. exact (canon_prep_wf a t p W HP).
Qed.

(* ---- removeElementAtPath keeps the premise ---- *)
Lemma forallb_remove_nth {A} (f : A -> bool) : forall i l, forallb f l = true -> forallb f (remove_nth i l) = true.
Proof.
  induction i as [|i IH]; intros [|x l] H; try reflexivity; cbn [remove_nth forallb] in *;
    apply andb_true_iff in H as [H1 H2]; [exact H2|]. rewrite H1. cbn [andb]. apply IH, H2.
Qed.
Lemma forallb_replace_nth {A} (f : A -> bool) : forall i x l, forallb f l = true -> f x = true -> forallb f (replace_nth i x l) = true.
Proof.
  induction i as [|i IH]; intros x [|y l] H Hx; try reflexivity; cbn [replace_nth forallb] in *;
    apply andb_true_iff in H as [H1 H2]; [rewrite Hx, H2; reflexivity|]. rewrite H1. cbn [andb]. apply IH; assumption.
Qed.
Lemma forallb_nth_error {A} (f : A -> bool) : forall i l x, forallb f l = true -> nth_error l i = Some x -> f x = true.
Proof.
  induction i as [|i IH]; intros [|y l] x H HN; try discriminate; cbn [nth_error forallb] in *;
    apply andb_true_iff in H as [H1 H2]; [injection HN as <-; exact H1 | apply (IH l x H2 HN)].
Qed.

Lemma remove_at_path_wf : forall path el el', c14n_wf el = true -> remove_at_path el path = Some el' ->
  c14n_wf el' = true /\ is_elem el' = true.
Proof.
  induction path as [|i rest IH]; intros el el' W HR; [discriminate|].
  cbn [remove_at_path] in HR. destruct el as [sp tg attrs kids| | | |]; try discriminate.
  destruct (nth_error kids i) as [c|] eqn:EN; [|discriminate].
  destruct c as [csp ctg ca ck| | | |]; try discriminate.
  cbn [c14n_wf] in W. apply andb_true_iff in W as [Wna Wk].
  destruct rest as [|j rest'].
  - injection HR as <-. split; [|reflexivity]. cbn [c14n_wf]. rewrite Wna. cbn [andb]. apply forallb_remove_nth, Wk.
  - destruct (remove_at_path (Elem csp ctg ca ck) (j :: rest')) as [c'|] eqn:EC; [|discriminate].
    injection HR as <-. split; [|reflexivity]. cbn [c14n_wf]. rewrite Wna. cbn [andb].
    apply forallb_replace_nth; [exact Wk|].
    apply (IH (Elem csp ctg ca ck) c' (forallb_nth_error _ _ _ _ Wk EN) EC).
Qed.

(* ================================================================ 6. soundness with both oracles instantiated *)
Section Reader.
  Variable digest : string -> string -> option string.
  Variable sig_ok : cert -> string -> string -> string -> bool.
  Variable parse_cert : string -> option cert.

  (* accepted => Covered (over the two MODELS), and the accepted tree is the prepared form of the transformed element,
     normalised: a function of the presented tree, not of any parser oracle *)
  Theorem dsig_sound_reader store now root v :
    dsig_validate_reader digest sig_ok parse_cert store now root = DOk v ->
    Covered canon_model digest sig_ok parse_cert reparse_model store now root v /\
    exists root' f sinfo2 r el_t calg p,
      find_signature root = Ok (root', f) /\
      r = last (si_refs sinfo2) zero_ref /\
      transform root' (fs_path f) r = Ok (el_t, calg) /\
      canon_prep calg el_t = Some p /\
      read_tree (c14n_write p) = Ok v /\
      (c14n_wf_elem p = true -> v = normalise p).
  Proof.
    unfold dsig_validate_reader. intros H. pose proof (dsig_sound _ _ _ _ _ _ _ _ _ H) as HC.
    split; [exact HC|].
    destruct HC as (root' & f & ctx0 & e0 & e1 & c & sinfo & sb & data & raw & sin & sinfo2 & r & want & el_t & calg & bytes &
                   HF & _ & _ & _ & _ & _ & _ & _ & _ & HSB & _ & _ & _ & _ & HRS & HUS & HL & _ & HW & HT & HCn & HD & _ & HR).
    destruct (canonical_bytes_reparse_to_prepared_tree calg el_t bytes HCn) as (p & HP & -> & HRT).
    exists root', f, sinfo2, r, el_t, calg, p.
    split; [exact HF|]. split; [exact HL|]. split; [exact HT|]. split; [exact HP|].
    assert (HV : read_tree (c14n_write p) = Ok v).
    { unfold reparse_model in HR. destruct (read_tree (c14n_write p)) as [n|e]; [injection HR as <-; reflexivity | discriminate]. }
    split; [exact HV|].
    intros W. destruct (HRT W) as [R _]. rewrite R in HV. injection HV as <-. reflexivity.
  Qed.

  (* headline form (first signature met; transforms = enveloped-signature + one canonicalisation c0):
     result = normalise (prep c0 (root minus exactly that Signature element)) *)
  Theorem dsig_sound_reader_first_signature store now root v :
    dsig_validate_reader digest sig_ok parse_cert store now root = DOk v ->
    exists root' f sb sin sinfo2 r,
      find_signature root = Ok (root', f) /\
      canon_model (fs_si_alg f) (fs_si_detached f) = Some sb /\ reparse_model sb = Some sin /\
      unmarshal_signed_info sin = Ok sinfo2 /\ r = last (si_refs sinfo2) zero_ref /\
      (FirstSignature root (fs_path f) ->
       forall t1 t2 c0, ref_transforms r = [t1; t2] -> tr_alg t1 = alg_enveloped -> c14n_of t2 = Some c0 ->
         exists body p want,
           remove_at_path root (fs_path f) = Some body /\ canon_prep c0 body = Some p /\
           base64_decode (ref_digest_value r) = Some want /\ digest (ref_digest_alg r) (c14n_write p) = Some want /\
           read_tree (c14n_write p) = Ok v /\
           (c14n_wf_elem p = true -> v = normalise p) /\
           (* the premise on the PRESENTED element is enough *)
           (c14n_wf root = true -> v = normalise p)).
  Proof.
    unfold dsig_validate_reader. intros H.
    destruct (sound_first_signature _ _ _ _ _ _ _ _ _ H) as (root' & f & sb & sin & sinfo2 & r & HF & HSB & HRS & HUS & HL & HX).
    exists root', f, sb, sin, sinfo2, r. repeat (split; [assumption|]).
    intros HFirst t1 t2 c0 E1 E2 E3.
    destruct (HX HFirst t1 t2 c0 E1 E2 E3) as (body & bytes & want & HRem & HCn & HW & HD & HR).
    destruct (canonical_bytes_reparse_to_prepared_tree c0 body bytes HCn) as (p & HP & -> & HRT).
    exists body, p, want. split; [exact HRem|]. split; [exact HP|]. split; [exact HW|]. split; [exact HD|].
    assert (HV : read_tree (c14n_write p) = Ok v).
    { unfold reparse_model in HR. destruct (read_tree (c14n_write p)) as [n|e]; [injection HR as <-; reflexivity | discriminate]. }
    split; [exact HV|].
    assert (HN : c14n_wf_elem p = true -> v = normalise p).
    { intros W. destruct (HRT W) as [R _]. rewrite R in HV. injection HV as <-. reflexivity. }
    split; [exact HN|].
    intros WR. apply HN. apply (canon_prep_wf c0 body p); [|exact HP].
    destruct (remove_at_path_wf _ _ _ WR HRem) as [Wb Eb]. unfold c14n_wf_elem. rewrite Eb, Wb. reflexivity.
  Qed.
End Reader.

(* ================================================================ 7. non-vacuity (vm_compute) *)
Module ReaderExample.
  Import P_Dsig.Example.
  Definition cr : string := String (byte 13) EmptyString.
  Definition tab : string := String (byte 9) EmptyString.
  (* an element with: attributes out of order, TAB / '>' / a double quote in a value, U+000D and '>' in character data, adjacent
     character data, a comment, two processing instructions, a redundant declaration *)
  Definition el : node :=
    Elem "p" "Root" [A "ID" "x"; {| at_space := "xmlns"; at_key := "p"; at_val := "urn:p" |}]
      [Elem "p" "Item" [A "b" ("t" ++ tab ++ ">" ++ String (byte 34) "q"); A "a" "1"; {| at_space := "xmlns"; at_key := "p"; at_val := "urn:p" |}]
            [Text "he"; Comment "note - one"; Text ("llo" ++ cr ++ " > ü")];
       Elem "" "Empty" [] []; ProcInst "pi" "data ?"; ProcInst "p2" ""].
  Definition el_read (comments : bool) : node :=
    Elem "p" "Root" [{| at_space := "xmlns"; at_key := "p"; at_val := "urn:p" |}; A "ID" "x"]
      [Elem "p" "Item" [A "a" "1"; A "b" ("t" ++ tab ++ ">" ++ String (byte 34) "q")]
            (if comments then [Text "he"; Comment "note - one"; Text ("llo" ++ cr ++ " > ü")] else [Text ("hello" ++ cr ++ " > ü")]);
       Elem "" "Empty" [] []; ProcInst "pi" "data ?"; ProcInst "p2" ""].

  (* every algorithm: the bytes are produced, the prepared tree satisfies the premise, the reader gives it back *)
  Definition reads_back (a : canon_alg) : bool :=
    match canon_model a el, canon_prep a el with
    | Some b, Some p =>
        c14n_wf_elem p && tree_agrees (read_tree b) (Some (normalise p)) && node_eqb (normalise p) (el_read (keeps_comments a))
    | _, _ => false
    end.
  Example every_algorithm_reads_back :
    forallb reads_back [CExc "" false; CExc "" true; CExc "p x" false; C11 false; C11 true; CRec false; CRec true; CNull] = true.
  Proof. vm_compute. reflexivity. Qed.

  Example canonical_bytes_exc :
    canon_model (CExc "" false) el =
    Some ("<p:Root xmlns:p=""urn:p"" ID=""x""><p:Item a=""1"" b=""t&#x9;>&quot;q"">hello&#xD; &gt; ü</p:Item><Empty></Empty><?pi data ??><?p2?></p:Root>").
  Proof. vm_compute. reflexivity. Qed.

  (* what the premise excludes is really refused or changed by the reader *)
  Example comment_with_double_dash_not_read_back : read_tree (c14n_write (Elem "" "a" [] [Comment "x--y"])) = Err syntax_error.
  Proof. vm_compute. reflexivity. Qed.
  Example pi_with_leading_space_changed :
    read_tree (c14n_write (Elem "" "a" [] [ProcInst "pi" " x"])) = Ok (Elem "" "a" [] [ProcInst "pi" "x"]).
  Proof. vm_compute. reflexivity. Qed.
  Example invalid_utf8_not_read_back :
    read_tree (c14n_write (Elem "" "a" [] [Text (String (byte 255) "")])) = Ok (Elem "" "a" [] [Text repl_char]).
  Proof. vm_compute. reflexivity. Qed.

  (* the verifier with both oracles instantiated: digest and signature check are the only behaviours chosen here *)
  Definition digest_any (alg bytes : string) : option string := Some digest20.
  Definition sig_ok_sig (c : cert) (alg msg sg : string) : bool := sg =?s "sig".
  Definition no_cert_parser (der : string) : option cert := None.
  Definition t150 : instant := {| i_sec := 150; i_nsec := 0 |}.
  Definition doc2 : node :=
    Elem "" "Root" [A "ID" "x"]
      [Elem "" "Item" [A "b" ("t" ++ tab); A "a" "1"] [Text "he"; Comment "c"; Text ("llo" ++ cr)]; signature_el [good_ref]; Comment "after"].
  Example accepted_tree_is_the_prepared_tree :
    dsig_validate_reader digest_any sig_ok_sig no_cert_parser [the_cert] t150 (doc [good_ref]) = DOk body /\
    dsig_validate_reader digest_any sig_ok_sig no_cert_parser [the_cert] t150 doc2
    = DOk (Elem "" "Root" [A "ID" "x"] [Elem "" "Item" [A "a" "1"; A "b" ("t" ++ tab)] [Text ("hello" ++ cr)]]).
  Proof. vm_compute. split; reflexivity. Qed.
End ReaderExample.

(* ================================================================ 8. the observable of the DSIG stream, set "validate2" *)
(* DsigReader.dsig_obs_model2 followed by the PREMISE of the theorems above evaluated on the presented element (which
   etree.ReadFromBytes delivered): it must hold unless the element holds a directive or a <?xml?> instruction inside *)
Definition dsig_obs_reader (t : oracle_tables) (store : list cert) (now : instant) (root : node)
           (exp_tree exp_mut : option node) : val :=
  match dsig_obs_model2 t store now root exp_tree exp_mut with
  | VL l => VL (l ++ [VB (has_directive_or_xml_pi root || c14n_wf root)])
  | v => v
  end.
