(* Conc.v — model for property C17: the lazily created, RWMutex-guarded signing context of
   saml.go (fields signingContextMu / signingContext, method SigningContext()).

   Part 1  the deterministic part: which dsig.SigningContext a configuration produces ([make_ctx]).
   Part 2  small-step interleaving semantics of ANY number of goroutines running SigningContext()
           (thread states are a total function tid -> pc: no bound on their number; a thread may call
           again after returning: no bound on the history).
   Part 3  memory accesses each step performs, the data-race predicate.
   Part 4  the source tie: the lock/access actions every step of the thread program stands for
           ([modelled_shape], compared with Generated.signing_ctx_shape in P_ConcTie.v) and the
           allowed receiver-field writes.
   No proofs of properties here (they are in P_Conc.v / P_ConcTie.v). This file does not depend on
   Generated.v, so the long proofs are not rebuilt when /repo changes. *)
From V Require Import Base ConcDefs.
Local Open Scope string_scope.
Local Open Scope list_scope.

(* ================= Part 1: configuration -> signing context ================= *)

(* type of signer.Public() as goxmldsig sign.go getPublicKeyAlgorithm distinguishes it *)
Inductive keyalg := KRsa | KEcdsa | KOther.
Inductive hashalg := HSha1 | HSha256 | HSha384 | HSha512.

Definition keyalg_eqb (a b : keyalg) : bool :=
  match a, b with KRsa, KRsa | KEcdsa, KEcdsa | KOther, KOther => true | _, _ => false end.

(* saml2.KeyStore{Signer, Cert}: kind of the signer's public key, and the certificate (a label chosen by
   the harness: certificate bytes are opaque to this code path) *)
Record keystore := { ks_alg : keyalg; ks_cert : string }.

(* the fields of SAMLServiceProvider that SigningContext() reads *)
Record sconfig := {
  cfg_signing_override : option keystore;  (* sp.spSigningKeyStoreOverride, set by SetSPSigningKeyStore *)
  cfg_signing_field : option string;       (* sp.SPSigningKeyStore (deprecated dsig.X509KeyStore): its certificate *)
  cfg_enc_override : option keystore;      (* sp.spKeyStoreOverride, set by SetSPKeyStore *)
  cfg_enc_field : option string;           (* sp.SPKeyStore (deprecated dsig.X509KeyStore): its certificate *)
  cfg_method : string;                     (* sp.SignAuthnRequestsAlgorithm *)
  cfg_canon : option string                (* sp.SignAuthnRequestsCanonicalizer, by its Algorithm() identifier; None = nil *)
}.

(* where a dsig.SigningContext takes its key and certificate from *)
Inductive key_source :=
| FromSigner (a : keyalg) (cert : string)   (* dsig.NewSigningContext(signer, [cert]) : fields signer, certs *)
| FromKeyStore (cert : string)              (* dsig.NewDefaultSigningContext(ks) : field KeyStore *)
| NoKey.                                    (* dsig.NewDefaultSigningContext(nil) *)

(* the fields of dsig.SigningContext this code path sets (IdAttribute = "ID" and Prefix = "ds" are constants) *)
Record ctx := { c_hash : hashalg; c_source : key_source; c_canon : string }.

(* goxmldsig v1.5.0 xml_constants.go (pinned dependency, not part of /repo: written by hand) *)
Definition canonical_xml11_id := "http://www.w3.org/2006/12/xml-c14n11".
Definition signature_methods : list (string * (keyalg * hashalg)) :=
  [ ("http://www.w3.org/2000/09/xmldsig#rsa-sha1", (KRsa, HSha1));
    ("http://www.w3.org/2001/04/xmldsig-more#rsa-sha256", (KRsa, HSha256));
    ("http://www.w3.org/2001/04/xmldsig-more#rsa-sha384", (KRsa, HSha384));
    ("http://www.w3.org/2001/04/xmldsig-more#rsa-sha512", (KRsa, HSha512));
    ("http://www.w3.org/2001/04/xmldsig-more#ecdsa-sha1", (KEcdsa, HSha1));
    ("http://www.w3.org/2001/04/xmldsig-more#ecdsa-sha256", (KEcdsa, HSha256));
    ("http://www.w3.org/2001/04/xmldsig-more#ecdsa-sha384", (KEcdsa, HSha384));
    ("http://www.w3.org/2001/04/xmldsig-more#ecdsa-sha512", (KEcdsa, HSha512)) ].
Definition digest_id (h : hashalg) : string :=
  match h with
  | HSha1 => "http://www.w3.org/2000/09/xmldsig#sha1"
  | HSha256 => "http://www.w3.org/2001/04/xmlenc#sha256"
  | HSha384 => "http://www.w3.org/2001/04/xmldsig-more#sha384"
  | HSha512 => "http://www.w3.org/2001/04/xmlenc#sha512"
  end.

Definition hashalg_eqb (a b : hashalg) : bool :=
  match a, b with HSha1, HSha1 | HSha256, HSha256 | HSha384, HSha384 | HSha512, HSha512 => true | _, _ => false end.

Fixpoint lookup_method (id : string) (l : list (string * (keyalg * hashalg))) : option (keyalg * hashalg) :=
  match l with
  | [] => None
  | (k, v) :: r => if k =?s id then Some v else lookup_method id r
  end.

(* sign.go getPublicKeyAlgorithm: KeyStore != nil => RSA; else by the type of signer.Public().
   With neither (NoKey) the Go code dereferences a nil interface: None. *)
Definition pubkey_alg (src : key_source) : option keyalg :=
  match src with
  | FromKeyStore _ => Some KRsa
  | FromSigner a _ => Some a
  | NoKey => None
  end.

(* saml.go SigningContext, the statements between Lock and the first use of the new context:
     signing := sp.spSigningKeyStoreOverride
     if signing == nil && sp.SPSigningKeyStore == nil { signing = sp.spKeyStoreOverride }
     if signing != nil { dsig.NewSigningContext(signing.Signer, [][]byte{signing.Cert}) }
     else { dsig.NewDefaultSigningContext(sp.GetSigningKey()) }      GetSigningKey: SPSigningKeyStore, else SPKeyStore *)
Definition chosen_signing (cfg : sconfig) : option keystore :=
  match cfg_signing_override cfg with
  | Some ks => Some ks
  | None => match cfg_signing_field cfg with
            | None => cfg_enc_override cfg
            | Some _ => None
            end
  end.

Definition new_ctx (cfg : sconfig) : ctx :=
  let src :=
    match chosen_signing cfg with
    | Some ks => FromSigner (ks_alg ks) (ks_cert ks)
    | None => match cfg_signing_field cfg with
              | Some c => FromKeyStore c
              | None => match cfg_enc_field cfg with Some c => FromKeyStore c | None => NoKey end
              end
    end in
  {| c_hash := HSha256; c_source := src; c_canon := canonical_xml11_id |}.

(* sp.signingContext.SetSignatureMethod(sp.SignAuthnRequestsAlgorithm), error result ignored by saml.go:
   unknown identifier or identifier of another key type: context unchanged.
   NoKey with a known identifier: Go panics on the nil signer (an SP without any key is not a configured
   SP; the model leaves the context unchanged there and the harness never configures it). *)
Definition set_method (cfg : sconfig) (c : ctx) : ctx :=
  match lookup_method (cfg_method cfg) signature_methods with
  | None => c
  | Some (a, h) =>
      match pubkey_alg (c_source c) with
      | Some a' => if keyalg_eqb a a' then {| c_hash := h; c_source := c_source c; c_canon := c_canon c |} else c
      | None => c
      end
  end.

(* if sp.SignAuthnRequestsCanonicalizer != nil { sp.signingContext.Canonicalizer = ... } *)
Definition set_canon (cfg : sconfig) (c : ctx) : ctx :=
  match cfg_canon cfg with
  | Some id => {| c_hash := c_hash c; c_source := c_source c; c_canon := id |}
  | None => c
  end.

(* what SigningContext() returns when called alone *)
Definition make_ctx (cfg : sconfig) : ctx := set_canon cfg (set_method cfg (new_ctx cfg)).

(* observables of a context: GetSignatureMethodIdentifier(), GetDigestAlgorithmIdentifier(),
   Canonicalizer.Algorithm(), the certificate put into KeyInfo, whether the deprecated KeyStore field is used *)
Fixpoint method_id_of (a : keyalg) (h : hashalg) (l : list (string * (keyalg * hashalg))) : string :=
  match l with
  | [] => ""
  | (k, (a', h')) :: r => if keyalg_eqb a a' && hashalg_eqb h h' then k else method_id_of a h r
  end.
Definition signature_method_id (c : ctx) : string :=
  match pubkey_alg (c_source c) with
  | Some a => method_id_of a (c_hash c) signature_methods
  | None => ""
  end.
Definition ctx_cert (c : ctx) : string :=
  match c_source c with FromSigner _ x => x | FromKeyStore x => x | NoKey => "" end.
Definition ctx_uses_keystore (c : ctx) : bool :=
  match c_source c with FromKeyStore _ => true | _ => false end.
Definition ctx_val (c : ctx) : val :=
  VC "Ctx" [VS (signature_method_id c); VS (digest_id (c_hash c)); VS (c_canon c); VS (ctx_cert c); VB (ctx_uses_keystore c)].

(* ================= Part 2: interleaving semantics ================= *)

Definition tid := nat.
Definition obj := nat.   (* heap address of a dsig.SigningContext *)

(* program counter of one goroutine inside (or between) calls of SigningContext() *)
Inductive pc :=
| Idle                    (* not in a call *)
| R1                      (* holds RLock, about to read sp.signingContext *)
| R2 (r : option obj)     (* holds RLock, has read r into the local signingContext *)
| B  (r : option obj)     (* released RLock, at  if signingContext != nil { return signingContext } *)
| W0                      (* waiting for Lock *)
| W1                      (* holds Lock (Unlock deferred), about to allocate the context and assign sp.signingContext *)
| W2 (o : obj)            (* holds Lock, about to call sp.signingContext.SetSignatureMethod (writes o.Hash) *)
| W3 (o : obj)            (* holds Lock, at  if canonicalizer != nil { sp.signingContext.Canonicalizer = .. } *)
| W4 (o : obj)            (* holds Lock, about to evaluate  return sp.signingContext *)
| W5 (r : option obj)     (* holds Lock, return value r evaluated, deferred Unlock about to run *)
| Done (o : obj).         (* returned o; the caller uses its fields without any lock *)

Record state := {
  pcs : tid -> pc;
  readers : tid -> bool;      (* goroutines holding the read lock *)
  writer : option tid;        (* goroutine holding the write lock *)
  spctx : option obj;         (* sp.signingContext (None = nil) *)
  next : obj;                 (* allocator *)
  heap : obj -> ctx }.

Definition upd {A} (f : nat -> A) (t : nat) (v : A) : nat -> A :=
  fun t' => if Nat.eqb t' t then v else f t'.

Definition dummy_ctx : ctx := {| c_hash := HSha1; c_source := NoKey; c_canon := "" |}.

Definition init : state :=
  {| pcs := fun _ => Idle; readers := fun _ => false; writer := None; spctx := None;
     next := 0; heap := fun _ => dummy_ctx |}.

Section Protocol.
Variable cfg : sconfig.   (* the SP is configured before it is shared: these fields never change *)

Inductive step : state -> state -> Prop :=
(* sp.signingContextMu.RLock(): granted only while nobody holds the write lock *)
| s_rlock s t : pcs s t = Idle -> writer s = None ->
    step s {| pcs := upd (pcs s) t R1; readers := upd (readers s) t true; writer := writer s;
              spctx := spctx s; next := next s; heap := heap s |}
(* signingContext := sp.signingContext *)
| s_read s t : pcs s t = R1 ->
    step s {| pcs := upd (pcs s) t (R2 (spctx s)); readers := readers s; writer := writer s;
              spctx := spctx s; next := next s; heap := heap s |}
(* sp.signingContextMu.RUnlock() *)
| s_runlock s t r : pcs s t = R2 r ->
    step s {| pcs := upd (pcs s) t (B r); readers := upd (readers s) t false; writer := writer s;
              spctx := spctx s; next := next s; heap := heap s |}
(* if signingContext != nil { return signingContext } *)
| s_fast s t o : pcs s t = B (Some o) ->
    step s {| pcs := upd (pcs s) t (Done o); readers := readers s; writer := writer s;
              spctx := spctx s; next := next s; heap := heap s |}
| s_slow s t : pcs s t = B None ->
    step s {| pcs := upd (pcs s) t W0; readers := readers s; writer := writer s;
              spctx := spctx s; next := next s; heap := heap s |}
(* sp.signingContextMu.Lock(); defer sp.signingContextMu.Unlock(): granted only while no reader and no writer *)
| s_lock s t : pcs s t = W0 -> writer s = None -> (forall t', readers s t' = false) ->
    step s {| pcs := upd (pcs s) t W1; readers := readers s; writer := Some t;
              spctx := spctx s; next := next s; heap := heap s |}
(* NO second nil test here (the Go code has none): a second creator allocates again.
   sp.signingContext = dsig.NewSigningContext(..) / dsig.NewDefaultSigningContext(..) *)
| s_publish s t : pcs s t = W1 ->
    step s {| pcs := upd (pcs s) t (W2 (next s)); readers := readers s; writer := writer s;
              spctx := Some (next s); next := S (next s); heap := upd (heap s) (next s) (new_ctx cfg) |}
(* sp.signingContext.SetSignatureMethod(sp.SignAuthnRequestsAlgorithm) *)
| s_hash s t o : pcs s t = W2 o ->
    step s {| pcs := upd (pcs s) t (W3 o); readers := readers s; writer := writer s;
              spctx := spctx s; next := next s; heap := upd (heap s) o (set_method cfg (heap s o)) |}
(* if sp.SignAuthnRequestsCanonicalizer != nil { sp.signingContext.Canonicalizer = sp.SignAuthnRequestsCanonicalizer } *)
| s_canon s t o : pcs s t = W3 o ->
    step s {| pcs := upd (pcs s) t (W4 o); readers := readers s; writer := writer s;
              spctx := spctx s; next := next s; heap := upd (heap s) o (set_canon cfg (heap s o)) |}
(* return sp.signingContext : the result is evaluated (a read of the shared field) before the deferred Unlock runs *)
| s_reread s t o : pcs s t = W4 o ->
    step s {| pcs := upd (pcs s) t (W5 (spctx s)); readers := readers s; writer := writer s;
              spctx := spctx s; next := next s; heap := heap s |}
(* deferred sp.signingContextMu.Unlock(), then the call returns r *)
| s_unlock s t r : pcs s t = W5 r ->
    step s {| pcs := upd (pcs s) t (match r with Some o => Done o | None => Idle end);
              readers := readers s; writer := None;
              spctx := spctx s; next := next s; heap := heap s |}
(* the caller reads fields of the returned context (signing), any number of times, without a lock *)
| s_use s t o : pcs s t = Done o -> step s s
(* the goroutine calls SigningContext() again later *)
| s_again s t o : pcs s t = Done o ->
    step s {| pcs := upd (pcs s) t Idle; readers := readers s; writer := writer s;
              spctx := spctx s; next := next s; heap := heap s |}.

(* reflexive-transitive closure, growing at the end *)
Inductive reachable : state -> Prop :=
| reach_init : reachable init
| reach_step s s' : reachable s -> step s s' -> reachable s'.

End Protocol.

(* ================= Part 4 (needed by Part 3): the source actions each step stands for ================= *)

(* The lock/access actions (vocabulary of ConcDefs.v, in which gen/ renders the body of SigningContext())
   performed by the step that LEAVES the given program point. *)
Definition actions_of (p : pc) : list action :=
  match p with
  | Idle => [ARLock]
  | R1 => [AReadCtx]
  | R2 _ => [ARUnlock]
  | B _ => [AIfLocalNonNilReturn]
  | W0 => [ALock; ADeferUnlock]
  | W1 => (* if signing == nil && .. { signing = .. } : no shared access *)
          [ABranch; AEndBranch;
          (* if signing != nil { sp.signingContext, err = ..; if err != nil { panic } } else { sp.signingContext = .. } *)
           ABranch; AWriteCtx; ABranch; AEndBranch; AElse; AWriteCtx; AEndBranch]
  | W2 _ => [AUseCtx]
  | W3 _ => [ABranch; AWriteCtxField; AEndBranch]
  | W4 _ => [AReturnCtx]
  | W5 _ => []          (* the deferred Unlock: already listed as ADeferUnlock *)
  | Done _ => []
  end.

(* program points of one call on the slow path, in program order (arguments are irrelevant to actions_of) *)
Definition program_order : list pc := [Idle; R1; R2 None; B None; W0; W1; W2 0; W3 0; W4 0; W5 None].

Definition modelled_shape : list action := flat_map actions_of program_order.

(* receiver-field writes allowed in methods of SAMLServiceProvider: the two configuration-time setters and
   the lazily created context *)
Definition allowed_write (w : string * string) : bool :=
  let (m, f) := w in
  ((m =?s "SetSPKeyStore") && (f =?s "spKeyStoreOverride")) ||
  ((m =?s "SetSPSigningKeyStore") && (f =?s "spSigningKeyStoreOverride")) ||
  ((m =?s "SigningContext") && (f =?s "signingContext")).

(* ================= Part 3: memory accesses and data races ================= *)

Inductive loc := LSp (* the field sp.signingContext *) | LField (o : obj) (* the fields of context o *).
Inductive access := Rd (l : loc) | Wr (l : loc).

(* the context object a program point works on *)
Definition pc_obj (p : pc) : obj :=
  match p with W2 o | W3 o | W4 o | Done o => o | _ => 0 end.

(* shared-memory accesses an action performs (on context o where it dereferences sp.signingContext).
   AUseCtx (a method call on the shared context) is counted as a write to the object: SetSignatureMethod
   assigns ctx.Hash. A conditional field write is counted as a write (over-approximation: more conflicts). *)
Definition action_accesses (o : obj) (a : action) : list access :=
  match a with
  | AReadCtx | AReturnCtx => [Rd LSp]
  | AWriteCtx => [Wr LSp]
  | AUseCtx | AWriteCtxField => [Rd LSp; Wr (LField o)]
  | _ => []
  end.

(* the accesses the next step of a thread at p performs; a caller holding a returned context reads its fields *)
Definition poised (p : pc) : list access :=
  flat_map (action_accesses (pc_obj p)) (actions_of p) ++
  match p with Done o => [Rd (LField o)] | _ => [] end.

Definition conflict (a b : access) : Prop :=
  match a, b with
  | Wr l, Wr l' | Wr l, Rd l' | Rd l, Wr l' => l = l'
  | Rd _, Rd _ => False
  end.

(* two distinct goroutines are about to perform conflicting accesses to one location *)
Definition race (s : state) : Prop :=
  exists t1 t2 a1 a2, t1 <> t2 /\ In a1 (poised (pcs s t1)) /\ In a2 (poised (pcs s t2)) /\ conflict a1 a2.
