(* P_C05Source.v — the clock theorems of C05 restated on the functions TRANSLATED from /repo's validate.go
   (GenFuncs.v, regenerated on every run), through the unit's equations G_Validate_eq / G_VerifyAssertionConditions_eq. *)
From V Require Import Base Time Types SchemaDefs ConcDefs Generated Profile P_Profile P_C05.
From V Require Import GenPrelude GenFuncs P_GenFuncs.

Lemma source_accepted_at_every_earlier_instant cfg now now' r :
  ile now now' -> G_Validate cfg now' r = PVal (Ok tt) -> G_Validate cfg now r = PVal (Ok tt).
Proof.
  intros Hle H. rewrite G_Validate_eq in *. inversion H as [H']. rewrite H'.
  f_equal. eapply accepted_at_every_earlier_instant; eassumption.
Qed.

Lemma source_Validate_never_panics_and_rejection_is_permanent cfg now now' r e :
  ile now now' -> G_Validate cfg now r = PVal (Err e) -> exists e', G_Validate cfg now' r = PVal (Err e').
Proof.
  intros Hle H. rewrite G_Validate_eq in *. inversion H as [H'].
  destruct (rejected_at_every_later_instant cfg now now' r e Hle H') as [e' He']. exists e'. rewrite He'. reflexivity.
Qed.
