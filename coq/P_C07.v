(* P_C07.v — the "bound to the SP's own key" half of C07: lemmas over Keys.v (getDecryptCert) that the C07 property file cites. *)
From Coq Require Import List String Bool.
Import ListNotations.
From V Require Import Base Time Keys P_Keys.
Local Open Scope string_scope.

(* DecryptAssertions is reached only through getDecryptCert with ValidateEncryptionCert on: a certificate that is
   empty, unparsable, not yet valid or expired yields no key material at all *)
Lemma decrypt_cert_window parse_cert now c dc :
  get_decrypt_cert parse_cert true now c = Ok dc ->
  exists cert rest nb na, tc_certs dc = cert :: rest /\ cert <> "" /\ parse_cert cert = Some (nb, na)
                          /\ ibefore now nb = false /\ iafter now na = false.
Proof.
  intros H. apply get_decrypt_cert_inv in H as (_ & _ & _ & _ & HV). specialize (HV eq_refl).
  unfold validate_encryption_cert in HV.
  destruct (tc_certs dc) as [|cert rest] eqn:Hc; [discriminate|].
  destruct (cert =?s "") eqn:He; [discriminate|].
  destruct (parse_cert cert) as [[nb na]|] eqn:Hp; [|discriminate].
  destruct (ibefore now nb) eqn:Hb; [discriminate|]. destruct (iafter now na) eqn:Ha; [discriminate|].
  exists cert, rest, nb, na. repeat split; auto. apply str_eqb_neq. exact He.
Qed.

Lemma decrypt_cert_outside_window_refused parse_cert now c :
  (forall dc cert rest nb na, get_decrypt_cert parse_cert false now c = Ok dc -> tc_certs dc = cert :: rest ->
      parse_cert cert = Some (nb, na) -> ibefore now nb = true \/ iafter now na = true) ->
  forall dc, get_decrypt_cert parse_cert true now c <> Ok dc.
Proof.
  intros Hout dc H.
  destruct (decrypt_cert_window _ _ _ _ H) as (cert & rest & nb & na & Hc & _ & Hp & Hb & Ha).
  assert (H0 : get_decrypt_cert parse_cert false now c = Ok dc).
  { revert H. unfold get_decrypt_cert.
    destruct (kc_enc_override c) as [k|]; [|destruct (kc_enc_field c)]; try discriminate;
      (destruct (decrypt_cert_of_field _) as [d|e]; cbn [bind]; [|discriminate];
       destruct (validate_encryption_cert parse_cert now _) as [[]|e]; cbn [bind]; [auto|discriminate]). }
  destruct (Hout _ _ _ _ _ H0 Hc Hp) as [X|X]; congruence.
Qed.
