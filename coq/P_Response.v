(* P_Response.v — theorems about the tree-level entry points (Response.v), for ALL trees and ALL behaviours of
   the signature and decryption oracles. Used by C01, C02, C03, C04, C07, C08, C10. *)
From V Require Import Base Time Xml Ns SchemaDefs Schema Types ConcDefs Generated Profile Decode Response P_Profile P_Ns.
Local Open Scope string_scope.
Local Open Scope list_scope.

Definition is_assertion (ctx : nsctx) (e : node) : bool := resolves ctx e c_SAMLAssertionNamespace c_AssertionTag.
Definition is_encrypted_assertion (ctx : nsctx) (e : node) : bool := resolves ctx e c_SAMLAssertionNamespace c_EncryptedAssertionTag.

Lemma other_ok {A} (r : res A) a : other r = Ok a -> r = Ok a.
Proof. destruct r; cbn; intros H; inversion H; reflexivity. Qed.

(* ---------- validateElementSignature: goxmldsig's answer, "missing" not believed of an element enveloping a ds:Signature ---------- *)
(* a direct child ELEMENT of root resolves to {http://www.w3.org/2000/09/xmldsig#}Signature *)
Definition EnvelopedSignature (root : node) : Prop := HasChild ds_ns ds_signature_tag root.

Lemma ves_ok dsig el v : validate_element_signature dsig el = DOk v <-> dsig el = DOk v.
Proof.
  unfold validate_element_signature. destruct (dsig el) as [v'| |]; [tauto| |split; discriminate].
  destruct (ns_find_one_child el ds_ns ds_signature_tag) as [[s|]|e]; split; discriminate.
Qed.

Lemma ves_missing dsig el :
  validate_element_signature dsig el = DMissing <->
  dsig el = DMissing /\ ns_find_one_child el ds_ns ds_signature_tag = Ok None.
Proof.
  unfold validate_element_signature. destruct (dsig el) as [v'| |].
  - split; [discriminate|intros [? _]; discriminate].
  - destruct (ns_find_one_child el ds_ns ds_signature_tag) as [[s|]|e]; split; try discriminate; try tauto;
      intros [_ ?]; discriminate.
  - split; [discriminate|intros [? _]; discriminate].
Qed.

Lemma ves_err dsig el : dsig el = DErr -> validate_element_signature dsig el = DErr.
Proof. unfold validate_element_signature. intros ->. reflexivity. Qed.

(* the repaired clause: an element that envelops a ds:Signature child is never "unsigned" *)
Lemma ves_enveloped_not_missing dsig el :
  EnvelopedSignature el -> validate_element_signature dsig el <> DMissing.
Proof.
  intros HE H. apply (proj1 (ves_missing _ _)) in H as [_ H]. exact (ns_find_one_child_none _ _ _ H HE).
Qed.

Lemma ves_enveloped_missing_is_error dsig el :
  EnvelopedSignature el -> dsig el = DMissing -> validate_element_signature dsig el = DErr.
Proof.
  intros HE Hd. unfold validate_element_signature. rewrite Hd.
  destruct (ns_find_one_child el ds_ns ds_signature_tag) as [[s|]|e] eqn:EF; try reflexivity.
  exfalso. exact (ns_find_one_child_none _ _ _ EF HE).
Qed.

Section Theorems.
  Variable dsig : node -> dsig_result.
  Variable decrypt : node -> res node.

  (* [a] was decoded from a tree that the signature oracle returned for the detached copy of the i-th child of [el] *)
  Definition Vouched (el : node) (a : assertion) : Prop :=
    exists i e ctx det v a0,
      subtree el [i] = Some e /\ ctx_at default_ctx el [i] = Some ctx /\ is_assertion ctx e = true /\
      detach ctx e = Ok det /\ dsig det = DOk v /\ unmarshal_assertion v = Ok a0 /\ a = flag_assertion a0.

  Lemma assertion_handler_ok ctx path e acc acc' :
    assertion_handler dsig ctx path e acc = Ok acc' ->
    exists i det v a0, path = [i] /\ detach ctx e = Ok det /\ dsig det = DOk v /\
                       unmarshal_assertion v = Ok a0 /\ acc' = acc ++ [flag_assertion a0].
  Proof.
    unfold assertion_handler. destruct path as [|i [|j r]]; try discriminate.
    unfold bind. destruct (other (detach ctx e)) as [det|er] eqn:ED; [|discriminate].
    apply other_ok in ED.
    destruct (dsig det) as [v| |] eqn:EV; try discriminate.
    destruct (other (unmarshal_assertion v)) as [a0|er] eqn:EU; [|discriminate].
    apply other_ok in EU. intros H; inversion H. exists i, det, v, a0. repeat split; auto.
  Qed.

  (* soundness of the unsigned-Response path: every collected assertion is vouched for *)
  Lemma signed_assertions_sound el l :
    signed_assertions dsig el = Ok l -> Forall (Vouched el) l.
  Proof.
    unfold signed_assertions. intros H.
    eapply (find_iterate_inv _ _ _ (fun acc => Forall (Vouched el) acc)); [| |exact H]; [|constructor].
    intros ctx rel e s0 s1 Hsub Hctx Hres Hcall HI.
    apply assertion_handler_ok in Hcall as (i & det & v & a0 & -> & Hd & Hv & Hu & ->).
    apply Forall_app. split; [exact HI|]. constructor; [|constructor].
    exists i, e, ctx, det, v, a0. repeat split; auto.
  Qed.

  (* ... and every Assertion element anywhere in the tree is a direct child that verified individually *)
  Lemma signed_assertions_all_direct_and_signed el l :
    signed_assertions dsig el = Ok l ->
    forall rel e ctx, subtree el rel = Some e -> is_elem e = true -> ctx_at default_ctx el rel = Some ctx ->
      is_assertion ctx e = true ->
      exists i det v, rel = [i] /\ detach ctx e = Ok det /\ dsig det = DOk v.
  Proof.
    intros H rel e ctx Hsub He Hctx Hres.
    destruct (find_iterate_covers _ _ _ el [] l H rel e ctx Hsub He Hctx Hres) as (s0 & s1 & Hcall).
    apply assertion_handler_ok in Hcall as (i & det & v & a0 & -> & Hd & Hv & _ & _).
    exists i, det, v. auto.
  Qed.

  Lemma decrypt_handler_ok ctx path e st st' :
    decrypt_handler decrypt ctx path e st = Ok st' ->
    exists i det plain, path = [i] /\ detach ctx e = Ok det /\ decrypt det = Ok plain /\
                        st' = (i :: fst st, snd st ++ [plain]).
  Proof.
    unfold decrypt_handler. destruct path as [|i [|j r]]; try discriminate.
    unfold bind. destruct (other (detach ctx e)) as [det|er] eqn:ED; [|discriminate]. apply other_ok in ED.
    destruct (other (decrypt det)) as [p|er] eqn:EP; [|discriminate]. apply other_ok in EP.
    intros H; inversion H. exists i, det, p. auto.
  Qed.

  (* every EncryptedAssertion element anywhere below [el] must be a direct child (and decrypt successfully) *)
  Lemma decrypt_assertions_all_direct el el' :
    decrypt_assertions decrypt el = Ok el' ->
    forall rel e ctx, subtree el rel = Some e -> is_elem e = true -> ctx_at default_ctx el rel = Some ctx ->
      is_encrypted_assertion ctx e = true ->
      exists i det plain, rel = [i] /\ detach ctx e = Ok det /\ decrypt det = Ok plain.
  Proof.
    unfold decrypt_assertions. intros H rel e ctx Hsub He Hctx Hres.
    match type of H with (do st <- ?F; _) = _ => destruct F as [st|er] eqn:EF end; cbn [bind] in H; [|discriminate].
    destruct (find_iterate_covers _ _ _ el _ st EF rel e ctx Hsub He Hctx Hres) as (s0 & s1 & Hcall).
    apply decrypt_handler_ok in Hcall as (i & det & p & -> & Hd & Hp & _).
    exists i, det, p. auto.
  Qed.

  (* the plaintexts appended by decryption are exactly oracle outputs for detached direct children *)
  Definition FromDecryption (el : node) (p : node) : Prop :=
    exists i e ctx det, subtree el [i] = Some e /\ ctx_at default_ctx el [i] = Some ctx /\
                        is_encrypted_assertion ctx e = true /\ detach ctx e = Ok det /\ decrypt det = Ok p.

  Lemma decrypt_assertions_shape el el' :
    decrypt_assertions decrypt el = Ok el' ->
    match el with
    | Elem sp tg attrs kids =>
        exists removed plains, el' = Elem sp tg attrs (remove_indices_from 0 removed kids ++ plains) /\
                               Forall (FromDecryption el) plains
    | _ => el' = el
    end.
  Proof.
    unfold decrypt_assertions. intros H.
    match type of H with (do st <- ?F; _) = _ => destruct F as [st|er] eqn:EF end; cbn [bind] in H; [|discriminate].
    assert (HI : Forall (FromDecryption el) (snd st)).
    { eapply (find_iterate_inv _ _ _ (fun s => Forall (FromDecryption el) (snd s))); [| |exact EF]; [|constructor].
      intros ctx rel e s0 s1 Hsub Hctx Hres Hcall HI.
      apply decrypt_handler_ok in Hcall as (i & det & p & -> & Hd & Hp & ->). cbn [snd].
      apply Forall_app. split; [exact HI|]. constructor; [|constructor].
      exists i, e, ctx, det. repeat split; auto. }
    destruct el; inversion H; subst; auto.
    exists (fst st), (snd st). split; auto.
  Qed.

  (* ---------- ValidateEncodedResponse ---------- *)
  Definition SignedPath (cfg : config) (now : instant) (root : node) (r : response) : Prop :=
    exists signed signed' r0,
      dsig root = DOk signed /\ decrypt_assertions decrypt signed = Ok signed' /\
      unmarshal_response signed' = Ok r0 /\
      r = with_flag r0 true (r_assertions r0) (r_encrypted_count r0).

  Definition UnsignedPath (cfg : config) (now : instant) (root : node) (r : response) : Prop :=
    exists r0 root',
      dsig root = DMissing /\ unmarshal_response root = Ok r0 /\
      decrypt_assertions decrypt root = Ok root' /\
      signed_assertions dsig root' = Ok (r_assertions r) /\
      r = with_flag r0 false (r_assertions r) 0 /\
      Forall (Vouched root') (r_assertions r) /\
      ns_find_one_child root ds_ns ds_signature_tag = Ok None.     (* validateElementSignature found no enveloped ds:Signature *)

  Lemma response_sound cfg now root r :
    cfg_skip_sig cfg = false ->
    validate_response_tree dsig decrypt cfg now root = Ok r ->
    validate cfg now r = Ok tt /\ (SignedPath cfg now root r \/ UnsignedPath cfg now root r).
  Proof.
    intros Hs. unfold validate_response_tree. rewrite Hs.
    destruct (validate_element_signature dsig root) as [signed| |] eqn:ED; [| |discriminate].
    - apply (proj1 (ves_ok _ _ _)) in ED. unfold bind. destruct (decrypt_assertions decrypt signed) as [signed'|er] eqn:EDEC; [|discriminate].
      destruct (other (unmarshal_response signed')) as [r0|er] eqn:EU; [|discriminate]. apply other_ok in EU.
      destruct (validate cfg now (with_flag r0 true (r_assertions r0) (r_encrypted_count r0))) as [[]|er] eqn:EV; [|discriminate].
      intros H; inversion H; subst. split; [exact EV|]. left. exists signed, signed', r0. repeat split; auto.
    - apply (proj1 (ves_missing _ _)) in ED as [ED ENS]. unfold bind. destruct (unmarshal_response root) as [r0|er] eqn:EU; [|discriminate].
      destruct (decrypt_assertions decrypt root) as [root'|er] eqn:EDEC; [|discriminate].
      destruct (signed_assertions dsig root') as [l|er] eqn:ESA; [|discriminate].
      destruct (validate cfg now (with_flag r0 false l 0)) as [[]|er] eqn:EV; [|discriminate].
      intros H; inversion H; subst. split; [exact EV|]. right. exists r0, root'. cbn [r_assertions with_flag].
      repeat split; auto. apply signed_assertions_sound; exact ESA.
  Qed.

  (* what the unsigned path says about the root: goxmldsig found no signature referencing it AND it envelops none *)
  Lemma unsigned_path_no_enveloped_signature cfg now root r :
    UnsignedPath cfg now root r -> dsig root = DMissing /\ ~ EnvelopedSignature root.
  Proof.
    intros (r0 & root' & Hd & _ & _ & _ & _ & _ & HN). split; [exact Hd|]. exact (ns_find_one_child_none _ _ _ HN).
  Qed.

  Lemma skip_path cfg now root r :
    cfg_skip_sig cfg = true ->
    validate_response_tree dsig decrypt cfg now root = Ok r ->
    validate cfg now r = Ok tt /\
    exists r0, unmarshal_response root = Ok r0 /\ r = with_flag r0 false (r_assertions r0) (r_encrypted_count r0).
  Proof.
    intros Hs. unfold validate_response_tree. rewrite Hs. unfold bind.
    destruct (other (unmarshal_response root)) as [r0|er] eqn:EU; [|discriminate]. apply other_ok in EU.
    destruct (validate cfg now (with_flag r0 false (r_assertions r0) (r_encrypted_count r0))) as [[]|er] eqn:EV; [|discriminate].
    intros H; inversion H; subst. split; [exact EV|]. exists r0. auto.
  Qed.

  (* C03: every path ends with the profile validation *)
  Lemma every_path_validates cfg now root r :
    validate_response_tree dsig decrypt cfg now root = Ok r -> validate cfg now r = Ok tt.
  Proof.
    intros H. destruct (cfg_skip_sig cfg) eqn:Hs.
    - apply (skip_path _ _ _ _ Hs H).
    - apply (response_sound _ _ _ _ Hs H).
  Qed.

  (* C02: a signature that is present but does not verify is fatal *)
  Lemma bad_root_signature_fatal cfg now root :
    cfg_skip_sig cfg = false -> dsig root = DErr ->
    exists e, validate_response_tree dsig decrypt cfg now root = Err e /\ e <> EMissingSignature.
  Proof.
    intros Hs Hd. unfold validate_response_tree. rewrite Hs, (ves_err _ _ Hd). eexists; split; [reflexivity|discriminate].
  Qed.

  (* C01 / C02: in an unsigned Response, ANY Assertion element anywhere that is not a direct child, or whose own
     signature is missing or does not verify, rejects the whole message *)
  Lemma unsigned_response_needs_all_signed cfg now root r :
    cfg_skip_sig cfg = false -> dsig root = DMissing ->
    validate_response_tree dsig decrypt cfg now root = Ok r ->
    exists root', decrypt_assertions decrypt root = Ok root' /\
      forall rel e ctx, subtree root' rel = Some e -> is_elem e = true -> ctx_at default_ctx root' rel = Some ctx ->
        is_assertion ctx e = true -> exists i det v, rel = [i] /\ detach ctx e = Ok det /\ dsig det = DOk v.
  Proof.
    intros Hs Hd H. destruct (response_sound _ _ _ _ Hs H) as [_ [(s & s' & r0 & Hd' & _)|(r0 & root' & _ & _ & Hdec & Hsa & _)]].
    - rewrite Hd in Hd'. discriminate.
    - exists root'. split; auto. eapply signed_assertions_all_direct_and_signed; eauto.
  Qed.

  (* C07: an EncryptedAssertion that is not a direct child of the element being processed rejects the message *)
  Lemma encrypted_assertion_must_be_direct_child cfg now root r :
    cfg_skip_sig cfg = false ->
    validate_response_tree dsig decrypt cfg now root = Ok r ->
    exists base, (dsig root = DOk base \/ (dsig root = DMissing /\ base = root)) /\
      forall rel e ctx, subtree base rel = Some e -> is_elem e = true -> ctx_at default_ctx base rel = Some ctx ->
        is_encrypted_assertion ctx e = true ->
        exists i det plain, rel = [i] /\ detach ctx e = Ok det /\ decrypt det = Ok plain.
  Proof.
    intros Hs H. destruct (response_sound _ _ _ _ Hs H) as [_ [(s & s' & r0 & Hd & Hdec & _)|(r0 & root' & Hd & _ & Hdec & _)]].
    - exists s. split; auto. eapply decrypt_assertions_all_direct; eauto.
    - exists root. split; auto. eapply decrypt_assertions_all_direct; eauto.
  Qed.

  (* C04: what the flags say *)
  Lemma flags_when_skipping cfg now root r :
    cfg_skip_sig cfg = true -> validate_response_tree dsig decrypt cfg now root = Ok r ->
    r_signature_validated r = false /\ exists r0, unmarshal_response root = Ok r0 /\ r_assertions r = r_assertions r0.
  Proof.
    intros Hs H. destruct (skip_path _ _ _ _ Hs H) as [_ (r0 & Hu & ->)]. split; [reflexivity|]. exists r0. auto.
  Qed.

  Lemma response_flag_iff cfg now root r :
    cfg_skip_sig cfg = false -> validate_response_tree dsig decrypt cfg now root = Ok r ->
    (r_signature_validated r = true <-> exists v, dsig root = DOk v).
  Proof.
    intros Hs H. destruct (response_sound _ _ _ _ Hs H) as [_ [(s & s' & r0 & Hd & _ & _ & ->)|(r0 & root' & Hd & _ & _ & _ & -> & _)]]; cbn.
    - split; eauto.
    - split; [discriminate|]. intros (v & Hv). rewrite Hd in Hv. discriminate.
  Qed.

  Lemma unflagged_response_all_assertions_flagged cfg now root r :
    cfg_skip_sig cfg = false -> validate_response_tree dsig decrypt cfg now root = Ok r ->
    r_signature_validated r = false ->
    Forall (fun a => a_signature_validated a = true) (r_assertions r) /\
    exists root', decrypt_assertions decrypt root = Ok root' /\ Forall (Vouched root') (r_assertions r).
  Proof.
    intros Hs H Hf. destruct (response_sound _ _ _ _ Hs H) as [_ [(s & s' & r0 & _ & _ & _ & ->)|(r0 & root' & _ & _ & Hdec & _ & _ & HV & _)]].
    - discriminate.
    - split; [|eauto]. eapply Forall_impl; [|exact HV].
      intros a (i & e & ctx & det & v & a0 & _ & _ & _ & _ & _ & _ & ->). reflexivity.
  Qed.

  (* ---------- RetrieveAssertionInfo ---------- *)
  Lemma retrieve_info_ok cfg now root i :
    retrieve_assertion_info_tree dsig decrypt cfg now root = Ok i ->
    exists r, validate_response_tree dsig decrypt cfg now root = Ok r /\ retrieve_info_of cfg now r = Ok i /\
              ai_response_signature_validated i = r_signature_validated r /\ ai_assertions i = r_assertions r.
  Proof.
    unfold retrieve_assertion_info_tree, retrieve_info.
    destruct (validate_response_tree dsig decrypt cfg now root) as [r|e]; [|discriminate].
    intros H. exists r. split; auto. split; auto.
    unfold retrieve_info_of in H. destruct (r_assertions r) as [|a rest] eqn:EA; [discriminate|].
    unfold bind in H. destruct (verify_conditions cfg now a); [|discriminate].
    destruct (a_subject a) as [sub|]; [|discriminate]. destruct (sub_name_id sub); [|discriminate].
    destruct (a_attribute_statement a); [|destruct (cfg_allow_missing_attrs cfg); [|discriminate]];
      inversion H; subst; cbn; (split; [reflexivity | congruence]).
  Qed.

  Lemma retrieve_info_wraps_validation_error cfg now root e :
    validate_response_tree dsig decrypt cfg now root = Err e ->
    retrieve_assertion_info_tree dsig decrypt cfg now root = Err (EVerification e).
  Proof. unfold retrieve_assertion_info_tree, retrieve_info. intros ->. reflexivity. Qed.

  (* ---------- logout ---------- *)
  Lemma logout_step_ok cfg root el flag :
    logout_signature_step dsig cfg root = Ok (el, flag) ->
    (flag = true <-> cfg_skip_sig cfg = false /\ dsig root = DOk el) /\
    (flag = false -> el = root /\ (cfg_skip_sig cfg = true \/ (dsig root = DMissing /\ ~ EnvelopedSignature root))).
  Proof.
    unfold logout_signature_step. destruct (cfg_skip_sig cfg).
    - intros H; inversion H; subst. split; [split; [discriminate|intros [? _]; discriminate]|auto].
    - destruct (validate_element_signature dsig root) as [v| |] eqn:ED; intros H; inversion H; subst.
      + apply (proj1 (ves_ok _ _ _)) in ED. split; [split; auto|discriminate].
      + apply (proj1 (ves_missing _ _)) in ED as [ED ENS]. apply ns_find_one_child_none in ENS.
        split; [split; [discriminate|intros [_ ?]; congruence]|auto].
  Qed.

  Lemma logout_response_accept cfg root r :
    validate_logout_response_tree dsig cfg root = Ok r ->
    exists el flag r0, logout_signature_step dsig cfg root = Ok (el, flag) /\
      unmarshal_logout_response el = Ok r0 /\ r = lr_with_flag r0 flag /\ validate_logout_response cfg r = Ok tt.
  Proof.
    unfold validate_logout_response_tree, bind.
    destruct (logout_signature_step dsig cfg root) as [[el flag]|e]; [|discriminate]. cbn [fst snd].
    destruct (other (unmarshal_logout_response el)) as [r0|e] eqn:EU; [|discriminate]. apply other_ok in EU.
    destruct (validate_logout_response cfg (lr_with_flag r0 flag)) as [[]|e] eqn:EV; [|discriminate].
    intros H; inversion H; subst. exists el, flag, r0. auto.
  Qed.

  Lemma logout_request_accept cfg root r :
    validate_logout_request_tree dsig cfg root = Ok r ->
    exists el flag r0, logout_signature_step dsig cfg root = Ok (el, flag) /\
      unmarshal_logout_request el = Ok r0 /\ r = lq_with_flag r0 flag /\ validate_logout_request cfg r = Ok tt.
  Proof.
    unfold validate_logout_request_tree, bind.
    destruct (logout_signature_step dsig cfg root) as [[el flag]|e]; [|discriminate]. cbn [fst snd].
    destruct (other (unmarshal_logout_request el)) as [r0|e] eqn:EU; [|discriminate]. apply other_ok in EU.
    destruct (validate_logout_request cfg (lq_with_flag r0 flag)) as [[]|e] eqn:EV; [|discriminate].
    intros H; inversion H; subst. exists el, flag, r0. auto.
  Qed.

  Lemma logout_bad_signature_fatal cfg root :
    cfg_skip_sig cfg = false -> dsig root = DErr ->
    (exists e, validate_logout_response_tree dsig cfg root = Err e) /\
    (exists e, validate_logout_request_tree dsig cfg root = Err e).
  Proof.
    intros Hs Hd. unfold validate_logout_response_tree, validate_logout_request_tree, logout_signature_step.
    rewrite Hs, (ves_err _ _ Hd). cbn. eauto.
  Qed.
End Theorems.

(* ---------- logout profile, declaratively ---------- *)
Definition LogoutResponseOK (cfg : config) (r : logout_response) : Prop :=
  AttrsOK (cfg_slo_url cfg) (lr_destination r) (lr_version r) /\ IssuerOK cfg (lr_issuer r) /\ StatusOK (lr_status r).
Definition LogoutRequestOK (cfg : config) (r : logout_request) : Prop :=
  AttrsOK (cfg_slo_url cfg) (lq_destination r) (lq_version r) /\ IssuerOK cfg (lq_issuer r).

Lemma validate_logout_response_iff cfg r : validate_logout_response cfg r = Ok tt <-> LogoutResponseOK cfg r.
Proof.
  unfold validate_logout_response, LogoutResponseOK, bind.
  destruct (validate_attrs (cfg_slo_url cfg) (lr_destination r) (lr_version r)) as [[]|e] eqn:EA.
  2:{ split; [discriminate|]. intros (H & _). apply validate_attrs_ok in H. congruence. }
  apply validate_attrs_ok in EA.
  destruct (check_issuer cfg (lr_issuer r)) as [[]|e] eqn:EI.
  2:{ split; [discriminate|]. intros (_ & H & _). apply check_issuer_ok in H. congruence. }
  apply check_issuer_ok in EI. rewrite check_status_ok. tauto.
Qed.

Lemma validate_logout_request_iff cfg r : validate_logout_request cfg r = Ok tt <-> LogoutRequestOK cfg r.
Proof.
  unfold validate_logout_request, LogoutRequestOK, bind.
  destruct (validate_attrs (cfg_slo_url cfg) (lq_destination r) (lq_version r)) as [[]|e] eqn:EA.
  2:{ split; [discriminate|]. intros (H & _). apply validate_attrs_ok in H. congruence. }
  apply validate_attrs_ok in EA. rewrite check_issuer_ok. tauto.
Qed.

(* ---------- the trust flags are not decodable from the message (struct tags `xml:"-"`, tie to the source) ---------- *)
Definition flag_field_is_skipped (sname : string) : bool :=
  match assoc_get sname xml_schema with
  | Some fs => match find (fun f => f_go f =?s "SignatureValidated") fs with
               | Some f => match f_kind f with KSkip => true | _ => false end
               | None => false
               end
  | None => false
  end.

Lemma flag_fields_not_decodable :
  forallb flag_field_is_skipped ["Response"; "Assertion"; "LogoutResponse"; "LogoutRequest"] = true.
Proof. vm_compute. reflexivity. Qed.
