(* Schema.v — generic interpreter of encoding/xml.Unmarshal (go1.24.0, read.go / xml.go) over element trees,
   driven by the struct-tag schema that gen/ extracts from /repo (Generated.xml_schema).

   It models  xmlUnmarshalElement(el, &T{})  =  xml.Unmarshal(etree-serialisation of el, &T{}) as:
     1. the token view of the serialised element: name-space translation of element and attribute names
        exactly as Decoder.Token does (undeclared prefix => Space = prefix; default space only for
        elements), comments / processing instructions / directives dropped; character data and attribute
        values AS THEY ARE in the element: xmlUnmarshalElement writes with WriteSettings.CanonicalText and
        CanonicalAttrVal (repair of F13), so U+000D (and TAB / LF in attribute values) goes out as a character
        reference and the tokenizer gives it back ([view]; justification: EscapeProofs.xml_reader_after_canonical_escape,
        P_Canon.canon_values_recovered).  Under etree's DEFAULT write settings -- xmlUnmarshalElement before that
        repair, and goxmldsig's own re-serialisation of the Signature element to this day -- U+000D is written raw
        and the tokenizer reads it as U+000A: [view_original], CR normalised to LF;
     2. Decoder.unmarshal: XMLName check (local and name space; mismatch is an ERROR), attribute fields
        matched on local name (+ name space if the tag gives one), in attribute order, later ones
        overwrite; element fields matched with unmarshalPath ("a>b>c" parent paths, first field in
        declaration order wins), pointer fields allocated once and re-filled by a repeated element,
        slices appended, chardata = concatenation of all direct character data, scalar conversion as
        copyValue (TrimSpace + ParseInt / ParseBool), time.Time through UnmarshalText (strict RFC 3339).
   Law assumed (exercised by every XML-level correspondence case): tokenising etree's serialisation of a
   tree (under the write settings in force) yields that tree's tokens (H_unmarshal_view, DESIGN.md section 7). *)
From V Require Import Base Time Xml SchemaDefs.
Local Open Scope string_scope.
Local Open Scope list_scope.

(* ---------- 1. token view ---------- *)
Record xattr := { xa_space : string; xa_local : string; xa_val : string }.
Inductive xnode :=
| XElem (space local : string) (attrs : list xattr) (kids : list xnode)
| XText (s : string).

Definition xmlURL := "http://www.w3.org/XML/1998/namespace".

Fixpoint ns_lookup (ns : list (string * string)) (p : string) : option string :=
  match ns with
  | [] => None
  | (k, v) :: r => if k =?s p then Some v else ns_lookup r p
  end.

Definition push_decls (ns : list (string * string)) (attrs : list attr) : list (string * string) :=
  fold_left (fun ns a =>
               if at_space a =?s "xmlns" then (at_key a, at_val a) :: ns
               else if (at_space a =?s "") && (at_key a =?s "xmlns") then ("", at_val a) :: ns
               else ns) attrs ns.

Definition translate_name (ns : list (string * string)) (space local : string) (is_elem : bool) : string :=
  if space =?s "xmlns" then space
  else if (space =?s "") && negb is_elem then space
  else if (space =?s "") && (local =?s "xmlns") then space
  else
    let space' := if space =?s "xml" then xmlURL else space in
    match ns_lookup ns space' with
    | Some v => v
    | None => space'      (* undeclared prefix stays; "" stays "" (DefaultSpace) *)
    end.

(* CR LF -> LF, lone CR -> LF (what the tokenizer does to raw U+000D in its input) *)
Fixpoint cr_normalise (s : string) : string :=
  match s with
  | EmptyString => EmptyString
  | String c r =>
      if Ascii.eqb c "013"%char then
        match r with
        | String c2 r2 => if Ascii.eqb c2 "010"%char then String "010"%char (cr_normalise r2)
                          else String "010"%char (cr_normalise r)
        | EmptyString => String "010"%char EmptyString
        end
      else String c (cr_normalise r)
  end.

(* one view per etree write setting: [ct] = WriteSettings.CanonicalText, [ca] = WriteSettings.CanonicalAttrVal.  A value
   written canonically comes back as it is; a value written with the default escaper comes back CR-normalised. *)
Definition read_back (canonical : bool) (s : string) : string := if canonical then s else cr_normalise s.

Fixpoint view_ws (ct ca : bool) (ns : list (string * string)) (n : node) : list xnode :=
  match n with
  | Elem sp tg attrs kids =>
      let ns' := push_decls ns attrs in
      [XElem (translate_name ns' sp tg true) tg
             (map (fun a => {| xa_space := translate_name ns' (at_space a) (at_key a) false;
                               xa_local := at_key a; xa_val := read_back ca (at_val a) |}) attrs)
             (flat_map (view_ws ct ca ns') kids)]
  | Text s => [XText (read_back ct s)]
  | _ => []
  end.

(* xmlUnmarshalElement (CanonicalText, CanonicalAttrVal): the values of the element, exactly *)
Fixpoint view (ns : list (string * string)) (n : node) : list xnode :=
  match n with
  | Elem sp tg attrs kids =>
      let ns' := push_decls ns attrs in
      [XElem (translate_name ns' sp tg true) tg
             (map (fun a => {| xa_space := translate_name ns' (at_space a) (at_key a) false;
                               xa_local := at_key a; xa_val := at_val a |}) attrs)
             (flat_map (view ns') kids)]
  | Text s => [XText s]
  | _ => []
  end.

(* etree's default write settings: xmlUnmarshalElement before the repair of F13; goxmldsig's re-serialisation (Dsig.v) *)
Fixpoint view_original (ns : list (string * string)) (n : node) : list xnode :=
  match n with
  | Elem sp tg attrs kids =>
      let ns' := push_decls ns attrs in
      [XElem (translate_name ns' sp tg true) tg
             (map (fun a => {| xa_space := translate_name ns' (at_space a) (at_key a) false;
                               xa_local := at_key a; xa_val := cr_normalise (at_val a) |}) attrs)
             (flat_map (view_original ns') kids)]
  | Text s => [XText (cr_normalise s)]
  | _ => []
  end.

(* the token view of bytes that are READ DIRECTLY into a struct (the unverified pre-decoders: xml.Decoder.Decode on the
   received bytes, no etree serialisation in between): nothing is normalised here -- raw CR / CR LF of the input were turned
   into LF by the tokenizer already (XmlTok.v), and a U+000D that entered a value through a character reference
   (&#13; / &#xD;) STAYS.  Since the repair of F13 this is [view] (P_Schema.view_direct_is_view); [view_original] differs
   exactly on values with U+000D (DESIGN.md section 6, F13). *)
Fixpoint view_direct (ns : list (string * string)) (n : node) : list xnode :=
  match n with
  | Elem sp tg attrs kids =>
      let ns' := push_decls ns attrs in
      [XElem (translate_name ns' sp tg true) tg
             (map (fun a => {| xa_space := translate_name ns' (at_space a) (at_key a) false;
                               xa_local := at_key a; xa_val := at_val a |}) attrs)
             (flat_map (view_direct ns') kids)]
  | Text s => [XText s]
  | _ => []
  end.

(* ---------- 2. values ---------- *)
Inductive gval :=
| GStr (s : string)
| GInt (z : Z)
| GBool (b : bool)
| GTime (t : instant)
| GBytes (set : bool) (s : string)
| GName (space local : string)
| GStruct (fields : list (string * gval))      (* only fields that have been written; others are zero *)
| GPtr (o : option gval)
| GSlice (l : list gval).

Definition zero_of (t : ftype) : gval :=
  match t with
  | TStr => GStr ""
  | TInt => GInt 0
  | TBool => GBool false
  | TTime => GTime zero_time
  | TBytes => GBytes false ""
  | TName => GName "" ""
  | TStruct _ => GStruct []
  | TPtr _ => GPtr None
  | TSlice _ => GSlice []
  end.

Fixpoint assoc_get {A} (k : string) (l : list (string * A)) : option A :=
  match l with
  | [] => None
  | (k', v) :: r => if k =?s k' then Some v else assoc_get k r
  end.
Fixpoint assoc_set {A} (k : string) (v : A) (l : list (string * A)) : list (string * A) :=
  match l with
  | [] => [(k, v)]
  | (k', v') :: r => if k =?s k' then (k, v) :: r else (k', v') :: assoc_set k v r
  end.

Definition field_get (fs : list (string * gval)) (f : field) : gval :=
  match assoc_get (f_go f) fs with Some v => v | None => zero_of (f_type f) end.

(* ---------- scalar conversion (copyValue) ---------- *)
Definition is_space_byte (c : ascii) : bool :=
  let n := N_of_ascii c in
  (N.eqb n 9) || (N.eqb n 10) || (N.eqb n 11) || (N.eqb n 12) || (N.eqb n 13) || (N.eqb n 32) || (N.eqb n 133) || (N.eqb n 160).
(* strings.TrimSpace trims Unicode white space; in UTF-8 input U+0085 and U+00A0 are two-byte sequences
   (C2 85 / C2 A0), so only the ASCII white-space bytes can be trimmed byte-wise; bytes 133 and 160 alone
   are invalid UTF-8 and are NOT trimmed.  The model trims ASCII white space only. *)
Definition is_ascii_space (c : ascii) : bool :=
  let n := N_of_ascii c in
  (N.eqb n 9) || (N.eqb n 10) || (N.eqb n 11) || (N.eqb n 12) || (N.eqb n 13) || (N.eqb n 32).
Fixpoint trim_left (s : string) : string :=
  match s with
  | String c r => if is_ascii_space c then trim_left r else s
  | EmptyString => EmptyString
  end.
Fixpoint rev_string_acc (s acc : string) : string :=
  match s with EmptyString => acc | String c r => rev_string_acc r (String c acc) end.
Definition rev_string (s : string) := rev_string_acc s EmptyString.
Definition trim_space (s : string) : string := rev_string (trim_left (rev_string (trim_left s))).

Fixpoint digits_val (s : string) (acc : Z) : option Z :=
  match s with
  | EmptyString => Some acc
  | String c r => let n := Z.of_N (N_of_ascii c) in
                  if (48 <=? n)%Z && (n <=? 57)%Z then digits_val r (acc * 10 + (n - 48))%Z else None
  end.
(* strconv.ParseInt(s, 10, 64): optional sign, decimal digits (base 10: no underscores), range check *)
Definition parse_int64 (s : string) : option Z :=
  let body sgn r := match r with
                    | EmptyString => None
                    | _ => match digits_val r 0 with
                           | Some v => let v' := (sgn * v)%Z in
                                       if (-9223372036854775808 <=? v')%Z && (v' <=? 9223372036854775807)%Z then Some v' else None
                           | None => None
                           end
                    end in
  match s with
  | String "+"%char r => body 1%Z r
  | String "-"%char r => body (-1)%Z r
  | _ => body 1%Z s
  end.
Definition parse_bool (s : string) : option bool :=
  if (s =?s "1") || (s =?s "t") || (s =?s "T") || (s =?s "TRUE") || (s =?s "true") || (s =?s "True") then Some true
  else if (s =?s "0") || (s =?s "f") || (s =?s "F") || (s =?s "FALSE") || (s =?s "false") || (s =?s "False") then Some false
  else None.

Definition parse_time_strict (s : string) : option instant := parse_rfc3339_strict s.

(* copyValue / UnmarshalText on a scalar destination of type [t] (pointers allocated) *)
Fixpoint set_scalar (t : ftype) (src : string) : res gval :=
  match t with
  | TStr => Ok (GStr src)
  | TBytes => Ok (GBytes true src)
  | TInt => if src =?s "" then Ok (GInt 0)
            else match parse_int64 (trim_space src) with Some z => Ok (GInt z) | None => Err (EOther "strconv.ParseInt") end
  | TBool => if src =?s "" then Ok (GBool false)
             else match parse_bool (trim_space src) with Some b => Ok (GBool b) | None => Err (EOther "strconv.ParseBool") end
  | TTime => match parse_time_strict src with Some i => Ok (GTime i) | None => Err (EOther "time.UnmarshalText") end
  | TPtr t' => do v <- set_scalar t' src; Ok (GPtr (Some v))
  | _ => Err (EOther "cannot unmarshal into this type")
  end.

(* ---------- 3. Decoder.unmarshal ---------- *)
Definition schema := list (string * list field).

Fixpoint text_of_kids (kids : list xnode) : string :=
  match kids with
  | [] => ""
  | XText s :: r => s ++ text_of_kids r
  | _ :: r => text_of_kids r
  end.

Fixpoint is_prefix_of (p l : list string) : bool :=
  match p, l with
  | [], _ => true
  | a :: p', b :: l' => (a =?s b) && is_prefix_of p' l'
  | _, [] => false
  end.

Definition xml_name_of (fs : list field) : option (string * string) :=
  match find (fun f => match f_kind f with KXMLName _ _ => true | _ => false end) fs with
  | Some f => match f_kind f with KXMLName s l => Some (s, l) | _ => None end
  | None => None
  end.

Definition has_chardata (fs : list field) : option field :=
  find (fun f => match f_kind f with KCharData => true | _ => false end) fs.
Definition has_innerxml (fs : list field) : option field :=
  find (fun f => match f_kind f with KInnerXML => true | _ => false end) fs.

Section Unmarshal.
  Variable sch : schema.

  (* assign one attribute to every matching attr field (all matching fields are written, in field order) *)
  Fixpoint assign_attr (fs : list field) (a : xattr) (vals : list (string * gval)) : res (list (string * gval)) :=
    match fs with
    | [] => Ok vals
    | f :: r =>
        match f_kind f with
        | KAttr ns name =>
            if (xa_local a =?s name) && ((ns =?s "") || (ns =?s xa_space a)) then
              do v <- set_scalar (f_type f) (xa_val a);
              assign_attr r a (assoc_set (f_go f) v vals)
            else assign_attr r a vals
        | _ => assign_attr r a vals
        end
    end.

  Fixpoint assign_attrs (fs : list field) (attrs : list xattr) (vals : list (string * gval)) : res (list (string * gval)) :=
    match attrs with
    | [] => Ok vals
    | a :: r => do vals' <- assign_attr fs a vals; assign_attrs fs r vals'
    end.

  (* the first field (declaration order) that unmarshalPath selects for a start element named
     (space, local) below the parent path [parents]:  inl f = perfect match,  inr ps = recurse with path ps *)
  Fixpoint path_select (fs : list field) (parents : list string) (space local : string)
    : option (field + list string) :=
    match fs with
    | [] => None
    | f :: r =>
        match f_kind f with
        | KElem ps ns name =>
            if (Nat.ltb (List.length ps) (List.length parents)) || (negb (ns =?s "") && negb (ns =?s space))
               || negb (is_prefix_of parents ps)
            then path_select r parents space local
            else if (Nat.eqb (List.length ps) (List.length parents)) && (name =?s local) then Some (inl f)
            else if (Nat.ltb (List.length parents) (List.length ps)) && (nth (List.length parents) ps "" =?s local)
                 then Some (inr (firstn (Datatypes.S (List.length parents)) ps))
            else path_select r parents space local
        | _ => path_select r parents space local
        end
    end.

  (* unmarshalPath + the child loop of Decoder.unmarshal: walks the children [kids] below the parent path
     [parents], threading the field values; [um] is Decoder.unmarshal at the next depth (open recursion). *)
  Fixpoint walk (um : ftype -> gval -> xnode -> res gval) (fs : list field)
           (fuel2 : nat) (parents : list string) (kids : list xnode) (vals : list (string * gval))
    {struct fuel2} : res (list (string * gval)) :=
    match fuel2 with
    | O => Err (EOther "out of fuel")
    | Datatypes.S fuel2' =>
      match kids with
      | [] => Ok vals
      | XText _ :: r => walk um fs fuel2' parents r vals
      | (XElem cs cl _ ckids as c) :: r =>
          match path_select fs parents cs cl with
          | None => walk um fs fuel2' parents r vals
          | Some (inl f) =>
              do v <- um (f_type f) (field_get vals f) c;
              walk um fs fuel2' parents r (assoc_set (f_go f) v vals)
          | Some (inr ps) =>
              do vals' <- walk um fs fuel2' ps ckids vals;
              walk um fs fuel2' parents r vals'
          end
      end
    end.

  (* the struct case of Decoder.unmarshal, given the field list [fs] of the struct *)
  Definition unmarshal_struct (um : ftype -> gval -> xnode -> res gval) (fs : list field) (walk_fuel : nat)
             (cur : gval) (espace elocal : string) (eattrs : list xattr) (ekids : list xnode) : res gval :=
    let vals0 := match cur with GStruct vs => vs | _ => [] end in
    do vals1 <-
       match xml_name_of fs with
       | Some (xs, xl) =>
           if negb (xl =?s "") && negb (xl =?s elocal) then Err (EOther "expected element type")
           else if negb (xs =?s "") && negb (xs =?s espace) then Err (EOther "expected element in name space")
           else Ok (assoc_set "XMLName" (GName espace elocal) vals0)
       | None => Ok vals0
       end;
    do vals2 <- assign_attrs fs eattrs vals1;
    do vals3 <- walk um fs walk_fuel [] ekids vals2;
    do vals4 <-
       match has_chardata fs with
       | Some f => do v <- set_scalar (f_type f) (text_of_kids ekids); Ok (assoc_set (f_go f) v vals3)
       | None => Ok vals3
       end;
    let vals5 :=
       match has_innerxml fs with
       | Some f => assoc_set (f_go f) (GBytes true "") vals4     (* content of innerxml is not modelled *)
       | None => vals4
       end in
    Ok (GStruct vals5).

  (* [unmarshal fuel t cur e]: Decoder.unmarshal of start element [e] into a value of type [t] whose
     current content is [cur]. Fuel bounds the nesting depth (encoding/xml's own bound is 10000). *)
  Fixpoint unmarshal (fuel : nat) (t : ftype) (cur : gval) (e : xnode) {struct fuel} : res gval :=
    match fuel with
    | O => Err (EOther "out of fuel")
    | Datatypes.S fuel' =>
      match e with
      | XText _ => Err (EOther "not a start element")
      | XElem espace elocal eattrs ekids =>
        match t with
        | TPtr t' =>
            let inner := match cur with GPtr (Some v) => v | _ => zero_of t' end in
            do v <- unmarshal fuel' t' inner e; Ok (GPtr (Some v))
        | TSlice t' =>
            let l := match cur with GSlice l => l | _ => [] end in
            do v <- unmarshal fuel' t' (zero_of t') e; Ok (GSlice (l ++ [v]))
        | TName => Ok (GName espace elocal)
        | TStruct name =>
            match assoc_get name sch with
            | None => Err (EOther "unknown struct")
            | Some fs => unmarshal_struct (unmarshal fuel') fs (fuel' + List.length ekids + 64)%nat cur espace elocal eattrs ekids
            end
        | _ => set_scalar t (text_of_kids ekids)     (* string / int / bool / []byte element fields *)
        end
      end
    end.
End Unmarshal.

(* walk fuel: the walk over children recurses once per sibling and once per path level; the value given
   above (fuel' + #kids + 64) is not always enough for very wide elements nested in paths, so the
   top-level entry computes a generous bound from the tree. *)
Fixpoint xsize (n : xnode) : nat :=
  match n with
  | XElem _ _ _ k => Datatypes.S ((fix go (l : list xnode) := match l with [] => O | x :: r => (xsize x + go r)%nat end) k)
  | XText _ => 1%nat
  end.

(* xml.Unmarshal of the serialisation of [root] into a fresh value of struct type [name] *)
Definition unmarshal_element (sch : schema) (name : string) (root : node) : res gval :=
  match view [] root with
  | [x] => unmarshal sch (Datatypes.S (Datatypes.S (height root)) + xsize x) (TStruct name) (GStruct []) x
  | _ => Err (EOther "no root element")
  end.

(* the same under given write settings / under etree's default write settings *)
Definition unmarshal_element_ws (ct ca : bool) (sch : schema) (name : string) (root : node) : res gval :=
  match view_ws ct ca [] root with
  | [x] => unmarshal sch (Datatypes.S (Datatypes.S (height root)) + xsize x) (TStruct name) (GStruct []) x
  | _ => Err (EOther "no root element")
  end.
Definition unmarshal_element_original (sch : schema) (name : string) (root : node) : res gval :=
  match view_original [] root with
  | [x] => unmarshal sch (Datatypes.S (Datatypes.S (height root)) + xsize x) (TStruct name) (GStruct []) x
  | _ => Err (EOther "no root element")
  end.

(* Decoder.Decode of the element [root] the token loop consumed from received bytes, into a fresh value of struct type [name] *)
Definition unmarshal_element_direct (sch : schema) (name : string) (root : node) : res gval :=
  match view_direct [] root with
  | [x] => unmarshal sch (Datatypes.S (Datatypes.S (height root)) + xsize x) (TStruct name) (GStruct []) x
  | _ => Err (EOther "no root element")
  end.
