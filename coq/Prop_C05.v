(* Prop_C05.v — property C05: expiry and validity-window decisions are exact for every clock position.
   [ilt a b] is "instant a strictly before instant b", [ile a b] is "a at or before b" (P_Profile.v). *)
From V Require Import Base Time Types Profile P_Profile P_C05.

(* When all non-time checks pass, a Response is accepted exactly when now is strictly before the
   subject-confirmation NotOnOrAfter of EVERY assertion ... *)
Theorem C05_accepted_iff_all_unexpired : forall cfg now r,
  AttrsOK (cfg_acs_url cfg) (r_destination r) (r_version r) -> r_assertions r <> [] ->
  IssuerOK cfg (r_issuer r) -> StatusOK (r_status r) ->
  Forall (fun a => exists noa, AssertionShapeOK cfg a noa) (r_assertions r) ->
  (validate cfg now r = Ok tt <->
   Forall (fun a => forall noa, AssertionShapeOK cfg a noa -> ilt now noa) (r_assertions r)).
Proof. exact accepted_iff_all_unexpired. Qed.
Print Assumptions C05_accepted_iff_all_unexpired.

(* ... and otherwise it is rejected as Expired, naming an assertion whose bound is at or before now. *)
Theorem C05_rejected_means_expired : forall cfg now r e,
  AttrsOK (cfg_acs_url cfg) (r_destination r) (r_version r) -> r_assertions r <> [] ->
  IssuerOK cfg (r_issuer r) -> StatusOK (r_status r) ->
  Forall (fun a => exists noa, AssertionShapeOK cfg a noa) (r_assertions r) ->
  validate cfg now r = Err e ->
  exists a noa sub sc d, In a (r_assertions r) /\ AssertionShapeOK cfg a noa /\ ile noa now /\
    a_subject a = Some sub /\ sub_conf sub = Some sc /\ sc_data sc = Some d /\
    e = EInvalidValue Generated.c_NotOnOrAfterAttr Generated.c_ReasonExpired "" (scd_not_on_or_after d).
Proof. exact rejected_means_expired. Qed.
Print Assumptions C05_rejected_means_expired.

(* the time warning is raised exactly outside the half-open interval [NotBefore, NotOnOrAfter) *)
Theorem C05_invalid_time_iff : forall cfg now a w,
  verify_conditions cfg now a = Ok w ->
  exists c nb noa, a_conditions a = Some c /\
    parse_rfc3339 (c_not_before c) = Some nb /\ parse_rfc3339 (c_not_on_or_after c) = Some noa /\
    (w_invalid_time w = true <-> ilt now nb \/ ile noa now).
Proof. exact invalid_time_exact. Qed.
Print Assumptions C05_invalid_time_iff.

(* timestamps matter only through the instants they denote (zone offset, fraction rendering irrelevant) *)
Theorem C05_expiry_instant_only : forall cfg now a1 a2 n,
  AssertionShapeOK cfg a1 n -> AssertionShapeOK cfg a2 n ->
  (validate_assertion cfg now a1 = Ok tt <-> validate_assertion cfg now a2 = Ok tt).
Proof. exact expiry_instant_only. Qed.
Print Assumptions C05_expiry_instant_only.

Theorem C05_window_instant_only : forall cfg now a1 a2 w1 w2 c1 c2,
  verify_conditions cfg now a1 = Ok w1 -> verify_conditions cfg now a2 = Ok w2 ->
  a_conditions a1 = Some c1 -> a_conditions a2 = Some c2 ->
  parse_rfc3339 (c_not_before c1) = parse_rfc3339 (c_not_before c2) ->
  parse_rfc3339 (c_not_on_or_after c1) = parse_rfc3339 (c_not_on_or_after c2) ->
  w_invalid_time w1 = w_invalid_time w2.
Proof. exact window_instant_only. Qed.
Print Assumptions C05_window_instant_only.

(* a missing or unparsable bound is never treated as unbounded *)
Theorem C05_expiry_bound_required : forall cfg now r a,
  validate cfg now r = Ok tt -> In a (r_assertions r) ->
  exists sub sc d noa, a_subject a = Some sub /\ sub_conf sub = Some sc /\ sc_data sc = Some d /\
    scd_not_on_or_after d <> "" /\ parse_rfc3339 (scd_not_on_or_after d) = Some noa /\ ilt now noa.
Proof. exact unbounded_never_accepted. Qed.
Print Assumptions C05_expiry_bound_required.

Theorem C05_window_bounds_required : forall cfg now a w,
  verify_conditions cfg now a = Ok w ->
  exists c, a_conditions a = Some c /\ c_not_before c <> "" /\ c_not_on_or_after c <> "" /\
    parse_rfc3339 (c_not_before c) <> None /\ parse_rfc3339 (c_not_on_or_after c) <> None.
Proof. exact window_bounds_required. Qed.
Print Assumptions C05_window_bounds_required.

(* ---- the clock as a variable: "for every clock position" ---- *)
(* acceptance is antitone in the clock, unconditionally: accepted now' => accepted at every instant at or before now' *)
Theorem C05_accepted_at_every_earlier_instant : forall cfg now now' r,
  ile now now' -> validate cfg now' r = Ok tt -> validate cfg now r = Ok tt.
Proof. exact accepted_at_every_earlier_instant. Qed.
Print Assumptions C05_accepted_at_every_earlier_instant.

Theorem C05_rejected_at_every_later_instant : forall cfg now now' r e,
  ile now now' -> validate cfg now r = Err e -> exists e', validate cfg now' r = Err e'.
Proof. exact rejected_at_every_later_instant. Qed.
Print Assumptions C05_rejected_at_every_later_instant.

(* the set of accepting instants is exactly "strictly before the earliest NotOnOrAfter" *)
Theorem C05_accepted_iff_before_earliest_bound : forall cfg r m,
  AttrsOK (cfg_acs_url cfg) (r_destination r) (r_version r) -> r_assertions r <> [] ->
  IssuerOK cfg (r_issuer r) -> StatusOK (r_status r) ->
  Forall (fun a => exists noa, AssertionShapeOK cfg a noa) (r_assertions r) ->
  (exists a, In a (r_assertions r) /\ AssertionShapeOK cfg a m) ->
  Forall (fun a => forall noa, AssertionShapeOK cfg a noa -> ile m noa) (r_assertions r) ->
  forall now, validate cfg now r = Ok tt <-> ilt now m.
Proof. exact accepted_iff_before_earliest_bound. Qed.
Print Assumptions C05_accepted_iff_before_earliest_bound.

(* the instants without a time warning form an interval *)
Theorem C05_window_is_convex : forall cfg t1 t2 t3 a w1 w2 w3,
  verify_conditions cfg t1 a = Ok w1 -> verify_conditions cfg t2 a = Ok w2 -> verify_conditions cfg t3 a = Ok w3 ->
  ile t1 t2 -> ile t2 t3 ->
  w_invalid_time w1 = false -> w_invalid_time w3 = false -> w_invalid_time w2 = false.
Proof. exact window_is_convex. Qed.
Print Assumptions C05_window_is_convex.

(* ---- tie to the source text (GenFuncs.v is re-translated from /repo's validate.go on every run) ---- *)
From V Require Import GenPrelude GenFuncs P_GenFuncs.
Theorem C05_source_Validate_is_the_model : forall cfg now r,
  G_Validate cfg now r = PVal (validate cfg now r).
Proof. exact G_Validate_eq. Qed.
Print Assumptions C05_source_Validate_is_the_model.

Theorem C05_source_VerifyAssertionConditions_is_the_model : forall cfg now a,
  G_VerifyAssertionConditions cfg now a = PVal (res_some (verify_conditions cfg now a)).
Proof. exact G_VerifyAssertionConditions_eq. Qed.
Print Assumptions C05_source_VerifyAssertionConditions_is_the_model.

(* the clock theorems on the translated source function itself *)
From V Require Import P_C05Source.
Theorem C05_source_accepted_at_every_earlier_instant : forall cfg now now' r,
  ile now now' -> G_Validate cfg now' r = PVal (Ok tt) -> G_Validate cfg now r = PVal (Ok tt).
Proof. exact source_accepted_at_every_earlier_instant. Qed.
Print Assumptions C05_source_accepted_at_every_earlier_instant.

Theorem C05_source_rejection_is_permanent : forall cfg now now' r e,
  ile now now' -> G_Validate cfg now r = PVal (Err e) -> exists e', G_Validate cfg now' r = PVal (Err e').
Proof. exact source_Validate_never_panics_and_rejection_is_permanent. Qed.
Print Assumptions C05_source_rejection_is_permanent.
