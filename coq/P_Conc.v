(* P_Conc.v — proofs for property C17 over the interleaving model of Conc.v:
   an invariant, its preservation (one lemma per step rule), and the theorems
   no_race, returns_configured_context, creators_agree. Independent of Generated.v. *)
From V Require Import Base ConcDefs Conc.
Local Open Scope string_scope.
Local Open Scope list_scope.

Lemma upd_same {A} (f : nat -> A) t v : upd f t v t = v.
Proof. unfold upd. rewrite Nat.eqb_refl. reflexivity. Qed.
Lemma upd_other {A} (f : nat -> A) t v t' : t' <> t -> upd f t v t' = f t'.
Proof. unfold upd. intros H. destruct (Nat.eqb_spec t' t); [contradiction|reflexivity]. Qed.

(* ---------- what a program point holds and references ---------- *)
Definition holds_r (p : pc) : bool := match p with R1 | R2 _ => true | _ => false end.
Definition holds_w (p : pc) : bool :=
  match p with W1 | W2 _ | W3 _ | W4 _ | W5 _ => true | _ => false end.
Definition refs (p : pc) (o : obj) : Prop :=
  match p with
  | R2 (Some o') | B (Some o') | W5 (Some o') | W2 o' | W3 o' | W4 o' | Done o' => o' = o
  | _ => False
  end.
(* the thread is still initialising o *)
Definition building (p : pc) (o : obj) : Prop :=
  match p with W2 o' | W3 o' | W4 o' => o' = o | _ => False end.
(* references that may be handed to a caller: the object must be fully initialised *)
Definition frozen_ref (p : pc) (o : obj) : Prop :=
  match p with
  | R2 (Some o') | B (Some o') | W5 (Some o') | Done o' => o' = o
  | _ => False
  end.

Lemma building_holds_w p o : building p o -> holds_w p = true.
Proof. destruct p; cbn; intros; try contradiction; reflexivity. Qed.
Lemma building_refs p o : building p o -> refs p o.
Proof. destruct p; cbn; intros; try contradiction; assumption. Qed.
Lemma frozen_refs p o : frozen_ref p o -> refs p o.
Proof. destruct p as [| |[?|]|[?|]| | | | | |[?|]|]; cbn; intros; try contradiction; assumption. Qed.
Lemma refs_cases p o : refs p o -> building p o \/ frozen_ref p o.
Proof. destruct p as [| |[?|]|[?|]| | | | | |[?|]|]; cbn; intros; try contradiction; auto. Qed.

(* ---------- accesses of a program point ---------- *)
Lemma poised_sp_wr p : In (Wr LSp) (poised p) -> holds_w p = true.
Proof. destruct p; cbn; intros H; repeat (destruct H as [H|H]; try discriminate H); try contradiction; reflexivity. Qed.
Lemma poised_sp_rd p : In (Rd LSp) (poised p) -> holds_r p = true \/ holds_w p = true.
Proof. destruct p; cbn; intros H; repeat (destruct H as [H|H]; try discriminate H); try contradiction; auto. Qed.
Lemma poised_field_wr p o : In (Wr (LField o)) (poised p) -> building p o.
Proof.
  destruct p; cbn; intros H; repeat (destruct H as [H|H]; try discriminate H); try contradiction;
    inversion H; reflexivity.
Qed.
Lemma poised_field_rd p o : In (Rd (LField o)) (poised p) -> refs p o.
Proof.
  destruct p; cbn; intros H; repeat (destruct H as [H|H]; try discriminate H); try contradiction;
    inversion H; reflexivity.
Qed.

Section Proofs.
Variable cfg : sconfig.

(* value of the object a thread is building, by program point *)
Definition stage (p : pc) : ctx :=
  match p with
  | W2 _ => new_ctx cfg
  | W3 _ => set_method cfg (new_ctx cfg)
  | _ => make_ctx cfg
  end.

Record Inv (s : state) : Prop := {
  i_r : forall t, readers s t = holds_r (pcs s t);
  i_w : forall t, writer s = Some t <-> holds_w (pcs s t) = true;
  i_excl : forall t t', writer s = Some t -> readers s t' = false;
  i_fresh : forall t o, refs (pcs s t) o -> o < next s;
  i_sp : forall o, spctx s = Some o -> o < next s;
  i_own : forall t o, building (pcs s t) o ->
            spctx s = Some o /\ forall t', t' <> t -> ~ refs (pcs s t') o;
  i_stage : forall t o, building (pcs s t) o -> heap s o = stage (pcs s t);
  i_init : forall t o, frozen_ref (pcs s t) o -> heap s o = make_ctx cfg;
  i_sp_init : forall o, spctx s = Some o -> writer s = None -> heap s o = make_ctx cfg;
  i_w5 : forall t r, pcs s t = W5 r -> r = spctx s /\ r <> None
}.

Lemma inv_init : Inv init.
Proof.
  constructor; cbn; intros; try discriminate; try contradiction; try reflexivity.
  split; intros H; discriminate.
Qed.

(* ---------- consequences of the invariant ---------- *)
Lemma holds_w_writer s t : Inv s -> holds_w (pcs s t) = true -> writer s = Some t.
Proof. intros I H. apply (i_w s I). exact H. Qed.
Lemma no_writer_no_holds s t : Inv s -> writer s = None -> holds_w (pcs s t) = false.
Proof.
  intros I H. destruct (holds_w (pcs s t)) eqn:E; [|reflexivity].
  apply (holds_w_writer s t I) in E. congruence.
Qed.
Lemma reader_no_writer s t : Inv s -> holds_r (pcs s t) = true -> writer s = None.
Proof.
  intros I Hr. destruct (writer s) as [w|] eqn:E; [|reflexivity].
  pose proof (i_excl s I w t E) as H. rewrite (i_r s I) in H. congruence.
Qed.
Lemma lock_excl s t1 t2 : Inv s -> holds_w (pcs s t1) = true ->
  holds_r (pcs s t2) = true \/ holds_w (pcs s t2) = true -> t1 = t2.
Proof.
  intros I H1 [H2|H2].
  - apply (holds_w_writer s t1 I) in H1. apply (reader_no_writer s t2 I) in H2. congruence.
  - apply (holds_w_writer s t1 I) in H1. apply (holds_w_writer s t2 I) in H2. congruence.
Qed.
Lemma own_excl s t1 t2 o : Inv s -> building (pcs s t1) o -> refs (pcs s t2) o -> t1 = t2.
Proof.
  intros I H1 H2. destruct (Nat.eq_dec t2 t1) as [->|Hne]; [reflexivity|].
  destruct (i_own s I t1 o H1) as [_ Hn]. exfalso. exact (Hn t2 Hne H2).
Qed.

Lemma inv_no_race s : Inv s -> ~ race s.
Proof.
  intros I (t1 & t2 & a1 & a2 & Hne & H1 & H2 & Hc). apply Hne.
  destruct a1 as [l1|l1], a2 as [l2|l2]; cbn in Hc; try contradiction; subst l2.
  - (* read / write *) symmetry. destruct l1 as [|o].
    + apply (lock_excl s t2 t1 I); [apply poised_sp_wr; exact H2 | apply poised_sp_rd; exact H1].
    + apply (own_excl s t2 t1 o I); [apply poised_field_wr; exact H2 | apply poised_field_rd; exact H1].
  - (* write / read *) destruct l1 as [|o].
    + apply (lock_excl s t1 t2 I); [apply poised_sp_wr; exact H1 | apply poised_sp_rd; exact H2].
    + apply (own_excl s t1 t2 o I); [apply poised_field_wr; exact H1 | apply poised_field_rd; exact H2].
  - (* write / write *) destruct l1 as [|o].
    + apply (lock_excl s t1 t2 I); [apply poised_sp_wr; exact H1 | right; apply poised_sp_wr; exact H2].
    + apply (own_excl s t1 t2 o I);
        [apply poised_field_wr; exact H1 | apply building_refs; apply poised_field_wr; exact H2].
Qed.

(* ---------- preservation ---------- *)

(* case split on every  upd f t v t'  in sight *)
Ltac usplit :=
  repeat match goal with
  | H : context [upd _ ?t _ ?t'] |- _ =>
      destruct (Nat.eq_dec t' t) as [->|?];
      [rewrite ?upd_same in * | rewrite ?upd_other in * by assumption]
  | |- context [upd _ ?t _ ?t'] =>
      destruct (Nat.eq_dec t' t) as [->|?];
      [rewrite ?upd_same in * | rewrite ?upd_other in * by assumption]
  end.

Ltac usplit_on t' t :=
  destruct (Nat.eq_dec t' t) as [->|Hd];
  [rewrite ?(upd_same _ t) in * | rewrite ?(upd_other _ t _ t' Hd) in *].

(* A transition of thread t that changes only its program point, to a point with the same lock state
   that builds nothing. Covers s_read, s_fast, s_slow, s_reread, s_again. *)
Lemma inv_pc_only s t p' :
  Inv s ->
  holds_r p' = holds_r (pcs s t) ->
  holds_w p' = holds_w (pcs s t) ->
  (forall o, refs p' o -> refs (pcs s t) o \/ (spctx s = Some o /\ writer s = None)) ->
  (forall o, ~ building p' o) ->
  (forall o, frozen_ref p' o -> heap s o = make_ctx cfg) ->
  (forall r, p' = W5 r -> r = spctx s /\ r <> None) ->
  Inv {| pcs := upd (pcs s) t p'; readers := readers s; writer := writer s;
         spctx := spctx s; next := next s; heap := heap s |}.
Proof.
  intros I Hr Hw Hrefs Hb Hfr H5.
  constructor; cbn [pcs readers writer spctx next heap].
  - intros t'. usplit; [rewrite Hr; apply (i_r s I) | apply (i_r s I)].
  - intros t'. usplit; [rewrite Hw; apply (i_w s I) | apply (i_w s I)].
  - exact (i_excl s I).
  - intros t' o H. usplit.
    + destruct (Hrefs o H) as [H'|[H' _]]; [exact (i_fresh s I _ o H') | exact (i_sp s I o H')].
    + exact (i_fresh s I t' o H).
  - exact (i_sp s I).
  - intros t0 o H. usplit; [exfalso; exact (Hb o H)|].
    destruct (i_own s I t0 o H) as [Hsp Hn]. split; [exact Hsp|].
    intros t' Hne Hr'. usplit.
    + destruct (Hrefs o Hr') as [H'|[_ Hnw]]; [exact (Hn t Hne H')|].
      pose proof (holds_w_writer s t0 I (building_holds_w _ _ H)). congruence.
    + exact (Hn t' Hne Hr').
  - intros t0 o H. usplit; [exfalso; exact (Hb o H) | exact (i_stage s I t0 o H)].
  - intros t0 o H. usplit; [exact (Hfr o H) | exact (i_init s I t0 o H)].
  - exact (i_sp_init s I).
  - intros t0 r H. usplit; [exact (H5 r H) | exact (i_w5 s I t0 r H)].
Qed.

Lemma inv_read s t : Inv s -> pcs s t = R1 ->
  Inv {| pcs := upd (pcs s) t (R2 (spctx s)); readers := readers s; writer := writer s;
         spctx := spctx s; next := next s; heap := heap s |}.
Proof.
  intros I Hpc.
  assert (Hnw : writer s = None) by (apply (reader_no_writer s t I); rewrite Hpc; reflexivity).
  apply inv_pc_only; try assumption; rewrite ?Hpc; try reflexivity.
  - intros o H. right. destruct (spctx s); cbn in H; [subst; auto | contradiction].
  - intros o H. exact H.
  - intros o H. apply (i_sp_init s I); [|exact Hnw]. destruct (spctx s); cbn in H; [subst; auto | contradiction].
  - intros r H. discriminate.
Qed.

Lemma inv_fast s t o : Inv s -> pcs s t = B (Some o) ->
  Inv {| pcs := upd (pcs s) t (Done o); readers := readers s; writer := writer s;
         spctx := spctx s; next := next s; heap := heap s |}.
Proof.
  intros I Hpc. apply inv_pc_only; try assumption; rewrite ?Hpc; try reflexivity.
  - intros o' H. left. exact H.
  - intros o' H. exact H.
  - intros o' H. apply (i_init s I t). rewrite Hpc. exact H.
  - intros r H. discriminate.
Qed.

Lemma inv_slow s t : Inv s -> pcs s t = B None ->
  Inv {| pcs := upd (pcs s) t W0; readers := readers s; writer := writer s;
         spctx := spctx s; next := next s; heap := heap s |}.
Proof.
  intros I Hpc. apply inv_pc_only; try assumption; rewrite ?Hpc; try reflexivity.
  - intros o' H. contradiction.
  - intros o' H. exact H.
  - intros o' H. contradiction.
  - intros r H. discriminate.
Qed.

Lemma inv_reread s t o : Inv s -> pcs s t = W4 o ->
  Inv {| pcs := upd (pcs s) t (W5 (spctx s)); readers := readers s; writer := writer s;
         spctx := spctx s; next := next s; heap := heap s |}.
Proof.
  intros I Hpc.
  assert (Hb : building (pcs s t) o) by (rewrite Hpc; reflexivity).
  destruct (i_own s I t o Hb) as [Hsp _].
  pose proof (i_stage s I t o Hb) as Hst. rewrite Hpc in Hst. cbn in Hst.
  apply inv_pc_only; try assumption; rewrite ?Hpc, ?Hsp; try reflexivity.
  - intros o' H. left. exact H.
  - intros o' H. exact H.
  - intros o' H. cbn in H. subst o'. exact Hst.
  - intros r H. inversion H; subst. split; [reflexivity | discriminate].
Qed.

Lemma inv_again s t o : Inv s -> pcs s t = Done o ->
  Inv {| pcs := upd (pcs s) t Idle; readers := readers s; writer := writer s;
         spctx := spctx s; next := next s; heap := heap s |}.
Proof.
  intros I Hpc. apply inv_pc_only; try assumption; rewrite ?Hpc; try reflexivity.
  - intros o' H. contradiction.
  - intros o' H. exact H.
  - intros o' H. contradiction.
  - intros r H. discriminate.
Qed.

Lemma inv_rlock s t : Inv s -> pcs s t = Idle -> writer s = None ->
  Inv {| pcs := upd (pcs s) t R1; readers := upd (readers s) t true; writer := writer s;
         spctx := spctx s; next := next s; heap := heap s |}.
Proof.
  intros I Hpc Hnw.
  constructor; cbn [pcs readers writer spctx next heap].
  - intros t'. usplit; [reflexivity | apply (i_r s I)].
  - intros t'. usplit; [rewrite Hnw; split; discriminate | apply (i_w s I)].
  - intros t0 t' H. congruence.
  - intros t' o H. usplit; [contradiction | exact (i_fresh s I t' o H)].
  - exact (i_sp s I).
  - intros t0 o H. usplit; [contradiction|].
    destruct (i_own s I t0 o H) as [Hsp Hn]. split; [exact Hsp|].
    intros t' Hne Hr'. usplit; [contradiction | exact (Hn t' Hne Hr')].
  - intros t0 o H. usplit; [contradiction | exact (i_stage s I t0 o H)].
  - intros t0 o H. usplit; [contradiction | exact (i_init s I t0 o H)].
  - exact (i_sp_init s I).
  - intros t0 r H. usplit; [discriminate | exact (i_w5 s I t0 r H)].
Qed.

Lemma inv_runlock s t r : Inv s -> pcs s t = R2 r ->
  Inv {| pcs := upd (pcs s) t (B r); readers := upd (readers s) t false; writer := writer s;
         spctx := spctx s; next := next s; heap := heap s |}.
Proof.
  intros I Hpc.
  assert (Hrefs : forall o, refs (B r) o -> refs (pcs s t) o) by (rewrite Hpc; destruct r; cbn; auto).
  assert (Hfr : forall o, frozen_ref (B r) o -> frozen_ref (pcs s t) o) by (rewrite Hpc; destruct r; cbn; auto).
  constructor; cbn [pcs readers writer spctx next heap].
  - intros t'. usplit; [reflexivity | apply (i_r s I)].
  - intros t'. usplit; [|apply (i_w s I)].
    pose proof (i_w s I t) as Hw. rewrite Hpc in Hw. exact Hw.
  - intros t0 t' H. usplit; [reflexivity | exact (i_excl s I t0 t' H)].
  - intros t' o H. usplit; [exact (i_fresh s I t o (Hrefs o H)) | exact (i_fresh s I t' o H)].
  - exact (i_sp s I).
  - intros t0 o H. usplit; [destruct r; contradiction|].
    destruct (i_own s I t0 o H) as [Hsp Hn]. split; [exact Hsp|].
    intros t' Hne Hr'. usplit; [exact (Hn t Hne (Hrefs o Hr')) | exact (Hn t' Hne Hr')].
  - intros t0 o H. usplit; [destruct r; contradiction | exact (i_stage s I t0 o H)].
  - intros t0 o H. usplit; [exact (i_init s I t o (Hfr o H)) | exact (i_init s I t0 o H)].
  - exact (i_sp_init s I).
  - intros t0 r0 H. usplit; [discriminate | exact (i_w5 s I t0 r0 H)].
Qed.

Lemma inv_lock s t : Inv s -> pcs s t = W0 -> writer s = None -> (forall t', readers s t' = false) ->
  Inv {| pcs := upd (pcs s) t W1; readers := readers s; writer := Some t;
         spctx := spctx s; next := next s; heap := heap s |}.
Proof.
  intros I Hpc Hnw Hnr.
  constructor; cbn [pcs readers writer spctx next heap].
  - intros t'. usplit; [rewrite Hnr; reflexivity | apply (i_r s I)].
  - intros t'. usplit; [split; reflexivity|].
    rewrite (no_writer_no_holds s t' I Hnw). split; [intros H; inversion H; congruence | discriminate].
  - intros t0 t' _. apply Hnr.
  - intros t' o H. usplit; [contradiction | exact (i_fresh s I t' o H)].
  - exact (i_sp s I).
  - intros t0 o H. usplit; [contradiction|].
    pose proof (building_holds_w _ _ H) as Hh. rewrite (no_writer_no_holds s t0 I Hnw) in Hh. discriminate.
  - intros t0 o H. usplit; [contradiction | exact (i_stage s I t0 o H)].
  - intros t0 o H. usplit; [contradiction | exact (i_init s I t0 o H)].
  - intros o _ H. discriminate.
  - intros t0 r H. usplit; [discriminate | exact (i_w5 s I t0 r H)].
Qed.

Lemma inv_unlock s t r : Inv s -> pcs s t = W5 r ->
  Inv {| pcs := upd (pcs s) t (match r with Some o => Done o | None => Idle end);
         readers := readers s; writer := None;
         spctx := spctx s; next := next s; heap := heap s |}.
Proof.
  intros I Hpc.
  destruct (i_w5 s I t r Hpc) as [Hr Hnn].
  destruct r as [o|]; [clear Hnn | congruence].
  assert (Hw : writer s = Some t) by (apply (holds_w_writer s t I); rewrite Hpc; reflexivity).
  assert (Hio : heap s o = make_ctx cfg) by (apply (i_init s I t o); rewrite Hpc; reflexivity).
  assert (Hother : forall t', t' <> t -> holds_w (pcs s t') = false).
  { intros t' Hne. destruct (holds_w (pcs s t')) eqn:E; [|reflexivity].
    apply (holds_w_writer s t' I) in E. congruence. }
  constructor; cbn [pcs readers writer spctx next heap].
  - intros t'. usplit_on t' t; [|apply (i_r s I)].
    pose proof (i_r s I t) as H. rewrite Hpc in H. exact H.
  - intros t'. usplit_on t' t; [split; discriminate|].
    rewrite (Hother t' Hd). split; discriminate.
  - intros t0 t' H. discriminate.
  - intros t' o' H. usplit_on t' t; [|exact (i_fresh s I t' o' H)].
    apply (i_fresh s I t o'). rewrite Hpc. exact H.
  - exact (i_sp s I).
  - intros t0 o' H. usplit_on t0 t; [contradiction|].
    pose proof (building_holds_w _ _ H) as Hh. rewrite (Hother t0 Hd) in Hh. discriminate.
  - intros t0 o' H. usplit_on t0 t; [contradiction | exact (i_stage s I t0 o' H)].
  - intros t0 o' H. usplit_on t0 t; [|exact (i_init s I t0 o' H)].
    cbn in H. subst o'. exact Hio.
  - intros o' Hsp _. rewrite <- Hr in Hsp. inversion Hsp; subst. exact Hio.
  - intros t0 r0 H. usplit_on t0 t; [discriminate|].
    pose proof (Hother t0 Hd) as Hh. rewrite H in Hh. discriminate.
Qed.

Lemma inv_publish s t : Inv s -> pcs s t = W1 ->
  Inv {| pcs := upd (pcs s) t (W2 (next s)); readers := readers s; writer := writer s;
         spctx := Some (next s); next := S (next s); heap := upd (heap s) (next s) (new_ctx cfg) |}.
Proof.
  intros I Hpc.
  assert (Hw : writer s = Some t) by (apply (holds_w_writer s t I); rewrite Hpc; reflexivity).
  assert (Hother : forall t', t' <> t -> holds_w (pcs s t') = false).
  { intros t' Hne. destruct (holds_w (pcs s t')) eqn:E; [|reflexivity].
    apply (holds_w_writer s t' I) in E. congruence. }
  assert (Hnb : forall t' o, t' <> t -> ~ building (pcs s t') o).
  { intros t' o Hne H. pose proof (building_holds_w _ _ H) as Hh. rewrite (Hother t' Hne) in Hh. discriminate. }
  constructor; cbn [pcs readers writer spctx next heap].
  - intros t'. usplit_on t' t; [|apply (i_r s I)].
    pose proof (i_r s I t) as H. rewrite Hpc in H. exact H.
  - intros t'. usplit_on t' t; [|apply (i_w s I)]. split; [reflexivity | intros _; exact Hw].
  - exact (i_excl s I).
  - intros t' o H. usplit_on t' t; [cbn in H; subst o; lia|].
    pose proof (i_fresh s I t' o H). lia.
  - intros o H. inversion H; subst. lia.
  - intros t0 o H. usplit_on t0 t; [|exfalso; exact (Hnb t0 o Hd H)].
    cbn in H. subst o. split; [reflexivity|].
    intros t' Hne Hr'. rewrite upd_other in Hr' by assumption.
    pose proof (i_fresh s I t' _ Hr'). lia.
  - intros t0 o H. usplit_on t0 t; [|exfalso; exact (Hnb t0 o Hd H)].
    cbn in H. subst o. rewrite upd_same. reflexivity.
  - intros t0 o H. usplit_on t0 t; [contradiction|].
    pose proof (i_fresh s I t0 o (frozen_refs _ _ H)) as Hlt.
    rewrite upd_other by lia. exact (i_init s I t0 o H).
  - intros o _ H. congruence.
  - intros t0 r H. usplit_on t0 t; [discriminate|].
    pose proof (Hother t0 Hd) as Hh. rewrite H in Hh. discriminate.
Qed.

(* a field write by the thread that is building o: s_hash and s_canon *)
Lemma inv_field_write s t o p' v :
  Inv s -> building (pcs s t) o -> building p' o -> stage p' = v ->
  Inv {| pcs := upd (pcs s) t p'; readers := readers s; writer := writer s;
         spctx := spctx s; next := next s; heap := upd (heap s) o v |}.
Proof.
  intros I Hb Hb' Hst.
  pose proof (building_holds_w _ _ Hb) as Hhw. pose proof (building_holds_w _ _ Hb') as Hhw'.
  assert (Hhr' : holds_r p' = false) by (destruct p'; cbn in Hb'; try contradiction; reflexivity).
  assert (Hw : writer s = Some t) by (apply (holds_w_writer s t I); exact Hhw).
  destruct (i_own s I t o Hb) as [Hsp Hn].
  assert (Hother : forall t', t' <> t -> holds_w (pcs s t') = false).
  { intros t' Hne. destruct (holds_w (pcs s t')) eqn:E; [|reflexivity].
    apply (holds_w_writer s t' I) in E. congruence. }
  assert (Hnb : forall t' o', t' <> t -> ~ building (pcs s t') o').
  { intros t' o' Hne H. pose proof (building_holds_w _ _ H) as Hh. rewrite (Hother t' Hne) in Hh. discriminate. }
  assert (Hrefs' : forall o', refs p' o' -> o' = o).
  { intros o' H. destruct p'; cbn in Hb', H; try contradiction; congruence. }
  constructor; cbn [pcs readers writer spctx next heap].
  - intros t'. usplit_on t' t; [|apply (i_r s I)].
    rewrite Hhr'. pose proof (i_excl s I t t Hw) as H. exact H.
  - intros t'. usplit_on t' t; [|apply (i_w s I)]. rewrite Hhw'. split; [reflexivity | intros _; exact Hw].
  - exact (i_excl s I).
  - intros t' o' H. usplit_on t' t; [|exact (i_fresh s I t' o' H)].
    rewrite (Hrefs' o' H). exact (i_sp s I o Hsp).
  - exact (i_sp s I).
  - intros t0 o' H. usplit_on t0 t; [|exfalso; exact (Hnb t0 o' Hd H)].
    assert (o' = o) by (apply Hrefs'; apply building_refs; exact H). subst o'.
    split; [exact Hsp|]. intros t' Hne Hr'. rewrite upd_other in Hr' by assumption. exact (Hn t' Hne Hr').
  - intros t0 o' H. usplit_on t0 t; [|exfalso; exact (Hnb t0 o' Hd H)].
    assert (o' = o) by (apply Hrefs'; apply building_refs; exact H). subst o'.
    rewrite upd_same. symmetry. exact Hst.
  - intros t0 o' H. usplit_on t0 t.
    + exfalso. destruct p'; cbn in Hb', H; contradiction.
    + assert (o' <> o) by (intros ->; exact (Hn t0 Hd (frozen_refs _ _ H))).
      rewrite upd_other by assumption. exact (i_init s I t0 o' H).
  - intros o' _ H. congruence.
  - intros t0 r H. usplit_on t0 t; [|exact (i_w5 s I t0 r H)].
    exfalso. subst p'. cbn in Hb'. contradiction.
Qed.

Lemma inv_hash s t o : Inv s -> pcs s t = W2 o ->
  Inv {| pcs := upd (pcs s) t (W3 o); readers := readers s; writer := writer s;
         spctx := spctx s; next := next s; heap := upd (heap s) o (set_method cfg (heap s o)) |}.
Proof.
  intros I Hpc.
  assert (Hb : building (pcs s t) o) by (rewrite Hpc; reflexivity).
  apply inv_field_write; [exact I | exact Hb | reflexivity |].
  rewrite (i_stage s I t o Hb), Hpc. reflexivity.
Qed.

Lemma inv_canon s t o : Inv s -> pcs s t = W3 o ->
  Inv {| pcs := upd (pcs s) t (W4 o); readers := readers s; writer := writer s;
         spctx := spctx s; next := next s; heap := upd (heap s) o (set_canon cfg (heap s o)) |}.
Proof.
  intros I Hpc.
  assert (Hb : building (pcs s t) o) by (rewrite Hpc; reflexivity).
  apply inv_field_write; [exact I | exact Hb | reflexivity |].
  rewrite (i_stage s I t o Hb), Hpc. reflexivity.
Qed.

Lemma step_inv s s' : step cfg s s' -> Inv s -> Inv s'.
Proof.
  intros Hs I. destruct Hs.
  - apply inv_rlock; assumption.
  - apply inv_read; assumption.
  - apply inv_runlock; assumption.
  - apply inv_fast; assumption.
  - apply inv_slow; assumption.
  - apply inv_lock; assumption.
  - apply inv_publish; assumption.
  - apply inv_hash; assumption.
  - apply inv_canon; assumption.
  - eapply inv_reread; eassumption.
  - apply inv_unlock; assumption.
  - exact I.
  - eapply inv_again; eassumption.
Qed.

Lemma reachable_inv s : reachable cfg s -> Inv s.
Proof.
  induction 1 as [|s s' _ IH Hst]; [exact inv_init | exact (step_inv s s' Hst IH)].
Qed.

(* ---------- the theorems ---------- *)

(* in every reachable state no two goroutines are about to perform conflicting accesses to one location *)
Lemma no_race s : reachable cfg s -> ~ race s.
Proof. intros H. apply inv_no_race. apply reachable_inv. exact H. Qed.

(* every context handed to a caller is exactly the one a lone call builds from the configuration *)
Lemma returns_configured_context s t o :
  reachable cfg s -> pcs s t = Done o -> heap s o = make_ctx cfg.
Proof.
  intros Hr Hpc. apply (i_init s (reachable_inv s Hr) t o). rewrite Hpc. reflexivity.
Qed.

(* two goroutines may both have created a context (there is no second nil test): the contexts are equal *)
Lemma creators_agree s t1 t2 o1 o2 :
  reachable cfg s -> pcs s t1 = Done o1 -> pcs s t2 = Done o2 -> heap s o1 = heap s o2.
Proof.
  intros Hr H1 H2.
  rewrite (returns_configured_context s t1 o1 Hr H1), (returns_configured_context s t2 o2 Hr H2). reflexivity.
Qed.

(* inside the critical section the thread's own object is what a read of sp.signingContext returns
   (justifies carrying o in W2..W4 instead of re-reading the field as the Go code does) *)
Lemma own_object_is_published s t o :
  reachable cfg s -> building (pcs s t) o -> spctx s = Some o.
Proof. intros Hr Hb. exact (proj1 (i_own s (reachable_inv s Hr) t o Hb)). Qed.

(* a call never returns nil *)
Lemma return_value_not_nil s t r :
  reachable cfg s -> pcs s t = W5 r -> r <> None.
Proof. intros Hr H. exact (proj2 (i_w5 s (reachable_inv s Hr) t r H)). Qed.

(* ---------- non-vacuity: concrete runs ---------- *)

Ltac no_readers := intro; cbn [readers]; unfold upd; repeat destruct (Nat.eqb _ _); reflexivity.
Tactic Notation "go" hyp(R) uconstr(rule) :=
  let R' := fresh "R" in
  eassert (R' : reachable cfg _) by (eapply reach_step; [exact R | eapply rule; first [reflexivity | no_readers]]);
  clear R; cbn [pcs readers writer spctx next heap] in R'.

(* Goroutines 0 and 1 both find sp.signingContext nil before either takes the write lock; each then
   allocates its own context (objects 0 and 1): reachable, and both hold a returned context.
   So the hypotheses of returns_configured_context / creators_agree are satisfiable with o1 <> o2. *)
Example two_creators_reachable :
  exists s, reachable cfg s /\ pcs s 0 = Done 0 /\ pcs s 1 = Done 1 /\ spctx s = Some 1.
Proof.
  pose proof (reach_init cfg) as R.
  go R (s_rlock cfg _ 0). go R0 (s_read cfg _ 0).
  go R (s_runlock cfg _ 0 None). go R0 (s_slow cfg _ 0).
  go R (s_rlock cfg _ 1). go R0 (s_read cfg _ 1).
  go R (s_runlock cfg _ 1 None). go R0 (s_slow cfg _ 1).
  go R (s_lock cfg _ 0). go R0 (s_publish cfg _ 0).
  go R (s_hash cfg _ 0 0). go R0 (s_canon cfg _ 0 0).
  go R (s_reread cfg _ 0 0). go R0 (s_unlock cfg _ 0 (Some 0)).
  go R (s_lock cfg _ 1). go R0 (s_publish cfg _ 1).
  go R (s_hash cfg _ 1 1). go R0 (s_canon cfg _ 1 1).
  go R (s_reread cfg _ 1 1). go R0 (s_unlock cfg _ 1 (Some 1)).
  eexists. split; [exact R|]. cbn. repeat split; reflexivity.
Qed.

(* a later caller takes the fast path and gets the cached context *)
Example fast_path_reachable :
  exists s, reachable cfg s /\ pcs s 0 = Done 0 /\ pcs s 1 = Done 0.
Proof.
  pose proof (reach_init cfg) as R.
  go R (s_rlock cfg _ 0). go R0 (s_read cfg _ 0).
  go R (s_runlock cfg _ 0 None). go R0 (s_slow cfg _ 0).
  go R (s_lock cfg _ 0). go R0 (s_publish cfg _ 0).
  go R (s_hash cfg _ 0 0). go R0 (s_canon cfg _ 0 0).
  go R (s_reread cfg _ 0 0). go R0 (s_unlock cfg _ 0 (Some 0)).
  go R (s_rlock cfg _ 1). go R0 (s_read cfg _ 1).
  go R (s_runlock cfg _ 1 (Some 0)). go R0 (s_fast cfg _ 1 0).
  eexists. split; [exact R|]. cbn. split; reflexivity.
Qed.

End Proofs.

(* the race predicate is not trivially false: two unsynchronised writers of sp.signingContext race *)
Example race_detects_unlocked_writers :
  race {| pcs := fun t => match t with 0 | 1 => W1 | _ => Idle end; readers := fun _ => false; writer := None;
          spctx := None; next := 0; heap := fun _ => dummy_ctx |}.
Proof.
  exists 0, 1, (Wr LSp), (Wr LSp). cbn. repeat split; auto.
Qed.

(* make_ctx on concrete configurations *)
Example make_ctx_override_rsa512 :
  ctx_val (make_ctx {| cfg_signing_override := Some {| ks_alg := KRsa; ks_cert := "S" |}; cfg_signing_field := None;
                       cfg_enc_override := Some {| ks_alg := KRsa; ks_cert := "E" |}; cfg_enc_field := None;
                       cfg_method := "http://www.w3.org/2001/04/xmldsig-more#rsa-sha512";
                       cfg_canon := Some "http://www.w3.org/2001/10/xml-exc-c14n#" |})
  = VC "Ctx" [VS "http://www.w3.org/2001/04/xmldsig-more#rsa-sha512"; VS "http://www.w3.org/2001/04/xmlenc#sha512";
              VS "http://www.w3.org/2001/10/xml-exc-c14n#"; VS "S"; VB false].
Proof. vm_compute. reflexivity. Qed.

(* an ECDSA method on an RSA key is ignored (SetSignatureMethod's error is dropped): SHA-256, default canonicaliser *)
Example make_ctx_mismatched_method :
  ctx_val (make_ctx {| cfg_signing_override := None; cfg_signing_field := None;
                       cfg_enc_override := None; cfg_enc_field := Some "E";
                       cfg_method := "http://www.w3.org/2001/04/xmldsig-more#ecdsa-sha512"; cfg_canon := None |})
  = VC "Ctx" [VS "http://www.w3.org/2001/04/xmldsig-more#rsa-sha256"; VS "http://www.w3.org/2001/04/xmlenc#sha256";
              VS "http://www.w3.org/2006/12/xml-c14n11"; VS "E"; VB true].
Proof. vm_compute. reflexivity. Qed.
