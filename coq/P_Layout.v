(* P_Layout.v — the WHOLE verdict of the signature model (Dsig.v with canon := Canon.canon_model, the other oracles
   arbitrary) is invariant under layout changes: comments (part 1), attribute order (part 2); lift to Response.v (part 3).
   Closes the gap of P_Canon's `_partial` lifts: findSignature's own behaviour under the layout change, with the
   signature path translated. *)
From Coq Require Import Permutation Lia.
From V Require Import Base Time Escape Xml Ns SchemaDefs Schema Types CorrDiff Build Dsig P_Dsig P_DsigExact Canon P_Canon Response.
Local Open Scope string_scope.
Local Open Scope list_scope.

Notation sc := strip_comments.
Notation sck := strip_comments_kids.

Definition rmap {A B} (f : A -> B) (r : res A) : res B := match r with Ok a => Ok (f a) | Err e => Err e end.

(* ================================================================ 1. comments *)
(* ---- 1.0 what stripping leaves alone ---- *)
Lemma sc_attrs n : attrs_of (sc n) = attrs_of n.
Proof. destruct n; reflexivity. Qed.
Lemma sc_space n : space_of (sc n) = space_of n.
Proof. destruct n; reflexivity. Qed.
Lemma sc_tag n : tag_of (sc n) = tag_of n.
Proof. destruct n; reflexivity. Qed.
Lemma sc_kids n : kids_of (sc n) = sck (kids_of n).
Proof. destruct n; try reflexivity; rewrite strip_comments_elem; reflexivity. Qed.
Lemma sc_is_elem n : is_elem (sc n) = is_elem n.
Proof. destruct n; reflexivity. Qed.
Lemma sc_is_comment n : is_comment (sc n) = is_comment n.
Proof. destruct n; reflexivity. Qed.
Lemma is_elem_not_comment n : is_elem n = true -> is_comment n = false.
Proof. destruct n; cbn; congruence. Qed.

Lemma sck_cons_comment x r : is_comment x = true -> sck (x :: r) = sck r.
Proof. intros H. cbn [strip_comments_kids]. rewrite H. reflexivity. Qed.
Lemma sck_cons_keep x r : is_comment x = false -> sck (x :: r) = sc x :: sck r.
Proof. intros H. cbn [strip_comments_kids]. rewrite H. reflexivity. Qed.

(* ---- 1.1 child indices and paths: where a child / a path of the commented tree is found in the stripped tree ---- *)
(* [locate ks d] = the index, among the stripped children, of the d-th child token (None: out of range or a comment) *)
Fixpoint locate (ks : list node) (d : nat) : option (nat * node) :=
  match ks with
  | [] => None
  | k :: r =>
      match d with
      | O => if is_comment k then None else Some (O, k)
      | S d' => match locate r d' with
                | Some (j, x) => Some ((if is_comment k then j else S j), x)
                | None => None
                end
      end
  end.

(* path translation: [npath n p] = the path, in [strip_comments n], of the node at path p of n *)
Fixpoint npath (n : node) (p : list nat) : option (list nat) :=
  match p with
  | [] => Some []
  | d :: q => match locate (kids_of n) d with
              | Some (d', k) => option_map (cons d') (npath k q)
              | None => None
              end
  end.

Lemma locate_spec : forall ks d d' k, locate ks d = Some (d', k) ->
  nth_error ks d = Some k /\ is_comment k = false /\ nth_error (sck ks) d' = Some (sc k).
Proof.
  induction ks as [|x r IH]; intros d d' k H; [discriminate H|].
  destruct d as [|d0]; cbn [locate] in H.
  - destruct (is_comment x) eqn:C; [discriminate H|]. injection H as <- <-.
    rewrite sck_cons_keep by exact C. repeat split; [exact C].
  - destruct (locate r d0) as [[j y]|] eqn:L; [|discriminate H]. injection H as <- <-.
    destruct (IH _ _ _ L) as (N & Cy & N'). cbn [nth_error]. split; [exact N|]. split; [exact Cy|].
    destruct (is_comment x) eqn:C; [rewrite sck_cons_comment by exact C; exact N' | rewrite sck_cons_keep by exact C; exact N'].
Qed.

Lemma locate_replace : forall ks d d' k new, locate ks d = Some (d', k) -> is_comment new = false ->
  sck (replace_nth d new ks) = replace_nth d' (sc new) (sck ks).
Proof.
  induction ks as [|x r IH]; intros d d' k new H Cn; [discriminate H|].
  destruct d as [|d0]; cbn [locate] in H.
  - destruct (is_comment x) eqn:C; [discriminate H|]. injection H as <- <-. cbn [replace_nth].
    rewrite !sck_cons_keep by assumption. reflexivity.
  - destruct (locate r d0) as [[j y]|] eqn:L; [|discriminate H]. injection H as <- <-. cbn [replace_nth].
    destruct (is_comment x) eqn:C.
    + rewrite !sck_cons_comment by exact C. eapply IH; eassumption.
    + rewrite !sck_cons_keep by exact C. cbn [replace_nth]. f_equal. eapply IH; eassumption.
Qed.

Lemma locate_remove : forall ks d d' k, locate ks d = Some (d', k) -> sck (remove_nth d ks) = remove_nth d' (sck ks).
Proof.
  induction ks as [|x r IH]; intros d d' k H; [discriminate H|].
  destruct d as [|d0]; cbn [locate] in H.
  - destruct (is_comment x) eqn:C; [discriminate H|]. injection H as <- <-. cbn [remove_nth].
    rewrite sck_cons_keep by assumption. reflexivity.
  - destruct (locate r d0) as [[j y]|] eqn:L; [|discriminate H]. injection H as <- <-. cbn [remove_nth].
    destruct (is_comment x) eqn:C.
    + rewrite !sck_cons_comment by exact C. eapply IH; eassumption.
    + rewrite !sck_cons_keep by exact C. cbn [remove_nth]. f_equal. eapply IH; eassumption.
Qed.

Lemma npath_node_at : forall p n p', npath n p = Some p' ->
  exists s, node_at n p = Some s /\ node_at (sc n) p' = Some (sc s).
Proof.
  induction p as [|d q IH]; intros n p' H; cbn [npath] in H.
  - injection H as <-. exists n. split; reflexivity.
  - destruct (locate (kids_of n) d) as [[d' k]|] eqn:L; [|discriminate H].
    destruct (npath k q) as [q'|] eqn:Q; [|discriminate H]. injection H as <-.
    destruct (locate_spec _ _ _ _ L) as (N & _ & N'). destruct (IH _ _ Q) as (s & S1 & S2).
    exists s. cbn [node_at]. rewrite N, sc_kids, N'. split; assumption.
Qed.

Lemma npath_parent_ctx : forall p n p' c, npath n p = Some p' -> parent_ctx c (sc n) p' = parent_ctx c n p.
Proof.
  induction p as [|d q IH]; intros n p' c H; cbn [npath] in H.
  - injection H as <-. reflexivity.
  - destruct (locate (kids_of n) d) as [[d' k]|] eqn:L; [|discriminate H].
    destruct (npath k q) as [q'|] eqn:Q; [|discriminate H]. injection H as <-.
    destruct (locate_spec _ _ _ _ L) as (N & _ & N'). cbn [parent_ctx]. rewrite sc_attrs.
    destruct (sub_ctx c (attrs_of n)) as [c'|e]; [|reflexivity]. cbn [bind]. rewrite N, sc_kids, N'. apply IH. exact Q.
Qed.

Lemma remove_at_path_is_elem n p c : remove_at_path n p = Some c -> is_elem c = true.
Proof.
  destruct p as [|i rest]; [discriminate|]. destruct n as [sp tg attrs kids| | | | ]; try discriminate.
  cbn [remove_at_path]. destruct (nth_error kids i) as [[? ? ? ?| | | |]|]; try discriminate.
  destruct rest; [intros [= <-]; reflexivity|]. destruct (remove_at_path _ _); [intros [= <-]; reflexivity | discriminate].
Qed.

Lemma npath_remove : forall p n p', npath n p = Some p' -> remove_at_path (sc n) p' = option_map sc (remove_at_path n p).
Proof.
  induction p as [|d q IH]; intros n p' H; cbn [npath] in H.
  - injection H as <-. reflexivity.
  - destruct (locate (kids_of n) d) as [[d' k]|] eqn:L; [|discriminate H].
    destruct (npath k q) as [q'|] eqn:Q; [|discriminate H]. injection H as <-.
    destruct (locate_spec _ _ _ _ L) as (N & Ck & N').
    destruct n as [sp tg attrs kids| | | | ]; try (cbn in L; discriminate L).
    cbn [kids_of] in *. rewrite strip_comments_elem. cbn [remove_at_path]. rewrite N, N'.
    destruct k as [ksp ktg kattrs kkids| | | | ]; try reflexivity.
    rewrite (strip_comments_elem ksp ktg kattrs kkids).
    destruct q as [|d2 q2].
    + cbn [npath] in Q. injection Q as <-. cbn [option_map]. rewrite strip_comments_elem, (locate_remove _ _ _ _ L). reflexivity.
    + assert (Q' := Q). cbn [npath] in Q'. destruct (locate (kids_of (Elem ksp ktg kattrs kkids)) d2) as [[d2' k2]|]; [|discriminate Q'].
      destruct (npath k2 q2) as [q2'|]; [|discriminate Q']. injection Q' as <-.
      rewrite <- (strip_comments_elem ksp ktg kattrs kkids). rewrite (IH _ _ Q).
      destruct (remove_at_path (Elem ksp ktg kattrs kkids) (d2 :: q2)) as [c'|] eqn:R; [|reflexivity].
      cbn [option_map]. rewrite strip_comments_elem. f_equal. f_equal.
      symmetry. eapply locate_replace; [exact L|].
      apply is_elem_not_comment. eapply remove_at_path_is_elem. exact R.
Qed.

(* ---- 1.2 the model functions commute with stripping ---- *)
Lemma child_elems_sc_tags tag : forall ks,
  List.length (filter (fun k => tag_of k =?s tag) (filter is_elem (sck ks))) =
  List.length (filter (fun k => tag_of k =?s tag) (filter is_elem ks)).
Proof.
  induction ks as [|x r IH]; [reflexivity|]. destruct (is_comment x) eqn:C.
  - rewrite sck_cons_comment by exact C. destruct x; try discriminate C. cbn [filter is_elem]. exact IH.
  - rewrite sck_cons_keep by exact C. cbn [filter]. rewrite sc_is_elem. destruct (is_elem x); [|exact IH].
    cbn [filter]. rewrite sc_tag. destruct (tag_of x =?s tag); cbn [List.length]; rewrite IH; reflexivity.
Qed.
Lemma count_tag_sc tag el : count_tag tag (sc el) = count_tag tag el.
Proof. unfold count_tag, child_elems. rewrite sc_kids. apply child_elems_sc_tags. Qed.
Lemma validate_shape_sc el : validate_shape (sc el) = validate_shape el.
Proof. unfold validate_shape. rewrite !count_tag_sc. reflexivity. Qed.

Lemma detach_sc ctx el : detach ctx (sc el) = rmap sc (detach ctx el).
Proof.
  destruct el as [sp tg attrs kids| | | | ]; try reflexivity. rewrite strip_comments_elem. cbn [detach].
  destruct (sub_context ctx attrs) as [c|e]; [|reflexivity]. cbn [bind rmap]. rewrite strip_comments_elem. reflexivity.
Qed.
Lemma detach_sorted_sc ctx el : detach_sorted ctx (sc el) = rmap sc (detach_sorted ctx el).
Proof.
  unfold detach_sorted. rewrite detach_sc. destruct (detach ctx el) as [d|e]; [|reflexivity]. cbn [rmap bind].
  destruct d as [sp tg attrs kids| | | | ]; try reflexivity; rewrite !strip_comments_elem; reflexivity.
Qed.

(* the search for a child element: comments cost nothing; only the index moves *)
Definition fcl_rel (i i' : nat) (ks : list node) (r1 r2 : res (option (nat * node) * nat)) : Prop :=
  match r1 with
  | Err e => r2 = Err e
  | Ok (None, l) => r2 = Ok (None, l)
  | Ok (Some (j, k), l) => exists d d', j = (i + d)%nat /\ locate ks d = Some (d', k) /\ r2 = Ok (Some ((i' + d')%nat, sc k), l)
  end.

Lemma find_child_loop_sc ctx' ns tag : forall ks i i' lim,
  fcl_rel i i' ks (find_child_loop ctx' ns tag ks i lim) (find_child_loop ctx' ns tag (sck ks) i' lim).
Proof.
  induction ks as [|x r IH]; intros i i' lim; [reflexivity|].
  destruct x as [sp tg attrs kids|s|s|t s|s].
  2,4,5: (rewrite sck_cons_keep by reflexivity; cbn [find_child_loop strip_comments];
          specialize (IH (S i) (S i') lim); unfold fcl_rel in *;
          destruct (find_child_loop ctx' ns tag r (S i) lim) as [[[[j k]|] l]|e]; [|exact IH|exact IH];
          destruct IH as (d & d' & -> & L & ->); exists (S d), (S d'); cbn [locate is_comment]; rewrite L;
          repeat split; [lia | f_equal; f_equal; f_equal; f_equal; lia]).
  - rewrite sck_cons_keep by reflexivity. rewrite strip_comments_elem. cbn [find_child_loop].
    destruct lim as [|lim']; [reflexivity|].
    destruct (sub_ctx ctx' attrs) as [c2|e]; [|reflexivity]. cbn [bind].
    destruct (lookup_prefix c2 sp) as [nsv|]; [|reflexivity].
    destruct ((nsv =?s ns) && (tg =?s tag)).
    + cbn [fcl_rel]. exists 0%nat, 0%nat. cbn [locate is_comment]. rewrite strip_comments_elem, !Nat.add_0_r. repeat split.
    + specialize (IH (S i) (S i') lim'). unfold fcl_rel in *.
      destruct (find_child_loop ctx' ns tag r (S i) lim') as [[[[j k]|] l]|e]; [|exact IH|exact IH].
      destruct IH as (d & d' & -> & L & ->). exists (S d), (S d'). cbn [locate is_comment]. rewrite L.
      repeat split; [lia | f_equal; f_equal; f_equal; f_equal; lia].
  - rewrite sck_cons_comment by reflexivity. cbn [find_child_loop].
    specialize (IH (S i) i' lim). unfold fcl_rel in *.
    destruct (find_child_loop ctx' ns tag r (S i) lim) as [[[[j k]|] l]|e]; [|exact IH|exact IH].
    destruct IH as (d & d' & -> & L & ->). exists (S d), d'. cbn [locate is_comment]. rewrite L.
    repeat split; lia.
Qed.

Lemma find_one_child_sc ctx el ns tag lim :
  fcl_rel 0 0 (kids_of el) (find_one_child ctx el ns tag lim) (find_one_child ctx (sc el) ns tag lim).
Proof.
  unfold find_one_child. rewrite sc_attrs, sc_kids. destruct (sub_ctx ctx (attrs_of el)) as [c|e]; [|reflexivity]. cbn [bind].
  apply find_child_loop_sc.
Qed.

(* canonicalPrep / TransformExcC14n on the stripped tree = the stripped preparation *)
Lemma canonical_prep_is_comment seen c n : is_comment (canonical_prep seen c n) = is_comment n.
Proof. destruct n; try reflexivity. rewrite canonical_prep_elem. reflexivity. Qed.

Lemma canonical_prep_sc : forall n seen c, canonical_prep seen c (sc n) = sc (canonical_prep seen c n).
Proof.
  fix IH 1. intros [s t a k| | | | ] seen c; try reflexivity.
  rewrite strip_comments_elem, !canonical_prep_elem, strip_comments_elem. f_equal.
  generalize (snd (prep_attrs (sort_attrs a) seen)) as seen'. intros seen'.
  induction k as [|x r IHr]; [reflexivity|].
  destruct (is_comment x) eqn:C.
  - rewrite sck_cons_comment by exact C. cbn [cprep_kids]. rewrite C. destruct c; cbn [negb andb].
    + rewrite sck_cons_comment by (rewrite canonical_prep_is_comment; exact C). exact IHr.
    + exact IHr.
  - rewrite sck_cons_keep by exact C. cbn [cprep_kids]. rewrite sc_is_comment, C, andb_false_r.
    rewrite sck_cons_keep by (rewrite canonical_prep_is_comment; exact C). rewrite IH, IHr. reflexivity.
Qed.

Lemma exc_prep_is_comment ctx d incl c n p : exc_prep ctx d incl c n = Ok p -> is_comment p = is_comment n.
Proof.
  destruct n; try (intros [= <-]; reflexivity). rewrite exc_prep_elem.
  destruct (sub_ctx ctx attrs); [|discriminate]. cbn [bind]. destruct (exc_declare _ _ _); [|discriminate]. cbn [bind].
  destruct (eprep_kids _ _ _ _ _); [|discriminate]. cbn [bind]. intros [= <-]. reflexivity.
Qed.

Lemma exc_prep_sc : forall n ctx declared incl c,
  exc_prep ctx declared incl c (sc n) = rmap sc (exc_prep ctx declared incl c n).
Proof.
  fix IH 1. intros [s t a k| | | | ] ctx declared incl c; try reflexivity.
  rewrite strip_comments_elem, !exc_prep_elem.
  destruct (sub_ctx ctx a) as [scope|e]; [|reflexivity]. cbn [bind].
  destruct (exc_declare (s :: fst (exc_scan a incl)) scope declared) as [da|e]; [|reflexivity]. cbn [bind].
  assert (E : eprep_kids scope (fst da) incl c (sck k) = rmap sck (eprep_kids scope (fst da) incl c k)).
  { generalize (fst da) as d'. intros d'. induction k as [|x r IHr]; [reflexivity|].
    destruct (is_comment x) eqn:C.
    - rewrite sck_cons_comment by exact C. cbn [eprep_kids]. rewrite C. destruct c; cbn [negb andb]; [|exact IHr].
      rewrite IHr. destruct x; try discriminate C. cbn [exc_prep bind].
      destruct (eprep_kids scope d' incl true r) as [r'|e]; [|reflexivity]. cbn [bind rmap]. reflexivity.
    - rewrite sck_cons_keep by exact C. cbn [eprep_kids]. rewrite sc_is_comment, C, andb_false_r. rewrite IH, IHr.
      destruct (exc_prep scope d' incl c x) as [x'|e] eqn:X; [|reflexivity]. cbn [rmap bind].
      destruct (eprep_kids scope d' incl c r) as [r'|e]; [|reflexivity]. cbn [rmap bind].
      rewrite sck_cons_keep by (rewrite (exc_prep_is_comment _ _ _ _ _ _ X); exact C). reflexivity. }
  rewrite E. destruct (eprep_kids scope (fst da) incl c k) as [k'|e]; [|reflexivity]. cbn [rmap bind].
  rewrite strip_comments_elem. reflexivity.
Qed.

Lemma si_prep_sc alg det : si_prep alg (sc det) = rmap (fun cp => (fst cp, sc (snd cp))) (si_prep alg det).
Proof.
  unfold si_prep.
  destruct (alg =?s alg_exc). { rewrite exc_prep_sc. destruct (exc_prep _ _ _ _ det); reflexivity. }
  destruct (alg =?s alg_exc_wc). { rewrite exc_prep_sc. destruct (exc_prep _ _ _ _ det); reflexivity. }
  destruct ((alg =?s alg_c11) || (alg =?s alg_rec)). { rewrite canonical_prep_sc. reflexivity. }
  destruct ((alg =?s alg_c11_wc) || (alg =?s alg_rec_wc)). { rewrite canonical_prep_sc. reflexivity. }
  reflexivity.
Qed.

Lemma si_prep_is_comment alg det cp : si_prep alg det = Ok cp -> is_comment (snd cp) = is_comment det.
Proof.
  unfold si_prep.
  destruct (alg =?s alg_exc). { destruct (exc_prep _ _ _ _ det) eqn:X; [|discriminate]. intros [= <-]. eapply exc_prep_is_comment; exact X. }
  destruct (alg =?s alg_exc_wc). { destruct (exc_prep _ _ _ _ det) eqn:X; [|discriminate]. intros [= <-]. eapply exc_prep_is_comment; exact X. }
  destruct ((alg =?s alg_c11) || (alg =?s alg_rec)). { intros [= <-]. apply canonical_prep_is_comment. }
  destruct ((alg =?s alg_c11_wc) || (alg =?s alg_rec_wc)). { intros [= <-]. apply canonical_prep_is_comment. }
  discriminate.
Qed.

(* decoding does not see comments *)
Lemma view_sc : forall n ns, view ns (sc n) = view ns n.
Proof.
  fix IH 1. intros [s t a k| | | | ] ns; try reflexivity.
  rewrite strip_comments_elem. cbn [view]. f_equal. f_equal.
  induction k as [|x r IHr]; [reflexivity|].
  destruct (is_comment x) eqn:C.
  - rewrite sck_cons_comment by exact C. rewrite IHr. destruct x; try discriminate; reflexivity.
  - rewrite sck_cons_keep by exact C. cbn [flat_map]. rewrite IH, IHr. reflexivity.
Qed.
Lemma height_sc : forall n, height (sc n) = height n.
Proof.
  fix IH 1. intros [s t a k| | | | ]; try reflexivity.
  rewrite strip_comments_elem. cbn [height]. f_equal.
  induction k as [|x r IHr]; [reflexivity|].
  destruct (is_comment x) eqn:C.
  - rewrite sck_cons_comment by exact C. rewrite IHr. destruct x; try discriminate; reflexivity.
  - rewrite sck_cons_keep by exact C. rewrite IH, IHr. reflexivity.
Qed.
Lemma unmarshal_element_sc sch name root : unmarshal_element sch name (sc root) = unmarshal_element sch name root.
Proof. unfold unmarshal_element. rewrite view_sc, height_sc. reflexivity. Qed.
(* the same for etree's default write settings (goxmldsig's re-serialisation of the Signature element) *)
Lemma view_original_sc : forall n ns, view_original ns (sc n) = view_original ns n.
Proof.
  fix IH 1. intros [s t a k| | | | ] ns; try reflexivity.
  rewrite strip_comments_elem. cbn [view_original]. f_equal. f_equal.
  induction k as [|x r IHr]; [reflexivity|].
  destruct (is_comment x) eqn:C.
  - rewrite sck_cons_comment by exact C. rewrite IHr. destruct x; try discriminate; reflexivity.
  - rewrite sck_cons_keep by exact C. cbn [flat_map]. rewrite IH, IHr. reflexivity.
Qed.
Lemma unmarshal_element_original_sc sch name root :
  unmarshal_element_original sch name (sc root) = unmarshal_element_original sch name root.
Proof. unfold unmarshal_element_original. rewrite view_original_sc, height_sc. reflexivity. Qed.

Lemma unmarshal_signature_sc ctx el : unmarshal_signature ctx (sc el) = unmarshal_signature ctx el.
Proof.
  unfold unmarshal_signature. rewrite detach_sc. destruct (detach ctx el) as [d|e]; [|reflexivity]. cbn [rmap relabel bind].
  rewrite unmarshal_element_original_sc. reflexivity.
Qed.

(* ---- 1.3 findSignature on the stripped tree: same visits, same budget, the stripped tree left behind, the same
        types.Signature; only the PATH of the signature differs, by [npath] ---- *)
Definition found_rel (p p' : list nat) (e1 : node) (o1 o2 : option found_sig) : Prop :=
  match o1, o2 with
  | None, None => True
  | Some f1, Some f2 =>
      fs_sig f2 = fs_sig f1 /\ fs_si_alg f2 = fs_si_alg f1 /\ fs_si_detached f2 = sc (fs_si_detached f1) /\
      exists q q', fs_path f1 = p ++ q /\ fs_path f2 = p' ++ q' /\ npath e1 q = Some q'
  | _, _ => False
  end.
Definition sim_res (p p' : list nat) (r1 r2 : res (node * nat * option found_sig)) : Prop :=
  match r1 with
  | Err e => r2 = Err e
  | Ok (e1, l1, o1) => is_elem e1 = true /\ exists o2, r2 = Ok (sc e1, l1, o2) /\ found_rel p p' e1 o1 o2
  end.

Lemma replace_child_is_elem el i new : is_elem (replace_child el i new) = is_elem el.
Proof. destruct el; reflexivity. Qed.

Lemma inspect_sc id ctx p p' sigel lim : is_elem sigel = true ->
  sim_res p p' (inspect id ctx p sigel lim) (inspect id ctx p' (sc sigel) lim).
Proof.
  intros HE. unfold inspect. rewrite validate_shape_sc, sc_attrs, sc_kids.
  destruct (validate_shape sigel); cbn [negb]; [|reflexivity].
  destruct (sub_ctx ctx (attrs_of sigel)) as [ctx2|e]; [|reflexivity]. cbn [bind].
  pose proof (find_child_loop_sc ctx2 ds_ns "SignedInfo" (kids_of sigel) 0 0 lim) as F. unfold fcl_rel in F.
  destruct (find_child_loop ctx2 ds_ns "SignedInfo" (kids_of sigel) 0 lim) as [[[[i si]|] lim1]|e]; [|rewrite F; reflexivity|rewrite F; reflexivity].
  destruct F as (d & d' & -> & L & ->). cbn [bind Nat.add].
  rewrite detach_sorted_sc. destruct (detach_sorted ctx2 si) as [det|e] eqn:D; [|reflexivity]. cbn [rmap relabel bind].
  pose proof (find_one_child_sc ctx2 det ds_ns "CanonicalizationMethod" lim1) as F2. unfold fcl_rel in F2.
  destruct (find_one_child ctx2 det ds_ns "CanonicalizationMethod" lim1) as [[[[j cm]|] lim2]|e]; [|rewrite F2; reflexivity|rewrite F2; reflexivity].
  destruct F2 as (d2 & d2' & _ & _ & ->). cbn [bind]. rewrite sc_attrs.
  rewrite si_prep_sc. destruct (si_prep _ det) as [cp|e] eqn:SP; [|reflexivity]. cbn [rmap bind fst snd].
  assert (Ccp : is_comment (snd cp) = false).
  { rewrite (si_prep_is_comment _ _ _ SP). apply is_elem_not_comment. apply (detach_sorted_shape _ _ _ D). }
  assert (ER : replace_child (sc sigel) d' (sc (snd cp)) = sc (replace_child sigel d (snd cp))).
  { destruct sigel as [sp tg attrs kids| | | | ]; try reflexivity. rewrite strip_comments_elem. cbn [replace_child].
    rewrite strip_comments_elem. f_equal. symmetry. eapply locate_replace; [exact L | exact Ccp]. }
  rewrite ER, unmarshal_signature_sc.
  destruct (unmarshal_signature ctx (replace_child sigel d (snd cp))) as [sg|e]; [|reflexivity]. cbn [bind].
  destruct (sg_signed_info sg) as [sinfo|]; [|reflexivity].
  destruct (existsb (ref_matches id) (si_refs sinfo)); cbn [sim_res]; (split; [rewrite replace_child_is_elem; exact HE|]).
  - eexists. split; [reflexivity|]. cbn [found_rel fs_sig fs_si_alg fs_si_detached fs_path]. repeat split.
    exists [], []. rewrite !app_nil_r. repeat split.
  - eexists. split; [reflexivity|]. exact I.
Qed.

Lemma fh_sc id ctx p p' el lim : is_elem el = true -> sim_res p p' (fh id ctx p el lim) (fh id ctx p' (sc el) lim).
Proof.
  intros HE. unfold fh, find_wrap. rewrite sc_attrs, sc_space, sc_tag.
  destruct (sub_ctx ctx (attrs_of el)) as [c2|e]; [|reflexivity]. cbn [bind].
  destruct (lookup_prefix c2 (space_of el)); [|reflexivity].
  destruct ((s =?s ds_ns) && (tag_of el =?s "Signature")); [apply inspect_sc; exact HE|].
  cbn [sim_res]. split; [exact HE|]. eexists. split; [reflexivity | exact I].
Qed.

Definition found_rel_kids (p p' : list nat) (i i' : nat) (ks1 : list node) (o1 o2 : option found_sig) : Prop :=
  match o1, o2 with
  | None, None => True
  | Some f1, Some f2 =>
      fs_sig f2 = fs_sig f1 /\ fs_si_alg f2 = fs_si_alg f1 /\ fs_si_detached f2 = sc (fs_si_detached f1) /\
      exists d d' k q q', fs_path f1 = p ++ (i + d)%nat :: q /\ fs_path f2 = p' ++ (i' + d')%nat :: q' /\
                          locate ks1 d = Some (d', k) /\ npath k q = Some q'
  | _, _ => False
  end.

Lemma found_rel_kids_shift p p' i i' x ks1 o1 o2 :
  found_rel_kids p p' (S i) (if is_comment x then i' else S i') ks1 o1 o2 -> found_rel_kids p p' i i' (x :: ks1) o1 o2.
Proof.
  destruct o1 as [f1|], o2 as [f2|]; cbn [found_rel_kids]; try (intros H; exact H).
  intros (A1 & A2 & A3 & d & d' & k & q & q' & P1 & P2 & L & Q). repeat split; try assumption.
  exists (S d), (if is_comment x then d' else S d'), k, q, q'. cbn [locate]. rewrite L.
  repeat split; try assumption; [rewrite P1 | rewrite P2]; do 2 f_equal; destruct (is_comment x); lia.
Qed.

Section Sim.
  Variable h : nsctx -> list nat -> node -> nat -> res (node * nat * option found_sig).
  Hypothesis h_sim : forall ctx p p' el lim, is_elem el = true -> sim_res p p' (h ctx p el lim) (h ctx p' (sc el) lim).

  Lemma mkids_sc trav
        (Htrav : forall ctx p p' el lim, is_elem el = true -> sim_res p p' (trav ctx p el lim) (trav ctx p' (sc el) lim)) :
    forall ks ctx' p p' i i' lim,
      match mkids trav ctx' p ks i lim with
      | Err e => mkids trav ctx' p' (sck ks) i' lim = Err e
      | Ok (ks1, l1, o1) => exists o2, mkids trav ctx' p' (sck ks) i' lim = Ok (sck ks1, l1, o2) /\ found_rel_kids p p' i i' ks1 o1 o2
      end.
  Proof.
    induction ks as [|x r IH]; intros ctx' p p' i i' lim.
    - cbn [mkids strip_comments_kids]. exists None. split; [reflexivity | exact I].
    - destruct (is_comment x) eqn:C.
      + rewrite sck_cons_comment by exact C. destruct x; try discriminate C. cbn [mkids].
        specialize (IH ctx' p p' (S i) i' lim).
        destruct (mkids trav ctx' p r (S i) lim) as [[[r1 l1] o1]|e]; [|exact IH]. cbn [bind].
        destruct IH as (o2 & E & FR). exists o2. rewrite sck_cons_comment by reflexivity. split; [exact E|].
        apply found_rel_kids_shift. exact FR.
      + rewrite sck_cons_keep by exact C.
        destruct x as [sp tg attrs kids|s|s|t s|s]; try discriminate C.
        2,3,4: (cbn [mkids strip_comments];
                specialize (IH ctx' p p' (S i) (S i') lim);
                destruct (mkids trav ctx' p r (S i) lim) as [[[r1 l1] o1]|e]; [|rewrite IH; reflexivity]; cbn [bind];
                destruct IH as (o2 & E & FR); rewrite E; cbn [bind]; exists o2; rewrite sck_cons_keep by reflexivity; split; [reflexivity|];
                apply found_rel_kids_shift; exact FR).
        remember (Elem sp tg attrs kids) as x eqn:EX.
        assert (HEx : is_elem x = true) by (subst x; reflexivity).
        assert (M : mkids trav ctx' p (x :: r) i lim =
                    do t <- trav ctx' (p ++ [i]) x lim;
                    match t with
                    | (k', lim', Some f) => Ok (k' :: r, lim', Some f)
                    | (k', lim', None) => do t2 <- mkids trav ctx' p r (S i) lim'; match t2 with (r', lim'', f) => Ok (k' :: r', lim'', f) end
                    end) by (subst x; reflexivity).
        assert (M' : mkids trav ctx' p' (sc x :: sck r) i' lim =
                    do t <- trav ctx' (p' ++ [i']) (sc x) lim;
                    match t with
                    | (k', lim', Some f) => Ok (k' :: sck r, lim', Some f)
                    | (k', lim', None) => do t2 <- mkids trav ctx' p' (sck r) (S i') lim'; match t2 with (r', lim'', f) => Ok (k' :: r', lim'', f) end
                    end) by (subst x; rewrite strip_comments_elem; reflexivity).
        rewrite M, M'. clear M M'.
        pose proof (Htrav ctx' (p ++ [i]) (p' ++ [i']) x lim HEx) as T. unfold sim_res in T.
        destruct (trav ctx' (p ++ [i]) x lim) as [[[k1 l1] o1]|e]; [|rewrite T; reflexivity]. cbn [bind].
        destruct T as (Ek1 & o2 & -> & FR). cbn [bind]. pose proof (is_elem_not_comment _ Ek1) as Ck.
        destruct o1 as [f1|], o2 as [f2|]; try contradiction.
        * (* halted inside this child *)
          destruct FR as (A1 & A2 & A3 & q & q' & P1 & P2 & Q).
          exists (Some f2). rewrite sck_cons_keep by exact Ck. split; [reflexivity|].
          cbn [found_rel_kids]. repeat split; try assumption.
          exists 0%nat, 0%nat, k1, q, q'. cbn [locate]. rewrite Ck, !Nat.add_0_r.
          repeat split; try assumption; [rewrite P1 | rewrite P2]; rewrite <- app_assoc; reflexivity.
        * specialize (IH ctx' p p' (S i) (S i') l1).
          destruct (mkids trav ctx' p r (S i) l1) as [[[r1 l2] o1]|e]; [|rewrite IH; reflexivity]. cbn [bind].
          destruct IH as (o2 & E & FR2). rewrite E. cbn [bind]. exists o2. rewrite sck_cons_keep by exact Ck. split; [reflexivity|].
          apply found_rel_kids_shift. rewrite Ck. exact FR2.
  Qed.

  Lemma mtraverse_sc : forall fuel ctx p p' el lim, is_elem el = true ->
    sim_res p p' (mtraverse h fuel ctx p el lim) (mtraverse h fuel ctx p' (sc el) lim).
  Proof.
    induction fuel as [|fuel IH]; intros ctx p p' el lim HE; [reflexivity|].
    destruct el as [sp tg attrs kids| | | | ]; try discriminate HE.
    rewrite strip_comments_elem. cbn [mtraverse].
    destruct lim as [|lim']; [reflexivity|].
    destruct (sub_ctx ctx attrs) as [ctx'|e]; [|reflexivity]. cbn [bind].
    pose proof (h_sim ctx' p p' (Elem sp tg attrs kids) lim' HE) as T. rewrite strip_comments_elem in T. unfold sim_res in T.
    destruct (h ctx' p (Elem sp tg attrs kids) lim') as [[[el1 lim1] o1]|e]; [|rewrite T; reflexivity]. cbn [bind].
    destruct T as (E1 & o2 & -> & FR). cbn [bind].
    destruct o1 as [f1|], o2 as [f2|]; try contradiction.
    - cbn [sim_res]. split; [exact E1|]. exists (Some f2). split; [reflexivity | exact FR].
    - destruct el1 as [sp1 tg1 attrs1 kids1| | | | ]; try discriminate E1. rewrite strip_comments_elem.
      pose proof (mkids_sc (mtraverse h fuel) IH kids1 ctx' p p' 0 0 lim1) as K.
      destruct (mkids (mtraverse h fuel) ctx' p kids1 0 lim1) as [[[kids2 lim2] o1]|e]; [|rewrite K; reflexivity]. cbn [bind].
      destruct K as (o2 & -> & FRK). cbn [bind sim_res]. split; [reflexivity|]. exists o2. rewrite strip_comments_elem. split; [reflexivity|].
      destruct o1 as [f1|], o2 as [f2|]; try exact FRK.
      destruct FRK as (A1 & A2 & A3 & d & d' & k & q & q' & P1 & P2 & L & Q). cbn [found_rel]. repeat split; try assumption.
      exists (d :: q), (d' :: q'). cbn [Nat.add] in P1, P2. repeat split; try assumption.
      cbn [npath kids_of]. rewrite L, Q. reflexivity.
  Qed.
End Sim.

Lemma id_of_sc root : id_of (sc root) = id_of root.
Proof. unfold id_of. rewrite sc_attrs. reflexivity. Qed.

(* findSignature(strip root): the stripped tree left behind, the same signature, the translated path *)
Theorem find_signature_sc root : is_elem root = true ->
  match find_signature root with
  | Err e => find_signature (sc root) = Err e
  | Ok (root', f1) =>
      exists f2, find_signature (sc root) = Ok (sc root', f2) /\
                 fs_sig f2 = fs_sig f1 /\ fs_si_alg f2 = fs_si_alg f1 /\ fs_si_detached f2 = sc (fs_si_detached f1) /\
                 npath root' (fs_path f1) = Some (fs_path f2)
  end.
Proof.
  intros HE. unfold find_signature. rewrite id_of_sc.
  pose proof (mtraverse_sc (fh (id_of root)) (fh_sc (id_of root)) (S traversal_limit) default_ctx [] [] root traversal_limit HE) as T.
  unfold fh in T. unfold sim_res in T.
  destruct (mtraverse (find_wrap ds_ns "Signature" (inspect (id_of root))) (S traversal_limit) default_ctx [] root traversal_limit) as [[[root' l1] o1]|e].
  - destruct T as (_ & o2 & -> & FR). cbn [no_missing bind].
    destruct o1 as [f1|], o2 as [f2|]; try contradiction; [|reflexivity].
    destruct FR as (A1 & A2 & A3 & q & q' & P1 & P2 & Q). cbn [app] in P1, P2. subst q q'.
    exists f2. repeat split; assumption.
  - rewrite T. destruct e; reflexivity.
Qed.

(* ---- 1.4 validateSignature ---- *)
Fixpoint enveloped_count (ts : list transform_t) : nat :=
  match ts with
  | [] => O
  | t :: r => ((if tr_alg t =?s alg_enveloped then 1 else 0) + enveloped_count r)%nat
  end.
(* the canonicaliser the transform loop ends with (unknown identifiers: the loop fails anyway) *)
Fixpoint transforms_alg (ts : list transform_t) (c : option canon_alg) : option canon_alg :=
  match ts with
  | [] => c
  | t :: r => if tr_alg t =?s alg_enveloped then transforms_alg r c
              else transforms_alg r (match c14n_of t with Some x => Some x | None => c end)
  end.
Definition effective_alg (r : reference) : canon_alg :=
  match transforms_alg (ref_transforms r) None with Some c => c | None => CNull end.

Lemma apply_transforms_step t r p el c :
  apply_transforms (t :: r) p el c =
  if tr_alg t =?s alg_enveloped then
    match remove_at_path el p with
    | Some el' => apply_transforms r p el' c
    | None => Err (EOther "transform-sig-not-found")
    end
  else match c14n_of t with
       | Some x => apply_transforms r p el (Some x)
       | None => Err (EOther "unknown-transform")
       end.
Proof.
  cbn [apply_transforms]. unfold c14n_of. destruct (tr_alg t =?s alg_enveloped); [reflexivity|].
  repeat match goal with |- context [if ?b then _ else _] => destruct b; [reflexivity|] end. reflexivity.
Qed.

Lemma apply_transforms_alg : forall ts p el c el' c',
  apply_transforms ts p el c = Ok (el', c') -> c' = transforms_alg ts c.
Proof.
  induction ts as [|t r IH]; intros p el c el' c' H.
  - cbn in H. injection H as _ <-. reflexivity.
  - rewrite apply_transforms_step in H. cbn [transforms_alg].
    destruct (tr_alg t =?s alg_enveloped).
    + destruct (remove_at_path el p); [eapply IH; exact H | discriminate H].
    + destruct (c14n_of t); [eapply IH; exact H | discriminate H].
Qed.

Lemma apply_transforms_sc : forall ts p p' el c,
  (enveloped_count ts = 0%nat \/ (enveloped_count ts = 1%nat /\ npath el p = Some p')) ->
  apply_transforms ts p' (sc el) c = rmap (fun t => (sc (fst t), snd t)) (apply_transforms ts p el c).
Proof.
  induction ts as [|t r IH]; intros p p' el c H; [reflexivity|].
  rewrite !apply_transforms_step. cbn [enveloped_count] in H.
  destruct (tr_alg t =?s alg_enveloped).
  - destruct H as [H|[H Q]]; [discriminate H|]. injection H as H.
    rewrite (npath_remove _ _ _ Q). destruct (remove_at_path el p) as [el'|]; [|reflexivity]. cbn [option_map].
    apply IH. left. exact H.
  - destruct (c14n_of t); [|reflexivity]. apply IH. exact H.
Qed.

Section Validate.
  Variable digest : string -> string -> option string.
  Variable sig_ok : cert -> string -> string -> string -> bool.
  Variable parse_cert : string -> option cert.
  Variable reparse : string -> option node.

  (* the reference validateSignature settles on (after the signature over SignedInfo; the checks in between do not matter
     for WHICH reference it would be) *)
  Definition picked_reference_at (root' : node) (f : found_sig) : res reference :=
    do si_bytes <- canonical_signed_info canon_model root' f;
    match reparse si_bytes with
    | None => Err (EOther "si-unmarshal")
    | Some sin =>
        do sinfo2 <- unmarshal_signed_info sin;
        match pick_reference (id_of root') (si_refs sinfo2) with
        | None => Err (EOther "missing-reference")
        | Some r => Ok r
        end
    end.
  Definition picked_reference (root : node) : res reference :=
    do rf <- find_signature root; picked_reference_at (fst rf) (snd rf).

  (* comments cannot matter for this reference: at most one enveloped-signature transform (a second one removes whatever
     token has moved to the signature's index), and the canonicaliser the transforms end with drops comments *)
  Definition ref_comment_safe (r : reference) : bool :=
    Nat.leb (enveloped_count (ref_transforms r)) 1 && negb (keeps_comments (effective_alg r)).

  (* SignedInfo: its canonicaliser drops comments, or there is no comment inside it *)
  Definition si_comment_safe (f : found_sig) : Prop :=
    keeps_comments (fs_si_alg f) = false \/ sc (fs_si_detached f) = fs_si_detached f.

  Lemma canonical_signed_info_sc root' f1 f2 :
    fs_si_alg f2 = fs_si_alg f1 -> fs_si_detached f2 = sc (fs_si_detached f1) ->
    npath root' (fs_path f1) = Some (fs_path f2) -> si_comment_safe f1 ->
    canonical_signed_info canon_model (sc root') f2 = canonical_signed_info canon_model root' f1.
  Proof.
    intros A2 A3 Q S. unfold canonical_signed_info. f_equal.
    rewrite (npath_parent_ctx _ _ _ default_ctx Q).
    destruct (parent_ctx default_ctx root' (fs_path f1)) as [pc|e]; [|reflexivity]. cbn [bind].
    destruct (npath_node_at _ _ _ Q) as (s & N1 & N2). rewrite N1, N2.
    pose proof (find_one_child_sc pc s ds_ns "SignedInfo" traversal_limit) as F. unfold fcl_rel in F.
    assert (C : canon_model (fs_si_alg f2) (fs_si_detached f2) = canon_model (fs_si_alg f1) (fs_si_detached f1)).
    { rewrite A2, A3. destruct S as [S|S]; [apply canon_ignores_comments; exact S | rewrite S; reflexivity]. }
    destruct (find_one_child pc s ds_ns "SignedInfo" traversal_limit) as [[[[j k]|] l]|e].
    - destruct F as (d & d' & _ & _ & ->). cbn [bind fst]. rewrite C. reflexivity.
    - rewrite F. reflexivity.
    - rewrite F. reflexivity.
  Qed.

  Lemma transform_sc root' p p' r :
    npath root' p = Some p' -> ref_comment_safe r = true ->
    match transform root' p r with
    | Err e => transform (sc root') p' r = Err e
    | Ok (el, a) => transform (sc root') p' r = Ok (sc el, a) /\ keeps_comments a = false
    end.
  Proof.
    intros Q S. unfold ref_comment_safe in S. apply andb_true_iff in S as [S1 S2]. apply Nat.leb_le in S1. apply negb_true_iff in S2.
    unfold transform. rewrite (apply_transforms_sc (ref_transforms r) p p' root' None).
    2:{ destruct (enveloped_count (ref_transforms r)) as [|[|n]]; [left; reflexivity | right; split; [reflexivity | exact Q] | lia]. }
    destruct (apply_transforms (ref_transforms r) p root' None) as [[el c]|e] eqn:AT; [|reflexivity]. cbn [rmap bind fst snd].
    split; [reflexivity|]. apply apply_transforms_alg in AT. unfold effective_alg in S2. rewrite <- AT in S2. exact S2.
  Qed.

  Lemma validate_signature_sc root' f1 f2 c :
    fs_sig f2 = fs_sig f1 -> fs_si_alg f2 = fs_si_alg f1 -> fs_si_detached f2 = sc (fs_si_detached f1) ->
    npath root' (fs_path f1) = Some (fs_path f2) ->
    si_comment_safe f1 ->
    (forall r, picked_reference_at root' f1 = Ok r -> ref_comment_safe r = true) ->
    validate_signature canon_model digest sig_ok reparse (sc root') f2 c =
    validate_signature canon_model digest sig_ok reparse root' f1 c.
  Proof.
    intros A1 A2 A3 Q S1 S2. unfold validate_signature. rewrite A1.
    destruct (sg_signed_info (fs_sig f1)) as [sinfo|]; [|reflexivity].
    rewrite (canonical_signed_info_sc root' f1 f2 A2 A3 Q S1).
    unfold picked_reference_at in S2.
    destruct (canonical_signed_info canon_model root' f1) as [si_bytes|e]; [|reflexivity]. cbn [bind] in *.
    destruct (negb (mem_str (si_sig_alg sinfo) known_sig_methods)); [reflexivity|].
    destruct (sg_value (fs_sig f1)) as [data|]; [|reflexivity].
    destruct (base64_decode data) as [raw|]; [|reflexivity].
    destruct (negb (sig_ok c (si_sig_alg sinfo) si_bytes raw)); [reflexivity|].
    destruct (reparse si_bytes) as [sin|]; [|reflexivity].
    destruct (unmarshal_signed_info sin) as [sinfo2|e]; [|reflexivity]. cbn [bind] in *.
    rewrite id_of_sc.
    destruct (pick_reference (id_of root') (si_refs sinfo2)) as [r|]; [|reflexivity].
    destruct (base64_decode (ref_digest_value r)) as [want|]; [|reflexivity].
    pose proof (transform_sc root' _ _ r Q (S2 r eq_refl)) as T.
    destruct (transform root' (fs_path f1) r) as [[el a]|e]; [|rewrite T; reflexivity].
    destruct T as [-> K]. cbn [bind fst snd]. rewrite (canon_ignores_comments a el K). reflexivity.
  Qed.

  (* (1) the verdict on the stripped tree *)
  Theorem validation_ignores_comments store now root :
    (forall rf, find_signature root = Ok rf -> si_comment_safe (snd rf)) ->
    (forall r, picked_reference root = Ok r -> ref_comment_safe r = true) ->
    dsig_validate canon_model digest sig_ok parse_cert reparse store now (sc root) =
    dsig_validate canon_model digest sig_ok parse_cert reparse store now root.
  Proof.
    intros S1 S2. destruct (is_elem root) eqn:HE; [|destruct root; try discriminate HE; reflexivity].
    unfold dsig_validate, validate_res. unfold picked_reference in S2.
    pose proof (find_signature_sc root HE) as F.
    destruct (find_signature root) as [[root' f1]|e]; [|rewrite F; reflexivity].
    destruct F as (f2 & -> & A1 & A2 & A3 & Q). cbn [bind fst snd] in *. rewrite A1.
    destruct (no_missing (verify_certificate parse_cert store now (fs_sig f1))) as [c|e]; [|reflexivity]. cbn [bind].
    rewrite (validate_signature_sc root' f1 f2 c A1 A2 A3 Q (S1 _ eq_refl) S2). reflexivity.
  Qed.

  (* two serialisations that differ by comments only, anywhere *)
  Corollary validation_same_modulo_comments store now root1 root2 :
    sc root1 = sc root2 ->
    (forall rf, find_signature root1 = Ok rf -> si_comment_safe (snd rf)) ->
    (forall rf, find_signature root2 = Ok rf -> si_comment_safe (snd rf)) ->
    (forall r, picked_reference root1 = Ok r -> ref_comment_safe r = true) ->
    (forall r, picked_reference root2 = Ok r -> ref_comment_safe r = true) ->
    dsig_validate canon_model digest sig_ok parse_cert reparse store now root1 =
    dsig_validate canon_model digest sig_ok parse_cert reparse store now root2.
  Proof.
    intros E A1 A2 B1 B2.
    rewrite <- (validation_ignores_comments store now root1 A1 B1), <- (validation_ignores_comments store now root2 A2 B2), E.
    reflexivity.
  Qed.
End Validate.

(* the reference picked does not depend on comments either (so the premise about it is needed for one layout only) *)
Lemma picked_reference_sc reparse root :
  (forall rf, find_signature root = Ok rf -> si_comment_safe (snd rf)) ->
  picked_reference reparse (sc root) = picked_reference reparse root.
Proof.
  intros S1. destruct (is_elem root) eqn:HE; [|destruct root; try discriminate HE; reflexivity].
  unfold picked_reference. pose proof (find_signature_sc root HE) as F.
  destruct (find_signature root) as [[root' f1]|e]; [|rewrite F; reflexivity].
  destruct F as (f2 & -> & A1 & A2 & A3 & Q). cbn [bind fst snd]. unfold picked_reference_at.
  rewrite (canonical_signed_info_sc root' f1 f2 A2 A3 Q (S1 _ eq_refl)), id_of_sc. reflexivity.
Qed.

Theorem validation_same_modulo_comments' digest sig_ok parse_cert reparse store now root1 root2 :
  sc root1 = sc root2 ->
  (forall rf, find_signature root1 = Ok rf -> si_comment_safe (snd rf)) ->
  (forall rf, find_signature root2 = Ok rf -> si_comment_safe (snd rf)) ->
  (forall r, picked_reference reparse root1 = Ok r -> ref_comment_safe r = true) ->
  dsig_validate canon_model digest sig_ok parse_cert reparse store now root1 =
  dsig_validate canon_model digest sig_ok parse_cert reparse store now root2.
Proof.
  intros E A1 A2 B1. apply validation_same_modulo_comments; try assumption.
  rewrite <- (picked_reference_sc reparse root2 A2), <- E, (picked_reference_sc reparse root1 A1). exact B1.
Qed.

(* ---- 1.5 non-vacuity, and where the premises are needed ---- *)
Module LayoutEx.
  Definition A (k v : string) : attr := {| at_space := ""; at_key := k; at_val := v |}.
  Definition NS (p v : string) : attr := {| at_space := "xmlns"; at_key := p; at_val := v |}.
  Definition DS (tag : string) (attrs : list attr) (kids : list node) : node := Elem "ds" tag attrs kids.
  Definition digest20 := "01234567890123456789".
  (* [c]: what is put wherever a comment can go *)
  Definition reference_el (uri dv : string) (trs : list string) (c : list node) : node :=
    DS "Reference" [A "URI" uri]
       (c ++ [DS "Transforms" [] (map (fun a => DS "Transform" [A "Algorithm" a] []) trs);
        DS "DigestMethod" [A "Algorithm" "http://www.w3.org/2001/04/xmlenc#sha256"] [];
        DS "DigestValue" [] ([Text (substring 0 5 dv)] ++ c ++ [Text (substring 5 100 dv)])]).
  Definition signed_info_el (sialg : string) (trs : list string) (c : list node) : node :=
    DS "SignedInfo" []
       (c ++ [DS "CanonicalizationMethod" [A "Algorithm" sialg] c;
         DS "SignatureMethod" [A "Algorithm" "http://www.w3.org/2001/04/xmldsig-more#rsa-sha256"] [];
         reference_el "#x" (base64_encode digest20) trs c]).
  (* c : comments outside SignedInfo, cs : comments inside SignedInfo; SignatureValue is base64 of "sig", cut by a comment *)
  Definition signature_el (sialg : string) (trs : list string) (c cs : list node) : node :=
    Elem "ds" "Signature" [NS "ds" ds_ns]
         (c ++ [signed_info_el sialg trs cs] ++ c ++ [DS "SignatureValue" [] ([Text "c2"] ++ c ++ [Text "ln"])]).
  Definition doc (sialg : string) (trs : list string) (c cs : list node) : node :=
    Elem "s" "Root" [A "ID" "x"; NS "s" "urn:s"]
      (c ++ [Elem "s" "Issuer" [] ([Text "idp"] ++ c)] ++ c ++ [signature_el sialg trs c cs] ++ c ++
       [Elem "s" "Item" [A "b" "1"; A "a" "2"] ([Text "hel"] ++ c ++ [Text "lo"]); Text "!"]).
  Definition the_cert : cert :=
    {| c_der := "DER"; c_not_before := {| i_sec := 100; i_nsec := 0 |}; c_not_after := {| i_sec := 200; i_nsec := 0 |} |}.
  Definition base sialg trs := doc sialg trs [] [].
  (* oracles: the canonicaliser is the MODEL; signature check, digest and re-parse are tables built around the bytes the
     model computes for the comment-free document *)
  Definition si_bytes sialg trs := match obs_si_bytes canon_model (base sialg trs) with Ok b => b | Err _ => "?" end.
  Definition reparse0 sialg trs (b : string) : option node :=
    if b =?s si_bytes sialg trs
    then Some (match signed_info_el sialg trs [] with
               | Elem sp tg attrs kids => Elem sp tg (NS "ds" ds_ns :: attrs) kids
               | other => other end)
    else None.
  Definition body_bytes sialg trs :=
    match obs_ref_bytes canon_model (reparse0 sialg trs) (base sialg trs) with Ok b => b | Err _ => "??" end.
  Definition verified : node := Elem "" "Verified" [] [].
  Definition reparse sialg trs (b : string) : option node :=
    if b =?s body_bytes sialg trs then Some verified else reparse0 sialg trs b.
  Definition digest sialg trs (alg bytes : string) : option string :=
    if bytes =?s body_bytes sialg trs then Some digest20 else Some "00000000000000000000".
  Definition sig_ok sialg trs (c : cert) (alg msg sg : string) : bool :=
    (c_der c =?s "DER") && (msg =?s si_bytes sialg trs) && (sg =?s "sig").
  Definition parse_cert (der : string) : option cert := None.
  Definition run sialg trs (root : node) :=
    dsig_validate canon_model (digest sialg trs) (sig_ok sialg trs) parse_cert (reparse sialg trs) [the_cert]
                  {| i_sec := 150; i_nsec := 0 |} root.
  Definition C := [Comment "x"].
  Definition usual := [alg_enveloped; alg_exc].

  (* exc-c14n for SignedInfo and reference: comments EVERYWHERE (before the Signature: its path moves from [1] to [3];
     inside SignedInfo, DigestValue, SignatureValue): premises hold, accepted on both sides *)
  Example comments_everywhere :
    let root := doc alg_exc usual C C in
    sc root = base alg_exc usual /\ root <> base alg_exc usual /\
    (exists r f, find_signature root = Ok (r, f) /\ fs_path f = [3%nat]) /\
    (exists r f, find_signature (sc root) = Ok (r, f) /\ fs_path f = [1%nat]) /\
    (forall rf, find_signature root = Ok rf -> si_comment_safe (snd rf)) /\
    (forall r, picked_reference (reparse alg_exc usual) root = Ok r -> ref_comment_safe r = true) /\
    run alg_exc usual root = DOk verified /\ run alg_exc usual (sc root) = DOk verified.
  Proof.
    cbv zeta. split; [vm_compute; reflexivity|]. split; [intros H; discriminate H|].
    split; [eexists; eexists; vm_compute; split; reflexivity|]. split; [eexists; eexists; vm_compute; split; reflexivity|].
    split; [intros rf H; vm_compute in H; injection H as <-; left; reflexivity|].
    split; [intros r H; vm_compute in H; injection H as <-; vm_compute; reflexivity|].
    split; vm_compute; reflexivity.
  Qed.

  (* SignedInfo canonicalised WITH comments: comments may go anywhere outside SignedInfo *)
  Example comments_outside_signed_info :
    let root := doc alg_exc_wc usual C [] in
    (forall rf, find_signature root = Ok rf -> si_comment_safe (snd rf)) /\
    (forall r, picked_reference (reparse alg_exc_wc usual) root = Ok r -> ref_comment_safe r = true) /\
    run alg_exc_wc usual root = DOk verified /\ run alg_exc_wc usual (sc root) = DOk verified.
  Proof.
    cbv zeta. split; [intros rf H; vm_compute in H; injection H as <-; right; vm_compute; reflexivity|].
    split; [intros r H; vm_compute in H; injection H as <-; vm_compute; reflexivity|].
    split; vm_compute; reflexivity.
  Qed.
End LayoutEx.

(* WITHOUT the premises the statement is false of the model (and of goxmldsig: by design for the with-comments
   algorithms; the third is a curiosity of removeElementAtPath) *)
Theorem validation_comments_matter_without_premises :
  (* a comment inside a SignedInfo canonicalised with comments *)
  (exists root, LayoutEx.run alg_exc_wc LayoutEx.usual (sc root) = DOk LayoutEx.verified /\
                LayoutEx.run alg_exc_wc LayoutEx.usual root = DErr) /\
  (* a comment in an element digested under a with-comments transform, or under no canonicalisation transform at all
     (the null canonicaliser keeps comments) *)
  (exists root, LayoutEx.run alg_exc [alg_enveloped; alg_exc_wc] (sc root) = DOk LayoutEx.verified /\
                LayoutEx.run alg_exc [alg_enveloped; alg_exc_wc] root = DErr) /\
  (exists root, LayoutEx.run alg_exc [alg_enveloped] (sc root) = DOk LayoutEx.verified /\
                LayoutEx.run alg_exc [alg_enveloped] root = DErr) /\
  (* enveloped-signature listed TWICE: the second removal takes whatever token now stands at the signature's index -- the
     next element in the comment-free document (which is then not digested), a comment otherwise (an error) *)
  (exists root, LayoutEx.run alg_exc [alg_enveloped; alg_enveloped; alg_exc] (sc root) = DOk LayoutEx.verified /\
                LayoutEx.run alg_exc [alg_enveloped; alg_enveloped; alg_exc] root = DErr /\
                keeps_comments (CExc "" false) = false).
Proof.
  split; [exists (LayoutEx.doc alg_exc_wc LayoutEx.usual [] LayoutEx.C); split; vm_compute; reflexivity|].
  split; [exists (LayoutEx.doc alg_exc [alg_enveloped; alg_exc_wc] LayoutEx.C []); split; vm_compute; reflexivity|].
  split; [exists (LayoutEx.doc alg_exc [alg_enveloped] LayoutEx.C []); split; vm_compute; reflexivity|].
  exists (LayoutEx.doc alg_exc [alg_enveloped; alg_enveloped; alg_exc] LayoutEx.C []). repeat split; vm_compute; reflexivity.
Qed.

(* ================================================================ 2. attribute order *)
(* an attribute that may move: unprefixed and not a declaration (ID, Version, IssueInstant, Destination, InResponseTo, ...) *)
Definition movable (a : attr) : bool := (at_space a =?s "") && negb (at_key a =?s "xmlns").
Definition fixed_part (l : list attr) : list attr := filter (fun a => negb (movable a)) l.
(* the attribute lists of one element in the two layouts: the same, or a permutation that SortedAttrs.Less can undo
   (sort_total) and that keeps the relative order of declarations and prefixed attributes *)
Definition arel (a a' : list attr) : Prop :=
  a = a' \/ (Permutation a a' /\ fixed_part a' = fixed_part a /\ sort_total a = true).

(* the two layouts of a tree: elements whose tag is Signature (in any name space) are left alone, with all they contain *)
Fixpoint po (n n' : node) {struct n} : Prop :=
  match n, n' with
  | Elem sp tg a k, Elem sp' tg' a' k' =>
      sp = sp' /\ tg = tg' /\
      if tg =?s "Signature" then a = a' /\ k = k'
      else arel a a' /\
           (fix go (l l' : list node) {struct l} : Prop :=
              match l, l' with
              | [], [] => True
              | x :: r, x' :: r' => po x x' /\ go r r'
              | _, _ => False
              end) k k'
  | Elem _ _ _ _, _ => False
  | other, other' => other = other'
  end.
Fixpoint po_kids (l l' : list node) : Prop :=
  match l, l' with
  | [], [] => True
  | x :: r, x' :: r' => po x x' /\ po_kids r r'
  | _, _ => False
  end.
Lemma po_elem sp tg a k sp' tg' a' k' :
  po (Elem sp tg a k) (Elem sp' tg' a' k') <->
  sp = sp' /\ tg = tg' /\ if tg =?s "Signature" then a = a' /\ k = k' else arel a a' /\ po_kids k k'.
Proof.
  cbn [po]. assert (E : forall l l', (fix go (l l' : list node) {struct l} : Prop :=
              match l, l' with
              | [], [] => True
              | x :: r, x' :: r' => po x x' /\ go r r'
              | _, _ => False
              end) l l' <-> po_kids l l').
  { induction l as [|x r IH]; intros [|x' r']; cbn [po_kids]; try tauto; rewrite IH; tauto. }
  destruct (tg =?s "Signature"); [tauto|]. specialize (E k k'). tauto.
Qed.

Lemma po_refl : forall n, po n n.
Proof.
  fix IH 1. intros [sp tg a k| | | | ]; try reflexivity. apply po_elem. split; [reflexivity|]. split; [reflexivity|].
  destruct (tg =?s "Signature"); [split; reflexivity|]. split; [left; reflexivity|].
  induction k as [|x r IHr]; [exact I|]. split; [apply IH | exact IHr].
Qed.
Lemma po_kids_refl l : po_kids l l.
Proof. induction l as [|x r IH]; [exact I | split; [apply po_refl | exact IH]]. Qed.

Lemma po_nonelem n n' : is_elem n = false -> po n n' -> n' = n.
Proof. destruct n; try discriminate; intros _ H; cbn in H; symmetry; exact H. Qed.
Lemma po_is_elem n n' : po n n' -> is_elem n' = is_elem n.
Proof. destruct n, n'; cbn; intros H; try contradiction; try discriminate H; reflexivity. Qed.

(* sub-contexts read the declarations only, in their order *)
Lemma sub_context_fixed : forall a ctx, sub_context ctx a = sub_context ctx (fixed_part a).
Proof.
  induction a as [|x r IH]; intros ctx; [reflexivity|]. unfold fixed_part. cbn [filter]. unfold movable at 1.
  cbn [sub_context].
  destruct (at_space x =?s "xmlns") eqn:S1.
  - apply String.eqb_eq in S1. rewrite S1. cbn [String.eqb Ascii.eqb Bool.eqb andb negb]. cbn [sub_context]. rewrite S1. cbn [String.eqb Ascii.eqb Bool.eqb].
    destruct ((at_key x =?s "xml") && negb (at_val x =?s XMLNamespace)); [reflexivity|].
    destruct (at_key x =?s "xmlns"); [reflexivity|]. apply IH.
  - destruct (at_space x =?s "") eqn:S2; cbn [andb negb].
    + destruct (at_key x =?s "xmlns") eqn:K; cbn [negb andb].
      * cbn [sub_context]. rewrite S1, S2, K. cbn [andb]. destruct (at_val x =?s XMLNSNamespace); [reflexivity|]. apply IH.
      * apply IH.
    + cbn [sub_context]. rewrite S1, S2. cbn [andb]. apply IH.
Qed.
Lemma sub_ctx_arel ctx a a' : arel a a' -> sub_ctx ctx a' = sub_ctx ctx a.
Proof.
  intros [->|(_ & F & _)]; [reflexivity|]. unfold sub_ctx. rewrite (sub_context_fixed a'), (sub_context_fixed a), F. reflexivity.
Qed.
Ltac po_cases n n' H :=
  destruct n as [?sp ?tg ?a ?k| | | | ], n' as [?sp' ?tg' ?a' ?k'| | | | ]; cbn [po] in H; try contradiction; try discriminate H.

Lemma po_attrs_ctx n n' ctx : po n n' -> sub_ctx ctx (attrs_of n') = sub_ctx ctx (attrs_of n).
Proof.
  intros H. po_cases n n' H; try reflexivity.
  change (po (Elem sp tg a k) (Elem sp' tg' a' k')) in H. apply po_elem in H. destruct H as (_ & _ & H). cbn [attrs_of].
  destruct (tg =?s "Signature"); [destruct H as [-> _]; reflexivity | apply sub_ctx_arel; apply H].
Qed.
Lemma po_space_tag n n' : po n n' -> space_of n' = space_of n /\ tag_of n' = tag_of n.
Proof.
  intros H. po_cases n n' H; try (injection H as <-; split; reflexivity); try (split; reflexivity).
  destruct H as (E1 & E2 & _). subst. split; reflexivity.
Qed.
Lemma po_kids_of n n' : po n n' -> po_kids (kids_of n) (kids_of n').
Proof.
  intros H. po_cases n n' H; try exact I.
  change (po (Elem sp tg a k) (Elem sp' tg' a' k')) in H. apply po_elem in H. destruct H as (_ & _ & H). cbn [kids_of].
  destruct (tg =?s "Signature"); [destruct H as [_ ->]; apply po_kids_refl | apply H].
Qed.
Lemma po_signature_eq n n' : po n n' -> tag_of n = "Signature" -> n' = n.
Proof.
  intros H T. po_cases n n' H; try (symmetry; exact H).
  change (po (Elem sp tg a k) (Elem sp' tg' a' k')) in H. apply po_elem in H. cbn [tag_of] in T. subst tg.
  destruct H as (E1 & E2 & E3 & E4). subst. reflexivity.
Qed.

Definition po_res (r1 r2 : res (node * nat * option found_sig)) : Prop :=
  match r1 with
  | Err e => r2 = Err e
  | Ok (e1, l, o) => exists e1', r2 = Ok (e1', l, o) /\ po e1 e1'
  end.
Lemma po_res_refl r : po_res r r.
Proof. destruct r as [[[e l] o]|e]; cbn; [exists e; split; [reflexivity | apply po_refl] | reflexivity]. Qed.

Lemma find_child_loop_po ctx' ns tag : forall ks ks' i lim, po_kids ks ks' ->
  match find_child_loop ctx' ns tag ks i lim with
  | Err e => find_child_loop ctx' ns tag ks' i lim = Err e
  | Ok (None, l) => find_child_loop ctx' ns tag ks' i lim = Ok (None, l)
  | Ok (Some (j, k), l) => exists k', find_child_loop ctx' ns tag ks' i lim = Ok (Some (j, k'), l) /\ po k k'
  end.
Proof.
  induction ks as [|x r IH]; intros [|x' r'] i lim H; try contradiction; [reflexivity|].
  destruct H as [Hx Hr].
  destruct (is_elem x) eqn:EX.
  - pose proof (po_attrs_ctx x x' ctx' Hx) as EC. destruct (po_space_tag x x' Hx) as [ES ET].
    pose proof (po_is_elem x x' Hx) as EX'. rewrite EX in EX'.
    destruct x as [sp tg a k| | | | ]; try discriminate EX. destruct x' as [sp' tg' a' k'| | | | ]; try discriminate EX'.
    cbn [attrs_of space_of tag_of] in *. subst sp' tg'. cbn [find_child_loop].
    destruct lim as [|lim']; [reflexivity|]. rewrite EC.
    destruct (sub_ctx ctx' a) as [c2|e]; [|reflexivity]. cbn [bind].
    destruct (lookup_prefix c2 sp) as [nsv|]; [|reflexivity].
    destruct ((nsv =?s ns) && (tg =?s tag)).
    + eexists. split; [reflexivity | exact Hx].
    + apply IH. exact Hr.
  - rewrite (po_nonelem x x' EX Hx). destruct x; try discriminate EX; cbn [find_child_loop]; apply IH; exact Hr.
Qed.

Lemma fh_po id ctx p el el' lim : po el el' -> po_res (fh id ctx p el lim) (fh id ctx p el' lim).
Proof.
  intros H. unfold fh, find_wrap. rewrite (po_attrs_ctx el el' ctx H). destruct (po_space_tag el el' H) as [-> ->].
  destruct (sub_ctx ctx (attrs_of el)) as [c2|e]; [|reflexivity]. cbn [bind].
  destruct (lookup_prefix c2 (space_of el)); [|reflexivity].
  destruct (tag_of el =?s "Signature") eqn:T.
  - apply String.eqb_eq in T. rewrite (po_signature_eq el el' H T). apply po_res_refl.
  - rewrite andb_false_r. cbn [po_res]. exists el'. split; [reflexivity | exact H].
Qed.

Section PoSim.
  Variable h : nsctx -> list nat -> node -> nat -> res (node * nat * option found_sig).
  Hypothesis h_po : forall ctx p el el' lim, po el el' -> po_res (h ctx p el lim) (h ctx p el' lim).

  Lemma mkids_po trav
        (Htrav : forall ctx p el el' lim, po el el' -> po_res (trav ctx p el lim) (trav ctx p el' lim)) :
    forall ks ks' ctx' p i lim, po_kids ks ks' ->
      match mkids trav ctx' p ks i lim with
      | Err e => mkids trav ctx' p ks' i lim = Err e
      | Ok (ks1, l1, o) => exists ks1', mkids trav ctx' p ks' i lim = Ok (ks1', l1, o) /\ po_kids ks1 ks1'
      end.
  Proof.
    induction ks as [|x r IH]; intros [|x' r'] ctx' p i lim H; try contradiction.
    - cbn [mkids]. exists []. split; [reflexivity | exact I].
    - destruct H as [Hx Hr]. destruct (is_elem x) eqn:EX.
      + pose proof (po_is_elem x x' Hx) as EX'. rewrite EX in EX'.
        assert (M : forall y rr, is_elem y = true -> mkids trav ctx' p (y :: rr) i lim =
                    do t <- trav ctx' (p ++ [i]) y lim;
                    match t with
                    | (k', lim', Some f) => Ok (k' :: rr, lim', Some f)
                    | (k', lim', None) => do t2 <- mkids trav ctx' p rr (S i) lim'; match t2 with (r', lim'', f) => Ok (k' :: r', lim'', f) end
                    end) by (intros y rr Hy; destruct y; try discriminate Hy; reflexivity).
        rewrite (M x r EX), (M x' r' EX'). clear M.
        pose proof (Htrav ctx' (p ++ [i]) x x' lim Hx) as T. unfold po_res in T.
        destruct (trav ctx' (p ++ [i]) x lim) as [[[k1 l1] o1]|e]; [|rewrite T; reflexivity]. cbn [bind].
        destruct T as (k1' & -> & Pk). cbn [bind]. destruct o1 as [f|].
        * exists (k1' :: r'). split; [reflexivity | split; assumption].
        * specialize (IH r' ctx' p (S i) l1 Hr).
          destruct (mkids trav ctx' p r (S i) l1) as [[[r1 l2] o]|e]; [|rewrite IH; reflexivity]. cbn [bind].
          destruct IH as (r1' & -> & Pr). cbn [bind]. exists (k1' :: r1'). split; [reflexivity | split; assumption].
      + rewrite (po_nonelem x x' EX Hx).
        assert (M : forall rr, mkids trav ctx' p (x :: rr) i lim =
                    do t2 <- mkids trav ctx' p rr (S i) lim; match t2 with (r', lim'', f) => Ok (x :: r', lim'', f) end)
          by (intros rr; destruct x; try discriminate EX; reflexivity).
        rewrite !M. clear M. specialize (IH r' ctx' p (S i) lim Hr).
        destruct (mkids trav ctx' p r (S i) lim) as [[[r1 l2] o]|e]; [|rewrite IH; reflexivity]. cbn [bind].
        destruct IH as (r1' & -> & Pr). cbn [bind]. exists (x :: r1'). split; [reflexivity | split; [apply po_refl | exact Pr]].
  Qed.

  Lemma mtraverse_po : forall fuel ctx p el el' lim, po el el' ->
    po_res (mtraverse h fuel ctx p el lim) (mtraverse h fuel ctx p el' lim).
  Proof.
    induction fuel as [|fuel IH]; intros ctx p el el' lim H; [reflexivity|].
    destruct (is_elem el) eqn:EE; [|rewrite (po_nonelem el el' EE H); apply po_res_refl].
    pose proof (po_is_elem el el' H) as EE'. rewrite EE in EE'.
    pose proof (po_attrs_ctx el el' ctx H) as EC.
    destruct el as [sp tg a k| | | | ]; try discriminate EE. destruct el' as [sp' tg' a' k'| | | | ]; try discriminate EE'.
    cbn [attrs_of] in EC. cbn [mtraverse].
    destruct lim as [|lim']; [reflexivity|]. rewrite EC.
    destruct (sub_ctx ctx a) as [ctx'|e]; [|reflexivity]. cbn [bind].
    pose proof (h_po ctx' p _ _ lim' H) as T. unfold po_res in T.
    destruct (h ctx' p (Elem sp tg a k) lim') as [[[el1 lim1] o1]|e]; [|rewrite T; reflexivity]. cbn [bind].
    destruct T as (el1' & -> & P1). cbn [bind].
    destruct o1 as [f|]; [cbn [po_res]; exists el1'; split; [reflexivity | exact P1]|].
    destruct (is_elem el1) eqn:E1.
    2:{ rewrite (po_nonelem el1 el1' E1 P1). destruct el1; try discriminate E1; cbn [po_res]; eexists; (split; [reflexivity | reflexivity]). }
    pose proof (po_is_elem el1 el1' P1) as E1'. rewrite E1 in E1'.
    destruct el1 as [sp1 tg1 a1 k1| | | | ]; try discriminate E1. destruct el1' as [sp1' tg1' a1' k1'| | | | ]; try discriminate E1'.
    apply po_elem in P1. destruct P1 as (<- & <- & P1).
    destruct (tg1 =?s "Signature") eqn:TS.
    - destruct P1 as [<- <-].
      destruct (mkids (mtraverse h fuel) ctx' p k1 0 lim1) as [[[k2 lim2] o]|e]; cbn [bind po_res]; [|reflexivity].
      eexists. split; [reflexivity | apply po_refl].
    - destruct P1 as [PA PK].
      pose proof (mkids_po (mtraverse h fuel) IH k1 k1' ctx' p 0 lim1 PK) as K.
      destruct (mkids (mtraverse h fuel) ctx' p k1 0 lim1) as [[[k2 lim2] o]|e]; [|rewrite K; reflexivity]. cbn [bind].
      destruct K as (k2' & -> & PK2). cbn [bind po_res]. eexists. split; [reflexivity|].
      apply po_elem. split; [reflexivity|]. split; [reflexivity|]. rewrite TS. split; assumption.
  Qed.
End PoSim.

Lemma po_kids_nth : forall l l' i, po_kids l l' ->
  match nth_error l i with
  | Some k => exists k', nth_error l' i = Some k' /\ po k k'
  | None => nth_error l' i = None
  end.
Proof.
  induction l as [|x r IH]; intros [|x' r'] i H; try contradiction; [destruct i; reflexivity|].
  destruct H as [Hx Hr]. destruct i as [|j]; cbn [nth_error]; [exists x'; split; [reflexivity | exact Hx] | apply IH; exact Hr].
Qed.
Lemma po_kids_remove : forall l l' i, po_kids l l' -> po_kids (remove_nth i l) (remove_nth i l').
Proof.
  induction l as [|x r IH]; intros [|x' r'] i H; try contradiction; [destruct i; exact I|].
  destruct H as [Hx Hr]. destruct i as [|j]; cbn [remove_nth po_kids]; [exact Hr | split; [exact Hx | apply IH; exact Hr]].
Qed.
Lemma po_kids_replace : forall l l' i k k', po_kids l l' -> po k k' -> po_kids (replace_nth i k l) (replace_nth i k' l').
Proof.
  induction l as [|x r IH]; intros [|x' r'] i k k' H Hk; try contradiction; [destruct i; exact I|].
  destruct H as [Hx Hr]. destruct i as [|j]; cbn [replace_nth po_kids]; [split; assumption | split; [exact Hx | apply IH; assumption]].
Qed.

Lemma parent_ctx_po : forall p n n' c, po n n' -> parent_ctx c n' p = parent_ctx c n p.
Proof.
  induction p as [|i q IH]; intros n n' c H; [reflexivity|]. cbn [parent_ctx]. rewrite (po_attrs_ctx n n' c H).
  destruct (sub_ctx c (attrs_of n)) as [c'|e]; [|reflexivity]. cbn [bind].
  pose proof (po_kids_nth _ _ i (po_kids_of n n' H)) as N.
  destruct (nth_error (kids_of n) i) as [k|]; [|rewrite N; reflexivity]. destruct N as (k' & -> & Pk). apply IH. exact Pk.
Qed.
Lemma node_at_po : forall p n n', po n n' ->
  match node_at n p with
  | Some s => exists s', node_at n' p = Some s' /\ po s s'
  | None => node_at n' p = None
  end.
Proof.
  induction p as [|i q IH]; intros n n' H; cbn [node_at]; [exists n'; split; [reflexivity | exact H]|].
  pose proof (po_kids_nth _ _ i (po_kids_of n n' H)) as N.
  destruct (nth_error (kids_of n) i) as [k|]; [|rewrite N; reflexivity]. destruct N as (k' & -> & Pk). apply IH. exact Pk.
Qed.

Lemma remove_at_path_po : forall p n n', po n n' ->
  match remove_at_path n p with
  | Some b => exists b', remove_at_path n' p = Some b' /\ po b b'
  | None => remove_at_path n' p = None
  end.
Proof.
  induction p as [|i q IH]; intros n n' H; [reflexivity|].
  destruct (is_elem n) eqn:EE; [|rewrite (po_nonelem n n' EE H); destruct (remove_at_path n (i :: q)) as [b|]; [exists b; split; [reflexivity | apply po_refl] | reflexivity]].
  pose proof (po_is_elem n n' H) as EE'. rewrite EE in EE'.
  destruct n as [sp tg a k| | | | ]; try discriminate EE. destruct n' as [sp' tg' a' k'| | | | ]; try discriminate EE'.
  apply po_elem in H. destruct H as (<- & <- & H).
  destruct (tg =?s "Signature") eqn:TS.
  { destruct H as [<- <-]. destruct (remove_at_path (Elem sp tg a k) (i :: q)) as [b|]; [exists b; split; [reflexivity | apply po_refl] | reflexivity]. }
  destruct H as [PA PK]. cbn [remove_at_path].
  pose proof (po_kids_nth _ _ i PK) as N.
  destruct (nth_error k i) as [c|]; [|rewrite N; reflexivity]. destruct N as (c' & -> & Pc).
  destruct (is_elem c) eqn:EC; [|rewrite (po_nonelem c c' EC Pc); destruct c; try discriminate EC; reflexivity].
  pose proof (po_is_elem c c' Pc) as EC'. rewrite EC in EC'.
  destruct c as [csp ctg ca ck| | | | ]; try discriminate EC. destruct c' as [csp' ctg' ca' ck'| | | | ]; try discriminate EC'.
  destruct q as [|j q'].
  - eexists. split; [reflexivity|]. apply po_elem. split; [reflexivity|]. split; [reflexivity|]. rewrite TS.
    split; [exact PA | apply po_kids_remove; exact PK].
  - specialize (IH _ _ Pc). destruct (remove_at_path (Elem csp ctg ca ck) (j :: q')) as [c2|]; [|rewrite IH; reflexivity].
    destruct IH as (c2' & -> & P2). eexists. split; [reflexivity|]. apply po_elem. split; [reflexivity|]. split; [reflexivity|]. rewrite TS.
    split; [exact PA | apply po_kids_replace; assumption].
Qed.

Lemma apply_transforms_po : forall ts p el el' c, po el el' ->
  match apply_transforms ts p el c with
  | Err e => apply_transforms ts p el' c = Err e
  | Ok (x, c') => exists x', apply_transforms ts p el' c = Ok (x', c') /\ po x x'
  end.
Proof.
  induction ts as [|t r IH]; intros p el el' c H; [cbn [apply_transforms]; exists el'; split; [reflexivity | exact H]|].
  rewrite !apply_transforms_step. destruct (tr_alg t =?s alg_enveloped).
  - pose proof (remove_at_path_po p el el' H) as R. destruct (remove_at_path el p) as [b|]; [|rewrite R; reflexivity].
    destruct R as (b' & -> & Pb). apply IH. exact Pb.
  - destruct (c14n_of t); [apply IH; exact H | reflexivity].
Qed.

Lemma sort_attrs_arel a a' : arel a a' -> sort_attrs a' = sort_attrs a.
Proof. intros [->|(P & _ & T)]; [reflexivity | apply sort_attrs_perm; assumption]. Qed.

Lemma po_is_comment x x' : po x x' -> is_comment x' = is_comment x.
Proof. intros H. po_cases x x' H; try reflexivity; congruence. Qed.

Lemma canonical_prep_po : forall n n' seen c, po n n' -> canonical_prep seen c n' = canonical_prep seen c n.
Proof.
  fix IH 1. intros n n' seen c H.
  destruct (is_elem n) eqn:EE; [|rewrite (po_nonelem n n' EE H); reflexivity].
  pose proof (po_is_elem n n' H) as EE'. rewrite EE in EE'.
  destruct n as [sp tg a k| | | | ]; try discriminate EE. destruct n' as [sp' tg' a' k'| | | | ]; try discriminate EE'.
  apply po_elem in H. destruct H as (<- & <- & H).
  destruct (tg =?s "Signature"); [destruct H as [<- <-]; reflexivity|]. destruct H as [PA PK].
  rewrite !canonical_prep_elem, (sort_attrs_arel a a' PA). f_equal.
  generalize (snd (prep_attrs (sort_attrs a) seen)) as s. intros s. clear EE EE' PA. revert k' PK.
  induction k as [|x r IHr]; intros [|x' r'] PK; try contradiction; [reflexivity|].
  destruct PK as [Px Pr]. cbn [cprep_kids]. rewrite (po_is_comment x x' Px), (IH x x' s c Px), (IHr r' Pr). reflexivity.
Qed.

Lemma canon_model_po a n n' : inclusive a = true -> po n n' -> canon_model a n' = canon_model a n.
Proof.
  intros I P. unfold canon_model, canon_prep. destruct a; try discriminate I; rewrite (canonical_prep_po n n' _ _ P); reflexivity.
Qed.

Theorem find_signature_po root root' : po root root' -> id_of root' = id_of root ->
  match find_signature root with
  | Err e => find_signature root' = Err e
  | Ok (r1, f) => exists r1', find_signature root' = Ok (r1', f) /\ po r1 r1'
  end.
Proof.
  intros H EI. unfold find_signature. rewrite EI.
  pose proof (mtraverse_po (fh (id_of root)) (fh_po (id_of root)) (S traversal_limit) default_ctx [] root root' traversal_limit H) as T.
  unfold fh in T. unfold po_res in T.
  destruct (mtraverse (find_wrap ds_ns "Signature" (inspect (id_of root))) (S traversal_limit) default_ctx [] root traversal_limit) as [[[r1 l1] o1]|e].
  - destruct T as (r1' & -> & P1). cbn [no_missing bind]. destruct o1 as [f|]; [|reflexivity]. exists r1'. split; [reflexivity | exact P1].
  - rewrite T. destruct e; reflexivity.
Qed.

Section ValidatePo.
  Variable digest : string -> string -> option string.
  Variable sig_ok : cert -> string -> string -> string -> bool.
  Variable parse_cert : string -> option cert.
  Variable reparse : string -> option node.

  Lemma canonical_signed_info_po r1 r1' f : po r1 r1' ->
    canonical_signed_info canon_model r1' f = canonical_signed_info canon_model r1 f.
  Proof.
    intros P. unfold canonical_signed_info. f_equal. rewrite (parent_ctx_po _ _ _ default_ctx P).
    destruct (parent_ctx default_ctx r1 (fs_path f)) as [pc|e]; [|reflexivity]. cbn [bind].
    pose proof (node_at_po (fs_path f) _ _ P) as N.
    destruct (node_at r1 (fs_path f)) as [s|]; [|rewrite N; reflexivity]. destruct N as (s' & -> & Ps).
    unfold find_one_child. rewrite (po_attrs_ctx s s' pc Ps).
    destruct (sub_ctx pc (attrs_of s)) as [c'|e]; [|reflexivity]. cbn [bind].
    pose proof (find_child_loop_po c' ds_ns "SignedInfo" _ _ 0 traversal_limit (po_kids_of s s' Ps)) as F.
    destruct (find_child_loop c' ds_ns "SignedInfo" (kids_of s) 0 traversal_limit) as [[[[j k]|] l]|e].
    - destruct F as (k' & -> & _). reflexivity.
    - rewrite F. reflexivity.
    - rewrite F. reflexivity.
  Qed.

  Lemma validate_signature_po r1 r1' f c : po r1 r1' -> id_of r1' = id_of r1 ->
    (forall r, picked_reference_at reparse r1 f = Ok r -> inclusive (effective_alg r) = true) ->
    validate_signature canon_model digest sig_ok reparse r1' f c = validate_signature canon_model digest sig_ok reparse r1 f c.
  Proof.
    intros P EI S. unfold validate_signature.
    destruct (sg_signed_info (fs_sig f)) as [sinfo|]; [|reflexivity].
    rewrite (canonical_signed_info_po r1 r1' f P). unfold picked_reference_at in S.
    destruct (canonical_signed_info canon_model r1 f) as [si_bytes|e]; [|reflexivity]. cbn [bind] in *.
    destruct (negb (mem_str (si_sig_alg sinfo) known_sig_methods)); [reflexivity|].
    destruct (sg_value (fs_sig f)) as [data|]; [|reflexivity].
    destruct (base64_decode data) as [raw|]; [|reflexivity].
    destruct (negb (sig_ok c (si_sig_alg sinfo) si_bytes raw)); [reflexivity|].
    destruct (reparse si_bytes) as [sin|]; [|reflexivity].
    destruct (unmarshal_signed_info sin) as [sinfo2|e]; [|reflexivity]. cbn [bind] in *. rewrite EI.
    destruct (pick_reference (id_of r1) (si_refs sinfo2)) as [r|]; [|reflexivity].
    destruct (base64_decode (ref_digest_value r)) as [want|]; [|reflexivity].
    specialize (S r eq_refl). unfold transform.
    pose proof (apply_transforms_po (ref_transforms r) (fs_path f) r1 r1' None P) as T.
    destruct (apply_transforms (ref_transforms r) (fs_path f) r1 None) as [[el c']|e] eqn:AT; [|rewrite T; reflexivity].
    destruct T as (el' & -> & Pel). cbn [bind fst snd].
    apply apply_transforms_alg in AT. unfold effective_alg in S. rewrite <- AT in S.
    rewrite (canon_model_po _ el el' S Pel). reflexivity.
  Qed.

  Lemma find_signature_id root r1 f : find_signature root = Ok (r1, f) -> id_of r1 = id_of root.
  Proof.
    intros F. destruct (find_signature_sound _ _ _ F) as (ctx0 & e0 & e1 & _ & _ & Her & _). apply id_of_erase. exact Her.
  Qed.

  (* (2) the verdict under a permutation of unprefixed attributes outside Signature elements *)
  Theorem validation_ignores_attribute_order store now root1 root2 :
    po root1 root2 -> id_of root2 = id_of root1 ->
    (forall r, picked_reference reparse root1 = Ok r -> inclusive (effective_alg r) = true) ->
    dsig_validate canon_model digest sig_ok parse_cert reparse store now root2 =
    dsig_validate canon_model digest sig_ok parse_cert reparse store now root1.
  Proof.
    intros P EI S. unfold dsig_validate, validate_res. unfold picked_reference in S.
    pose proof (find_signature_po root1 root2 P EI) as F.
    destruct (find_signature root1) as [[r1 f]|e] eqn:F1; [|rewrite F; reflexivity].
    destruct F as (r1' & F2 & P1). rewrite F2. cbn [bind fst snd] in *.
    destruct (no_missing (verify_certificate parse_cert store now (fs_sig f))) as [c|e]; [|reflexivity]. cbn [bind].
    rewrite (validate_signature_po r1 r1' f c P1); [reflexivity | | exact S].
    rewrite (find_signature_id _ _ _ F1), (find_signature_id _ _ _ F2). exact EI.
  Qed.
End ValidatePo.

(* the premise on the ID attribute: enough that at most one attribute of the root has the local name ID *)
Lemma filter_length_perm {A} (f : A -> bool) l l' : Permutation l l' -> List.length (filter f l') = List.length (filter f l).
Proof.
  intros P. induction P as [|x l l' P IH|x y l|l l' l'' P1 IH1 P2 IH2]; [reflexivity | | | congruence].
  - cbn [filter]. destruct (f x); cbn [List.length]; congruence.
  - cbn [filter]. destruct (f x), (f y); reflexivity.
Qed.
Lemma select_attr_perm key : forall a a', Permutation a a' ->
  (List.length (filter (fun x => at_key x =?s key) a) <= 1)%nat -> select_attr key a' = select_attr key a.
Proof.
  intros a a' P. induction P as [|x l l' P IH|x y l|l l' l'' P1 IH1 P2 IH2]; intros U.
  - reflexivity.
  - cbn [select_attr filter] in *. destruct (at_key x =?s key); [reflexivity|]. apply IH. exact U.
  - cbn [select_attr filter] in *. destruct (at_key x =?s key), (at_key y =?s key); try reflexivity. cbn [List.length] in U. lia.
  - rewrite IH2, IH1; [reflexivity | exact U|].
    rewrite (filter_length_perm _ _ _ P1). exact U.
Qed.

Module LayoutEx2.
  Import LayoutEx.
  Definition PA (p k v : string) : attr := {| at_space := p; at_key := k; at_val := v |}.
  (* reference canonicalised with c14n 1.1; [flip]: unprefixed attributes of Root and Item moved *)
  Definition trs := [alg_enveloped; alg_c11].
  Definition doc2 (root_attrs item_attrs : list attr) : node :=
    Elem "s" "Root" root_attrs
      [Elem "s" "Issuer" [] [Text "idp"]; signature_el alg_exc trs [] [];
       Elem "s" "Item" item_attrs [Text "hello"]; Text "!"].
  Definition ra1 := [A "ID" "x"; NS "s" "urn:s"; A "Version" "2.0"; PA "xml" "lang" "en"].
  Definition ra2 := [A "Version" "2.0"; NS "s" "urn:s"; PA "xml" "lang" "en"; A "ID" "x"].
  Definition ia1 := [A "b" "1"; A "a" "2"].
  Definition ia2 := [A "a" "2"; A "b" "1"].
  Definition base2 := doc2 ra1 ia1.
  Definition si_b := match obs_si_bytes canon_model base2 with Ok b => b | Err _ => "?" end.
  Definition reparse0 (b : string) : option node :=
    if b =?s si_b
    then Some (match signed_info_el alg_exc trs [] with
               | Elem sp tg attrs kids => Elem sp tg (NS "ds" ds_ns :: attrs) kids
               | other => other end)
    else None.
  Definition body_b := match obs_ref_bytes canon_model reparse0 base2 with Ok b => b | Err _ => "??" end.
  Definition reparse2 (b : string) : option node := if b =?s body_b then Some verified else reparse0 b.
  Definition digest2 (alg bytes : string) : option string := if bytes =?s body_b then Some digest20 else Some "00000000000000000000".
  Definition sig_ok2 (c : cert) (alg msg sg : string) : bool := (c_der c =?s "DER") && (msg =?s si_b) && (sg =?s "sig").
  Definition run2 (root : node) :=
    dsig_validate canon_model digest2 sig_ok2 parse_cert reparse2 [the_cert] {| i_sec := 150; i_nsec := 0 |} root.

  Lemma po_doc2 ra ra' ia ia' : arel ra ra' -> arel ia ia' -> po (doc2 ra ia) (doc2 ra' ia').
  Proof.
    intros R I0. unfold doc2. apply po_elem. split; [reflexivity|]. split; [reflexivity|]. cbn [String.eqb Ascii.eqb Bool.eqb].
    split; [exact R|]. cbn [po_kids]. split; [apply po_refl|]. split; [apply po_refl|]. split; [|split; [reflexivity | exact I]].
    apply po_elem. split; [reflexivity|]. split; [reflexivity|]. cbn [String.eqb Ascii.eqb Bool.eqb].
    split; [exact I0 | apply po_kids_refl].
  Qed.
  Lemma arel_ra : arel ra1 ra2.
  Proof.
    right. split; [|split; vm_compute; reflexivity]. unfold ra1, ra2.
    apply Permutation_cons_app with (l1 := [A "Version" "2.0"; NS "s" "urn:s"; PA "xml" "lang" "en"]) (l2 := []).
    cbn [app]. apply perm_swap.
  Qed.
  Lemma arel_ia : arel ia1 ia2.
  Proof. right. split; [apply perm_swap | split; vm_compute; reflexivity]. Qed.

  Example attributes_moved :
    po base2 (doc2 ra2 ia2) /\ base2 <> doc2 ra2 ia2 /\ id_of (doc2 ra2 ia2) = id_of base2 /\
    (forall r, picked_reference reparse2 base2 = Ok r -> inclusive (effective_alg r) = true) /\
    run2 base2 = DOk verified /\ run2 (doc2 ra2 ia2) = DOk verified.
  Proof.
    split; [apply po_doc2; [exact arel_ra | exact arel_ia]|]. split; [intros H; discriminate H|]. split; [reflexivity|].
    split; [intros r H; vm_compute in H; injection H as <-; vm_compute; reflexivity|]. split; vm_compute; reflexivity.
  Qed.

  (* the root carries ID and p:ID: SortedAttrs.Less tells them apart, the canonical bytes are the same in both orders, but
     root.SelectAttr("ID") takes the FIRST attribute whose local name is ID *)
  Definition rb1 := [A "ID" "x"; PA "p" "ID" "y"; NS "s" "urn:s"; NS "p" "urn:p"].
  Definition rb2 := [PA "p" "ID" "y"; A "ID" "x"; NS "s" "urn:s"; NS "p" "urn:p"].
  Lemma arel_rb : arel rb1 rb2.
  Proof. right. split; [apply perm_swap | split; vm_compute; reflexivity]. Qed.
End LayoutEx2.

(* WITHOUT the premise on the ID attribute FALSE of the model (and of goxmldsig: etree's SelectAttr("ID") ignores the
   prefix): moving ID behind p:ID turns an accepted document into one "without signature" *)
Theorem validation_attribute_order_matters_for_id_namesakes :
  exists digest sig_ok parse_cert reparse store now root1 root2 v,
    po root1 root2 /\ id_of root1 = "x" /\ id_of root2 = "y" /\
    (forall r, picked_reference reparse root1 = Ok r -> inclusive (effective_alg r) = true) /\
    canon_model (C11 false) root1 = canon_model (C11 false) root2 /\
    dsig_validate canon_model digest sig_ok parse_cert reparse store now root1 = DOk v /\
    dsig_validate canon_model digest sig_ok parse_cert reparse store now root2 = DMissing.
Proof.
  pose (b := LayoutEx2.doc2 LayoutEx2.rb1 LayoutEx2.ia1).
  pose (si := match obs_si_bytes canon_model b with Ok x => x | Err _ => "?" end).
  pose (rp0 := fun x : string => if x =?s si then LayoutEx2.reparse0 LayoutEx2.si_b else None).
  pose (bb := match obs_ref_bytes canon_model rp0 b with Ok x => x | Err _ => "??" end).
  exists (fun _ x => if x =?s bb then Some LayoutEx.digest20 else Some "00000000000000000000"),
         (fun c _ m s => (c_der c =?s "DER") && (m =?s si) && (s =?s "sig")), LayoutEx.parse_cert,
         (fun x => if x =?s bb then Some LayoutEx.verified else rp0 x), [LayoutEx.the_cert], {| i_sec := 150; i_nsec := 0 |},
         b, (LayoutEx2.doc2 LayoutEx2.rb2 LayoutEx2.ia1), LayoutEx.verified.
  split; [apply LayoutEx2.po_doc2; [exact LayoutEx2.arel_rb | left; reflexivity]|].
  split; [reflexivity|]. split; [reflexivity|].
  split; [intros r H; vm_compute in H; injection H as <-; vm_compute; reflexivity|].
  repeat split; vm_compute; reflexivity.
Qed.

(* ================================================================ 3. lift to the SAML layer (Response.v over dsig := Dsig.v over canon_model) *)
Section Saml.
  Variable digest : string -> string -> option string.
  Variable sig_ok : cert -> string -> string -> string -> bool.
  Variable parse_cert : string -> option cert.
  Variable reparse : string -> option node.
  Variable decrypt : node -> res node.
  Variable store : list cert.

  Notation dsig now := (dsig_validate canon_model digest sig_ok parse_cert reparse store now).

  Lemma unmarshal_response_sc root : Decode.unmarshal_response (sc root) = Decode.unmarshal_response root.
  Proof. unfold Decode.unmarshal_response. rewrite unmarshal_element_sc. reflexivity. Qed.

  (* A Response whose own signature is found (accepted or fatally rejected), or any Response when signature checking is
     switched off: ValidateEncodedResponse returns the same Response / the same error for the two comment layouts, and so
     does RetrieveAssertionInfo.  NOT covered: the unsigned-Response path (dsig root = DMissing: every assertion validated
     separately) -- it needs the same simulation for Ns.traverse (indices of the direct children shift) and, when
     assertions are encrypted, a premise on the decryption oracle. *)
  Theorem response_ignores_comments cfg now root :
    (forall rf, find_signature root = Ok rf -> si_comment_safe (snd rf)) ->
    (forall r, picked_reference reparse root = Ok r -> ref_comment_safe r = true) ->
    cfg_skip_sig cfg = true \/ dsig now root <> DMissing ->
    validate_response_tree (dsig now) decrypt cfg now (sc root) = validate_response_tree (dsig now) decrypt cfg now root /\
    retrieve_assertion_info_tree (dsig now) decrypt cfg now (sc root) = retrieve_assertion_info_tree (dsig now) decrypt cfg now root.
  Proof.
    intros S1 S2 H.
    assert (E : validate_response_tree (dsig now) decrypt cfg now (sc root) = validate_response_tree (dsig now) decrypt cfg now root).
    { unfold validate_response_tree, validate_element_signature. destruct (cfg_skip_sig cfg).
      - rewrite unmarshal_response_sc. reflexivity.
      - rewrite (validation_ignores_comments digest sig_ok parse_cert reparse store now root S1 S2).
        destruct (dsig now root); try reflexivity. destruct H as [H|H]; [discriminate H | congruence]. }
    split; [exact E|]. unfold retrieve_assertion_info_tree. rewrite E. reflexivity.
  Qed.
End Saml.

Section Saml2.
  Variable digest : string -> string -> option string.
  Variable sig_ok : cert -> string -> string -> string -> bool.
  Variable parse_cert : string -> option cert.
  Variable reparse : string -> option node.
  Variable decrypt : node -> res node.
  Variable store : list cert.
  Notation dsig now := (dsig_validate canon_model digest sig_ok parse_cert reparse store now).

  (* the signed-Response path (what is decoded is the re-parsed canonical form, the same for both layouts) *)
  Theorem response_ignores_attribute_order cfg now root1 root2 :
    po root1 root2 -> id_of root2 = id_of root1 ->
    (forall r, picked_reference reparse root1 = Ok r -> inclusive (effective_alg r) = true) ->
    cfg_skip_sig cfg = false -> dsig now root1 <> DMissing ->
    validate_response_tree (dsig now) decrypt cfg now root2 = validate_response_tree (dsig now) decrypt cfg now root1 /\
    retrieve_assertion_info_tree (dsig now) decrypt cfg now root2 = retrieve_assertion_info_tree (dsig now) decrypt cfg now root1.
  Proof.
    intros P EI S K M.
    assert (E : validate_response_tree (dsig now) decrypt cfg now root2 = validate_response_tree (dsig now) decrypt cfg now root1).
    { unfold validate_response_tree, validate_element_signature. rewrite K.
      rewrite (validation_ignores_attribute_order digest sig_ok parse_cert reparse store now root1 root2 P EI S).
      destruct (dsig now root1); try reflexivity. congruence. }
    split; [exact E|]. unfold retrieve_assertion_info_tree. rewrite E. reflexivity.
  Qed.
End Saml2.
