(* P_Profile.v — lemmas about the struct-level decision logic (Profile.v): used by C03, C05, C06, C08, C10. *)
From V Require Import Base Time Types SchemaDefs ConcDefs Generated Profile.

Local Open Scope string_scope.
Local Open Scope list_scope.

(* ---------- order on instants ---------- *)
Definition ilt (a b : instant) : Prop :=
  (i_sec a < i_sec b)%Z \/ (i_sec a = i_sec b /\ (i_nsec a < i_nsec b)%Z).
Definition ile (a b : instant) : Prop := ~ ilt b a.

Lemma ibefore_ilt a b : ibefore a b = true <-> ilt a b.
Proof.
  unfold ibefore, ilt. rewrite orb_true_iff, andb_true_iff, !Z.ltb_lt, Z.eqb_eq. tauto.
Qed.
Lemma ibefore_false_ile a b : ibefore a b = false <-> ile b a.
Proof.
  unfold ile. rewrite <- ibefore_ilt. destruct (ibefore a b); split; intros H; try discriminate; auto.
  exfalso; apply H; reflexivity.
Qed.

(* ---------- string tests ---------- *)
Lemma nonempty_true s : nonempty s = true <-> s <> "".
Proof. unfold nonempty. rewrite negb_true_iff. apply str_eqb_neq. Qed.
Lemma nonempty_false s : nonempty s = false <-> s = "".
Proof. unfold nonempty. rewrite negb_false_iff. apply str_eqb_eq. Qed.
Lemma negb_eqb_true a b : negb (a =?s b) = true <-> a <> b.
Proof. rewrite negb_true_iff. apply str_eqb_neq. Qed.
Lemma negb_eqb_false a b : negb (a =?s b) = false <-> a = b.
Proof. rewrite negb_false_iff. apply str_eqb_eq. Qed.

(* ---------- forM_ ---------- *)
Lemma forM_ok_iff {A} (f : A -> res unit) l : forM_ f l = Ok tt <-> Forall (fun x => f x = Ok tt) l.
Proof.
  induction l as [|x l IH]; cbn [forM_].
  - split; auto.
  - unfold bind. destruct (f x) as [[]|e] eqn:E.
    + rewrite IH. split; intros H; [constructor; auto | inversion H; auto].
    + split; intros H; [discriminate | inversion H; congruence].
Qed.
Lemma forM_err {A} (f : A -> res unit) l e :
  forM_ f l = Err e -> exists pre x post, l = pre ++ x :: post /\ Forall (fun y => f y = Ok tt) pre /\ f x = Err e.
Proof.
  induction l as [|x l IH]; cbn [forM_]; [discriminate|].
  unfold bind. destruct (f x) as [[]|e'] eqn:E; intros H.
  - destruct (IH H) as (pre & y & post & -> & Hpre & Hy).
    exists (x :: pre), y, post. repeat split; auto.
  - inversion H; subst. exists [], x, l. repeat split; auto.
Qed.

(* ---------- declarative profile ---------- *)
Definition AttrsOK (expected dest version : string) : Prop :=
  (dest = "" \/ dest = expected) /\ version = "2.0".
Definition IssuerOK (cfg : config) (iss : option string) : Prop :=
  exists i, iss = Some i /\ (cfg_idp_issuer cfg = "" \/ i = cfg_idp_issuer cfg).
Definition StatusOK (st : option status) : Prop :=
  exists s, st = Some s /\ st_status_code s = Some c_StatusCodeSuccess.

(* every check of Validate on one assertion except the expiry comparison; [noa] is the parsed bound *)
Definition AssertionShapeOK (cfg : config) (a : assertion) (noa : instant) : Prop :=
  IssuerOK cfg (a_issuer a) /\
  exists sub sc d,
    a_subject a = Some sub /\ sub_conf sub = Some sc /\ sc_method sc = c_SubjMethodBearer /\
    sc_data sc = Some d /\ scd_recipient d = cfg_acs_url cfg /\
    scd_not_on_or_after d <> "" /\ parse_rfc3339 (scd_not_on_or_after d) = Some noa.
Definition AssertionOK (cfg : config) (now : instant) (a : assertion) : Prop :=
  exists noa, AssertionShapeOK cfg a noa /\ ilt now noa.

Definition ProfileOK (cfg : config) (now : instant) (r : response) : Prop :=
  AttrsOK (cfg_acs_url cfg) (r_destination r) (r_version r) /\
  r_assertions r <> [] /\
  IssuerOK cfg (r_issuer r) /\
  StatusOK (r_status r) /\
  Forall (AssertionOK cfg now) (r_assertions r).

Lemma validate_attrs_ok exp d v : validate_attrs exp d v = Ok tt <-> AttrsOK exp d v.
Proof.
  unfold validate_attrs, AttrsOK.
  destruct (nonempty d) eqn:N; cbn [andb].
  - destruct (negb (d =?s exp)) eqn:E.
    + apply nonempty_true in N. apply negb_eqb_true in E. split; [discriminate | intros [[?|?] _]; congruence].
    + apply negb_eqb_false in E. destruct (negb (v =?s "2.0")) eqn:V.
      * apply negb_eqb_true in V. split; [discriminate | intros [_ ?]; congruence].
      * apply negb_eqb_false in V. split; auto.
  - apply nonempty_false in N. destruct (negb (v =?s "2.0")) eqn:V.
    + apply negb_eqb_true in V. split; [discriminate | intros [_ ?]; congruence].
    + apply negb_eqb_false in V. split; auto.
Qed.

Lemma check_issuer_ok cfg iss : check_issuer cfg iss = Ok tt <-> IssuerOK cfg iss.
Proof.
  unfold check_issuer, IssuerOK. destruct iss as [i|].
  - destruct (nonempty (cfg_idp_issuer cfg)) eqn:N; cbn [andb].
    + destruct (negb (i =?s cfg_idp_issuer cfg)) eqn:E.
      * apply nonempty_true in N. apply negb_eqb_true in E.
        split; [discriminate | intros (j & Hj & [?|?]); inversion Hj; subst; congruence].
      * apply negb_eqb_false in E. split; eauto.
    + apply nonempty_false in N. split; eauto.
  - split; [discriminate | intros (j & Hj & _); discriminate].
Qed.

Lemma check_status_ok st : check_status st = Ok tt <-> StatusOK st.
Proof.
  unfold check_status, StatusOK. destruct st as [s|].
  - destruct (st_status_code s) as [v|] eqn:C.
    + destruct (negb (v =?s c_StatusCodeSuccess)) eqn:E.
      * apply negb_eqb_true in E. split; [discriminate|]. intros (s' & Hs & Hc). inversion Hs; subst. congruence.
      * apply negb_eqb_false in E. subst. split; eauto.
    + split; [discriminate|]. intros (s' & Hs & Hc). inversion Hs; subst. congruence.
  - split; [discriminate | intros (s' & Hs & _); discriminate].
Qed.

Lemma validate_assertion_ok cfg now a : validate_assertion cfg now a = Ok tt <-> AssertionOK cfg now a.
Proof.
  unfold validate_assertion, AssertionOK, AssertionShapeOK.
  pose proof (check_issuer_ok cfg (a_issuer a)) as HI. unfold check_issuer in HI.
  destruct (a_issuer a) as [iss|].
  2:{ split; [discriminate|]. intros (noa & (Hi & _) & _). apply HI in Hi. discriminate. }
  destruct (nonempty (cfg_idp_issuer cfg) && negb (iss =?s cfg_idp_issuer cfg)) eqn:EI.
  { split; [discriminate|]. intros (noa & (Hi & _) & _). apply HI in Hi. discriminate. }
  assert (HIok : IssuerOK cfg (Some iss)) by (apply HI; reflexivity). clear HI.
  destruct (a_subject a) as [sub|].
  2:{ split; [discriminate|]. intros (noa & (_ & s & sc & d & H & _) & _). discriminate. }
  destruct (sub_conf sub) as [sc|] eqn:ESC.
  2:{ split; [discriminate|]. intros (noa & (_ & s & sc & d & H & H2 & _) & _). inversion H; subst. congruence. }
  destruct (negb (sc_method sc =?s c_SubjMethodBearer)) eqn:EM.
  { apply negb_eqb_true in EM. split; [discriminate|].
    intros (noa & (_ & s & sc' & d & H & H2 & H3 & _) & _). inversion H; subst. rewrite ESC in H2. inversion H2; subst. congruence. }
  apply negb_eqb_false in EM.
  destruct (sc_data sc) as [d|] eqn:ED.
  2:{ split; [discriminate|]. intros (noa & (_ & s & sc' & d & H & H2 & _ & H4 & _) & _).
      inversion H; subst. rewrite ESC in H2. inversion H2; subst. congruence. }
  destruct (negb (scd_recipient d =?s cfg_acs_url cfg)) eqn:ER.
  { apply negb_eqb_true in ER. split; [discriminate|].
    intros (noa & (_ & s & sc' & d' & H & H2 & _ & H4 & H5 & _) & _).
    inversion H; subst. rewrite ESC in H2. inversion H2; subst. rewrite ED in H4. inversion H4; subst. congruence. }
  apply negb_eqb_false in ER.
  destruct (scd_not_on_or_after d =?s "") eqn:EN.
  { apply str_eqb_eq in EN. split; [discriminate|].
    intros (noa & (_ & s & sc' & d' & H & H2 & _ & H4 & _ & H6 & _) & _).
    inversion H; subst. rewrite ESC in H2. inversion H2; subst. rewrite ED in H4. inversion H4; subst. congruence. }
  apply str_eqb_neq in EN.
  destruct (parse_rfc3339 (scd_not_on_or_after d)) as [noa|] eqn:EP.
  2:{ split; [discriminate|].
      intros (noa & (_ & s & sc' & d' & H & H2 & _ & H4 & _ & _ & H7) & _).
      inversion H; subst. rewrite ESC in H2. inversion H2; subst. rewrite ED in H4. inversion H4; subst. congruence. }
  destruct (negb (ibefore now noa)) eqn:EB.
  - apply negb_true_iff in EB. split; [discriminate|].
    intros (noa' & (_ & s & sc' & d' & H & H2 & _ & H4 & _ & _ & H7) & Hlt).
    inversion H; subst. rewrite ESC in H2. inversion H2; subst. rewrite ED in H4. inversion H4; subst.
    rewrite EP in H7. inversion H7; subst. apply ibefore_ilt in Hlt. congruence.
  - apply negb_false_iff in EB. apply ibefore_ilt in EB. split; [intros _|reflexivity].
    exists noa. split; auto. split; auto. exists sub, sc, d. repeat split; auto.
Qed.

Lemma validate_ok_iff cfg now r : validate cfg now r = Ok tt <-> ProfileOK cfg now r.
Proof.
  unfold validate, ProfileOK, bind.
  destruct (validate_attrs (cfg_acs_url cfg) (r_destination r) (r_version r)) as [[]|e] eqn:EA.
  2:{ split; [discriminate|]. intros (H & _). apply validate_attrs_ok in H. congruence. }
  apply validate_attrs_ok in EA.
  destruct (r_assertions r) as [|a0 rest] eqn:EAS.
  { split; [discriminate|]. intros (_ & H & _). congruence. }
  destruct (check_issuer cfg (r_issuer r)) as [[]|e] eqn:EI.
  2:{ split; [discriminate|]. intros (_ & _ & H & _). apply check_issuer_ok in H. congruence. }
  apply check_issuer_ok in EI.
  destruct (check_status (r_status r)) as [[]|e] eqn:ES.
  2:{ split; [discriminate|]. intros (_ & _ & _ & H & _). apply check_status_ok in H. congruence. }
  apply check_status_ok in ES.
  rewrite forM_ok_iff.
  split.
  - intros HF. split; [exact EA|]. split; [discriminate|]. split; [exact EI|]. split; [exact ES|].
    eapply Forall_impl; [|exact HF]. intros a Ha. apply validate_assertion_ok; exact Ha.
  - intros (_ & _ & _ & _ & HF). eapply Forall_impl; [|exact HF]. intros a Ha. apply validate_assertion_ok; exact Ha.
Qed.

(* ---------- which error: the reported error names a check that is really violated ---------- *)
Inductive ViolatesA (cfg : config) (now : instant) (a : assertion) : err -> Prop :=
| VA_issuer_missing : a_issuer a = None -> ViolatesA cfg now a (EMissingElement c_IssuerTag "")
| VA_issuer_wrong i : a_issuer a = Some i -> cfg_idp_issuer cfg <> "" -> i <> cfg_idp_issuer cfg ->
    ViolatesA cfg now a (EInvalidValue c_IssuerTag "" (cfg_idp_issuer cfg) i)
| VA_subject : a_subject a = None -> ViolatesA cfg now a (EMissingElement c_SubjectTag "")
| VA_conf sub : a_subject a = Some sub -> sub_conf sub = None -> ViolatesA cfg now a (EMissingElement c_SubjectConfirmationTag "")
| VA_method sub sc : a_subject a = Some sub -> sub_conf sub = Some sc -> sc_method sc <> c_SubjMethodBearer ->
    ViolatesA cfg now a (EInvalidValue c_SubjectConfirmationTag c_ReasonUnsupported c_SubjMethodBearer (sc_method sc))
| VA_data sub sc : a_subject a = Some sub -> sub_conf sub = Some sc -> sc_data sc = None ->
    ViolatesA cfg now a (EMissingElement c_SubjectConfirmationDataTag "")
| VA_recipient sub sc d : a_subject a = Some sub -> sub_conf sub = Some sc -> sc_data sc = Some d ->
    scd_recipient d <> cfg_acs_url cfg ->
    ViolatesA cfg now a (EInvalidValue c_RecipientAttr "" (cfg_acs_url cfg) (scd_recipient d))
| VA_noa_missing sub sc d : a_subject a = Some sub -> sub_conf sub = Some sc -> sc_data sc = Some d ->
    scd_not_on_or_after d = "" ->
    ViolatesA cfg now a (EMissingElement c_SubjectConfirmationDataTag c_NotOnOrAfterAttr)
| VA_noa_malformed sub sc d : a_subject a = Some sub -> sub_conf sub = Some sc -> sc_data sc = Some d ->
    parse_rfc3339 (scd_not_on_or_after d) = None ->
    ViolatesA cfg now a (EParsing c_NotOnOrAfterAttr (scd_not_on_or_after d))
| VA_expired sub sc d noa : a_subject a = Some sub -> sub_conf sub = Some sc -> sc_data sc = Some d ->
    parse_rfc3339 (scd_not_on_or_after d) = Some noa -> ile noa now ->
    ViolatesA cfg now a (EInvalidValue c_NotOnOrAfterAttr c_ReasonExpired "" (scd_not_on_or_after d)).

Inductive Violates (cfg : config) (now : instant) (r : response) : err -> Prop :=
| V_destination : r_destination r <> "" -> r_destination r <> cfg_acs_url cfg ->
    Violates cfg now r (EInvalidValue c_DestinationAttr "" (cfg_acs_url cfg) (r_destination r))
| V_version : r_version r <> "2.0" ->
    Violates cfg now r (EInvalidValue "SAML version" c_ReasonUnsupported "2.0" (r_version r))
| V_no_assertion : r_assertions r = [] -> Violates cfg now r (EMissingElement c_AssertionTag "")
| V_issuer_missing : r_issuer r = None -> Violates cfg now r (EMissingElement c_IssuerTag "")
| V_issuer_wrong i : r_issuer r = Some i -> cfg_idp_issuer cfg <> "" -> i <> cfg_idp_issuer cfg ->
    Violates cfg now r (EInvalidValue c_IssuerTag "" (cfg_idp_issuer cfg) i)
| V_status_missing : r_status r = None -> Violates cfg now r (EMissingElement c_StatusTag "")
| V_status_code_missing s : r_status r = Some s -> st_status_code s = None ->
    Violates cfg now r (EMissingElement c_StatusCodeTag "")
| V_status_not_success s v : r_status r = Some s -> st_status_code s = Some v -> v <> c_StatusCodeSuccess ->
    Violates cfg now r (EInvalidValue c_StatusCodeTag "" c_StatusCodeSuccess v)
| V_assertion a e : In a (r_assertions r) -> ViolatesA cfg now a e -> Violates cfg now r e.

Lemma validate_attrs_err exp d v e :
  validate_attrs exp d v = Err e ->
  (d <> "" /\ d <> exp /\ e = EInvalidValue c_DestinationAttr "" exp d) \/
  (v <> "2.0" /\ e = EInvalidValue "SAML version" c_ReasonUnsupported "2.0" v).
Proof.
  unfold validate_attrs.
  destruct (nonempty d && negb (d =?s exp)) eqn:E.
  - apply andb_true_iff in E as [N E]. apply nonempty_true in N. apply negb_eqb_true in E.
    intros H; inversion H; auto.
  - destruct (negb (v =?s "2.0")) eqn:V; [|discriminate].
    apply negb_eqb_true in V. intros H; inversion H; auto.
Qed.

Lemma check_issuer_err cfg iss e :
  check_issuer cfg iss = Err e ->
  (iss = None /\ e = EMissingElement c_IssuerTag "") \/
  (exists i, iss = Some i /\ cfg_idp_issuer cfg <> "" /\ i <> cfg_idp_issuer cfg /\ e = EInvalidValue c_IssuerTag "" (cfg_idp_issuer cfg) i).
Proof.
  unfold check_issuer. destruct iss as [i|]; [|intros H; inversion H; auto].
  destruct (nonempty (cfg_idp_issuer cfg) && negb (i =?s cfg_idp_issuer cfg)) eqn:E; [|discriminate].
  apply andb_true_iff in E as [N E]. apply nonempty_true in N. apply negb_eqb_true in E.
  intros H; inversion H; right; eauto 6.
Qed.

Lemma validate_assertion_err cfg now a e : validate_assertion cfg now a = Err e -> ViolatesA cfg now a e.
Proof.
  unfold validate_assertion.
  destruct (a_issuer a) as [iss|] eqn:EI; [|intros H; inversion H; constructor; auto].
  destruct (nonempty (cfg_idp_issuer cfg) && negb (iss =?s cfg_idp_issuer cfg)) eqn:E.
  { apply andb_true_iff in E as [N E]. apply nonempty_true in N. apply negb_eqb_true in E.
    intros H; inversion H. eapply VA_issuer_wrong; eauto. }
  destruct (a_subject a) as [sub|] eqn:ES; [|intros H; inversion H; constructor; auto].
  destruct (sub_conf sub) as [sc|] eqn:ESC; [|intros H; inversion H; eapply VA_conf; eauto].
  destruct (negb (sc_method sc =?s c_SubjMethodBearer)) eqn:EM.
  { apply negb_eqb_true in EM. intros H; inversion H. eapply VA_method; eauto. }
  destruct (sc_data sc) as [d|] eqn:ED; [|intros H; inversion H; eapply VA_data; eauto].
  destruct (negb (scd_recipient d =?s cfg_acs_url cfg)) eqn:ER.
  { apply negb_eqb_true in ER. intros H; inversion H. eapply VA_recipient; eauto. }
  destruct (scd_not_on_or_after d =?s "") eqn:EN.
  { apply str_eqb_eq in EN. intros H; inversion H. eapply VA_noa_missing; eauto. }
  destruct (parse_rfc3339 (scd_not_on_or_after d)) as [noa|] eqn:EP; [|intros H; inversion H; eapply VA_noa_malformed; eauto].
  destruct (negb (ibefore now noa)) eqn:EB; [|discriminate].
  apply negb_true_iff in EB. apply ibefore_false_ile in EB.
  intros H; inversion H. eapply VA_expired; eauto.
Qed.

Lemma validate_err_violates cfg now r e : validate cfg now r = Err e -> Violates cfg now r e.
Proof.
  unfold validate, bind.
  destruct (validate_attrs (cfg_acs_url cfg) (r_destination r) (r_version r)) as [[]|e0] eqn:EA.
  2:{ intros H; inversion H; subst. apply validate_attrs_err in EA as [(A & B & ->)|(A & ->)]; [apply V_destination|apply V_version]; auto. }
  destruct (r_assertions r) as [|a0 rest] eqn:EAS; [intros H; inversion H; apply V_no_assertion; auto|].
  destruct (check_issuer cfg (r_issuer r)) as [[]|e0] eqn:EI.
  2:{ intros H; inversion H; subst. apply check_issuer_err in EI as [(A & ->)|(i & A & B & C & ->)];
      [apply V_issuer_missing | eapply V_issuer_wrong]; eauto. }
  destruct (check_status (r_status r)) as [[]|e0] eqn:ES.
  2:{ intros H; inversion H; subst. unfold check_status in ES.
      destruct (r_status r) as [s|] eqn:ER; [|inversion ES; apply V_status_missing; auto].
      destruct (st_status_code s) as [v|] eqn:EC; [|inversion ES; eapply V_status_code_missing; eauto].
      destruct (negb (v =?s c_StatusCodeSuccess)) eqn:EV; [|discriminate].
      apply negb_eqb_true in EV. inversion ES. eapply V_status_not_success; eauto. }
  intros H. apply forM_err in H as (pre & x & post & Hl & _ & Hx).
  apply V_assertion with (a := x).
  - rewrite <- EAS in *. rewrite Hl. apply in_or_app. right. left. reflexivity.
  - apply validate_assertion_err; exact Hx.
Qed.

(* the first failing assertion decides: everything before it passed *)
Lemma validate_err_first cfg now r e :
  validate cfg now r = Err e ->
  (forall a, ~ ViolatesA cfg now a e \/ True) /\
  (AttrsOK (cfg_acs_url cfg) (r_destination r) (r_version r) -> r_assertions r <> [] -> IssuerOK cfg (r_issuer r) -> StatusOK (r_status r) ->
   exists pre x post, r_assertions r = pre ++ x :: post /\ Forall (AssertionOK cfg now) pre /\ ViolatesA cfg now x e).
Proof.
  intros H. split; [auto|]. intros HA HN HI HS. revert H.
  unfold validate, bind.
  apply validate_attrs_ok in HA. rewrite HA.
  destruct (r_assertions r) as [|a0 rest] eqn:EAS; [congruence|].
  apply check_issuer_ok in HI. rewrite HI. apply check_status_ok in HS. rewrite HS.
  intros H. apply forM_err in H as (pre & x & post & Hl & Hpre & Hx).
  exists pre, x, post. repeat split; auto.
  - eapply Forall_impl; [|exact Hpre]. intros a Ha. apply validate_assertion_ok; exact Ha.
  - apply validate_assertion_err; exact Hx.
Qed.

(* a violated check can never be accepted *)
Ltac inj_all := repeat match goal with
  | H1 : ?x = Some _, H2 : ?x = Some _ |- _ => rewrite H1 in H2; inversion H2; subst; clear H2
  | H1 : ?x = Some _, H2 : ?x = None |- _ => rewrite H1 in H2; discriminate
  end.

Lemma violatesA_not_ok cfg now a e : ViolatesA cfg now a e -> ~ AssertionOK cfg now a.
Proof.
  intros V (noa & ((i & Hi & Hi2) & sub & sc & d & Hs & Hc & Hm & Hd & Hr & Hn & Hp) & Hlt).
  inversion V; subst; inj_all; try congruence;
    try (destruct Hi2; congruence); try (unfold ile in *; contradiction).
Qed.

Lemma violates_not_ok cfg now r e : Violates cfg now r e -> ~ ProfileOK cfg now r.
Proof.
  intros V ((Hd & Hv) & Hne & (i & Hi & Hi2) & (s & Hs & Hc) & HF).
  inversion V; subst; inj_all; try congruence;
    try (destruct Hd; congruence); try (destruct Hi2; congruence).
  rewrite Forall_forall in HF. eapply violatesA_not_ok; eauto.
Qed.

(* ---------- verify_conditions ---------- *)
Lemma verify_conditions_ok cfg now a w :
  verify_conditions cfg now a = Ok w ->
  exists c nb noa,
    a_conditions a = Some c /\ c_not_before c <> "" /\ c_not_on_or_after c <> "" /\
    parse_rfc3339 (c_not_before c) = Some nb /\ parse_rfc3339 (c_not_on_or_after c) = Some noa /\
    w = {| w_one_time_use := c_one_time_use c;
           w_proxy_restriction := c_proxy_restriction c;
           w_not_in_audience := not_in_audience (cfg_audience cfg) (c_audience_restrictions c);
           w_invalid_time := ibefore now nb || negb (ibefore now noa) |}.
Proof.
  unfold verify_conditions.
  destruct (a_conditions a) as [c|]; [|discriminate].
  destruct (c_not_before c =?s "") eqn:E1; [discriminate|]. apply str_eqb_neq in E1.
  destruct (parse_rfc3339 (c_not_before c)) as [nb|] eqn:P1; [|discriminate].
  destruct (c_not_on_or_after c =?s "") eqn:E2; [discriminate|]. apply str_eqb_neq in E2.
  destruct (parse_rfc3339 (c_not_on_or_after c)) as [noa|] eqn:P2; [|discriminate].
  intros H; inversion H. exists c, nb, noa. repeat split; auto.
Qed.

Lemma verify_conditions_err cfg now a e :
  verify_conditions cfg now a = Err e ->
  (a_conditions a = None /\ e = EMissingElement c_ConditionsTag "") \/
  exists c, a_conditions a = Some c /\
   ((c_not_before c = "" /\ e = EMissingElement c_ConditionsTag c_NotBeforeAttr) \/
    (parse_rfc3339 (c_not_before c) = None /\ e = EParsing c_NotBeforeAttr (c_not_before c)) \/
    (c_not_on_or_after c = "" /\ e = EMissingElement c_ConditionsTag c_NotOnOrAfterAttr) \/
    (parse_rfc3339 (c_not_on_or_after c) = None /\ e = EParsing c_NotOnOrAfterAttr (c_not_on_or_after c))).
Proof.
  unfold verify_conditions.
  destruct (a_conditions a) as [c|]; [|intros H; inversion H; auto].
  right. exists c. split; auto. revert H.
  destruct (c_not_before c =?s "") eqn:E1. { apply str_eqb_eq in E1. intros H; inversion H; auto. }
  destruct (parse_rfc3339 (c_not_before c)) as [nb|] eqn:P1; [|intros H; inversion H; auto].
  destruct (c_not_on_or_after c =?s "") eqn:E2. { apply str_eqb_eq in E2. intros H; inversion H; auto 6. }
  destruct (parse_rfc3339 (c_not_on_or_after c)) as [noa|] eqn:P2; [discriminate|intros H; inversion H; auto 6].
Qed.

Lemma restriction_matched_iff aud R : restriction_matched aud R = true <-> In aud R.
Proof.
  unfold restriction_matched. rewrite existsb_exists. split.
  - intros (x & Hx & E). apply str_eqb_eq in E. subst. exact Hx.
  - intros H. exists aud. split; auto. apply str_eqb_eq; reflexivity.
Qed.

Lemma not_in_audience_iff aud rs :
  not_in_audience aud rs = true <-> exists R, In R rs /\ forall x, In x R -> x <> aud.
Proof.
  unfold not_in_audience. rewrite existsb_exists. split.
  - intros (R & HR & E). exists R. split; auto. apply negb_true_iff in E.
    intros x Hx ->. apply restriction_matched_iff in Hx. congruence.
  - intros (R & HR & HA). exists R. split; auto. apply negb_true_iff.
    destruct (restriction_matched aud R) eqn:E; auto. apply restriction_matched_iff in E. exfalso. eapply HA; eauto.
Qed.
