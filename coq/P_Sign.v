(* P_Sign.v -- lemmas about outgoing enveloped signatures (property C13) and about the documents the public API returns
   (signed or not): placement of the signature, the index panic, schema order of every returned document, the
   algorithm table, the embedded certificate, key agreement.  Builds on P_Build.v (closed forms of the three messages
   and of their exclusive-canonicalised variants).  No Admitted / admit / Axiom. *)
From V Require Import Base Time TimeProofs Escape EscapeProofs Xml Ns Generated Build P_Build.
Local Open Scope string_scope.

(* ---- the element as the configured canonicaliser leaves it (what el.Copy() copies in the Sign* functions) ---- *)
Definition effective_canon (cfg : bcfg) : canon :=
  match b_canonicalizer cfg with Some c => c | None => default_canonicalizer end.

Definition pre_sign_tree (c : canon) (cfg : bcfg) (m : message) (id : string) (now : instant) : node :=
  match c with
  | CanonOther _ => message_tree cfg m id now
  | CanonExc incl _ =>
      match m with
      | MAuthn => exc_authn (has_saml incl) cfg id now
      | MLogoutRequest n s => exc_logout_request (has_saml incl) cfg id now n s
      | MLogoutResponse st rq => exc_logout_response (has_saml incl) cfg id now st rq
      end
  end.

Lemma canon_apply_message c cfg m id now :
  canon_apply c (message_tree cfg m id now) = Ok (pre_sign_tree c cfg m id now).
Proof.
  destruct c as [incl comments | cid]; [|reflexivity].
  destruct m; cbn [message_tree pre_sign_tree]; [apply exc_authn_eq | apply exc_logout_request_eq | apply exc_logout_response_eq].
Qed.

(* the Issuer child after canonicalisation: same name, same text; exc-c14n may have moved xmlns:saml onto it *)
Definition signed_issuer (c : canon) (cfg : bcfg) : node :=
  Elem "saml" "Issuer" (match c with CanonExc incl _ => xs_child (has_saml incl) | CanonOther _ => [] end)
       (text_kids (issuer_value cfg)).

Lemma pre_sign_tree_shape c cfg m id now :
  exists attrs rest,
    pre_sign_tree c cfg m id now = Elem "samlp" (root_tag m) attrs (signed_issuer c cfg :: rest) /\
    child_names (pre_sign_tree c cfg m id now) = child_names (message_tree cfg m id now) /\
    select_attr_sk "" "ID" attrs = Some ("_" ++ id).
Proof.
  destruct c as [incl comments | cid]; destruct m; cbn [pre_sign_tree message_tree root_tag signed_issuer].
  - unfold exc_authn, exc_issuer. do 2 eexists. split; [reflexivity|]. split.
    + rewrite build_authn_request_eq. unfold child_names, child_elems, rac_nodes. cbn [kids_of]. destruct (b_rac cfg); reflexivity.
    + unfold xs_root. destruct (has_saml incl), (b_force_authn cfg), (b_is_passive cfg); reflexivity.
  - unfold exc_logout_request, exc_issuer. do 2 eexists. split; [reflexivity|]. split; [reflexivity|].
    unfold xs_root. destruct (has_saml incl); reflexivity.
  - unfold exc_logout_response, exc_issuer. do 2 eexists. split; [reflexivity|]. split; [reflexivity|].
    unfold xs_root. destruct (has_saml incl); reflexivity.
  - rewrite build_authn_request_eq. unfold issuer_node. do 2 eexists. repeat split.
  - rewrite build_logout_request_eq. unfold issuer_node. do 2 eexists. repeat split.
  - rewrite build_logout_response_eq. unfold issuer_node. do 2 eexists. repeat split.
Qed.

(* ---- placement ---- *)
Lemma sign_placement_spec el sig :
  match el with
  | Elem sp t a (c0 :: rest) => sign_placement el sig = ORet (Ok (Elem sp t a (c0 :: sig :: rest)))
  | _ => exists w, sign_placement el sig = OPanic w
  end.
Proof. destruct el as [sp t a [|c0 rest] | | | |]; cbn; eauto. Qed.

Definition signing_requested (cfg : bcfg) (m : message) : bool :=
  match m with MAuthn => b_sign_authn_requests cfg | _ => true end.

Lemma message_doc_eq cfg k m id now incl crypto :
  message_doc cfg k m id now incl crypto =
  if signing_requested cfg m && incl then sign_element cfg k (message_tree cfg m id now) crypto
  else ORet (Ok (message_tree cfg m id now)).
Proof. destruct m; reflexivity. Qed.

Lemma signing_context_canon cfg k cx : signing_context cfg k = ORet (Ok cx) ->
  cx_canon cx = effective_canon cfg /\ cx_keys cx = signing_ctx_keys k.
Proof.
  unfold signing_context. destruct (set_signature_method _ _ _) as [[h|e]|w]; try discriminate.
  intros [= <-]. split; reflexivity.
Qed.

Theorem signature_after_issuer cfg k m id now crypto t :
  signing_requested cfg m = true ->
  message_doc cfg k m id now true crypto = ORet (Ok t) ->
  let c := effective_canon cfg in
  exists attrs sig rest,
    pre_sign_tree c cfg m id now = Elem "samlp" (root_tag m) attrs (signed_issuer c cfg :: rest) /\
    t = Elem "samlp" (root_tag m) attrs (signed_issuer c cfg :: sig :: rest) /\
    space_of sig = "ds" /\ tag_of sig = "Signature" /\
    select_attr_sk "xmlns" "ds" (attrs_of sig) = Some dsig_namespace.
Proof.
  intros Hs H c. rewrite message_doc_eq, Hs in H. cbn [andb] in H. unfold sign_element in H.
  destruct (signing_context cfg k) as [[cx|e]|w] eqn:SC; try discriminate H.
  destruct (signing_context_canon _ _ _ SC) as [Hc _].
  destruct (construct_signature cx (message_tree cfg m id now) crypto) as [[[el' sig]|e]|w] eqn:C; try discriminate H.
  unfold construct_signature in C.
  destruct (ctx_pk (cx_keys cx)) as [pk|]; [|discriminate C].
  destruct (id_by_method pk (cx_hash cx) signature_method_ids) as [sm|]; [|discriminate C].
  rewrite canon_apply_message, Hc in C. fold c in C.
  destruct crypto as [[dv sv]|e]; [|discriminate C].
  destruct (ctx_certs (cx_keys cx)) as [certs|e]; [|discriminate C].
  injection C as <- <-.
  destruct (pre_sign_tree_shape c cfg m id now) as (attrs & rest & P & _ & _).
  rewrite P in *. cbn [sign_placement] in H. injection H as <-.
  exists attrs. eexists. exists rest. repeat split.
Qed.

(* the index panic of Sign* cannot be hit by the builders: the only panic is the missing key *)
Theorem builders_placement_never_panics cfg k m id now incl crypto w :
  message_doc cfg k m id now incl crypto = OPanic w -> w = "nil signer" /\ ctx_pk (signing_ctx_keys k) = None.
Proof.
  rewrite message_doc_eq. destruct (signing_requested cfg m && incl); [|discriminate].
  unfold sign_element, signing_context, set_signature_method.
  assert (G : forall cx, cx_keys cx = signing_ctx_keys k ->
            match construct_signature cx (message_tree cfg m id now) crypto with
            | OPanic w => OPanic w
            | ORet (Err e) => ORet (Err e)
            | ORet (Ok (el', sig)) => sign_placement el' sig
            end = OPanic w -> w = "nil signer" /\ ctx_pk (signing_ctx_keys k) = None).
  { intros cx Hk. unfold construct_signature. rewrite Hk.
    destruct (ctx_pk (signing_ctx_keys k)) as [pk|] eqn:Pk; [|intros [= <-]; split; reflexivity].
    destruct (id_by_method pk _ signature_method_ids); [|discriminate].
    rewrite canon_apply_message.
    destruct crypto as [[dv sv]|e]; [|discriminate]. destruct (ctx_certs (signing_ctx_keys k)); [|discriminate].
    destruct (pre_sign_tree_shape (cx_canon cx) cfg m id now) as (attrs & rest & P & _ & _). rewrite P. discriminate. }
  destruct (method_by_id (b_sign_algorithm cfg) signature_method_ids) as [[p h]|].
  - destruct (ctx_pk (signing_ctx_keys k)) as [pk|] eqn:Pk; [|intros [= <-]; split; reflexivity].
    apply G. reflexivity.
  - apply G. reflexivity.
Qed.

(* whatever document the API returns (signed or not, any canonicaliser) has its children in schema order *)
Definition order_of (m : message) : list xsd_entry :=
  match m with MAuthn => authn_request_order | MLogoutRequest _ _ => logout_request_order | MLogoutResponse _ _ => status_response_order end.

Lemma message_tree_order cfg m id now : xsd_match (order_of m) (child_names (message_tree cfg m id now)) = true.
Proof.
  destruct m; cbn [message_tree order_of].
  - apply schema_order_authn.
  - apply schema_order_logout_request.
  - apply schema_order_logout_response.
Qed.

Theorem returned_document_schema_order cfg k m id now incl crypto t :
  message_doc cfg k m id now incl crypto = ORet (Ok t) -> xsd_match (order_of m) (child_names t) = true.
Proof.
  intros H. destruct (signing_requested cfg m && incl) eqn:Hs.
  - apply andb_true_iff in Hs as [Hs ->].
    destruct (signature_after_issuer _ _ _ _ _ _ _ Hs H) as (attrs & sig & rest & P & -> & Ssp & Stg & _).
    destruct (pre_sign_tree_shape (effective_canon cfg) cfg m id now) as (attrs' & rest' & P' & CN & _).
    destruct sig as [ssp stg sa sk | | | |]; cbn in Ssp, Stg; try discriminate Stg. subst ssp stg.
    assert (R : child_names (Elem "samlp" (root_tag m) attrs
                  (signed_issuer (effective_canon cfg) cfg :: Elem "ds" "Signature" sa sk :: rest))
                = "saml:Issuer" :: "ds:Signature" :: map node_name (filter is_elem rest)) by reflexivity.
    rewrite R. clear R.
    assert (R2 : child_names (message_tree cfg m id now) = "saml:Issuer" :: map node_name (filter is_elem rest)).
    { rewrite <- CN, P. reflexivity. }
    clear - R2. destruct m; cbn [message_tree order_of] in *.
    + rewrite authn_children in R2. injection R2 as <-. destruct (b_rac cfg); reflexivity.
    + rewrite build_logout_request_eq in R2. injection R2 as <-. reflexivity.
    + rewrite build_logout_response_eq in R2. injection R2 as <-. reflexivity.
  - rewrite message_doc_eq, Hs in H. injection H as <-. apply message_tree_order.
Qed.

(* ---- algorithm table ---- *)
Definition rsa_sha1 := "http://www.w3.org/2000/09/xmldsig#rsa-sha1".
Definition rsa_sha256 := "http://www.w3.org/2001/04/xmldsig-more#rsa-sha256".
Definition rsa_sha384 := "http://www.w3.org/2001/04/xmldsig-more#rsa-sha384".
Definition rsa_sha512 := "http://www.w3.org/2001/04/xmldsig-more#rsa-sha512".
Definition ecdsa_sha1 := "http://www.w3.org/2001/04/xmldsig-more#ecdsa-sha1".
Definition ecdsa_sha256 := "http://www.w3.org/2001/04/xmldsig-more#ecdsa-sha256".
Definition ecdsa_sha384 := "http://www.w3.org/2001/04/xmldsig-more#ecdsa-sha384".
Definition ecdsa_sha512 := "http://www.w3.org/2001/04/xmldsig-more#ecdsa-sha512".

(* configured SignAuthnRequestsAlgorithm -> hash, per key kind; anything else (empty, unknown, a method of the
   other key kind): the library default SHA-256 *)
Definition effective_hash (pk : pk_alg) (alg : string) : hash_alg :=
  match pk with
  | PK_RSA => if alg =?s rsa_sha1 then SHA1 else if alg =?s rsa_sha256 then SHA256
              else if alg =?s rsa_sha384 then SHA384 else if alg =?s rsa_sha512 then SHA512 else SHA256
  | PK_ECDSA => if alg =?s ecdsa_sha1 then SHA1 else if alg =?s ecdsa_sha256 then SHA256
                else if alg =?s ecdsa_sha384 then SHA384 else if alg =?s ecdsa_sha512 then SHA512 else SHA256
  | PK_Unknown => SHA256
  end.

(* the identifiers declared for a hash *)
Definition declared_signature_method (pk : pk_alg) (h : hash_alg) : option string :=
  match pk, h with
  | PK_RSA, SHA1 => Some rsa_sha1 | PK_RSA, SHA256 => Some rsa_sha256 | PK_RSA, SHA384 => Some rsa_sha384 | PK_RSA, SHA512 => Some rsa_sha512
  | PK_ECDSA, SHA1 => Some ecdsa_sha1 | PK_ECDSA, SHA256 => Some ecdsa_sha256 | PK_ECDSA, SHA384 => Some ecdsa_sha384
  | PK_ECDSA, SHA512 => Some ecdsa_sha512
  | PK_Unknown, _ => None
  end.

Lemma id_by_method_table pk h : id_by_method pk h signature_method_ids = declared_signature_method pk h.
Proof. destruct pk, h; reflexivity. Qed.

Lemma set_signature_method_table ck pk alg :
  ctx_pk ck = Some pk -> set_signature_method ck default_hash alg = ORet (Ok (effective_hash pk alg)).
Proof.
  intros Hk. unfold set_signature_method, signature_method_ids. cbn [method_by_id]. rewrite Hk.
  unfold effective_hash, rsa_sha1, rsa_sha256, rsa_sha384, rsa_sha512, ecdsa_sha1, ecdsa_sha256, ecdsa_sha384, ecdsa_sha512.
  repeat match goal with
         | |- context [if ?a =?s ?b then _ else _] => destruct (a =?s b) eqn:?
         end; destruct pk; try reflexivity;
  repeat match goal with
         | H : (?a =?s _) = true |- _ => apply String.eqb_eq in H; subst a
         end; try discriminate; reflexivity.
Qed.

Theorem algorithm_table cfg k pk cx :
  ctx_pk (signing_ctx_keys k) = Some pk ->
  signing_context cfg k = ORet (Ok cx) ->
  cx_hash cx = effective_hash pk (b_sign_algorithm cfg) /\
  cx_canon cx = effective_canon cfg /\
  cx_keys cx = signing_ctx_keys k /\
  (* what a signature built with this context declares *)
  (forall el dv sv el' sig, construct_signature cx el (Ok (dv, sv)) = ORet (Ok (el', sig)) ->
     exists sm certs,
       canon_apply (effective_canon cfg) el = Ok el' /\
       declared_signature_method pk (cx_hash cx) = Some sm /\ ctx_certs (signing_ctx_keys k) = Ok certs /\
       sig = signature_element sm (canon_id (effective_canon cfg)) (cx_hash cx) (select_attr_value "ID" (attrs_of el')) dv sv certs).
Proof.
  intros Hk H. unfold signing_context in H. rewrite (set_signature_method_table _ pk _ Hk) in H. injection H as <-.
  cbn [cx_hash cx_canon cx_keys]. fold (effective_canon cfg). repeat split.
  intros el dv sv el' sig C. unfold construct_signature in C. cbn [cx_keys cx_hash cx_canon] in C. rewrite Hk in C.
  rewrite id_by_method_table in C. fold (effective_canon cfg) in C.
  destruct (declared_signature_method pk (effective_hash pk (b_sign_algorithm cfg))) as [sm|]; [|discriminate C].
  destruct (canon_apply (effective_canon cfg) el) as [el2|e]; [|discriminate C].
  destruct (ctx_certs (signing_ctx_keys k)) as [certs|e]; [|discriminate C].
  injection C as <- <-. exists sm, certs. repeat split.
Qed.

(* the identifier each canonicaliser setting declares; nil -> the library default *)
Lemma effective_canon_id cfg :
  canon_id (effective_canon cfg) =
  match b_canonicalizer cfg with
  | None => "http://www.w3.org/2006/12/xml-c14n11"
  | Some (CanonExc _ false) => "http://www.w3.org/2001/10/xml-exc-c14n#"
  | Some (CanonExc _ true) => "http://www.w3.org/2001/10/xml-exc-c14n#WithComments"
  | Some (CanonOther id) => id
  end.
Proof. unfold effective_canon. destruct (b_canonicalizer cfg) as [[incl [|]|cid]|]; reflexivity. Qed.

(* the declared identifiers can be read off the signature element *)
Lemma signature_element_declares sm canon h ref dv sv certs :
  let sig := signature_element sm canon h ref dv sv certs in
  exists si rest, kids_of sig = si :: rest /\ node_name si = "ds:SignedInfo" /\
    exists cm smn rf, kids_of si = [cm; smn; rf] /\
      node_name cm = "ds:CanonicalizationMethod" /\ select_attr_sk "" "Algorithm" (attrs_of cm) = Some canon /\
      node_name smn = "ds:SignatureMethod" /\ select_attr_sk "" "Algorithm" (attrs_of smn) = Some sm /\
      node_name rf = "ds:Reference" /\
      select_attr_sk "" "URI" (attrs_of rf) = Some (if ref =?s "" then "" else "#" ++ ref) /\
      exists tr dm dvn, kids_of rf = [tr; dm; dvn] /\
        child_names tr = ["ds:Transform"; "ds:Transform"] /\
        map (fun x => select_attr_sk "" "Algorithm" (attrs_of x)) (kids_of tr) = [Some enveloped_signature_id; Some canon] /\
        node_name dm = "ds:DigestMethod" /\ select_attr_sk "" "Algorithm" (attrs_of dm) = Some (digest_id h).
Proof.
  cbv zeta. rewrite signature_element_eq. do 2 eexists. split; [reflexivity|]. split; [reflexivity|].
  do 3 eexists. repeat (split; [reflexivity|]). do 3 eexists. repeat split.
Qed.

(* ---- key choice ---- *)
Definition res_map {X Y} (f : X -> Y) (r : res X) : res Y := match r with Ok x => Ok (f x) | Err e => Err e end.

(* declarative: the SP's signing key pair = the first configured slot in the order
   SetSPSigningKeyStore, SPSigningKeyStore, SetSPKeyStore, SPKeyStore *)
Definition signing_pair (k : keycfg) : option (res (string * string)) :=
  match k_sig_over k, k_sig_field k, k_enc_over k, k_enc_field k with
  | Some s, _, _, _ => Some (Ok (ok_signer s, ok_cert s))
  | None, Some f, _, _ => Some (fk_pair f)
  | None, None, Some s, _ => Some (Ok (ok_signer s, ok_cert s))
  | None, None, None, Some f => Some (fk_pair f)
  | None, None, None, None => None
  end.

Theorem signing_key_agreement_all k :
  ctx_signing_key (signing_ctx_keys k) = option_map (res_map fst) (signing_pair k) /\
  get_signing_cert k = match signing_pair k with Some r => res_map snd r | None => Ok "" end.
Proof.
  unfold signing_ctx_keys, signing_pair, get_signing_cert, get_encryption_cert, ctx_signing_key.
  destruct (k_sig_over k) as [so|], (k_sig_field k) as [sf|], (k_enc_over k) as [eo|], (k_enc_field k) as [ef|];
    cbn [option_map res_map fst snd]; split; try reflexivity;
    repeat match goal with |- context [fk_pair ?f] => destruct (fk_pair f) as [[? ?]|?] end; reflexivity.
Qed.

Theorem signing_key_agreement k c :
  get_signing_cert_bytes k = Ok c ->
  exists key, signing_pair k = Some (Ok (key, c)) /\
              ctx_signing_key (signing_ctx_keys k) = Some (Ok key) /\
              metadata_signing_cert k = Ok (Some (base64_encode c)) /\
              c <> "".
Proof.
  intros H. unfold get_signing_cert_bytes, metadata_signing_cert in *.
  destruct (signing_key_agreement_all k) as [H1 H2]. rewrite H1. rewrite H2 in *.
  destruct (signing_pair k) as [[[key cert]|e]|]; cbn [res_map snd fst option_map] in *; try discriminate H.
  destruct (cert =?s "") eqn:Ec; [discriminate H|]. injection H as <-. exists key. repeat split.
  intros ->. discriminate Ec.
Qed.

(* ---- embedded certificate ---- *)
(* a field key store that also implements X509ChainStore must hand out the chain that starts with the
   certificate GetKeyPair returns (true of dsig.TLSCertKeyStore: Certificate[0] / Certificate) *)
Definition chain_consistent_f (f : field_ks) : Prop :=
  match fk_chain f with
  | None => True
  | Some ch => forall key cert, fk_pair f = Ok (key, cert) -> exists tail, ch = Ok (cert :: tail)
  end.
Definition chain_consistent (k : keycfg) : Prop :=
  (forall f, k_sig_field k = Some f -> chain_consistent_f f) /\ (forall f, k_enc_field k = Some f -> chain_consistent_f f).

Theorem embedded_cert_is_reported_cert k c :
  chain_consistent k ->
  get_signing_cert_bytes k = Ok c ->
  exists tail, ctx_certs (signing_ctx_keys k) = Ok (c :: tail) /\
    (* in the KeyInfo the first X509Certificate carries exactly these bytes *)
    (forall sm canon h ref dv sv,
       exists si sv_el x509 rest,
         kids_of (signature_element sm canon h ref dv sv (c :: tail)) = [si; sv_el; Elem "ds" "KeyInfo" [] [Elem "ds" "X509Data" [] (x509 :: rest)]] /\
         x509 = Elem "ds" "X509Certificate" [] (text_kids (base64_encode c)) /\
         base64_decode (base64_encode c) = Some c).
Proof.
  intros [Cs Ce] H.
  assert (exists tail, ctx_certs (signing_ctx_keys k) = Ok (c :: tail)) as [tail Ht].
  { unfold get_signing_cert_bytes, get_signing_cert, get_encryption_cert in H.
    unfold signing_ctx_keys, ctx_certs.
    destruct (k_sig_over k) as [so|].
    - destruct (ok_cert so =?s "") eqn:Ec; [discriminate H|]. injection H as <-. eexists. reflexivity.
    - destruct (k_sig_field k) as [sf|].
      + specialize (Cs sf eq_refl). unfold chain_consistent_f in Cs.
        destruct (fk_pair sf) as [[key cert]|e] eqn:P; [|discriminate H].
        destruct (cert =?s "") eqn:Ec; [discriminate H|]. injection H as <-.
        destruct (fk_chain sf) as [ch|]; [|eexists; reflexivity].
        destruct (Cs key cert eq_refl) as [tail ->]. eexists. reflexivity.
      + destruct (k_enc_over k) as [eo|].
        * destruct (ok_cert eo =?s "") eqn:Ec; [discriminate H|]. injection H as <-. eexists. reflexivity.
        * destruct (k_enc_field k) as [ef|]; [|discriminate H].
          specialize (Ce ef eq_refl). unfold chain_consistent_f in Ce.
          destruct (fk_pair ef) as [[key cert]|e] eqn:P; [|discriminate H].
          destruct (cert =?s "") eqn:Ec; [discriminate H|]. injection H as <-.
          destruct (fk_chain ef) as [ch|]; [|eexists; reflexivity].
          destruct (Ce key cert eq_refl) as [tail ->]. eexists. reflexivity. }
  exists tail. split; [exact Ht|]. intros. rewrite signature_element_eq. cbn [map kids_of].
  do 4 eexists. split; [reflexivity|]. split; [reflexivity|]. apply base64_decode_encode.
Qed.

(* ================================================================ examples (non-vacuity) *)
Definition ex_cfg : bcfg :=
  {| b_sp_issuer := "https://sp.example.com/<&"">"; b_idp_issuer := "idp"; b_acs_url := "https://sp.example.com/acs?a=1&b=2";
     b_idp_sso_url := "https://idp.example.com/sso"; b_idp_slo_url := "https://idp.example.com/slo";
     b_force_authn := true; b_is_passive := false; b_name_id_format := c_NameIdFormatPersistent;
     b_rac := Some {| rac_comparison := "exact"; rac_contexts := [c_AuthnContextPasswordProtectedTransport; ""] |};
     b_sign_authn_requests := true; b_sign_algorithm := rsa_sha512; b_canonicalizer := None |}.
Definition ex_keys : keycfg :=
  {| k_enc_field := Some {| fk_pair := Ok ("enc-key", "ENC-CERT"); fk_chain := None |}; k_sig_field := None; k_enc_over := None;
     k_sig_over := Some {| ok_signer := "sig-key"; ok_pk := PK_RSA; ok_cert := "SIG-CERT" |} |}.
Definition ex_now : instant := {| i_sec := 1709210096; i_nsec := 500 |}.

Example ex_authn_bytes :
  etree_write (build_authn_request ex_cfg "abc" ex_now) =
  "<samlp:AuthnRequest xmlns:samlp=""urn:oasis:names:tc:SAML:2.0:protocol"" xmlns:saml=""urn:oasis:names:tc:SAML:2.0:assertion"" ID=""_abc"" Version=""2.0"" ProtocolBinding=""urn:oasis:names:tc:SAML:2.0:bindings:HTTP-POST"" AssertionConsumerServiceURL=""https://sp.example.com/acs?a=1&amp;b=2"" IssueInstant=""2024-02-29T12:34:56Z"" Destination=""https://idp.example.com/sso"" ForceAuthn=""true""><saml:Issuer>https://sp.example.com/&lt;&amp;&quot;&gt;</saml:Issuer><samlp:NameIDPolicy AllowCreate=""true"" Format=""urn:oasis:names:tc:SAML:2.0:nameid-format:persistent""/><samlp:RequestedAuthnContext Comparison=""exact""><saml:AuthnContextClassRef>urn:oasis:names:tc:SAML:2.0:ac:classes:PasswordProtectedTransport</saml:AuthnContextClassRef><saml:AuthnContextClassRef/></samlp:RequestedAuthnContext></samlp:AuthnRequest>".
Proof. vm_compute. reflexivity. Qed.

Example ex_signed :
  match message_doc ex_cfg ex_keys MAuthn "abc" ex_now true (Ok ("DIGEST=", "SIGNATURE=")) with
  | ORet (Ok t) => match kids_of t with
                   | i :: sig :: _ => if node_eqb i (issuer_node ex_cfg) then etree_write sig else "issuer is not first"
                   | _ => "too few children" end
  | _ => "not built"
  end = "<ds:Signature xmlns:ds=""http://www.w3.org/2000/09/xmldsig#""><ds:SignedInfo><ds:CanonicalizationMethod Algorithm=""http://www.w3.org/2006/12/xml-c14n11""/><ds:SignatureMethod Algorithm=""http://www.w3.org/2001/04/xmldsig-more#rsa-sha512""/><ds:Reference URI=""#_abc""><ds:Transforms><ds:Transform Algorithm=""http://www.w3.org/2000/09/xmldsig#enveloped-signature""/><ds:Transform Algorithm=""http://www.w3.org/2006/12/xml-c14n11""/></ds:Transforms><ds:DigestMethod Algorithm=""http://www.w3.org/2001/04/xmlenc#sha512""/><ds:DigestValue>DIGEST=</ds:DigestValue></ds:Reference></ds:SignedInfo><ds:SignatureValue>SIGNATURE=</ds:SignatureValue><ds:KeyInfo><ds:X509Data><ds:X509Certificate>U0lHLUNFUlQ=</ds:X509Certificate></ds:X509Data></ds:KeyInfo></ds:Signature>".
Proof. vm_compute. reflexivity. Qed.

Definition ex_cfg_exc : bcfg :=
  {| b_sp_issuer := "sp"; b_idp_issuer := "idp"; b_acs_url := "https://sp/acs"; b_idp_sso_url := "https://idp/sso";
     b_idp_slo_url := "https://idp/slo"; b_force_authn := false; b_is_passive := true; b_name_id_format := "fmt";
     b_rac := Some {| rac_comparison := "exact"; rac_contexts := ["c1"] |};
     b_sign_authn_requests := true; b_sign_algorithm := ""; b_canonicalizer := Some (CanonExc [] false) |}.

(* with an exclusive canonicaliser the message that is sent is the transformed element: attributes sorted,
   xmlns:saml moved onto the saml:* children (observed byte for byte on the implementation by harness c13.go) *)
Example ex_signed_exc :
  match message_doc ex_cfg_exc ex_keys MAuthn "abc" ex_now true (Ok ("D", "S")) with
  | ORet (Ok (Elem sp t a (i :: sig :: rest))) => etree_write (Elem sp t a (i :: rest))
  | _ => "not built"
  end = "<samlp:AuthnRequest xmlns:samlp=""urn:oasis:names:tc:SAML:2.0:protocol"" AssertionConsumerServiceURL=""https://sp/acs"" Destination=""https://idp/sso"" ID=""_abc"" IsPassive=""true"" IssueInstant=""2024-02-29T12:34:56Z"" ProtocolBinding=""urn:oasis:names:tc:SAML:2.0:bindings:HTTP-POST"" Version=""2.0""><saml:Issuer xmlns:saml=""urn:oasis:names:tc:SAML:2.0:assertion"">sp</saml:Issuer><samlp:NameIDPolicy AllowCreate=""true"" Format=""fmt""/><samlp:RequestedAuthnContext Comparison=""exact""><saml:AuthnContextClassRef xmlns:saml=""urn:oasis:names:tc:SAML:2.0:assertion"">c1</saml:AuthnContextClassRef></samlp:RequestedAuthnContext></samlp:AuthnRequest>".
Proof. vm_compute. reflexivity. Qed.

Example ex_no_keys_panics :
  message_doc ex_cfg no_keys MAuthn "abc" ex_now true (Ok ("d", "s")) = OPanic "nil signer".
Proof. vm_compute. reflexivity. Qed.

Example ex_childless_element_panics : exists w, sign_placement (Elem "samlp" "AuthnRequest" [] []) (Text "sig") = OPanic w.
Proof. eexists. reflexivity. Qed.

Example ex_signing_key_agreement : get_signing_cert_bytes ex_keys = Ok "SIG-CERT" /\
  ctx_signing_key (signing_ctx_keys ex_keys) = Some (Ok "sig-key").
Proof. split; reflexivity. Qed.

(* ================================================================ statements used by Prop_C15.v / Prop_C13.v *)
Lemma values_cannot_alter_structure :
  (forall cfg id now, skeleton (build_authn_request cfg id now) = authn_skeleton (authn_shape_of cfg)) /\
  (forall cfg id now nid si, skeleton (build_logout_request cfg id now nid si) =
        logout_request_skeleton (nonempty (issuer_value cfg)) (nonempty nid) (nonempty si)) /\
  (forall cfg id now st rq, skeleton (build_logout_response cfg id now st rq) =
        logout_response_skeleton (nonempty (issuer_value cfg))) /\
  (forall sp t a k, names_ok (Elem sp t a k) = true ->
        scan (etree_write (Elem sp t a k)) = Some (tokens (etree_escape Normal) (Elem sp t a k))) /\
  (forall cfg m id now, names_ok (message_tree cfg m id now) = true) /\
  (forall v, etree_no_markup Normal (etree_escape Normal v) = true).
Proof.
  split; [exact authn_skeleton_shape|]. split; [exact logout_request_skeleton_shape|].
  split; [exact logout_response_skeleton_shape|]. split; [exact scan_write_tokens|]. split; [|exact E_no_markup].
  intros cfg [| |] id now; [apply names_ok_authn | apply names_ok_logout_request | apply names_ok_logout_response].
Qed.

Lemma values_recovered :
  (forall cfg id now, exists toks,
      scan (etree_write (build_authn_request cfg id now)) = Some toks /\ authn_found (etree_escape Normal) cfg id now toks) /\
  (forall cfg id now nid si, exists toks,
      scan (etree_write (build_logout_request cfg id now nid si)) = Some toks /\
      logout_request_found (etree_escape Normal) cfg id now nid si toks) /\
  (forall cfg id now st rq, exists toks,
      scan (etree_write (build_logout_response cfg id now st rq)) = Some toks /\
      logout_response_found (etree_escape Normal) cfg id now st rq toks) /\
  (forall v, valid_xml_text v = true -> no_byte 13 v = true -> xml_read (etree_escape Normal v) = v).
Proof.
  split; [exact authn_values_recovered|]. split; [exact logout_request_values_recovered|].
  split; [exact logout_response_values_recovered | exact xml_read_escape].
Qed.

Lemma cr_not_preserved_refuted :
  (exists v, valid_xml_text v = true /\ xml_read (etree_escape Normal v) <> v) /\
  (exists cfg id now toks,
      scan (etree_write (build_authn_request cfg id now)) = Some toks /\
      valid_xml_text (issuer_value cfg) = true /\
      map xml_read (tok_texts "saml:Issuer" toks) <> [issuer_value cfg]).
Proof.
  split.
  - exists cr_value. destruct cr_value_not_recovered as (V & _ & R). split; [exact V|]. unfold E in R. rewrite R.
    vm_compute. discriminate.
  - destruct cr_not_preserved as (toks & S & V & _ & N). exists cr_cfg, "id", {| i_sec := 0; i_nsec := 0 |}, toks. auto.
Qed.

Lemma schema_order :
  (forall cfg id now,
     xsd_match authn_request_order (child_names (build_authn_request cfg id now)) = true /\
     (forall sig t, is_ds_signature sig -> sign_placement (build_authn_request cfg id now) sig = ORet (Ok t) ->
                    xsd_match authn_request_order (child_names t) = true) /\
     (forall r, b_rac cfg = Some r ->
        exists rc, In rc (kids_of (build_authn_request cfg id now)) /\ node_name rc = "samlp:RequestedAuthnContext" /\
          child_names rc = map (fun _ => "saml:AuthnContextClassRef") (rac_contexts r) /\
          xsd_match requested_authn_context_order (child_names rc) = negb (match rac_contexts r with [] => true | _ => false end))) /\
  (forall cfg id now nid si,
     xsd_match logout_request_order (child_names (build_logout_request cfg id now nid si)) = true /\
     (forall sig t, is_ds_signature sig -> sign_placement (build_logout_request cfg id now nid si) sig = ORet (Ok t) ->
                    xsd_match logout_request_order (child_names t) = true)) /\
  (forall cfg id now st rq,
     xsd_match status_response_order (child_names (build_logout_response cfg id now st rq)) = true /\
     (forall sig t, is_ds_signature sig -> sign_placement (build_logout_response cfg id now st rq) sig = ORet (Ok t) ->
                    xsd_match status_response_order (child_names t) = true) /\
     (exists s, In s (kids_of (build_logout_response cfg id now st rq)) /\ node_name s = "samlp:Status" /\
                xsd_match status_order (child_names s) = true)) /\
  (forall cfg m id now,
     let t := message_tree cfg m id now in
     space_of t = "samlp" /\ tag_of t = root_tag m /\
     select_attr_sk "xmlns" "samlp" (attrs_of t) = Some c_SAMLProtocolNamespace /\
     select_attr_sk "xmlns" "saml" (attrs_of t) = Some c_SAMLAssertionNamespace /\
     select_attr_sk "" "Version" (attrs_of t) = Some "2.0" /\
     select_attr_sk "" "ID" (attrs_of t) = Some ("_" ++ id)) /\
  (* every document the public API returns: signed or not, whatever the key configuration and canonicaliser *)
  (forall cfg k m id now incl crypto t,
     message_doc cfg k m id now incl crypto = ORet (Ok t) -> xsd_match (order_of m) (child_names t) = true).
Proof.
  split; [exact schema_order_authn|]. split; [exact schema_order_logout_request|].
  split; [exact schema_order_logout_response|]. split; [exact message_tree_root | exact returned_document_schema_order].
Qed.

Lemma signature_placement :
  (forall cfg k m id now crypto t,
     signing_requested cfg m = true ->
     message_doc cfg k m id now true crypto = ORet (Ok t) ->
     let c := effective_canon cfg in
     exists attrs sig rest,
       pre_sign_tree c cfg m id now = Elem "samlp" (root_tag m) attrs (signed_issuer c cfg :: rest) /\
       t = Elem "samlp" (root_tag m) attrs (signed_issuer c cfg :: sig :: rest) /\
       space_of sig = "ds" /\ tag_of sig = "Signature" /\
       select_attr_sk "xmlns" "ds" (attrs_of sig) = Some dsig_namespace) /\
  (* pre_sign_tree = the built element as the canonicaliser left it: untouched by the inclusive canonicalisers,
     the exc-c14n transformed element (same names, same values, declarations moved, attributes sorted) otherwise *)
  (forall c cfg m id now, canon_apply c (message_tree cfg m id now) = Ok (pre_sign_tree c cfg m id now)) /\
  (forall cid cfg m id now, pre_sign_tree (CanonOther cid) cfg m id now = message_tree cfg m id now) /\
  (forall c cfg, node_name (signed_issuer c cfg) = "saml:Issuer" /\ kids_of (signed_issuer c cfg) = text_kids (issuer_value cfg)) /\
  (forall el sig,
     match el with
     | Elem sp t a (c0 :: rest) => sign_placement el sig = ORet (Ok (Elem sp t a (c0 :: sig :: rest)))
     | _ => exists w, sign_placement el sig = OPanic w
     end) /\
  (forall cfg k m id now incl crypto w,
     message_doc cfg k m id now incl crypto = OPanic w -> w = "nil signer" /\ ctx_pk (signing_ctx_keys k) = None).
Proof.
  split; [exact signature_after_issuer|]. split; [exact canon_apply_message|]. split; [reflexivity|].
  split; [intros c cfg; split; reflexivity|].
  split; [exact sign_placement_spec | exact builders_placement_never_panics].
Qed.

Lemma algorithm_table_full :
  (forall cfg k pk cx,
     ctx_pk (signing_ctx_keys k) = Some pk ->
     signing_context cfg k = ORet (Ok cx) ->
     cx_hash cx = effective_hash pk (b_sign_algorithm cfg) /\
     cx_canon cx = effective_canon cfg /\
     cx_keys cx = signing_ctx_keys k /\
     (forall el dv sv el' sig, construct_signature cx el (Ok (dv, sv)) = ORet (Ok (el', sig)) ->
        exists sm certs,
          canon_apply (effective_canon cfg) el = Ok el' /\
          declared_signature_method pk (cx_hash cx) = Some sm /\ ctx_certs (signing_ctx_keys k) = Ok certs /\
          sig = signature_element sm (canon_id (effective_canon cfg)) (cx_hash cx) (select_attr_value "ID" (attrs_of el')) dv sv certs)) /\
  (forall cfg, canon_id (effective_canon cfg) =
     match b_canonicalizer cfg with
     | None => "http://www.w3.org/2006/12/xml-c14n11"
     | Some (CanonExc _ false) => "http://www.w3.org/2001/10/xml-exc-c14n#"
     | Some (CanonExc _ true) => "http://www.w3.org/2001/10/xml-exc-c14n#WithComments"
     | Some (CanonOther id) => id
     end) /\
  (* the table for RSA keys (every dsig.X509KeyStore in a field, and RSA signers given to the setters) *)
  (forall alg, effective_hash PK_RSA alg =
     if alg =?s "http://www.w3.org/2000/09/xmldsig#rsa-sha1" then SHA1
     else if alg =?s "http://www.w3.org/2001/04/xmldsig-more#rsa-sha256" then SHA256
     else if alg =?s "http://www.w3.org/2001/04/xmldsig-more#rsa-sha384" then SHA384
     else if alg =?s "http://www.w3.org/2001/04/xmldsig-more#rsa-sha512" then SHA512
     else SHA256) /\
  (forall h, declared_signature_method PK_RSA h =
     Some match h with
          | SHA1 => "http://www.w3.org/2000/09/xmldsig#rsa-sha1"
          | SHA256 => "http://www.w3.org/2001/04/xmldsig-more#rsa-sha256"
          | SHA384 => "http://www.w3.org/2001/04/xmldsig-more#rsa-sha384"
          | SHA512 => "http://www.w3.org/2001/04/xmldsig-more#rsa-sha512"
          end) /\
  (forall h, digest_id h =
     match h with
     | SHA1 => "http://www.w3.org/2000/09/xmldsig#sha1"
     | SHA256 => "http://www.w3.org/2001/04/xmlenc#sha256"
     | SHA384 => "http://www.w3.org/2001/04/xmldsig-more#sha384"
     | SHA512 => "http://www.w3.org/2001/04/xmlenc#sha512"
     end) /\
  (* the signature element declares exactly these identifiers *)
  (forall sm canon h ref dv sv certs,
     let sig := signature_element sm canon h ref dv sv certs in
     exists si rest, kids_of sig = si :: rest /\ node_name si = "ds:SignedInfo" /\
       exists cm smn rf, kids_of si = [cm; smn; rf] /\
         node_name cm = "ds:CanonicalizationMethod" /\ select_attr_sk "" "Algorithm" (attrs_of cm) = Some canon /\
         node_name smn = "ds:SignatureMethod" /\ select_attr_sk "" "Algorithm" (attrs_of smn) = Some sm /\
         node_name rf = "ds:Reference" /\
         select_attr_sk "" "URI" (attrs_of rf) = Some (if ref =?s "" then "" else "#" ++ ref) /\
         exists tr dm dvn, kids_of rf = [tr; dm; dvn] /\
           child_names tr = ["ds:Transform"; "ds:Transform"] /\
           map (fun x => select_attr_sk "" "Algorithm" (attrs_of x)) (kids_of tr) = [Some enveloped_signature_id; Some canon] /\
           node_name dm = "ds:DigestMethod" /\ select_attr_sk "" "Algorithm" (attrs_of dm) = Some (digest_id h)).
Proof.
  split; [exact algorithm_table|]. split; [exact effective_canon_id|]. split; [reflexivity|]. split; [destruct h; reflexivity|].
  split; [destruct h; reflexivity | exact signature_element_declares].
Qed.

Lemma signing_key_agreement_full :
  (forall k,
     ctx_signing_key (signing_ctx_keys k) = option_map (res_map fst) (signing_pair k) /\
     get_signing_cert k = match signing_pair k with Some r => res_map snd r | None => Ok "" end) /\
  (forall k c,
     get_signing_cert_bytes k = Ok c ->
     exists key, signing_pair k = Some (Ok (key, c)) /\
                 ctx_signing_key (signing_ctx_keys k) = Some (Ok key) /\
                 metadata_signing_cert k = Ok (Some (base64_encode c)) /\
                 c <> "").
Proof. split; [exact signing_key_agreement_all | exact signing_key_agreement]. Qed.
