(* P_Downgrade.v — the repaired clause of C02 (finding F12, commit 541e863): a message whose root envelops a ds:Signature is
   never handled as "unsigned".

   goxmldsig's Validate answers ErrMissingSignature whenever no ds:Signature REFERENCES the element's ID — also when the
   element envelops a ds:Signature whose Reference names another ID (root ID edited after signing; a prefixed namesake
   p:ID="…" in front of ID, which etree's SelectAttr("ID") returns first).  gosaml2 used to continue on the unsigned path.
   The repaired validateElementSignature (Response.validate_element_signature; translated body: GenVctx.v / P_GenVctx.v)
   does not believe "missing" of an element with a direct ds:Signature child.

   For EVERY tree, EVERY behaviour of the signature oracle and of the decryption oracle, every configuration with signature
   checking on.  [EnvelopedSignature root] (P_Response.v): a direct child element of root resolves to
   {http://www.w3.org/2000/09/xmldsig#}Signature in the context in force at that child. *)
From V Require Import Base Time Xml Ns SchemaDefs Schema Types ConcDefs Generated Profile Decode Response P_Profile P_Ns P_Response.
Local Open Scope string_scope.
Local Open Scope list_scope.

Section Downgrade.
  Variable dsig : node -> dsig_result.
  Variable decrypt : node -> res node.

  (* the signature step of the two logout validators *)
  Lemma enveloped_logout_step cfg root el flag :
    cfg_skip_sig cfg = false -> EnvelopedSignature root ->
    logout_signature_step dsig cfg root = Ok (el, flag) -> flag = true /\ dsig root = DOk el.
  Proof.
    intros Hs HE H. destruct (logout_step_ok dsig cfg root el flag H) as [[Ht _] Hf].
    destruct flag.
    - split; [reflexivity|]. apply Ht. reflexivity.
    - destruct (Hf eq_refl) as [_ [Hk|[_ HN]]]; [congruence|contradiction].
  Qed.

  Lemma logout_step_error cfg root :
    cfg_skip_sig cfg = false -> validate_element_signature dsig root = DErr ->
    (exists e, validate_logout_response_tree dsig cfg root = Err e /\ e <> EMissingSignature) /\
    (exists e, validate_logout_request_tree dsig cfg root = Err e /\ e <> EMissingSignature).
  Proof.
    intros Hs Hd. unfold validate_logout_response_tree, validate_logout_request_tree, logout_signature_step.
    rewrite Hs, Hd. cbn [bind]. split; eexists; (split; [reflexivity|discriminate]).
  Qed.

  (* C02_enveloped_signature_never_downgraded *)
  Theorem enveloped_signature_never_downgraded cfg now root :
    cfg_skip_sig cfg = false -> EnvelopedSignature root ->
    (* accepted => signed path: the oracle verified the root, the result is decoded from the verified tree, flag set *)
    (forall r, validate_response_tree dsig decrypt cfg now root = Ok r ->
       SignedPath dsig decrypt cfg now root r /\ r_signature_validated r = true /\ ~ UnsignedPath dsig decrypt cfg now root r) /\
    (forall r, validate_logout_response_tree dsig cfg root = Ok r ->
       exists v r0, dsig root = DOk v /\ unmarshal_logout_response v = Ok r0 /\ r = lr_with_flag r0 true) /\
    (forall r, validate_logout_request_tree dsig cfg root = Ok r ->
       exists v r0, dsig root = DOk v /\ unmarshal_logout_request v = Ok r0 /\ r = lq_with_flag r0 true) /\
    (* no verifying signature of the root => error; in particular "missing" is an error, and not the missing-signature one *)
    ((forall v, dsig root <> DOk v) ->
       (exists e, validate_response_tree dsig decrypt cfg now root = Err e /\ e <> EMissingSignature) /\
       (exists e, validate_logout_response_tree dsig cfg root = Err e /\ e <> EMissingSignature) /\
       (exists e, validate_logout_request_tree dsig cfg root = Err e /\ e <> EMissingSignature)) /\
    (dsig root = DMissing -> validate_element_signature dsig root = DErr).
  Proof.
    intros Hs HE. split; [|split; [|split; [|split]]].
    - intros r H. destruct (response_sound dsig decrypt cfg now root r Hs H) as [_ [HS|HU]].
      + split; [exact HS|]. split.
        * destruct HS as (s & s' & r0 & _ & _ & _ & ->). reflexivity.
        * intros HU. apply unsigned_path_no_enveloped_signature in HU as [_ HN]. contradiction.
      + apply unsigned_path_no_enveloped_signature in HU as [_ HN]. contradiction.
    - intros r H. destruct (logout_response_accept dsig cfg root r H) as (el & flag & r0 & A & B & C & _).
      destruct (enveloped_logout_step cfg root el flag Hs HE A) as [-> Hd]. exists el, r0. auto.
    - intros r H. destruct (logout_request_accept dsig cfg root r H) as (el & flag & r0 & A & B & C & _).
      destruct (enveloped_logout_step cfg root el flag Hs HE A) as [-> Hd]. exists el, r0. auto.
    - intros Hn.
      assert (Hd : validate_element_signature dsig root = DErr).
      { destruct (validate_element_signature dsig root) as [v| |] eqn:E; [| |reflexivity].
        - apply (proj1 (ves_ok _ _ _)) in E. exfalso. exact (Hn v E).
        - exfalso. exact (ves_enveloped_not_missing dsig root HE E). }
      split.
      + unfold validate_response_tree. rewrite Hs, Hd. eexists. split; [reflexivity|discriminate].
      + exact (logout_step_error cfg root Hs Hd).
    - intros Hd. exact (ves_enveloped_missing_is_error dsig root HE Hd).
  Qed.

  (* C02_unsigned_path_means_no_enveloped_signature: the contrapositive, on the accepted result *)
  Theorem unsigned_path_means_no_enveloped_signature cfg now root :
    cfg_skip_sig cfg = false ->
    (forall r, validate_response_tree dsig decrypt cfg now root = Ok r -> r_signature_validated r = false ->
       UnsignedPath dsig decrypt cfg now root r /\ dsig root = DMissing /\ ~ EnvelopedSignature root) /\
    (forall r, validate_logout_response_tree dsig cfg root = Ok r -> lr_signature_validated r = false ->
       dsig root = DMissing /\ ~ EnvelopedSignature root) /\
    (forall r, validate_logout_request_tree dsig cfg root = Ok r -> lq_signature_validated r = false ->
       dsig root = DMissing /\ ~ EnvelopedSignature root).
  Proof.
    intros Hs. split; [|split].
    - intros r H Hf. destruct (response_sound dsig decrypt cfg now root r Hs H) as [_ [(s & s' & r0 & _ & _ & _ & ->)|HU]]; [discriminate|].
      split; [exact HU|]. exact (unsigned_path_no_enveloped_signature dsig decrypt cfg now root r HU).
    - intros r H Hf. destruct (logout_response_accept dsig cfg root r H) as (el & flag & r0 & A & B & -> & _).
      cbn in Hf. subst flag. destruct (logout_step_ok dsig cfg root el false A) as [_ Hx].
      destruct (Hx eq_refl) as [_ [Hk|Hm]]; [congruence|exact Hm].
    - intros r H Hf. destruct (logout_request_accept dsig cfg root r H) as (el & flag & r0 & A & B & -> & _).
      cbn in Hf. subst flag. destruct (logout_step_ok dsig cfg root el false A) as [_ Hx].
      destruct (Hx eq_refl) as [_ [Hk|Hm]]; [congruence|exact Hm].
  Qed.
End Downgrade.

(* ---------- the code before the repair: the downgrade, as a witness ---------- *)
Definition w_at (k v : string) : attr := {| at_space := ""; at_key := k; at_val := v |}.
Definition w_ns (p v : string) : attr := {| at_space := "xmlns"; at_key := p; at_val := v |}.
(* the IdP's signature over the message whose ID was "_signed-by-idp" *)
Definition w_sig : node :=
  Elem "ds" "Signature" [w_ns "ds" ds_ns]
    [Elem "ds" "SignedInfo" [] [Elem "ds" "Reference" [w_at "URI" "#_signed-by-idp"] []]; Elem "ds" "SignatureValue" [] [Text "AAAA"]].
Definition w_assertion : node :=
  Elem "saml" "Assertion" [w_at "ID" "_a1"; w_at "Version" "2.0"]
    [Elem "saml" "Issuer" [] [Text "idp"];
     Elem "saml" "Subject" []
       [Elem "saml" "NameID" [] [Text "u"];
        Elem "saml" "SubjectConfirmation" [w_at "Method" c_SubjMethodBearer]
          [Elem "saml" "SubjectConfirmationData" [w_at "NotOnOrAfter" "2024-01-02T00:00:00Z"; w_at "Recipient" "https://sp/acs"] []]]].
(* root ID edited, InResponseTo replaced; the Signature child is still there *)
Definition w_root_attrs (dest : string) : list attr :=
  [w_ns "samlp" c_SAMLProtocolNamespace; w_ns "saml" c_SAMLAssertionNamespace;
   w_at "ID" "_edited-by-attacker"; w_at "Version" "2.0"; w_at "InResponseTo" "_request-of-the-attacker"; w_at "Destination" dest].
Definition w_status : node := Elem "samlp" "Status" [] [Elem "samlp" "StatusCode" [w_at "Value" c_StatusCodeSuccess] []].
Definition w_response : node :=
  Elem "samlp" "Response" (w_root_attrs "https://sp/acs") [Elem "saml" "Issuer" [] [Text "idp"]; w_sig; w_status; w_assertion].
Definition w_logout_response : node :=
  Elem "samlp" "LogoutResponse" (w_root_attrs "https://sp/slo") [Elem "saml" "Issuer" [] [Text "idp"]; w_sig; w_status].
Definition w_logout_request : node :=
  Elem "samlp" "LogoutRequest" (w_root_attrs "https://sp/slo") [Elem "saml" "Issuer" [] [Text "idp"]; w_sig; Elem "saml" "NameID" [] [Text "victim"]].
Definition w_cfg : config :=
  {| cfg_acs_url := "https://sp/acs"; cfg_slo_url := "https://sp/slo"; cfg_idp_issuer := "idp"; cfg_audience := "me";
     cfg_skip_sig := false; cfg_allow_missing_attrs := false; cfg_validate_enc_cert := false; cfg_max_size := 0 |}.
Definition w_now : instant := {| i_sec := 1704100000; i_nsec := 0 |}.
(* goxmldsig: the assertion's own signature verifies; nothing references the ID the roots carry now *)
Definition w_dsig (el : node) : dsig_result := if tag_of el =?s "Assertion" then DOk el else DMissing.
Definition w_decrypt (el : node) : res node := Err (EOther "no key").

Lemma w_enveloped : EnvelopedSignature w_response /\ EnvelopedSignature w_logout_response /\ EnvelopedSignature w_logout_request.
Proof.
  split; [|split]; apply (ns_find_one_child_some _ _ _ w_sig); vm_compute; reflexivity.
Qed.

(* C02_present_signature_downgraded_before_repair_refuted *)
Theorem present_signature_downgraded_before_repair :
  exists dsig decrypt cfg now root lroot qroot,
    cfg_skip_sig cfg = false /\
    EnvelopedSignature root /\ dsig root = DMissing /\
    (exists r, validate_response_tree_original dsig decrypt cfg now root = Ok r /\
               r_signature_validated r = false /\ r_in_response_to r = "_request-of-the-attacker" /\
               r_assertions r <> [] /\ Forall (Vouched dsig root) (r_assertions r)) /\
    EnvelopedSignature lroot /\ dsig lroot = DMissing /\
    (exists r, validate_logout_response_tree_original dsig cfg lroot = Ok r /\ lr_signature_validated r = false) /\
    EnvelopedSignature qroot /\ dsig qroot = DMissing /\
    (exists r, validate_logout_request_tree_original dsig cfg qroot = Ok r /\ lq_signature_validated r = false) /\
    (* the repaired code rejects all three *)
    (exists e, validate_response_tree dsig decrypt cfg now root = Err e) /\
    (exists e, validate_logout_response_tree dsig cfg lroot = Err e) /\
    (exists e, validate_logout_request_tree dsig cfg qroot = Err e).
Proof.
  exists w_dsig, w_decrypt, w_cfg, w_now, w_response, w_logout_response, w_logout_request.
  destruct w_enveloped as (E1 & E2 & E3).
  split; [reflexivity|]. split; [exact E1|]. split; [reflexivity|]. split.
  { eexists. split; [vm_compute; reflexivity|]. split; [reflexivity|]. split; [reflexivity|]. split; [discriminate|].
    constructor; [|constructor].
    exists 3%nat, w_assertion. eexists. eexists. eexists. eexists.
    split; [reflexivity|]. split; [vm_compute; reflexivity|]. split; [vm_compute; reflexivity|].
    split; [vm_compute; reflexivity|]. split; [vm_compute; reflexivity|]. split; [vm_compute; reflexivity|]. reflexivity. }
  split; [exact E2|]. split; [reflexivity|]. split.
  { eexists. split; [vm_compute; reflexivity|reflexivity]. }
  split; [exact E3|]. split; [reflexivity|]. split.
  { eexists. split; [vm_compute; reflexivity|reflexivity]. }
  split; [|split]; eexists; vm_compute; reflexivity.
Qed.

(* non-vacuity of the positive theorems: a root enveloping a Signature that the oracle verifies is accepted on the signed path;
   a root without a Signature child and individually signed assertions is accepted on the unsigned path *)
Definition w_dsig_ok (el : node) : dsig_result := DOk el.
Example enveloped_and_verified_is_accepted :
  EnvelopedSignature w_response /\
  exists r, validate_response_tree w_dsig_ok w_decrypt w_cfg w_now w_response = Ok r /\ r_signature_validated r = true.
Proof. split; [exact (proj1 w_enveloped)|]. eexists. split; [vm_compute; reflexivity|reflexivity]. Qed.

Definition w_response_unsigned : node :=
  Elem "samlp" "Response" (w_root_attrs "https://sp/acs") [Elem "saml" "Issuer" [] [Text "idp"]; w_status; w_assertion].
Example unsigned_response_with_signed_assertion_is_accepted :
  exists r, validate_response_tree w_dsig w_decrypt w_cfg w_now w_response_unsigned = Ok r /\ r_signature_validated r = false /\
            r_assertions r <> [].
Proof. eexists. split; [vm_compute; reflexivity|]. split; [reflexivity|discriminate]. Qed.

(* ---------- the same clause for the SOURCE TEXT of this run (GenTree.v through P_GenTree's equalities) ---------- *)
From V Require Import Keys GenPrelude GenPreludeD GenPreludeT GenFuncs GenTree P_GenFuncs P_GenTree.
Section SourceDowngrade.
  Variable parse : string -> res node.
  Variable dsig : node -> dsig_result.
  Variable decrypt : node -> res node.

  Theorem source_enveloped_signature_never_downgraded cfg now enc raw root :
    cfg_skip_sig cfg = false -> b64_decode enc = Ok raw -> parse raw = Ok root -> EnvelopedSignature root ->
    (forall r, G_ValidateEncodedResponse parse dsig (decrypt_assertions decrypt) cfg now enc = PVal (Ok (Some r)) ->
       r_signature_validated r = true /\ exists v, dsig root = DOk v) /\
    (forall r, G_ValidateEncodedLogoutResponsePOST parse dsig cfg now enc = PVal (Ok (Some r)) ->
       lr_signature_validated r = true /\ exists v, dsig root = DOk v) /\
    (forall r, G_ValidateEncodedLogoutRequestPOST parse dsig cfg now enc = PVal (Ok (Some r)) ->
       lq_signature_validated r = true /\ exists v, dsig root = DOk v).
  Proof.
    intros Hs A B HE.
    destruct (enveloped_signature_never_downgraded dsig decrypt cfg now root Hs HE) as (R1 & R2 & R3 & _).
    split; [|split]; intros r H.
    - apply G_ValidateEncodedResponse_accepts_iff in H. destruct H as (raw' & root' & A' & B' & C).
      rewrite A in A'. inversion A'; subst raw'. rewrite B in B'. inversion B'; subst root'.
      destruct (R1 r C) as ((s & _ & _ & Hd & _) & Hf & _). split; [exact Hf|eauto].
    - apply G_ValidateEncodedLogoutResponsePOST_accepts_iff in H. destruct H as (raw' & root' & A' & B' & C).
      rewrite A in A'. inversion A'; subst raw'. rewrite B in B'. inversion B'; subst root'.
      destruct (R2 r C) as (v & r0 & Hd & _ & ->). split; [reflexivity|eauto].
    - apply G_ValidateEncodedLogoutRequestPOST_accepts_iff in H. destruct H as (raw' & root' & A' & B' & C).
      rewrite A in A'. inversion A'; subst raw'. rewrite B in B'. inversion B'; subst root'.
      destruct (R3 r C) as (v & r0 & Hd & _ & ->). split; [reflexivity|eauto].
  Qed.
End SourceDowngrade.
