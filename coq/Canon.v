(* Canon.v — executable model of goxmldsig v1.5.0's canonicalisers  Canonicalizer.Canonicalize  (canonicalize.go), the
   oracle [canon] of Dsig.v turned into a function.

   Modelled, by reading the pinned sources:
     canonicalize.go   NullCanonicalizer / c14N11Canonicalizer / c14N10RecCanonicalizer / c14N10ExclusiveCanonicalizer
                       .Canonicalize : tree preparation (Dsig.canonical_prep = canonicalPrep, Dsig.exc_prep =
                       etreeutils.TransformExcC14n, both corresponded tree-for-tree by the "prep" stream) followed by
                       canonicalSerialize;  the REC canonicaliser first copies the name-space and xml:* attributes of the
                       element's ANCESTORS onto it (getParentNamespaceAndXmlAttributes): every element Dsig.v asks about is
                       parentless (Validate and transform work on el.Copy(), SignedInfo is NSDetatch'ed), so both maps are
                       empty and REC = c14n11;  the null canonicaliser is canonicalPrep(el, false, true): [strip] is not
                       read, so it is c14n11 WITH comments
     canonicalize.go   canonicalSerialize = etree Document.WriteToBytes of a document holding only the element, with
                       WriteSettings{CanonicalEndTags, CanonicalText, CanonicalAttrVal} = true
     etree.go v1.5.0   Element.WriteTo / Attr.WriteTo / CharData.WriteTo / Comment / Directive / ProcInst .WriteTo under
                       those settings: attributes in slice order, value escaped with escapeCanonicalAttr, always an end
                       tag, character data escaped with escapeCanonicalText (trees read WITHOUT ReadSettings.PreserveCData
                       carry no CDATA flag: a CDATA section is a plain CharData token, see Xml.v)
     strings.Fields    on the InclusiveNamespaces PrefixList (unicode.IsSpace on decoded runes; the ASCII fast path is the
                       same function on ASCII input)
   Total and computable; no proofs here (P_Canon.v).

   Limits of the model, stated where they are used:
     - sort.Sort(SortedAttrs) is Dsig.sort_attrs = insertion sort, which is what Go runs on slices of at most 12 elements
       and what every sorting algorithm computes when Less is a strict total order on the slice.  For an element with more
       than 12 attributes among which Less can find two equal (same name, or two prefixed attributes with the same local
       name: [unstable]) Go's pdqsort is not stable and the order is not modelled: for exactly those trees the
       correspondence run keeps the table oracle ([canon_hybrid], [outside_model]). *)
From V Require Import Base Time Escape Xml Ns CorrDiff Build Dsig.
Local Open Scope string_scope.   (* ++ below is string append; list append is written [app] *)

(* ================================================================ strings.Fields *)
(* unicode.IsSpace *)
Definition is_space_rune (r : N) : bool :=
  (((9 <=? r) && (r <=? 13)) || (r =? 32) || (r =? 133) || (r =? 160) || (r =? 5760)
   || ((8192 <=? r) && (r <=? 8202)) || (r =? 8232) || (r =? 8233) || (r =? 8239) || (r =? 8287) || (r =? 12288))%N.

(* FieldsFunc(s, unicode.IsSpace): "for end, rune := range s" decodes like DecodeRuneInString (an invalid byte is
   U+FFFD of width 1, not a space); the bytes of a space rune end the field, the bytes of any other rune extend it.
   [cur] = the field being collected ("" = between fields: Fields never yields an empty string). *)
Fixpoint fields_go (skip : nat) (copy : bool) (cur : string) (s : string) : list string :=
  match s with
  | EmptyString => if cur =?s "" then [] else [cur]
  | String c r =>
      match skip with
      | S k => if copy then fields_go k copy (cur ++ String c EmptyString) r else fields_go k copy cur r
      | O =>
          let '(rn, w) := decode_rune s in
          if is_space_rune rn then app (if cur =?s "" then [] else [cur]) (fields_go (w - 1) false EmptyString r)
          else fields_go (w - 1) true (cur ++ String c EmptyString) r
      end
  end.
Definition fields (s : string) : list string := fields_go 0 true EmptyString s.

(* ================================================================ canonicalSerialize *)
(* Attr.WriteTo with CanonicalAttrVal (preceded by the ' ' Element.WriteTo writes) *)
Definition c14n_write_attr (a : attr) : string :=
  " " ++ Build.full_name (at_space a) (at_key a) ++ "=" ++ Build.dq ++ etree_escape CanonAttr (at_val a) ++ Build.dq.

Fixpoint c14n_write_attrs (l : list attr) : string :=
  match l with
  | [] => EmptyString
  | a :: r => c14n_write_attr a ++ c14n_write_attrs r
  end.

(* Token.WriteTo under WriteSettings{CanonicalEndTags, CanonicalText, CanonicalAttrVal} *)
Fixpoint c14n_write (n : node) : string :=
  match n with
  | Elem sp t attrs kids =>
      "<" ++ Build.full_name sp t ++ c14n_write_attrs attrs ++ ">" ++
      (fix wk (l : list node) : string :=
         match l with [] => EmptyString | k :: r => c14n_write k ++ wk r end) kids
      ++ "</" ++ Build.full_name sp t ++ ">"                       (* CanonicalEndTags: also for an element without children *)
  | Text s => etree_escape CanonText s
  | Comment s => "<!--" ++ s ++ "-->"
  | ProcInst t i => "<?" ++ t ++ (if i =?s "" then EmptyString else " " ++ i) ++ "?>"
  | Directive s => "<!" ++ s ++ ">"
  end.

Fixpoint c14n_write_kids (l : list node) : string :=
  match l with [] => EmptyString | k :: r => c14n_write k ++ c14n_write_kids r end.

(* ================================================================ Canonicalizer.Canonicalize *)
(* the prepared tree (None = the error of TransformExcC14n: reserved name space / undeclared prefix) *)
Definition canon_prep (a : canon_alg) (n : node) : option node :=
  match a with
  | CExc pl comments =>
      match exc_prep default_ctx default_ctx (fields pl) comments n with
      | Ok p => Some p
      | Err _ => None
      end
  | C11 comments => Some (canonical_prep [] comments n)
  | CRec comments => Some (canonical_prep [] comments n)           (* parentless element: nothing inherited *)
  | CNull => Some (canonical_prep [] true n)                       (* canonicalPrep(el, false, true) *)
  end.

Definition canon_model (a : canon_alg) (n : node) : option string :=
  option_map c14n_write (canon_prep a n).

(* does the canonicaliser keep comments? *)
Definition keeps_comments (a : canon_alg) : bool :=
  match a with CExc _ c => c | C11 c => c | CRec c => c | CNull => true end.

(* ================================================================ where the table oracle stays *)
(* SortedAttrs.Less decides by (kind, Key) alone -- and is then a strict total order that does not look at the slice --
   unless two attributes have the same Space and Key, or two PREFIXED attributes (Space neither "" nor "xmlns") have the
   same Key: those it compares through the declarations found in the slice being sorted and may find them equal. *)
Definition prefixed (a : attr) : bool := negb (at_space a =?s "") && negb (at_space a =?s "xmlns").
Definition attr_clash (x y : attr) : bool :=
  (at_key x =?s at_key y) && ((at_space x =?s at_space y) || (prefixed x && prefixed y)).
Fixpoint sort_total (l : list attr) : bool :=
  match l with
  | [] => true
  | x :: r => negb (existsb (attr_clash x) r) && sort_total r
  end.

(* more than 12 attributes (sort.Sort leaves insertion sort for pdqsort, which is not stable) some of which Less may find
   equal: the one class of elements whose attribute order the model does not claim *)
Definition unstable_attrs (l : list attr) : bool := Nat.ltb 12 (List.length l) && negb (sort_total l).
Fixpoint unstable (n : node) : bool :=
  match n with
  | Elem _ _ attrs kids =>
      unstable_attrs attrs ||
      (fix wk (l : list node) : bool := match l with [] => false | k :: r => unstable k || wk r end) kids
  | _ => false
  end.
(* the slices sorted by canonicalPrep are the attribute lists of the input, those sorted by TransformExcC14n are
   permutations of the attribute lists of its result *)
Definition outside_model (a : canon_alg) (n : node) : bool :=
  unstable n || match canon_prep a n with Some p => unstable p | None => false end.

(* the oracle handed to Dsig.v in the correspondence run: the model, except for that class, which is looked up in the
   table computed with the real library *)
Definition canon_hybrid (t : list (canon_alg * node * option string)) (a : canon_alg) (n : node) : option string :=
  if outside_model a n then canon_table t a n else canon_model a n.

(* one (algorithm, element, bytes of the real library) triple against the model; a difference is reported as the first
   differing byte *)
Definition canon_entry_check (e : canon_alg * node * option string) : val :=
  match e with
  | (a, n, r) =>
      if outside_model a n then VC "outside-model" []
      else same_as (opt_val VS r) (opt_val VS (canon_model a n))
  end.
Definition canon_table_check (t : list (canon_alg * node * option string)) : val :=
  VL (filter (fun v => negb (val_eqb v (VC "same" []) || val_eqb v (VC "outside-model" []))) (map canon_entry_check t)).

(* the stage observable of the DSIG stream with the canonicalisers MODELLED, followed by the entries of the case's canon
   table (every canonicalisation the real pipeline performed, and the harness's independent candidates) on which the model
   and the library differ: [] *)
Definition dsig_obs_model (t : oracle_tables) (store : list cert) (now : instant) (root : node)
           (exp_tree exp_mut : option node) : val :=
  VL [ dsig_obs_with (canon_hybrid (ot_canon t)) t store now root exp_tree exp_mut;
       canon_table_check (ot_canon t) ].

(* ================================================================ independent readers (to state what a reader recovers) *)
(* XML 1.0 3.3.3, attribute-value normalisation of a conforming reader on the raw attribute text, before references are
   expanded: a literal TAB, LF or CR becomes a space (encoding/xml does not do this; a reader that does must still recover
   the value from the canonical form) *)
Definition xml_attr_ws_normalize (s : string) : string :=
  concat_map (fun c => if is_ch 9 c || is_ch 10 c || is_ch 13 c then " " else String c EmptyString) s.
(* character data: end-of-line handling (XML 1.0 2.11), then references *)
Definition canon_text_read (s : string) : string := xml_unescape (xml_eol_normalize s).
(* attribute values: end-of-line handling, white-space normalisation, then references *)
Definition canon_attr_read (s : string) : string := xml_unescape (xml_attr_ws_normalize (xml_eol_normalize s)).
