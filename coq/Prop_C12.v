(* Prop_C12.v — property C12: decompression is bounded by the configured limit and otherwise transparent.
   ONLY theorem statements closed by [exact lemma], each followed by Print Assumptions.
   [inflate] is the DEFLATE stream oracle, quantified universally (no law assumed unless written as a premise). *)
From V Require Import Base Time Types Generated Deflate P_Deflate.

(* for every input, limit, decoder and stream: the stream is read through a LimitedReader of at most limit+1 bytes
   (never more than MaxInt64), at most limit+1 inflated bytes are held, and the decoder only ever sees the
   presented bytes themselves or an inflated message of at most limit bytes *)
Theorem C12_bytes_materialised_bounded :
  forall (inflate : string -> Z -> string * bool) (A : Type) (decoder : string -> res A) (data : string) (max_size : Z),
  in_int64 max_size ->
  let t := md_run inflate A decoder data max_size in
  let m := eff_limit max_size in
  (forall n, md_requested t = Some n -> (0 < n /\ n <= m + 1 /\ n <= max_int64)%Z) /\
  (0 <= md_held t <= Z.max 0 (m + 1))%Z /\
  (forall b, In b (md_decoded t) -> b = data \/ (zlen b <= m)%Z).
Proof. exact md_bounded. Qed.
Print Assumptions C12_bytes_materialised_bounded.

(* if the stream has more than limit bytes within the first limit+1, the result is an error (the flate error or the
   limit error naming the limit) and the decoder never sees inflated data — whatever the decoder would say *)
Theorem C12_over_limit_rejected :
  forall (inflate : string -> Z -> string * bool) (A : Type) (decoder : string -> res A) (data : string) (max_size : Z) (e0 : err),
  in_int64 max_size -> decoder data = Err e0 ->
  let m := eff_limit max_size in
  (m < max_int64)%Z ->
  ((0 <= m)%Z -> (m < zlen (fst (inflate data (m + 1))))%Z) ->
  (maybe_deflate inflate A decoder data max_size = Err e_inflate \/
   maybe_deflate inflate A decoder data max_size = Err (e_limit m)) /\
  md_decoded (md_run inflate A decoder data max_size) = [data].
Proof. exact md_over_limit. Qed.
Print Assumptions C12_over_limit_rejected.

(* the same for a stream described as a whole: [total d] is everything the flate reader yields for d *)
Theorem C12_over_limit_rejected_stream :
  forall (inflate : string -> Z -> string * bool) (total : string -> string) (A : Type) (decoder : string -> res A)
         (data : string) (max_size : Z) (e0 : err),
  (forall d n, (0 < n)%Z -> fst (inflate d n) = take_z (total d) n) ->
  in_int64 max_size -> decoder data = Err e0 ->
  (eff_limit max_size < max_int64)%Z -> (eff_limit max_size < zlen (total data))%Z ->
  (maybe_deflate inflate A decoder data max_size = Err e_inflate \/
   maybe_deflate inflate A decoder data max_size = Err (e_limit (eff_limit max_size))) /\
  md_decoded (md_run inflate A decoder data max_size) = [data].
Proof. exact md_over_limit_stream. Qed.
Print Assumptions C12_over_limit_rejected_stream.

(* parseResponse: an over-limit compressed document is rejected before any XML parsing of inflated data *)
Theorem C12_over_limit_rejected_parse_response :
  forall (inflate : string -> Z -> string * bool) (T : Type) (parse : string -> option (option T)) (rt_ok : string -> bool)
         (c : string) (max_size : Z),
  in_int64 max_size -> parse c = None ->
  let m := eff_limit max_size in
  (m < max_int64)%Z ->
  ((0 <= m)%Z -> (m < zlen (fst (inflate c (m + 1))))%Z) ->
  parse_response inflate T parse rt_ok c max_size = Err e_inflate \/
  parse_response inflate T parse rt_ok c max_size = Err (e_limit m).
Proof. exact parse_response_over_limit. Qed.
Print Assumptions C12_over_limit_rejected_parse_response.

(* 0 means 5 MiB (the constant re-extracted from the source); the unverified decoders always use it *)
Theorem C12_default_limit :
  c_default = (5 * 1024 * 1024)%Z /\
  eff_limit 0 = c_default /\
  (forall cfg_max, entry_max_size EP_DecodeUnverifiedBaseResponse cfg_max = c_default /\
                   entry_max_size EP_DecodeUnverifiedLogoutResponse cfg_max = c_default) /\
  (forall ep cfg_max, entry_uses_parse_response ep = true -> entry_max_size ep cfg_max = cfg_max) /\
  (forall ep, entry_uses_parse_response ep = false ->
              ep = EP_DecodeUnverifiedBaseResponse \/ ep = EP_DecodeUnverifiedLogoutResponse).
Proof. exact default_limit_facts. Qed.
Print Assumptions C12_default_limit.

Theorem C12_default_limit_zero_is_default :
  forall (inflate : string -> Z -> string * bool) (A : Type) (decoder : string -> res A) (data : string),
  md_run inflate A decoder data 0 = md_run inflate A decoder data c_default.
Proof. exact md_run_zero_is_default. Qed.
Print Assumptions C12_default_limit_zero_is_default.

Theorem C12_default_limit_unverified_ignore_config :
  forall (inflate : string -> Z -> string * bool) (T : Type) (parse : string -> option (option T)) (rt_ok : string -> bool)
         (R : Type) (ep : entry_point) (cfg_max cfg_max' : Z) (unmarshal : string -> res R) (rest : T -> string -> res R) (raw : string),
  entry_uses_parse_response ep = false ->
  entry_decode inflate T parse rt_ok ep cfg_max unmarshal rest raw = maybe_deflate inflate R unmarshal raw c_default /\
  entry_decode inflate T parse rt_ok ep cfg_max unmarshal rest raw =
  entry_decode inflate T parse rt_ok ep cfg_max' unmarshal rest raw.
Proof. exact unverified_ignore_config. Qed.
Print Assumptions C12_default_limit_unverified_ignore_config.

(* raw decode succeeds: that result, the stream is never read (the trace does not mention [inflate]) *)
Theorem C12_transparent_raw :
  forall (inflate : string -> Z -> string * bool) (A : Type) (decoder : string -> res A) (data : string) (max_size : Z) (a : A),
  decoder data = Ok a ->
  md_run inflate A decoder data max_size =
  {| md_result := Ok a; md_requested := None; md_held := 0%Z; md_decoded := [data] |}.
Proof. exact md_run_raw_ok. Qed.
Print Assumptions C12_transparent_raw.

(* raw decode fails, the stream yields exactly d without error, |d| <= limit: the result is [decoder d]
   (every int64 limit, MaxInt64 included) *)
Theorem C12_transparent :
  forall (inflate : string -> Z -> string * bool) (A : Type) (decoder : string -> res A) (data : string) (max_size : Z)
         (e0 : err) (d : string),
  in_int64 max_size -> decoder data = Err e0 ->
  let m := eff_limit max_size in
  inflate data (read_limit m) = (d, false) -> (zlen d <= m)%Z ->
  md_run inflate A decoder data max_size =
  {| md_result := decoder d; md_requested := Some (read_limit m); md_held := zlen d; md_decoded := [data; d] |}.
Proof. exact md_transparent. Qed.
Print Assumptions C12_transparent.

(* every entry point: a compressed message within the limit has the outcome of its raw twin *)
Theorem C12_transparent_entry_points :
  forall (inflate : string -> Z -> string * bool) (T : Type) (parse : string -> option (option T)) (rt_ok : string -> bool)
         (R : Type) (ep : entry_point) (cfg_max cfg_max' : Z) (unmarshal : string -> res R) (rest : T -> string -> res R)
         (c d : string) (root : option T) (a : R),
  in_int64 cfg_max ->
  let max_size := entry_max_size ep cfg_max in
  inflate c (read_limit (eff_limit max_size)) = (d, false) -> (zlen d <= eff_limit max_size)%Z ->
  (if entry_uses_parse_response ep then parse c = None /\ parse d = Some root
   else (exists e, unmarshal c = Err e) /\ unmarshal d = Ok a) ->
  entry_decode inflate T parse rt_ok ep cfg_max unmarshal rest c =
  entry_decode inflate T parse rt_ok ep cfg_max' unmarshal rest d.
Proof. exact entry_decode_twin. Qed.
Print Assumptions C12_transparent_entry_points.

(* negative and huge limits, exactly:
   (1) the int64 arithmetic: readLimit is limit+1 without wrap-around below MaxInt64, and MaxInt64 itself at MaxInt64;
   (2) a negative limit: every message that does not decode raw is rejected with the limit error naming that limit;
       the stream is never read, nothing is inflated (fail closed, the bound is not lost);
   (3) limit = MaxInt64: the stream is read through a LimitedReader of MaxInt64 bytes; the limit error cannot occur and
       the result is the decoder's on what the stream yielded (C12_transparent covers this limit as well) *)
Theorem C12_negative_and_huge_limits :
  (forall m, in_int64 m ->
     ((m < max_int64)%Z /\ read_limit m = (m + 1)%Z) \/ (m = max_int64 /\ read_limit m = m)) /\
  (forall (inflate : string -> Z -> string * bool) (A : Type) (decoder : string -> res A) (data : string) (max_size : Z) (e0 : err),
     in_int64 max_size -> (max_size < 0)%Z -> decoder data = Err e0 ->
     md_run inflate A decoder data max_size =
     {| md_result := Err (e_limit max_size); md_requested := None; md_held := 0%Z; md_decoded := [data] |}) /\
  (forall (inflate : string -> Z -> string * bool) (A : Type) (decoder : string -> res A) (data : string) (e0 : err),
     decoder data = Err e0 ->
     let r := inflate data max_int64 in
     md_run inflate A decoder data max_int64 =
     if snd r then {| md_result := Err e_inflate; md_requested := Some max_int64;
                      md_held := zlen (take_z (fst r) max_int64); md_decoded := [data] |}
     else {| md_result := decoder (take_z (fst r) max_int64); md_requested := Some max_int64;
             md_held := zlen (take_z (fst r) max_int64); md_decoded := [data; take_z (fst r) max_int64] |}).
Proof. exact (conj read_limit_spec (conj md_negative_limit md_max_int64)). Qed.
Print Assumptions C12_negative_and_huge_limits.

(* the code before repair 2532667 (LimitReader(..., maxSize+1)): identical except at MaxInt64, where maxSize+1 wrapped
   to MinInt64, nothing was read and the decoder was run on the empty slice *)
Theorem C12_negative_and_huge_limits_original_agrees :
  forall (inflate : string -> Z -> string * bool) (A : Type) (decoder : string -> res A) (data : string) (max_size : Z),
  in_int64 max_size -> max_size <> max_int64 ->
  md_run_original inflate A decoder data max_size = md_run inflate A decoder data max_size.
Proof. exact md_original_agrees. Qed.
Print Assumptions C12_negative_and_huge_limits_original_agrees.

Theorem C12_negative_and_huge_limits_original_max_int64 :
  wrap64 (max_int64 + 1) = min_int64 /\
  forall (inflate : string -> Z -> string * bool) (A : Type) (decoder : string -> res A) (data : string) (e0 : err),
  decoder data = Err e0 ->
  md_run_original inflate A decoder data max_int64 =
  {| md_result := decoder ""; md_requested := None; md_held := 0%Z; md_decoded := [data; ""] |}.
Proof. exact (conj wrap64_max_plus_1 md_original_max_int64). Qed.
Print Assumptions C12_negative_and_huge_limits_original_max_int64.

Theorem C12_transparent_refuted_at_maxint64_original :
  exists (inflate : string -> Z -> string * bool) (decoder : string -> res string) data d e0,
    decoder data = Err e0 /\ inflate data (read_limit (eff_limit max_int64)) = (d, false) /\
    (zlen d <= eff_limit max_int64)%Z /\
    maybe_deflate inflate _ decoder data max_int64 = decoder d /\
    maybe_deflate_original inflate _ decoder data max_int64 <> decoder d.
Proof. exact transparent_refuted_original. Qed.
Print Assumptions C12_transparent_refuted_at_maxint64_original.

(* ---- tie to the source text of this run (gen/funcs.go, unit GenDeflate): maybeDeflate and parseResponse as TRANSLATED from
   decode_response.go (int64 arithmetic with wrap-around, the closure parameter as a transformer of the state it captures,
   every nil dereference an explicit panic outcome) compute exactly the hand-written model the theorems above are about, for
   every input and every behaviour of the oracles — error values included ---- *)
From V Require Import Xml GenPrelude GenPreludeDeflate GenDeflate P_GenDeflate.

(* for the closure that stands for [decoder] (its state: the value of the last accepting call) *)
Theorem C12_source_maybeDeflate_is_the_model :
  forall (inflate : string -> Z -> string * bool) (A : Type) (decoder : string -> res A) (data : string) (max_size : Z) (w0 : option A),
  G_maybeDeflate inflate (option A) data max_size (closure_of decoder) w0
  = PVal (closure_out Some (maybe_deflate inflate A decoder data max_size) None).
Proof. exact G_maybeDeflate_is_model. Qed.
Print Assumptions C12_source_maybeDeflate_is_the_model.

(* for EVERY closure [d] over any captured state W that implements [decoder] as far as P observes the state *)
Theorem C12_source_maybeDeflate_is_the_model_for_every_closure :
  forall (inflate : string -> Z -> string * bool) (W A : Type) (d : string -> W -> pm (res unit * W)) (decoder : string -> res A)
         (P : A -> W -> Prop),
  (forall x w, exists o, d x w = PVal o /\ closure_spec P (decoder x) o) ->
  forall data max_size w, exists o,
    G_maybeDeflate inflate W data max_size d w = PVal o /\ closure_spec P (maybe_deflate inflate A decoder data max_size) o.
Proof. exact G_maybeDeflate_spec. Qed.
Print Assumptions C12_source_maybeDeflate_is_the_model_for_every_closure.

(* parseResponse incl. the function literal it hands to maybeDeflate (doc, rawXML are the captured state); the result is
   (doc, doc.Root(), nil) with the document represented by its root *)
Theorem C12_source_parseResponse_is_the_model :
  forall (inflate : string -> Z -> string * bool) (read_from_bytes : string -> option node * bool) (rt_ok : string -> bool)
         (data : string) (max_size : Z),
  G_parseResponse inflate read_from_bytes rt_ok data max_size
  = PVal (parse_result (parse_response inflate node (parse_of read_from_bytes) rt_ok data max_size)).
Proof. exact G_parseResponse_is_model. Qed.
Print Assumptions C12_source_parseResponse_is_the_model.
