(* Signer.v -- the SIGNER's computation of DigestValue and SignatureValue: goxmldsig v1.5.0 sign.go
   ConstructSignature(el, true) as far as the two cryptographic texts go.  Build.v builds the Signature element from an
   ORACLE pair [crypto : res (string * string)]; here the pair is a FUNCTION of the signing context and the element.

   Modelled, statement by statement (sign.go):
     constructSignedInfo   digest, err := ctx.digest(el)
                             = ctx.Canonicalizer.Canonicalize(el); ctx.Hash.New().Write(canonical); Sum
                           (for the exclusive canonicalisers Canonicalize REWRITES el in place -- Build.canon_apply -- and
                            returns the canonical serialisation of the rewritten element; [el'] below is the element as
                            the canonicaliser left it, and the question put to the canonicaliser is about el': for the
                            inclusive canonicalisers el' = el; for the exclusive ones TransformExcC14n finds nothing left
                            to do on an element it has already transformed -- the correspondence run compares the byte
                            string asked about with the byte string the library hashed)
                           the SignedInfo element (CanonicalizationMethod, SignatureMethod, Reference with URI "#"+ID,
                           Transforms, DigestMethod, DigestValue = base64(digest))                  [signed_info_element]
     ConstructSignature    sig := <ds:Signature xmlns:ds=...>; sig.AddChild(signedInfo)             [signature_shell]
                           rootNSCtx := NSBuildParentContext(el)     -- el has no parent in the three builders (the element
                                                                        is put into a document only after signing): the
                                                                        default context
                           elNSCtx   := rootNSCtx.SubContext(el)     -- el AS THE CANONICALISER LEFT IT (el')
                           sigNSCtx  := elNSCtx.SubContext(sig)      -- ONCE (the verifier pushes xmlns:ds twice)
                           detatched := NSDetatch(sigNSCtx, signedInfo)   -- Dsig.detach_sorted: copy, in-scope declarations,
                                                                             sort.Sort(SortedAttrs)
                           digest    := ctx.digest(detatched)        -- the SAME canonicaliser object as for el, i.e. with
                                                                        the configured prefix list
                           rawSignature := ctx.signDigest(digest)    -- rsa.SignPKCS1v15 with the key store's key, or
                                                                        ctx.signer.Sign
                           SignatureValue = base64(rawSignature)
   Oracles (Section variables): [canon] (instantiated with Canon.canon_model), [digest] (DigestMethod identifier -> bytes ->
   digest; the hash function ctx.Hash), [sign] (key, SignatureMethod identifier, bytes -> raw signature: hashing the
   canonical SignedInfo with ctx.Hash and signing the digest are one step here, as they are one step -- sig_ok -- for the
   verifier in Dsig.v).  No proofs here (P_Signer.v). *)
From V Require Import Base Time Escape Xml Ns CorrDiff Build Dsig Canon.
Local Open Scope string_scope.   (* ++ below is string append; list append is written [app] *)

(* ================================================================ which canonicaliser object a configuration stands for *)
(* the goxmldsig canonicaliser a CanonOther identifier stands for (the Make* constructor whose Algorithm() it is) *)
Definition id_alg (id : string) : canon_alg :=
  if id =?s alg_exc then CExc "" false else if id =?s alg_exc_wc then CExc "" true
  else if id =?s alg_c11 then C11 false else if id =?s alg_c11_wc then C11 true
  else if id =?s alg_rec then CRec false else if id =?s alg_rec_wc then CRec true else CNull.

(* ctx.Canonicalizer as a question to the canonicaliser oracle: the exclusive canonicalisers carry their prefix list *)
Definition canon_alg_of (c : Build.canon) : canon_alg :=
  match c with
  | CanonExc incl comments => CExc (String.concat " " incl) comments
  | CanonOther id => id_alg id
  end.

(* ================================================================ the elements *)
(* constructSignedInfo: the element it returns ([dv] = base64 of the digest) *)
Definition signed_info_element (sig_method canon_id : string) (h : hash_alg) (ref_id dv : string) : node :=
  ds_elem "SignedInfo" []
    [ ds_elem "CanonicalizationMethod" [("Algorithm", canon_id)] [];
      ds_elem "SignatureMethod" [("Algorithm", sig_method)] [];
      ds_elem "Reference" [("URI", if ref_id =?s "" then EmptyString else "#" ++ ref_id)]
        [ ds_elem "Transforms" []
            [ ds_elem "Transform" [("Algorithm", enveloped_signature_id)] [];
              ds_elem "Transform" [("Algorithm", canon_id)] [] ];
          ds_elem "DigestMethod" [("Algorithm", digest_id h)] [];
          ds_elem "DigestValue" [] (set_text dv []) ] ].

(* the Signature element at the moment SignedInfo is detached: its declaration and SignedInfo, nothing else yet *)
Definition signature_shell (si : node) : node :=
  Elem dsig_prefix "Signature" (create_attrs [("xmlns:" ++ dsig_prefix, dsig_namespace)]) [si].

(* NSBuildParentContext(el) [parentless: default], .SubContext(el), .SubContext(sig), NSDetatch(_, signedInfo) *)
Definition signer_detached (el' sg si : node) : res node :=
  do el_ctx <- sub_context default_ctx (attrs_of el');
  do sig_ctx <- sub_context el_ctx (attrs_of sg);
  detach_sorted sig_ctx si.

Section Signer.
  Variable canon : canon_alg -> node -> option string.
  Variable digest : string -> string -> option string.
  Variable sign : string -> string -> string -> string.

  (* the bytes hashed into DigestValue: the canonical form of the WHOLE element (the signature is inserted afterwards) *)
  Definition signer_digest_input (cx : sign_ctx) (el' : node) : option string :=
    canon (canon_alg_of (cx_canon cx)) el'.

  (* ctx.digest *)
  Definition ctx_digest (cx : sign_ctx) (n : node) : res string :=
    match canon (canon_alg_of (cx_canon cx)) n with
    | None => Err (EOther "canonicalize")
    | Some bytes =>
        match digest (digest_id (cx_hash cx)) bytes with
        | Some d => Ok d
        | None => Err (EOther "digest")
        end
    end.

  (* ctx.GetSignatureMethodIdentifier() (construct_signature has already failed / panicked when there is none) *)
  Definition ctx_method (cx : sign_ctx) : res string :=
    match ctx_pk (cx_keys cx) with
    | None => Err (EOther "nil signer")
    | Some pk =>
        match id_by_method pk (cx_hash cx) signature_method_ids with
        | Some sm => Ok sm
        | None => Err (EOther "unsupported signature method")
        end
    end.

  (* the SignedInfo element the signer builds for DigestValue [dv] *)
  Definition signer_signed_info (cx : sign_ctx) (sm : string) (el' : node) (dv : string) : node :=
    signed_info_element sm (canon_id (cx_canon cx)) (cx_hash cx) (select_attr_value "ID" (attrs_of el')) dv.

  (* the bytes that are signed: the configured canonicaliser on the detached SignedInfo *)
  Definition signer_si_bytes (cx : sign_ctx) (sm : string) (el' : node) (dv : string) : res string :=
    let si := signer_signed_info cx sm el' dv in
    do det <- signer_detached el' (signature_shell si) si;
    match canon (canon_alg_of (cx_canon cx)) det with
    | Some b => Ok b
    | None => Err (EOther "canonicalize")
    end.

  (* (DigestValue, SignatureValue) of ConstructSignature(el, true), or the first error on the way *)
  Definition signer_crypto (cx : sign_ctx) (el' : node) : res (string * string) :=
    do sm <- ctx_method cx;
    do d <- ctx_digest cx el';
    let dv := base64_encode d in
    do sib <- signer_si_bytes cx sm el' dv;
    match ctx_signing_key (cx_keys cx) with
    | None => Err (EOther "nil signer")
    | Some (Err e) => Err e                                  (* KeyStore.GetKeyPair() failed in signDigest *)
    | Some (Ok key) => Ok (dv, base64_encode (sign key sm sib))
    end.

  (* the pair for the element HANDED to ConstructSignature *)
  Definition crypto_for (cx : sign_ctx) (el : node) : res (string * string) :=
    match canon_apply (cx_canon cx) el with
    | Ok el' => signer_crypto cx el'
    | Err e => Err e                                          (* not consulted: construct_signature fails first *)
    end.

  (* Build.construct_signature / sign_element / message_doc fed with the signer's own computation *)
  Definition construct_signature_modelled (cx : sign_ctx) (el : node) : outcome (node * node) :=
    construct_signature cx el (crypto_for cx el).

  Definition sign_element_modelled (cfg : bcfg) (k : keycfg) (el : node) : outcome node :=
    match signing_context cfg k with
    | ORet (Ok cx) => sign_element cfg k el (crypto_for cx el)
    | _ => sign_element cfg k el (Err (EOther "no signing context"))     (* not consulted *)
    end.

  Definition message_element (cfg : bcfg) (m : message) (id : string) (now : instant) : node :=
    match m with
    | MAuthn => build_authn_request cfg id now
    | MLogoutRequest n s => build_logout_request cfg id now n s
    | MLogoutResponse st rq => build_logout_response cfg id now st rq
    end.

  Definition message_doc_modelled (cfg : bcfg) (k : keycfg) (m : message) (id : string) (now : instant) (include_sig : bool)
    : outcome node :=
    message_doc cfg k m id now include_sig
      (match signing_context cfg k with
       | ORet (Ok cx) => crypto_for cx (message_element cfg m id now)
       | _ => Err (EOther "no signing context")
       end).

  Definition message_pieces_modelled_val cfg k m id now include_sig : val :=
    outcome_val (fun s => VL (map VS (split_signed s))) (outcome_bytes (message_doc_modelled cfg k m id now include_sig)).
End Signer.

(* ================================================================ table-driven oracles for the correspondence run *)
(* SIGNATURE TABLE: (key identity, SignatureMethod identifier, signed bytes, raw signature); a miss answers "" *)
Fixpoint sign_table (t : list (string * string * string * string)) (key m b : string) : string :=
  match t with
  | [] => EmptyString
  | (k', m', b', s) :: r => if (k' =?s key) && (m' =?s m) && (b' =?s b) then s else sign_table r key m b
  end.

(* the questions the model's signer asks, each compared with what the real library did at the same step: the harness lists
   the DIGEST TABLE in the order the library hashed (first the canonical element, then the canonical detached SignedInfo), so
   a question the library never asked shows up as the first differing byte, not as a bare "miss" *)
Definition digest_entry (dt : list (string * string * option string)) (i : nat) : val :=
  match nth_error dt i with
  | Some (a, b, _) => VL [VS a; VS b]
  | None => VC "nothing-hashed" []
  end.
Definition first_sign_entry (st : list (string * string * string * string)) : val :=
  match st with
  | (k, m, _, _) :: _ => VL [VS k; VS m]
  | [] => VC "nothing-signed" []
  end.

Definition signer_queries_val (dt : list (string * string * option string)) (st : list (string * string * string * string))
           (cfg : bcfg) (k : keycfg) (m : message) (id : string) (now : instant) : val :=
  let none := VC "no-query" [] in
  match signing_context cfg k with
  | ORet (Ok cx) =>
      match canon_apply (cx_canon cx) (message_element cfg m id now), ctx_method cx with
      | Ok el', Ok sm =>
          let h := digest_id (cx_hash cx) in
          let q1 := match signer_digest_input canon_model cx el' with
                    | Some bytes => same_as (digest_entry dt 0) (VL [VS h; VS bytes])
                    | None => none
                    end in
          match ctx_digest canon_model (digest_table dt) cx el' with
          | Ok d =>
              match signer_si_bytes canon_model cx sm el' (base64_encode d) with
              | Ok sib =>
                  VL [ q1; same_as (digest_entry dt 1) (VL [VS h; VS sib]);
                       match ctx_signing_key (cx_keys cx) with
                       | Some (Ok key) => same_as (first_sign_entry st) (VL [VS key; VS sm])
                       | _ => none
                       end ]
              | Err _ => VL [q1; none; none]
              end
          | Err _ => VL [q1; none; none]
          end
      | _, _ => VL [none; none; none]
      end
  | _ => VL [none; none; none]
  end.

(* the observable of the "modelled" case set: the message bytes (cut like Build.message_pieces_val) with DigestValue and
   SignatureValue COMPUTED by the model from the canonicaliser model and the two tables, and the two question checks *)
Definition signer_obs (dt : list (string * string * option string)) (st : list (string * string * string * string))
           (cfg : bcfg) (k : keycfg) (m : message) (id : string) (now : instant) : val :=
  VL [ message_pieces_modelled_val canon_model (digest_table dt) (sign_table st) cfg k m id now true;
       signer_queries_val dt st cfg k m id now ].
