(* SchemaDefs.v — the vocabulary in which gen/ renders encoding/xml struct-tag schemas. *)
From V Require Import Base.

Inductive ftype :=
| TStr | TInt | TBool | TTime | TBytes | TName
| TStruct (name : string)
| TPtr (t : ftype)
| TSlice (t : ftype).

Inductive fkind :=
| KXMLName (space local : string)                    (* XMLName xml.Name `xml:"space local"` *)
| KAttr (space local : string)                       (* `xml:"[space ]local,attr"` *)
| KElem (parents : list string) (space local : string)   (* `xml:"[space ]a>b>local"` *)
| KCharData
| KInnerXML
| KSkip.                                             (* `xml:"-"` *)

Record field := { f_go : string; f_kind : fkind; f_type : ftype }.
