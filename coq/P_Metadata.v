(* P_Metadata.v — lemmas for property C19 about Metadata.v (with Keys.v / P_Keys.v). *)
From V Require Import Base Time Escape SchemaDefs ConcDefs Generated Keys Metadata P_Keys.
Local Open Scope string_scope.
Local Open Scope list_scope.
Local Open Scope Z_scope.

(* ================================================================ time arithmetic *)
Lemma wrap64_small z : - two63 <= z < two63 -> wrap64 z = z.
Proof. intros H. unfold wrap64. rewrite Z.mod_small; unfold two63, two64 in *; lia. Qed.

Lemma wrap64_high z : two63 <= z < two64 -> wrap64 z = z - two64.
Proof.
  intros H. unfold wrap64.
  replace (z + two63) with ((z - two63) + 1 * two64) by (unfold two63, two64; lia).
  rewrite Z.mod_add by (unfold two64; lia). rewrite Z.mod_small; unfold two63, two64 in *; lia.
Qed.

Lemma sat_add_sec_exact ext d :
  - 4611686018427387904 <= ext <= 4611686018427387904 -> - 2305843009213693952 <= d <= 2305843009213693952 ->
  sat_add_sec ext d = ext + d.
Proof.
  intros He Hd. unfold sat_add_sec. rewrite wrap64_small by (unfold two63; lia).
  destruct (ext <? ext + d) eqn:A, (0 <? d) eqn:B; cbn [Bool.eqb]; try reflexivity;
    (apply Z.ltb_lt in A || apply Z.ltb_ge in A); (apply Z.ltb_lt in B || apply Z.ltb_ge in B); lia.
Qed.

(* adding a whole number of seconds *)
Lemma time_add_whole_seconds t k :
  instant_ok t -> 0 <= k <= 2305843009213693952 ->
  time_add t (k * second_ns) = {| i_sec := i_sec t + k; i_nsec := i_nsec t |}.
Proof.
  intros [Hn Hs] Hk. unfold time_add.
  rewrite Z.quot_mul by (unfold second_ns; lia). rewrite Z.rem_mul by (unfold second_ns; lia).
  rewrite Z.add_0_r.
  destruct (second_ns <=? i_nsec t) eqn:A; [apply Z.leb_le in A; lia|].
  destruct (i_nsec t <? 0) eqn:B; [apply Z.ltb_lt in B; lia|].
  cbn [fst snd]. rewrite sat_add_sec_exact by lia. f_equal. lia.
Qed.

(* adding a negative duration (within int64) gives an earlier instant *)
Lemma time_add_negative_is_before t d :
  instant_ok t -> - two63 <= d < 0 -> ibefore (time_add t d) t = true.
Proof.
  intros [Hn Hs] Hd. unfold time_add.
  pose proof (Z.quot_rem' d second_ns) as QR.
  pose proof (Z.rem_bound_pos_neg d second_ns ltac:(unfold second_ns; lia) ltac:(lia)) as RB.
  set (q := Z.quot d second_ns) in *. set (r := Z.rem d second_ns) in *.
  assert (Hq : - 9223372037 <= q <= 0) by (unfold second_ns, two63 in *; nia).
  unfold ibefore.
  destruct (second_ns <=? i_nsec t + r) eqn:A; [apply Z.leb_le in A; lia|].
  destruct (i_nsec t + r <? 0) eqn:B; cbn [fst snd i_sec i_nsec].
  - rewrite sat_add_sec_exact by lia. apply Bool.orb_true_iff. left. apply Z.ltb_lt. lia.
  - apply Z.ltb_ge in B. rewrite sat_add_sec_exact by lia.
    assert (C : q < 0 \/ q = 0) by lia. destruct C as [C|C].
    + apply Bool.orb_true_iff. left. apply Z.ltb_lt. lia.
    + apply Bool.orb_true_iff. right. apply Bool.andb_true_iff. split; [apply Z.eqb_eq; lia|].
      apply Z.ltb_lt. unfold second_ns in *. lia.
Qed.

Lemma seven_days_is_seconds : seven_days_ns = 604800 * second_ns.
Proof. reflexivity. Qed.

Lemma hours_are_seconds h : h * hour_ns = (3600 * h) * second_ns.
Proof. unfold hour_ns, second_ns. lia. Qed.

(* ================================================================ errors *)
(* when are errors returned, and which *)
Lemma metadata_error_cases c now :
  metadata c now =
  match get_signing_cert (mc_keys c) with
  | Err e => Err e                                     (* the signing key's store failed *)
  | Ok sc =>
      match get_encryption_cert (mc_keys c) with
      | Err e => Err e                                 (* the encryption key's store failed *)
      | Ok ec =>
          if (ec =?s "")%string then Err e_empty_enc      (* no encryption key, or its certificate is empty *)
          else Ok (descriptor c (time_add now seven_days_ns)
                     ((if (sc =?s "")%string then [] else [signing_descriptor sc])
                      ++ [encryption_descriptor advertised_methods_Metadata ec]) false)
      end
  end.
Proof.
  unfold metadata, get_encryption_cert_bytes.
  destruct (get_signing_cert (mc_keys c)) as [sc|e]; cbn [bind]; [|reflexivity].
  destruct (get_encryption_cert (mc_keys c)) as [ec|e]; cbn [bind]; [|reflexivity].
  destruct (ec =?s "")%string; reflexivity.
Qed.

Lemma metadata_with_slo_error_cases c now h :
  metadata_with_slo c now h =
  match get_signing_cert (mc_keys c) with
  | Err e => Err e
  | Ok sc =>
      if (sc =?s "")%string then Err e_empty_sign          (* no key at all, or an empty signing certificate *)
      else match get_encryption_cert (mc_keys c) with
           | Err e => Err e
           | Ok ec =>
               if (ec =?s "")%string then Err e_empty_enc
               else Ok (descriptor c (time_add now (wrap64 ((if h <=? 0 then 24 * 7 else h) * hour_ns)))
                          [signing_descriptor sc; encryption_descriptor advertised_methods_MetadataWithSLO ec] true)
           end
  end.
Proof.
  unfold metadata_with_slo, get_signing_cert_bytes, get_encryption_cert_bytes.
  destruct (get_signing_cert (mc_keys c)) as [sc|e]; cbn [bind]; [|reflexivity].
  destruct (sc =?s "")%string; cbn [bind]; [reflexivity|].
  destruct (get_encryption_cert (mc_keys c)) as [ec|e]; cbn [bind]; [|reflexivity].
  destruct (ec =?s "")%string; reflexivity.
Qed.

Lemma metadata_succeeds_iff c now :
  (exists ed, metadata c now = Ok ed) <->
  (exists sc, get_signing_cert (mc_keys c) = Ok sc) /\ (exists ec, get_encryption_cert (mc_keys c) = Ok ec /\ ec <> "").
Proof.
  rewrite metadata_error_cases.
  destruct (get_signing_cert (mc_keys c)) as [sc|e].
  - destruct (get_encryption_cert (mc_keys c)) as [ec|e'].
    + destruct (ec =?s "")%string eqn:E.
      * apply String.eqb_eq in E. split; [intros [ed H]; discriminate|].
        intros [_ (ec' & H & N)]. inversion H; subst. congruence.
      * apply String.eqb_neq in E. split; [|eauto]. intros _. split; eauto.
    + split; [intros [ed H]; discriminate | intros [_ (ec' & H & _)]; discriminate].
  - split; [intros [ed H]; discriminate | intros [[sc H] _]; discriminate].
Qed.

Lemma metadata_with_slo_succeeds_iff c now h :
  (exists ed, metadata_with_slo c now h = Ok ed) <->
  (exists sc, get_signing_cert (mc_keys c) = Ok sc /\ sc <> "") /\ (exists ec, get_encryption_cert (mc_keys c) = Ok ec /\ ec <> "").
Proof.
  rewrite metadata_with_slo_error_cases.
  destruct (get_signing_cert (mc_keys c)) as [sc|e].
  - destruct (sc =?s "")%string eqn:S.
    { apply String.eqb_eq in S. split; [intros [ed H]; discriminate|].
      intros [(sc' & H & N) _]. inversion H; subst. congruence. }
    apply String.eqb_neq in S.
    destruct (get_encryption_cert (mc_keys c)) as [ec|e'].
    + destruct (ec =?s "")%string eqn:E.
      * apply String.eqb_eq in E. split; [intros [ed H]; discriminate|].
        intros [_ (ec' & H & N)]. inversion H; subst. congruence.
      * apply String.eqb_neq in E. split; [|eauto]. intros _. split; eauto.
    + split; [intros [ed H]; discriminate | intros [_ (ec' & H & _)]; discriminate].
  - split; [intros [ed H]; discriminate | intros [(sc & H & _) _]; discriminate].
Qed.

(* ================================================================ mirrors the configuration *)
Definition mirrors (c : md_config) (slo : bool) (ed : entity_descriptor) : Prop :=
  ed_entity_id ed = mc_issuer c
  /\ ed_authn_requests_signed ed = mc_sign_requests c
  /\ ed_want_assertions_signed ed = negb (mc_skip_sig c)
  /\ ed_protocol ed = c_SAMLProtocolNamespace
  /\ ed_acs ed = [(c_BindingHttpPost, mc_acs_url c, 1)]
  /\ ed_slo ed = (if slo then [(c_BindingHttpPost, mc_slo_url c)] else []).

Lemma descriptor_mirrors c vu kds slo : mirrors c slo (descriptor c vu kds slo).
Proof. repeat split. Qed.

Lemma metadata_mirrors_config c now h ed :
  (metadata c now = Ok ed -> mirrors c false ed)
  /\ (metadata_with_slo c now h = Ok ed -> mirrors c true ed).
Proof.
  split; intros H.
  - apply metadata_ok_inv in H as (sc & ec & _ & _ & ->). apply descriptor_mirrors.
  - apply metadata_with_slo_ok_inv in H as (sc & ec & _ & _ & ->). apply descriptor_mirrors.
Qed.

(* ================================================================ published keys *)
(* for ALL key configurations: a published signing certificate is the certificate paired with the key that signs *)
Lemma published_signing_key_is_signing_key c now h ed x alg s certs :
  metadata c now = Ok ed \/ metadata_with_slo c now h = Ok ed ->
  In x (published use_signing ed) ->
  signing_key_and_certs alg (mc_keys c) = ORet (Ok (s, certs)) ->
  exists cert sl, x = base64_encode cert /\ hd_error certs = Some cert
    /\ get_signing_cert_bytes (mc_keys c) = Ok cert
    /\ chosen_signing_slot (mc_keys c) = Some sl /\ slot_pair (mc_keys c) sl = Ok (Some s, cert).
Proof.
  intros [H|H] HI HS.
  - apply published_metadata in H as (sc & ec & HC & _ & HP & _). rewrite HP in HI.
    destruct (sc =?s "")%string eqn:E; [destruct HI|]. destruct HI as [<-|[]].
    destruct (signing_key_agrees_with_reported _ _ _ _ _ HS HC) as (Hd & sl & Hsl & Hp).
    exists sc, sl. repeat split; auto. apply get_signing_cert_bytes_ok. split; [exact HC|]. apply String.eqb_neq. exact E.
  - apply published_metadata_with_slo in H as (sc & ec & HC & _ & HP & _). rewrite HP in HI.
    destruct HI as [<-|[]]. pose proof HC as HC'. apply get_signing_cert_bytes_ok in HC' as [HC' _].
    destruct (signing_key_agrees_with_reported _ _ _ _ _ HS HC') as (Hd & sl & Hsl & Hp).
    exists sc, sl. repeat split; auto.
Qed.

Section Decrypt.
  Variable parse_cert : string -> option (instant * instant).

  (* the published encryption certificate is the one the SP decrypts with, and decryption is possible *)
  Lemma published_encryption_key_is_decryption_key c now h ed x v :
    metadata c now = Ok ed \/ metadata_with_slo c now h = Ok ed ->
    In x (published use_encryption ed) ->
    exists cert, x = base64_encode cert /\ get_encryption_cert_bytes (mc_keys c) = Ok cert
      /\ (forall dc, get_decrypt_cert parse_cert v now (mc_keys c) = Ok dc ->
            hd_error (tc_certs dc) = Some cert
            /\ exists sl, chosen_enc_slot (mc_keys c) = Some sl /\ slot_pair (mc_keys c) sl = Ok (tc_pk dc, cert))
      /\ (cert_window_ok parse_cert v now cert -> enc_setter_rsa (mc_keys c) ->
            exists dc s sl, get_decrypt_cert parse_cert v now (mc_keys c) = Ok dc
              /\ decrypting_key dc (Some cert) = Ok s /\ decrypting_key dc None = Ok s
              /\ chosen_enc_slot (mc_keys c) = Some sl /\ slot_pair (mc_keys c) sl = Ok (Some s, cert)).
  Proof.
    intros H HI.
    assert (P : exists ec, get_encryption_cert_bytes (mc_keys c) = Ok ec /\ published use_encryption ed = [base64_encode ec]).
    { destruct H as [H|H].
      - apply published_metadata in H as (sc & ec & _ & HE & _ & HP). eauto.
      - apply published_metadata_with_slo in H as (sc & ec & _ & HE & _ & HP). eauto. }
    destruct P as (ec & HE & HP). rewrite HP in HI. destruct HI as [<-|[]].
    exists ec. split; [reflexivity|]. split; [exact HE|]. split.
    - intros dc HD. pose proof HE as HE'. apply get_encryption_cert_bytes_ok in HE' as [HE' _].
      eapply decrypt_key_agrees_with_published; eauto.
    - intros W R. eapply published_encryption_key_decrypts; eauto.
  Qed.
End Decrypt.

(* ================================================================ advertised methods *)
Lemma advertised_decryptable_check :
  forallb (fun m => existsb (String.eqb m) (switch_cases_all decrypt_bytes_cases))
          (advertised_methods_Metadata ++ advertised_methods_MetadataWithSLO) = true
  /\ last decrypt_bytes_cases ["x"] = []                       (* the last case list is the default branch (no labels) *)
  /\ negb (existsb (String.eqb "") (advertised_methods_Metadata ++ advertised_methods_MetadataWithSLO)) = true.
Proof. vm_compute. repeat split. Qed.

Lemma methods_decryptable c now h ed kd m :
  metadata c now = Ok ed \/ metadata_with_slo c now h = Ok ed ->
  In kd (ed_key_descriptors ed) -> In m (kd_methods kd) ->
  In m (switch_cases_all decrypt_bytes_cases) /\ kd_use kd = use_encryption.
Proof.
  intros H HK HM.
  destruct advertised_decryptable_check as (A & _ & _). rewrite forallb_forall in A.
  assert (G : forall x, In x (advertised_methods_Metadata ++ advertised_methods_MetadataWithSLO) -> In x (switch_cases_all decrypt_bytes_cases)).
  { intros x Hx. apply A in Hx. apply existsb_exists in Hx as (y & Hy & E). apply String.eqb_eq in E. subst. exact Hy. }
  destruct H as [H|H].
  - apply metadata_ok_inv in H as (sc & ec & _ & _ & ->). cbn [descriptor ed_key_descriptors] in HK.
    apply in_app_or in HK as [HK|[<-|[]]].
    + destruct (sc =?s "")%string; [destruct HK|]. destruct HK as [<-|[]]. destruct HM.
    + cbn [encryption_descriptor kd_methods kd_use] in *. split; [|reflexivity]. apply G. apply in_or_app. auto.
  - apply metadata_with_slo_ok_inv in H as (sc & ec & _ & _ & ->). cbn [descriptor ed_key_descriptors] in HK.
    destruct HK as [<-|[<-|[]]].
    + destruct HM.
    + cbn [encryption_descriptor kd_methods kd_use] in *. split; [|reflexivity]. apply G. apply in_or_app. auto.
Qed.

(* ================================================================ validity *)
Lemma valid_until_default c now ed :
  metadata c now = Ok ed -> instant_ok now ->
  ed_valid_until ed = {| i_sec := i_sec now + 7 * 24 * 3600; i_nsec := i_nsec now |}.
Proof.
  intros H W. apply metadata_ok_inv in H as (sc & ec & _ & _ & ->). cbn [descriptor ed_valid_until].
  rewrite seven_days_is_seconds, time_add_whole_seconds by (auto; lia). reflexivity.
Qed.

Lemma valid_until_slo c now h ed :
  metadata_with_slo c now h = Ok ed -> instant_ok now ->
  (0 < h <= 2562047 -> ed_valid_until ed = {| i_sec := i_sec now + 3600 * h; i_nsec := i_nsec now |})
  /\ (h <= 0 -> ed_valid_until ed = {| i_sec := i_sec now + 7 * 24 * 3600; i_nsec := i_nsec now |})
  /\ (2562047 < h <= 5124095 ->
        ed_valid_until ed = time_add now (h * hour_ns - two64) /\ ibefore (ed_valid_until ed) now = true).
Proof.
  intros H W. apply metadata_with_slo_ok_inv in H as (sc & ec & _ & _ & ->). cbn [descriptor ed_valid_until].
  split; [|split]; intros Hh.
  - destruct (h <=? 0) eqn:L; [apply Z.leb_le in L; lia|].
    rewrite wrap64_small by (unfold two63, hour_ns; lia).
    rewrite hours_are_seconds, time_add_whole_seconds by (auto; lia). reflexivity.
  - destruct (h <=? 0) eqn:L; [|apply Z.leb_gt in L; lia].
    rewrite wrap64_small by (unfold two63, hour_ns; lia).
    rewrite hours_are_seconds, time_add_whole_seconds by (auto; lia). reflexivity.
  - destruct (h <=? 0) eqn:L; [apply Z.leb_le in L; lia|].
    rewrite wrap64_high by (unfold two63, two64, hour_ns; lia). split; [reflexivity|].
    apply time_add_negative_is_before; [exact W|]. unfold two63, two64, hour_ns. lia.
Qed.

(* K5 (CURRENT code, known finding): 2562048 hours wrap around: the metadata is born expired *)
Lemma valid_until_slo_overflow :
  exists c now ed, metadata_with_slo c now 2562048 = Ok ed /\ instant_ok now
    /\ i_sec now = 1715941740 /\ ed_valid_until ed = {| i_sec := -7507429534; i_nsec := 290448384 |}
    /\ ibefore (ed_valid_until ed) now = true.
Proof.
  exists {| mc_keys := {| kc_enc_field := None; kc_sign_field := None; kc_enc_override := Some (ks_rsa 1 "certA"); kc_sign_override := None |};
            mc_issuer := "sp"; mc_acs_url := "acs"; mc_slo_url := "slo"; mc_sign_requests := true; mc_skip_sig := false |},
         {| i_sec := 1715941740; i_nsec := 0 |}.
  eexists. split; [reflexivity|]. split; [unfold instant_ok, second_ns, unix_to_internal; cbn; lia|].
  split; [reflexivity|]. split; vm_compute; reflexivity.
Qed.

(* ================================================================ witnesses on the ORIGINAL code *)
Definition setter_only_cfg : md_config :=
  {| mc_keys := {| kc_enc_field := None; kc_sign_field := None; kc_enc_override := Some (ks_rsa 1 "certA"); kc_sign_override := None |};
     mc_issuer := "sp"; mc_acs_url := "acs"; mc_slo_url := "slo"; mc_sign_requests := true; mc_skip_sig := false |}.

(* F5 (repaired by 813a23e): Metadata() omitted the signing descriptor when keys come only from the setters,
   although the SP signs with that key *)
Lemma metadata_omits_signing_for_setter_keys_orig :
  exists c now ed ed', metadata_orig c now = Ok ed /\ published use_signing ed = []
    /\ signing_key_and_certs "" (mc_keys c) = ORet (Ok (rsa_signer 1, ["certA"]))
    /\ metadata c now = Ok ed' /\ published use_signing ed' = [base64_encode "certA"].
Proof.
  exists setter_only_cfg, {| i_sec := 1715941740; i_nsec := 0 |}. eexists. eexists.
  split; [reflexivity|]. split; [reflexivity|]. split; [reflexivity|]. split; reflexivity.
Qed.

(* F6 (repaired by 1778e24): MetadataWithSLO(24) was valid for 24 nanoseconds *)
Lemma slo_24_hours_is_24_ns_orig :
  exists c now ed ed', metadata_with_slo_orig c now 24 = Ok ed
    /\ ed_valid_until ed = {| i_sec := i_sec now; i_nsec := i_nsec now + 24 |}
    /\ metadata_with_slo c now 24 = Ok ed'
    /\ ed_valid_until ed' = {| i_sec := i_sec now + 24 * 3600; i_nsec := i_nsec now |}.
Proof.
  exists setter_only_cfg, {| i_sec := 1715941740; i_nsec := 5 |}. eexists. eexists.
  split; [reflexivity|]. split; [vm_compute; reflexivity|]. split; [reflexivity|]. vm_compute. reflexivity.
Qed.

(* F3 / F4 at the level of what is published (ORIGINAL code) *)
Lemma published_encryption_key_unusable_orig :
  exists c now ed, metadata_orig c now = Ok ed /\ published use_encryption ed = [base64_encode "certA"]
    /\ forall pc v, get_decrypt_cert_orig pc v now (mc_keys c) = Err e_no_decrypt_certs.
Proof.
  exists setter_only_cfg, {| i_sec := 1715941740; i_nsec := 0 |}. eexists.
  split; [reflexivity|]. split; [reflexivity|]. reflexivity.
Qed.

Lemma published_signing_key_not_signing_key_orig :
  exists c now ed, metadata_orig c now = Ok ed /\ published use_signing ed = [base64_encode "certA"]
    /\ signing_key_and_certs_orig "" (mc_keys c) = ORet (Ok (rsa_signer 2, ["certB"])).
Proof.
  exists {| mc_keys := {| kc_enc_field := None; kc_sign_field := Some (StOther (Ok (1%N, "certA")));
                          kc_enc_override := Some (ks_rsa 2 "certB"); kc_sign_override := None |};
            mc_issuer := "sp"; mc_acs_url := "acs"; mc_slo_url := "slo"; mc_sign_requests := true; mc_skip_sig := false |},
         {| i_sec := 1715941740; i_nsec := 0 |}. eexists.
  split; [reflexivity|]. split; reflexivity.
Qed.

(* ================================================================ non-vacuity *)
Example metadata_nonvacuous :
  let c := {| mc_keys := {| kc_enc_field := Some (StTLS (Some (rsa_signer 1)) ["cert1"; "chain"]);
                            kc_sign_field := None; kc_enc_override := None;
                            kc_sign_override := Some (ks_rsa 2 "cert2") |};
              mc_issuer := "https://sp.example.com/<&>"; mc_acs_url := "https://sp/acs"; mc_slo_url := "https://sp/slo";
              mc_sign_requests := true; mc_skip_sig := true |} in
  let now := {| i_sec := 1715941740; i_nsec := 123 |} in
  option_map (fun ed => (published use_signing ed, published use_encryption ed, ed_want_assertions_signed ed,
                         i_sec (ed_valid_until ed) - i_sec now))
             (match metadata_with_slo c now 24 with Ok ed => Some ed | Err _ => None end)
  = Some ([base64_encode "cert2"], [base64_encode "cert1"], false, 86400)
  /\ signing_key_and_certs "" (mc_keys c) = ORet (Ok (rsa_signer 2, ["cert2"]))
  /\ get_decrypt_cert (fun _ => None) false now (mc_keys c) = Ok {| tc_pk := Some (rsa_signer 1); tc_certs := ["cert1"; "chain"] |}
  /\ is_ok (metadata c now) = true.
Proof. vm_compute. repeat split. Qed.

(* ================================================================ combined statements cited by Prop_C19.v *)
Lemma metadata_error_cases_both c now h :
  metadata c now =
    match get_signing_cert (mc_keys c) with
    | Err e => Err e
    | Ok sc =>
        match get_encryption_cert (mc_keys c) with
        | Err e => Err e
        | Ok ec =>
            if (ec =?s "")%string then Err e_empty_enc
            else Ok (descriptor c (time_add now seven_days_ns)
                       ((if (sc =?s "")%string then [] else [signing_descriptor sc])
                        ++ [encryption_descriptor advertised_methods_Metadata ec]) false)
        end
    end
  /\ metadata_with_slo c now h =
    match get_signing_cert (mc_keys c) with
    | Err e => Err e
    | Ok sc =>
        if (sc =?s "")%string then Err e_empty_sign
        else match get_encryption_cert (mc_keys c) with
             | Err e => Err e
             | Ok ec =>
                 if (ec =?s "")%string then Err e_empty_enc
                 else Ok (descriptor c (time_add now (wrap64 ((if (h <=? 0)%Z then 24 * 7 else h) * hour_ns)))
                            [signing_descriptor sc; encryption_descriptor advertised_methods_MetadataWithSLO ec] true)
             end
    end.
Proof. split; [apply metadata_error_cases | apply metadata_with_slo_error_cases]. Qed.

Lemma metadata_succeeds_iff_both c now h :
  ((exists ed, metadata c now = Ok ed) <->
     (exists sc, get_signing_cert (mc_keys c) = Ok sc) /\ (exists ec, get_encryption_cert (mc_keys c) = Ok ec /\ ec <> ""))
  /\ ((exists ed, metadata_with_slo c now h = Ok ed) <->
     (exists sc, get_signing_cert (mc_keys c) = Ok sc /\ sc <> "") /\ (exists ec, get_encryption_cert (mc_keys c) = Ok ec /\ ec <> "")).
Proof. split; [apply metadata_succeeds_iff | apply metadata_with_slo_succeeds_iff]. Qed.

Lemma metadata_mirrors_config_full c now h ed :
  (metadata c now = Ok ed ->
     ed_entity_id ed = mc_issuer c /\ ed_authn_requests_signed ed = mc_sign_requests c
     /\ ed_want_assertions_signed ed = negb (mc_skip_sig c) /\ ed_protocol ed = c_SAMLProtocolNamespace
     /\ ed_acs ed = [(c_BindingHttpPost, mc_acs_url c, 1%Z)] /\ ed_slo ed = [])
  /\ (metadata_with_slo c now h = Ok ed ->
     ed_entity_id ed = mc_issuer c /\ ed_authn_requests_signed ed = mc_sign_requests c
     /\ ed_want_assertions_signed ed = negb (mc_skip_sig c) /\ ed_protocol ed = c_SAMLProtocolNamespace
     /\ ed_acs ed = [(c_BindingHttpPost, mc_acs_url c, 1%Z)] /\ ed_slo ed = [(c_BindingHttpPost, mc_slo_url c)]).
Proof. exact (metadata_mirrors_config c now h ed). Qed.
