(* Prop_C09.v — property C09: every decoding entry point and the decryption routines return normally with exactly one
   of result / error; they never panic.  ONLY theorem statements closed by [exact lemma], each followed by
   Print Assumptions.  Outcomes: ORet (Ok v) | ORet (Err e) | OPanic w (Base.v); every slice / index / nil
   dereference / explicit panic of the modelled Go code yields OPanic when its guard fails (Decrypt.v). *)
From V Require Import Base Time Xml Ns Types Profile Generated Decode Response Decrypt P_Decrypt P_DecryptTree P_C09.

(* DecryptBytes: for all inputs, every non-nil certificate and ALL behaviours of the RSA / AES oracles the outcome is a
   normal return (all ciphertext lengths, paddings, algorithm identifiers, base64 or not) *)
Theorem C09_decrypt_bytes_total :
  forall (rsa_oaep : hash_id -> string -> option string) (rsa_pkcs1 : string -> option string)
         (gcm_open : string -> string -> string -> option string) (cbc_decrypt : string -> string -> string -> string)
         (sha1_hex : string -> string) (cert : sp_cert) (ea : enc_assertion),
    exists r : res string, decrypt_bytes rsa_oaep rsa_pkcs1 gcm_open cbc_decrypt sha1_hex (Some cert) ea = ORet r.
Proof. exact decrypt_bytes_total. Qed.
Print Assumptions C09_decrypt_bytes_total.

Theorem C09_decrypt_symmetric_key_total :
  forall (rsa_oaep : hash_id -> string -> option string) (rsa_pkcs1 : string -> option string)
         (sha1_hex : string -> string) (cert : sp_cert) (ek : enc_key),
    exists r : res string, decrypt_symmetric_key rsa_oaep rsa_pkcs1 sha1_hex (Some cert) ek = ORet r.
Proof. exact decrypt_symmetric_key_total. Qed.
Print Assumptions C09_decrypt_symmetric_key_total.

(* exactly one of (plaintext, error), and no panic *)
Theorem C09_exactly_one_decrypt_bytes :
  forall rsa_oaep rsa_pkcs1 gcm_open cbc_decrypt sha1_hex (cert : sp_cert) (ea : enc_assertion),
    let o := decrypt_bytes rsa_oaep rsa_pkcs1 gcm_open cbc_decrypt sha1_hex (Some cert) ea in
    ((exists v, o = ORet (Ok v)) \/ (exists e, o = ORet (Err e))) /\
    ~ ((exists v, o = ORet (Ok v)) /\ (exists e, o = ORet (Err e))) /\
    (forall w, o <> OPanic w).
Proof. exact decrypt_bytes_exactly_one. Qed.
Print Assumptions C09_exactly_one_decrypt_bytes.

(* decryptAssertions (decode_response.go) started on an element that HAS a parent (both call sites pass the root element
   of an etree.Document, whose parent is the document's pseudo element): the three panic sites
   - encryptedElement.Parent().Tag with a nil Parent(),
   - panic("unable to remove encrypted assertion"),
   - el.AddChild(doc.Root()) with a nil root,
   and the panic sites of DecryptBytes are unreachable, for every tree, every key / parse / validator oracle; moreover the
   panic-aware model equals the panic-free model used by the other properties (Response.decrypt_assertions) with the
   decryption oracle instantiated by the modelled chain *)
Theorem C09_decrypt_assertions_no_panic :
  forall rsa_oaep rsa_pkcs1 gcm_open cbc_decrypt sha1_hex (get_cert : res sp_cert)
         (parse_doc : string -> res (option node)) (rt_ok : string -> bool) (parent_tag : string) (el : node),
    decrypt_assertions_o rsa_oaep rsa_pkcs1 gcm_open cbc_decrypt sha1_hex get_cert parse_doc rt_ok (Some parent_tag) el
    = ORet (decrypt_assertions (decrypt_chain rsa_oaep rsa_pkcs1 gcm_open cbc_decrypt sha1_hex get_cert parse_doc rt_ok) el).
Proof. exact decrypt_assertions_o_refines. Qed.
Print Assumptions C09_decrypt_assertions_no_panic.

(* the statement "DecryptBytes never panics" is FALSE of the code before commit 429ddf8 (model of
   git show a3bc48c:types/encrypted_assertion.go): five witnesses (empty CBC data, IV only, all-zero plaintext,
   pad byte larger than the data, GCM data shorter than the nonce) *)
Theorem C09_decrypt_bytes_unrepaired_panics_refuted :
  exists rsa_oaep rsa_pkcs1 gcm_open cbc_decrypt sha1_hex cert e1 e2 e3 e4 e5,
    let f := decrypt_bytes_unrepaired rsa_oaep rsa_pkcs1 gcm_open cbc_decrypt sha1_hex (Some cert) in
    (exists w, f e1 = OPanic w) /\ (exists w, f e2 = OPanic w) /\ (exists w, f e3 = OPanic w) /\
    (exists w, f e4 = OPanic w) /\ (exists w, f e5 = OPanic w).
Proof. exact decrypt_bytes_unrepaired_panics. Qed.
Print Assumptions C09_decrypt_bytes_unrepaired_panics_refuted.

(* Tree-level entry points (Response.v): they are total Gallina functions into [res], so "exactly one of result / error"
   holds BY CONSTRUCTION of the type — this theorem records that and carries no more weight than that; panics inside
   encoding/xml, etree, flate, goxmldsig and crypto/* are outside the model (searched by the harness sweeps) *)
Theorem C09_entry_points_return_result_xor_error :
  forall (dsig : node -> dsig_result) (decrypt : node -> res node) (cfg : config) (now : instant) (root : node),
    let xor_res := fun (A : Type) (r : res A) =>
      ((exists a, r = Ok a) \/ (exists e, r = Err e)) /\ ~ ((exists a, r = Ok a) /\ (exists e, r = Err e)) in
    xor_res _ (validate_response_tree dsig decrypt cfg now root) /\
    xor_res _ (retrieve_assertion_info_tree dsig decrypt cfg now root) /\
    xor_res _ (validate_logout_response_tree dsig cfg root) /\
    xor_res _ (validate_logout_request_tree dsig cfg root).
Proof. exact entry_points_xor. Qed.
Print Assumptions C09_entry_points_return_result_xor_error.

(* The validation stage of every entry point never dereferences nil: the bodies of Validate, VerifyAssertionConditions and
   the logout validators, translated from /repo's source on this run with an explicit panic outcome for every pointer
   dereference (GenFuncs.v over GenPrelude.pm), return [PVal _] for every decoded struct, every configuration, every
   clock.  (Here the statement is NOT by construction of the type: [pm] has a panic constructor.) *)
From V Require Import GenPrelude GenFuncs P_GenFuncs.
Theorem C09_validation_stage_never_panics : forall cfg now,
  (forall r, exists v, G_Validate cfg now r = PVal v) /\
  (forall a, exists v, G_VerifyAssertionConditions cfg now a = PVal v) /\
  (forall r, exists v, G_ValidateDecodedLogoutResponse cfg now r = PVal v) /\
  (forall r, exists v, G_ValidateDecodedLogoutRequest cfg now r = PVal v) /\
  (forall enc r, exists v, G_RetrieveAssertionInfo cfg now enc (res_some r) = PVal v) /\
  (forall m k, (exists v, G_Values_Get m now k = PVal v) /\ (exists v, G_Values_GetSize m now k = PVal v) /\
               (exists v, G_Values_GetAll m now k = PVal v)).
Proof. exact validation_stage_never_panics. Qed.
Print Assumptions C09_validation_stage_never_panics.

(* The decryption glue of package types as TRANSLATED from /repo's source text on this run (GenDecrypt.v: every slice
   expression, index, %, nil dereference, CryptBlocks / NewCBCDecrypter precondition is an explicit panic branch) has, for
   every input and every behaviour of the crypto primitives, the same outcome (value bytes / error / panic) as the
   hand-written model the theorems above are about; hence the SOURCE never panics on a non-nil certificate. *)
From V Require Import GenPreludeD GenDecrypt P_GenDecrypt.
Theorem C09_source_DecryptBytes_is_the_model :
  forall rsa_oaep rsa_pkcs1 gcm_open cbc_decrypt sha1_hex (ea : enc_assertion) (cert : option sp_cert),
    erase_pm (G_EncryptedAssertion_DecryptBytes rsa_oaep rsa_pkcs1 gcm_open cbc_decrypt ea cert)
    = erase_out (decrypt_bytes rsa_oaep rsa_pkcs1 gcm_open cbc_decrypt sha1_hex cert ea).
Proof. exact G_DecryptBytes_is_model. Qed.
Print Assumptions C09_source_DecryptBytes_is_the_model.

Theorem C09_source_DecryptSymmetricKey_is_the_model :
  forall rsa_oaep rsa_pkcs1 sha1_hex (ek : enc_key) (cert : option sp_cert),
    erase_pm (G_EncryptedKey_DecryptSymmetricKey rsa_oaep rsa_pkcs1 ek cert)
    = erase_out (decrypt_symmetric_key rsa_oaep rsa_pkcs1 sha1_hex cert ek).
Proof. exact G_DecryptSymmetricKey_is_model. Qed.
Print Assumptions C09_source_DecryptSymmetricKey_is_the_model.

Theorem C09_source_decryption_never_panics :
  forall rsa_oaep rsa_pkcs1 gcm_open cbc_decrypt (cert : sp_cert),
    (forall ea, exists r, G_EncryptedAssertion_DecryptBytes rsa_oaep rsa_pkcs1 gcm_open cbc_decrypt ea (Some cert) = PVal r) /\
    (forall ek, exists r, G_EncryptedKey_DecryptSymmetricKey rsa_oaep rsa_pkcs1 ek (Some cert) = PVal r).
Proof.
  exact (fun o p g c cert => conj (fun ea => G_DecryptBytes_never_panics o p g c (fun _ => EmptyString) ea cert)
                                  (fun ek => G_DecryptSymmetricKey_never_panics o p (fun _ => EmptyString) ek cert)).
Qed.
Print Assumptions C09_source_decryption_never_panics.

(* The decompression / parsing front end of every inbound entry point as TRANSLATED from /repo's source on this run
   (GenDeflate.v: parseResponse, the two unverified decoders, maybeDeflate; nil dereferences of doc / response and operations
   outside the covered ones are explicit panic outcomes) returns [PVal _] for every input and every behaviour of the DEFLATE /
   etree / validator / xml.Unmarshal oracles; maybeDeflate itself for every closure that does not panic. *)
From V Require Import Deflate GenPreludeDeflate GenDeflate P_GenDeflate.
Theorem C09_source_decompression_front_end_never_panics :
  forall (inflate : string -> Z -> string * bool) (read_from_bytes : string -> option node * bool) (rt_ok : string -> bool)
         (um_base : XmlTok.charset_reader -> string -> base_response * option err)
         (um_logout : XmlTok.charset_reader -> string -> logout_response * option err),
  (forall data max_size, exists v, G_parseResponse inflate read_from_bytes rt_ok data max_size = PVal v) /\
  (forall enc, exists v, G_DecodeUnverifiedBaseResponse inflate um_base enc = PVal v) /\
  (forall enc, exists v, G_DecodeUnverifiedLogoutResponse inflate um_logout enc = PVal v) /\
  (forall (W : Type) data max_size (d : string -> W -> pm (res unit * W)) w,
     (forall x w', exists v, d x w' = PVal v) -> exists v, G_maybeDeflate inflate W data max_size d w = PVal v).
Proof. exact front_end_never_panics. Qed.
Print Assumptions C09_source_decompression_front_end_never_panics.

(* Source tie: decryptAssertions itself, re-translated from /repo's decode_response.go on every run (GenDecTree.v) with an
   explicit panic outcome at panic("unable to remove encrypted assertion"), at encryptedElement.Parent().Tag, at the use of
   the nil-able certificate and at AddChild(doc.Root()): for every tree, certificate outcome, crypto and parse behaviour
   the translated body never panics, and what it hands back is the hand-written model's result (error texts aside) *)
From V Require Import Time Types Profile Response GenPrelude GenPreludeD GenPreludeT GenPreludeE GenDecrypt GenDecTree P_GenTree P_GenDecTree.
Theorem C09_source_decryptAssertions_never_panics :
  forall parse rsa_oaep rsa_pkcs1 gcm_open cbc_decrypt (sha1_hex : string -> string) (get_cert : res sp_cert) cfg now el,
    G_decryptAssertions parse rsa_oaep rsa_pkcs1 gcm_open cbc_decrypt cfg now el (res_some get_cert) <> PPanic.
Proof. exact G_decryptAssertions_never_panics. Qed.
Print Assumptions C09_source_decryptAssertions_never_panics.

Theorem C09_source_decryptAssertions_is_the_model :
  forall parse rsa_oaep rsa_pkcs1 gcm_open cbc_decrypt sha1_hex (get_cert : res sp_cert) cfg now el,
    norm_pm (da_result (G_decryptAssertions parse rsa_oaep rsa_pkcs1 gcm_open cbc_decrypt cfg now el (res_some get_cert)))
    = PVal (norm_res (decrypt_assertions (chain parse rsa_oaep rsa_pkcs1 gcm_open cbc_decrypt sha1_hex get_cert) el)).
Proof. exact G_decryptAssertions_is_model. Qed.
Print Assumptions C09_source_decryptAssertions_is_the_model.

(* the composed source pipeline (P_Pipeline.v: ValidateEncodedResponse over the translated parseResponse, decryptAssertions,
   getDecryptCert, DecryptBytes, validation stage) never panics, for every input, configuration and oracle behaviour *)
From V Require Import Keys Deflate GenPreludeK GenPreludeDeflate GenFuncs GenTree GenKeys GenDeflate P_Pipeline.
Theorem C09_source_inbound_pipeline_never_panics :
  forall inflate read_from_bytes rt_ok dsig rsa_oaep rsa_pkcs1 gcm_open cbc_decrypt (sha1_hex : string -> string) parse_cert cfg kc venc now enc,
    exists r,
      G_ValidateEncodedResponse (src_parse inflate read_from_bytes rt_ok cfg) dsig
        (src_decrypt_all inflate read_from_bytes rt_ok rsa_oaep rsa_pkcs1 gcm_open cbc_decrypt parse_cert cfg kc venc now) cfg now enc = PVal r.
Proof. exact source_inbound_pipeline_never_panics. Qed.
Print Assumptions C09_source_inbound_pipeline_never_panics.

(* ... and so does the pipeline FROM THE WIRE BYTES (P_PipelineBytes.v): the front end's ReadFromBytes oracle instantiated with
   the tokenizer / tree-building model XmlTok.read_root ([reader_with junk]: read_root's answer; beside an error the arbitrary
   root [junk s] a failed read leaves in the document).  Every byte string, every behaviour of the remaining oracles. *)
From V Require Import XmlTok P_PipelineBytes.
Theorem C09_source_inbound_pipeline_from_bytes_never_panics :
  forall inflate rt_ok dsig rsa_oaep rsa_pkcs1 gcm_open cbc_decrypt (sha1_hex : string -> string) parse_cert cfg kc venc now junk enc,
    exists r,
      G_ValidateEncodedResponse (src_parse inflate (reader_with junk) rt_ok cfg) dsig
        (src_decrypt_all inflate (reader_with junk) rt_ok rsa_oaep rsa_pkcs1 gcm_open cbc_decrypt parse_cert cfg kc venc now) cfg now enc = PVal r.
Proof. exact source_inbound_pipeline_from_bytes_never_panics. Qed.
Print Assumptions C09_source_inbound_pipeline_from_bytes_never_panics.

(* The byte -> token -> tree step is in the model (XmlTok.v: xml.Decoder.RawToken as etree configures it, etree's readFrom).
   [raw_tokens] and [read_tree] are total functions into [res], so "Ok or Err for every byte string" holds by typing (the
   first two conjuncts say no more than that, except that the tokenizer's only error is [syntax_error]).  What is NOT by
   typing: the tokenizer uses no fuel -- it is a structural recursion with exactly one [step] per input byte -- and its
   output is bounded: at most 2|s|+1 tokens, read to the end (etree) or lazily (xml.Unmarshal). *)
From V Require Import XmlTok P_XmlTok.
Theorem C09_tokenizer_total : forall s : string,
  ((exists l, raw_tokens s = Ok l) \/ raw_tokens s = Err syntax_error) /\
  ((exists n, read_tree s = Ok n) \/ (exists e, read_tree s = Err e)) /\
  (forall l, raw_tokens s = Ok l -> (List.length l <= 2 * String.length s + 1)%nat) /\
  (forall cs, (List.length (token_prefix cs s) <= 2 * String.length s + 1)%nat).
Proof. exact tokenizer_total. Qed.
Print Assumptions C09_tokenizer_total.

(* one step per byte, never more than two tokens per step, at most one at the end of the input *)
Theorem C09_tokenizer_one_step_per_byte : forall cs s c r,
  XmlTok.run cs s (String c r) =
  match XmlTok.step cs s c with
  | Go s' => XmlTok.run cs s' r
  | Emit t s' => emit t (XmlTok.run cs s' r)
  | Fail => ([], true)
  end.
Proof. exact run_cons. Qed.
Print Assumptions C09_tokenizer_one_step_per_byte.
