(* Prop_C07.v — property C07: encryption confers no trust.  The theorems of C01 are universally quantified over the
   decryption oracle, which IS the statement "anyone can encrypt to the SP certificate": whatever plaintext tree the oracle
   yields, it is appended as a direct child and then treated exactly like a plaintext child.
   (Binding of decryption to the SP's own valid key — recipient certificate check, certificate window — is part of the
   refined decryption model: Decrypt.v / Keys.v, cited by the C07 harness run.) *)
From V Require Import Base Time Xml Ns Types Profile Decode Response P_Ns P_Response.

Theorem C07_encrypted_assertion_must_be_direct_child : forall dsig decrypt cfg now root r,
  cfg_skip_sig cfg = false ->
  validate_response_tree dsig decrypt cfg now root = Ok r ->
  exists base, (dsig root = DOk base \/ (dsig root = DMissing /\ base = root)) /\
    forall rel e ctx, subtree base rel = Some e -> is_elem e = true -> ctx_at default_ctx base rel = Some ctx ->
      is_encrypted_assertion ctx e = true ->
      exists i det plain, rel = [i] /\ detach ctx e = Ok det /\ decrypt det = Ok plain.
Proof. exact encrypted_assertion_must_be_direct_child. Qed.
Print Assumptions C07_encrypted_assertion_must_be_direct_child.

(* in an unsigned Response every decrypted plaintext is subject to the same requirement as plaintext children:
   after decryption EVERY Assertion element must be a direct child that verifies on its own *)
Theorem C07_decrypted_plaintext_needs_own_signature : forall dsig decrypt cfg now root r,
  cfg_skip_sig cfg = false -> dsig root = DMissing ->
  validate_response_tree dsig decrypt cfg now root = Ok r ->
  exists root', decrypt_assertions decrypt root = Ok root' /\
    Forall (Vouched dsig root') (r_assertions r) /\
    forall rel e ctx, subtree root' rel = Some e -> is_elem e = true -> ctx_at default_ctx root' rel = Some ctx ->
      is_assertion ctx e = true -> exists i det v, rel = [i] /\ detach ctx e = Ok det /\ dsig det = DOk v.
Proof.
  intros dsig decrypt cfg now root r Hs Hd H.
  destruct (response_sound dsig decrypt cfg now root r Hs H) as [_ [(s & s' & r0 & Hd' & _)|(r0 & root' & _ & _ & Hdec & Hsa & _ & HV & _)]].
  - rewrite Hd in Hd'. discriminate.
  - exists root'. split; [exact Hdec|]. split; [exact HV|]. eapply signed_assertions_all_direct_and_signed; eauto.
Qed.
Print Assumptions C07_decrypted_plaintext_needs_own_signature.

(* the tree that decryption leaves behind: the original children minus the encrypted ones, plus oracle outputs only *)
Theorem C07_decryption_only_replaces_direct_children : forall decrypt el el',
  decrypt_assertions decrypt el = Ok el' ->
  match el with
  | Elem sp tg attrs kids =>
      exists removed plains, el' = Elem sp tg attrs (remove_indices_from 0 removed kids ++ plains) /\
                             Forall (FromDecryption decrypt el) plains
  | _ => el' = el
  end.
Proof. exact decrypt_assertions_shape. Qed.
Print Assumptions C07_decryption_only_replaces_direct_children.

(* ---- binding of decryption to the SP's own currently-valid key (Keys.v = getDecryptCert, Decrypt.v = DecryptBytes) ---- *)
From V Require Import Keys P_Keys P_C07.
From V Require Decrypt P_Decrypt P_C11 Escape.

(* key material is handed to the decryptor only when the SP certificate is non-empty, parses and is inside its
   validity window at the SP clock: outside it no ciphertext, whoever made it, is decrypted *)
Theorem C07_decryption_key_only_inside_certificate_window : forall parse_cert now c dc,
  get_decrypt_cert parse_cert true now c = Ok dc ->
  exists cert rest nb na, tc_certs dc = cert :: rest /\ cert <> ""%string /\ parse_cert cert = Some (nb, na)
                          /\ ibefore now nb = false /\ iafter now na = false.
Proof. exact decrypt_cert_window. Qed.
Print Assumptions C07_decryption_key_only_inside_certificate_window.

Theorem C07_decryption_refused_outside_certificate_window : forall parse_cert now c,
  (forall dc cert rest nb na, get_decrypt_cert parse_cert false now c = Ok dc -> tc_certs dc = cert :: rest ->
      parse_cert cert = Some (nb, na) -> ibefore now nb = true \/ iafter now na = true) ->
  forall dc, get_decrypt_cert parse_cert true now c <> Ok dc.
Proof. exact decrypt_cert_outside_window_refused. Qed.
Print Assumptions C07_decryption_refused_outside_certificate_window.

(* a ciphertext that names another recipient certificate is refused before any private-key operation *)
Theorem C07_other_recipient_refused :
  forall rsa_oaep rsa_pkcs1 sha1_hex (cert : Decrypt.sp_cert) (ek : enc_key) (c0 : String.string) rest other,
    Decrypt.sc_chain cert = c0 :: rest -> ek_x509 ek <> ""%string ->
    Escape.base64_decode (ek_x509 ek) = Some other -> other <> c0 ->
    Decrypt.decrypt_symmetric_key rsa_oaep rsa_pkcs1 sha1_hex (Some cert) ek
    = ORet (Err (Decrypt.E "key decryption attempted with mismatched cert"%string)).
Proof. exact P_C11.key_transport_mismatch_refused. Qed.
Print Assumptions C07_other_recipient_refused.

(* source tie: decryptAssertions is called by the TRANSLATED ValidateEncodedResponse exactly where the model calls it (on the
   verified tree of a signed Response; on the root of an unsigned one, BEFORE the per-assertion signature checks) *)
From V Require Import Generated Keys GenPrelude GenPreludeD GenPreludeT GenFuncs GenTree P_GenTree.
Theorem C07_source_ValidateEncodedResponse_is_the_model : forall parse dsig decrypt cfg now enc,
  norm_pm (G_ValidateEncodedResponse parse dsig (decrypt_assertions decrypt) cfg now enc)
  = PVal (norm_res (entry parse enc (validate_response_tree dsig decrypt cfg now))).
Proof. exact G_ValidateEncodedResponse_is_model. Qed.
Print Assumptions C07_source_ValidateEncodedResponse_is_the_model.

(* source tie: the body of getDecryptCert (decode_response.go) as translated from /repo on this run IS the model the
   certificate-window theorems above are about, for every key configuration, clock, ValidateEncryptionCert setting and
   behaviour of the X.509 parser; it never panics *)
From V Require Import GenPreludeK GenKeys P_GenKeysUnit.
Theorem C07_source_getDecryptCert_is_the_model : forall parse_cert c now validate,
  G_getDecryptCert parse_cert c now validate
  = PVal (match get_decrypt_cert parse_cert validate now c with Ok dc => Ok (Some dc) | Err e => Err e end).
Proof. exact G_getDecryptCert_is_model. Qed.
Print Assumptions C07_source_getDecryptCert_is_the_model.

(* source tie: decryptAssertions as translated from /repo on this run hands back, on success, exactly the tree of the model
   (every EncryptedAssertion that is a DIRECT child replaced by its decrypted plaintext appended as last child; one that is
   not a direct child is an error), with the decryption oracle refined to unmarshal -> getDecryptCert -> the translated
   DecryptBytes -> parseResponse *)
From V Require Import Decrypt GenPreludeE GenDecrypt GenDecTree P_GenDecTree.
Theorem C07_source_decryptAssertions_is_the_model :
  forall parse rsa_oaep rsa_pkcs1 gcm_open cbc_decrypt sha1_hex (get_cert : res sp_cert) cfg now el t,
    (exists u, G_decryptAssertions parse rsa_oaep rsa_pkcs1 gcm_open cbc_decrypt cfg now el (res_some get_cert) = PVal (t, Ok u))
    <-> decrypt_assertions (chain parse rsa_oaep rsa_pkcs1 gcm_open cbc_decrypt sha1_hex get_cert) el = Ok t.
Proof. exact G_decryptAssertions_ok_iff. Qed.
Print Assumptions C07_source_decryptAssertions_is_the_model.
