(* Prop_C07.v — property C07: encryption confers no trust.  The theorems of C01 are universally quantified over the
   decryption oracle, which IS the statement "anyone can encrypt to the SP certificate": whatever plaintext tree the oracle
   yields, it is appended as a direct child and then treated exactly like a plaintext child.
   (Binding of decryption to the SP's own valid key — recipient certificate check, certificate window — is part of the
   refined decryption model: Decrypt.v / Keys.v, cited by the C07 harness run.) *)
From V Require Import Base Time Xml Ns Types Profile Decode Response P_Ns P_Response.

Theorem C07_encrypted_assertion_must_be_direct_child : forall dsig decrypt cfg now root r,
  cfg_skip_sig cfg = false ->
  validate_response_tree dsig decrypt cfg now root = Ok r ->
  exists base, (dsig root = DOk base \/ (dsig root = DMissing /\ base = root)) /\
    forall rel e ctx, subtree base rel = Some e -> is_elem e = true -> ctx_at default_ctx base rel = Some ctx ->
      is_encrypted_assertion ctx e = true ->
      exists i det plain, rel = [i] /\ detach ctx e = Ok det /\ decrypt det = Ok plain.
Proof. exact encrypted_assertion_must_be_direct_child. Qed.
Print Assumptions C07_encrypted_assertion_must_be_direct_child.

(* in an unsigned Response every decrypted plaintext is subject to the same requirement as plaintext children:
   after decryption EVERY Assertion element must be a direct child that verifies on its own *)
Theorem C07_decrypted_plaintext_needs_own_signature : forall dsig decrypt cfg now root r,
  cfg_skip_sig cfg = false -> dsig root = DMissing ->
  validate_response_tree dsig decrypt cfg now root = Ok r ->
  exists root', decrypt_assertions decrypt root = Ok root' /\
    Forall (Vouched dsig root') (r_assertions r) /\
    forall rel e ctx, subtree root' rel = Some e -> is_elem e = true -> ctx_at default_ctx root' rel = Some ctx ->
      is_assertion ctx e = true -> exists i det v, rel = [i] /\ detach ctx e = Ok det /\ dsig det = DOk v.
Proof.
  intros dsig decrypt cfg now root r Hs Hd H.
  destruct (response_sound dsig decrypt cfg now root r Hs H) as [_ [(s & s' & r0 & Hd' & _)|(r0 & root' & _ & _ & Hdec & Hsa & _ & HV)]].
  - rewrite Hd in Hd'. discriminate.
  - exists root'. split; [exact Hdec|]. split; [exact HV|]. eapply signed_assertions_all_direct_and_signed; eauto.
Qed.
Print Assumptions C07_decrypted_plaintext_needs_own_signature.

(* the tree that decryption leaves behind: the original children minus the encrypted ones, plus oracle outputs only *)
Theorem C07_decryption_only_replaces_direct_children : forall decrypt el el',
  decrypt_assertions decrypt el = Ok el' ->
  match el with
  | Elem sp tg attrs kids =>
      exists removed plains, el' = Elem sp tg attrs (remove_indices_from 0 removed kids ++ plains) /\
                             Forall (FromDecryption decrypt el) plains
  | _ => el' = el
  end.
Proof. exact decrypt_assertions_shape. Qed.
Print Assumptions C07_decryption_only_replaces_direct_children.
