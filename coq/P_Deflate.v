(* P_Deflate.v — lemmas about Deflate.v (property C12). *)
From V Require Import Base Time Types Generated Deflate.
Local Open Scope string_scope.
Local Open Scope list_scope.
Local Open Scope Z_scope.

(* ---------- byte slices ---------- *)
Lemma zlen_nonneg s : 0 <= zlen s.
Proof. unfold zlen. lia. Qed.

Lemma zlen_empty : zlen "" = 0.
Proof. reflexivity. Qed.

Lemma zlen_cons c r : zlen (String c r) = zlen r + 1.
Proof. unfold zlen. cbn [String.length]. lia. Qed.

Lemma zlen_take_z s : forall n, zlen (take_z s n) = Z.min (zlen s) (Z.max 0 n).
Proof.
  induction s as [|c r IH]; intro n; cbn [take_z].
  - rewrite zlen_empty. lia.
  - destruct (Z.leb_spec n 0) as [H|H].
    + rewrite zlen_empty. pose proof (zlen_nonneg (String c r)). lia.
    + rewrite !zlen_cons, IH. pose proof (zlen_nonneg r). lia.
Qed.

(* a reader that honours io.Reader (never reports more bytes than the buffer holds): the slice bound is the identity *)
Lemma take_z_all s : forall n, zlen s <= n -> take_z s n = s.
Proof.
  induction s as [|c r IH]; intros n H; cbn [take_z]; [reflexivity|].
  rewrite zlen_cons in H. pose proof (zlen_nonneg r).
  destruct (Z.leb_spec n 0) as [H1|H1]; [lia|].
  f_equal. apply IH. lia.
Qed.

(* ---------- int64 and the limit ---------- *)
Lemma wrap64_id z : in_int64 z -> wrap64 z = z.
Proof. unfold wrap64, in_int64, min_int64, max_int64. intros H. rewrite Z.mod_small; lia. Qed.

Lemma wrap64_max_plus_1 : wrap64 (max_int64 + 1) = min_int64.
Proof. reflexivity. Qed.

Lemma c_default_val : c_default = 5 * 1024 * 1024.
Proof. reflexivity. Qed.

Lemma eff_limit_cases max_size :
  (max_size = 0 /\ eff_limit max_size = c_default) \/ (max_size <> 0 /\ eff_limit max_size = max_size).
Proof. unfold eff_limit. destruct (Z.eqb_spec max_size 0); [left|right]; split; auto. Qed.

Lemma eff_limit_int64 max_size : in_int64 max_size -> in_int64 (eff_limit max_size) /\ eff_limit max_size <> 0.
Proof.
  intros H. destruct (eff_limit_cases max_size) as [[_ ->]|[Hn ->]]; [|split; assumption].
  rewrite c_default_val. unfold in_int64, min_int64, max_int64. lia.
Qed.

Lemma read_limit_spec m : in_int64 m ->
  (m < max_int64 /\ read_limit m = m + 1) \/ (m = max_int64 /\ read_limit m = m).
Proof.
  intros H. unfold read_limit. destruct (Z.ltb_spec m max_int64) as [H1|H1].
  - left. split; [assumption|]. apply wrap64_id. unfold in_int64, min_int64, max_int64 in *. lia.
  - right. split; [|reflexivity]. unfold in_int64 in H. lia.
Qed.

Lemma read_limit_original_spec m : in_int64 m ->
  (m < max_int64 /\ read_limit_original m = m + 1) \/ (m = max_int64 /\ read_limit_original m = min_int64).
Proof.
  intros H. unfold read_limit_original. destruct (Z.ltb_spec m max_int64) as [H1|H1].
  - left. split; [assumption|]. apply wrap64_id. unfold in_int64, min_int64, max_int64 in *. lia.
  - right. assert (m = max_int64) as -> by (unfold in_int64 in H; lia). split; reflexivity.
Qed.

Section Proofs.
  Variable inflate : string -> Z -> string * bool.

  (* ---------- the reading step ---------- *)
  Lemma limit_read_all_nonpos data n : n <= 0 -> limit_read_all inflate data n = ("", false).
  Proof. intros H. unfold limit_read_all. destruct (Z.leb_spec n 0); [reflexivity|lia]. Qed.

  Lemma limit_read_all_pos data n : 0 < n ->
    limit_read_all inflate data n = (take_z (fst (inflate data n)) n, snd (inflate data n)).
  Proof. intros H. unfold limit_read_all. destruct (Z.leb_spec n 0); [lia|reflexivity]. Qed.

  Lemma limit_read_all_len data n : 0 <= zlen (fst (limit_read_all inflate data n)) <= Z.max 0 n.
  Proof.
    destruct (Z.leb_spec n 0) as [H|H].
    - rewrite limit_read_all_nonpos by assumption. cbn [fst]. rewrite zlen_empty. lia.
    - rewrite limit_read_all_pos by assumption. cbn [fst]. rewrite zlen_take_z.
      pose proof (zlen_nonneg (fst (inflate data n))). lia.
  Qed.

  Section Run.
    Variable A : Type.
    Variable decoder : string -> res A.

    (* everything md_after can do *)
    Lemma md_after_cases data m n :
      let r := limit_read_all inflate data n in
      let t := md_after inflate A decoder data m n in
      md_requested t = (if n <=? 0 then None else Some n) /\ md_held t = zlen (fst r) /\
      ((snd r = true /\ md_result t = Err e_inflate /\ md_decoded t = [data]) \/
       (snd r = false /\ m < zlen (fst r) /\ md_result t = Err (e_limit m) /\ md_decoded t = [data]) \/
       (snd r = false /\ zlen (fst r) <= m /\ md_result t = decoder (fst r) /\ md_decoded t = [data; fst r])).
    Proof.
      cbv zeta. unfold md_after.
      destruct (snd (limit_read_all inflate data n)) eqn:E.
      - cbn [md_requested md_held md_result md_decoded]. repeat split. left. repeat split.
      - destruct (Z.gtb_spec (zlen (fst (limit_read_all inflate data n))) m) as [H|H];
          cbn [md_requested md_held md_result md_decoded]; repeat split.
        + right. left. repeat split. assumption.
        + right. right. repeat split. assumption.
    Qed.

    Lemma md_run_raw_ok data max_size a : decoder data = Ok a ->
      md_run inflate A decoder data max_size =
      {| md_result := Ok a; md_requested := None; md_held := 0; md_decoded := [data] |}.
    Proof. intros H. unfold md_run. rewrite H. reflexivity. Qed.

    Lemma md_run_raw_err data max_size e0 : decoder data = Err e0 ->
      md_run inflate A decoder data max_size =
      md_after inflate A decoder data (eff_limit max_size) (read_limit (eff_limit max_size)).
    Proof. intros H. unfold md_run. rewrite H. reflexivity. Qed.

    Lemma md_run_original_raw_err data max_size e0 : decoder data = Err e0 ->
      md_run_original inflate A decoder data max_size =
      md_after inflate A decoder data (eff_limit max_size) (read_limit_original (eff_limit max_size)).
    Proof. intros H. unfold md_run_original. rewrite H. reflexivity. Qed.

    (* ---------- C12: bound ---------- *)
    Lemma md_bounded data max_size : in_int64 max_size ->
      let t := md_run inflate A decoder data max_size in
      let m := eff_limit max_size in
      (forall n, md_requested t = Some n -> 0 < n /\ n <= m + 1 /\ n <= max_int64) /\
      0 <= md_held t <= Z.max 0 (m + 1) /\
      (forall b, In b (md_decoded t) -> b = data \/ zlen b <= m).
    Proof.
      intros Hmax. cbv zeta.
      destruct (decoder data) as [a|e0] eqn:Ed.
      - rewrite (md_run_raw_ok _ _ _ Ed). cbn [md_requested md_held md_decoded].
        repeat split; try discriminate; try lia.
        intros b [<-|[]]. left. reflexivity.
      - rewrite (md_run_raw_err _ _ _ Ed).
        destruct (eff_limit_int64 _ Hmax) as [Hm _].
        set (m := eff_limit max_size) in *.
        assert (Hn : read_limit m <= m + 1 /\ read_limit m <= max_int64).
        { destruct (read_limit_spec m Hm) as [[H1 ->]|[H1 ->]]; unfold in_int64 in Hm; lia. }
        destruct (md_after_cases data m (read_limit m)) as (Hreq & Hheld & Hres).
        pose proof (limit_read_all_len data (read_limit m)) as Hlen.
        split; [|split].
        + intros n. rewrite Hreq. destruct (Z.leb_spec (read_limit m) 0); [discriminate|].
          intros H'. inversion H'; subst. lia.
        + rewrite Hheld. lia.
        + intros b Hb.
          destruct Hres as [(_ & _ & Hd)|[(_ & _ & _ & Hd)|(_ & Hle & _ & Hd)]]; rewrite Hd in Hb.
          * destruct Hb as [<-|[]]. left. reflexivity.
          * destruct Hb as [<-|[]]. left. reflexivity.
          * destruct Hb as [<-|[<-|[]]]; [left; reflexivity|right; exact Hle].
    Qed.

    (* ---------- C12: over the limit ---------- *)
    Lemma md_over_limit data max_size e0 : in_int64 max_size -> decoder data = Err e0 ->
      let m := eff_limit max_size in
      m < max_int64 ->
      (0 <= m -> m < zlen (fst (inflate data (m + 1)))) ->
      (maybe_deflate inflate A decoder data max_size = Err e_inflate \/
       maybe_deflate inflate A decoder data max_size = Err (e_limit m)) /\
      md_decoded (md_run inflate A decoder data max_size) = [data].
    Proof.
      intros Hmax Ed. cbv zeta. intros Hlt Hover.
      unfold maybe_deflate. rewrite (md_run_raw_err _ _ _ Ed).
      destruct (eff_limit_int64 _ Hmax) as [Hm _].
      set (m := eff_limit max_size) in *.
      assert (Hrl : read_limit m = m + 1).
      { destruct (read_limit_spec m Hm) as [[_ H]|[H _]]; [exact H|lia]. }
      rewrite Hrl.
      destruct (md_after_cases data m (m + 1)) as (_ & _ & Hres).
      destruct Hres as [(_ & Hr & Hd)|[(_ & _ & Hr & Hd)|(_ & Hle & _ & _)]].
      - split; [left; exact Hr|exact Hd].
      - split; [right; exact Hr|exact Hd].
      - exfalso.
        destruct (Z.leb_spec (m + 1) 0) as [Hneg|Hpos].
        + rewrite limit_read_all_nonpos in Hle by assumption. cbn [fst] in Hle. rewrite zlen_empty in Hle. lia.
        + rewrite limit_read_all_pos in Hle by assumption. cbn [fst] in Hle. rewrite zlen_take_z in Hle.
          assert (0 <= m) as H0 by lia. specialize (Hover H0). lia.
    Qed.

    (* ---------- C12: transparency ---------- *)
    Lemma md_transparent data max_size e0 d : in_int64 max_size -> decoder data = Err e0 ->
      let m := eff_limit max_size in
      inflate data (read_limit m) = (d, false) -> zlen d <= m ->
      md_run inflate A decoder data max_size =
      {| md_result := decoder d; md_requested := Some (read_limit m); md_held := zlen d; md_decoded := [data; d] |}.
    Proof.
      intros Hmax Ed. cbv zeta. intros Hinf Hle.
      rewrite (md_run_raw_err _ _ _ Ed).
      destruct (eff_limit_int64 _ Hmax) as [Hm Hm0].
      set (m := eff_limit max_size) in *.
      pose proof (zlen_nonneg d) as Hd0.
      assert (Hn : zlen d <= read_limit m /\ 0 < read_limit m).
      { destruct (read_limit_spec m Hm) as [[_ ->]|[_ ->]]; lia. }
      unfold md_after. rewrite limit_read_all_pos by lia. rewrite Hinf. cbn [fst snd].
      rewrite take_z_all by lia.
      destruct (Z.gtb_spec (zlen d) m); [lia|].
      destruct (Z.leb_spec (read_limit m) 0); [lia|]. reflexivity.
    Qed.

    (* ---------- C12: negative limits ---------- *)
    Lemma md_negative_limit data max_size e0 : in_int64 max_size -> max_size < 0 -> decoder data = Err e0 ->
      md_run inflate A decoder data max_size =
      {| md_result := Err (e_limit max_size); md_requested := None; md_held := 0; md_decoded := [data] |}.
    Proof.
      intros Hmax Hneg Ed. rewrite (md_run_raw_err _ _ _ Ed).
      destruct (eff_limit_cases max_size) as [[H _]|[_ ->]]; [lia|].
      assert (Hrl : read_limit max_size = max_size + 1).
      { destruct (read_limit_spec max_size Hmax) as [[_ H]|[H _]]; [exact H|unfold max_int64 in H; lia]. }
      unfold md_after. rewrite Hrl, limit_read_all_nonpos by lia. cbn [fst snd]. rewrite zlen_empty.
      destruct (Z.gtb_spec 0 max_size); [|lia].
      destruct (Z.leb_spec (max_size + 1) 0); [reflexivity|lia].
    Qed.

    (* ---------- C12: MaxInt64, current code: the whole stream may be read, nothing is "over the limit" ---------- *)
    Lemma md_max_int64 data e0 : decoder data = Err e0 ->
      let r := inflate data max_int64 in
      md_run inflate A decoder data max_int64 =
      if snd r then {| md_result := Err e_inflate; md_requested := Some max_int64;
                       md_held := zlen (take_z (fst r) max_int64); md_decoded := [data] |}
      else {| md_result := decoder (take_z (fst r) max_int64); md_requested := Some max_int64;
              md_held := zlen (take_z (fst r) max_int64); md_decoded := [data; take_z (fst r) max_int64] |}.
    Proof.
      intros Ed. cbv zeta. rewrite (md_run_raw_err _ _ _ Ed).
      change (eff_limit max_int64) with max_int64. change (read_limit max_int64) with max_int64.
      unfold md_after. rewrite limit_read_all_pos by (unfold max_int64; lia). cbn [fst snd].
      destruct (snd (inflate data max_int64)); [reflexivity|].
      destruct (Z.gtb_spec (zlen (take_z (fst (inflate data max_int64)) max_int64)) max_int64) as [H|H]; [|reflexivity].
      rewrite zlen_take_z in H. unfold max_int64 in H. lia.
    Qed.

    (* ---------- the code before repair 2532667 ---------- *)
    Lemma md_original_agrees data max_size : in_int64 max_size -> max_size <> max_int64 ->
      md_run_original inflate A decoder data max_size = md_run inflate A decoder data max_size.
    Proof.
      intros Hmax Hne. unfold md_run_original, md_run. destruct (decoder data); [reflexivity|].
      destruct (eff_limit_int64 _ Hmax) as [Hm _].
      assert (eff_limit max_size <> max_int64).
      { destruct (eff_limit_cases max_size) as [[_ ->]|[_ ->]]; [rewrite c_default_val; unfold max_int64; lia|assumption]. }
      destruct (read_limit_spec _ Hm) as [[_ ->]|[H' _]]; [|contradiction].
      destruct (read_limit_original_spec _ Hm) as [[_ ->]|[H' _]]; [reflexivity|contradiction].
    Qed.

    Lemma md_original_max_int64 data e0 : decoder data = Err e0 ->
      md_run_original inflate A decoder data max_int64 =
      {| md_result := decoder ""; md_requested := None; md_held := 0; md_decoded := [data; ""] |}.
    Proof.
      intros Ed. rewrite (md_run_original_raw_err _ _ _ Ed).
      change (eff_limit max_int64) with max_int64. change (read_limit_original max_int64) with min_int64.
      unfold md_after. rewrite limit_read_all_nonpos by (unfold min_int64; lia). cbn [fst snd].
      reflexivity.
    Qed.
  End Run.

  (* ---------- parseResponse and the entry points ---------- *)
  Section Parse.
    Variable T : Type.
    Variable parse : string -> option (option T).
    Variable rt_ok : string -> bool.

    Lemma parse_decoder_err xml : parse xml = None -> parse_decoder T parse xml = Err e_parse.
    Proof. intros H. unfold parse_decoder. rewrite H. reflexivity. Qed.

    (* a document that parses raw: inflate is never consulted and the limit plays no role *)
    Lemma parse_response_raw d max_size root : parse d = Some root ->
      parse_response inflate T parse rt_ok d max_size =
      match root with
      | None => Err e_no_root
      | Some el => if rt_ok d then Ok (el, d) else Err e_roundtrip
      end.
    Proof.
      intros H. unfold parse_response, maybe_deflate.
      rewrite (md_run_raw_ok _ (parse_decoder T parse) d max_size (root, d)) by (unfold parse_decoder; rewrite H; reflexivity).
      reflexivity.
    Qed.

    (* compressed twin: same outcome as the raw document, whatever limit the raw one is presented with *)
    Lemma parse_response_twin c d max_size max_size' root : in_int64 max_size ->
      parse c = None -> parse d = Some root ->
      inflate c (read_limit (eff_limit max_size)) = (d, false) -> zlen d <= eff_limit max_size ->
      parse_response inflate T parse rt_ok c max_size = parse_response inflate T parse rt_ok d max_size'.
    Proof.
      intros Hmax Hc Hd Hinf Hle.
      rewrite (parse_response_raw d max_size' root Hd).
      unfold parse_response, maybe_deflate.
      rewrite (md_transparent _ (parse_decoder T parse) c max_size e_parse d Hmax (parse_decoder_err c Hc) Hinf Hle).
      cbn [md_result]. unfold parse_decoder. rewrite Hd. reflexivity.
    Qed.

    Lemma parse_response_over_limit c max_size : in_int64 max_size ->
      parse c = None ->
      let m := eff_limit max_size in
      m < max_int64 ->
      (0 <= m -> m < zlen (fst (inflate c (m + 1)))) ->
      parse_response inflate T parse rt_ok c max_size = Err e_inflate \/
      parse_response inflate T parse rt_ok c max_size = Err (e_limit m).
    Proof.
      intros Hmax Hc. cbv zeta. intros Hlt Hover.
      destruct (md_over_limit _ (parse_decoder T parse) c max_size e_parse Hmax (parse_decoder_err c Hc) Hlt Hover) as [[H|H] _];
        unfold parse_response; rewrite H; [left|right]; reflexivity.
    Qed.

    Lemma entry_decode_twin {R} ep cfg_max cfg_max' (unmarshal : string -> res R) rest c d root a :
      in_int64 cfg_max ->
      let max_size := entry_max_size ep cfg_max in
      inflate c (read_limit (eff_limit max_size)) = (d, false) -> zlen d <= eff_limit max_size ->
      (if entry_uses_parse_response ep then parse c = None /\ parse d = Some root
       else (exists e, unmarshal c = Err e) /\ unmarshal d = Ok a) ->
      entry_decode inflate T parse rt_ok ep cfg_max unmarshal rest c =
      entry_decode inflate T parse rt_ok ep cfg_max' unmarshal rest d.
    Proof.
      intros Hcfg. cbv zeta. intros Hinf Hle Hdec.
      assert (Hmax : in_int64 (entry_max_size ep cfg_max)).
      { destruct ep; cbn [entry_max_size]; try assumption;
          unfold c_default; rewrite <- ?c_default_val; unfold in_int64, min_int64, max_int64;
          change c_defaultMaxDecompressedResponseSize with c_default; rewrite c_default_val; lia. }
      unfold entry_decode. destruct (entry_uses_parse_response ep) eqn:Eu.
      - destruct Hdec as [Hc Hd].
        rewrite (parse_response_twin c d _ (entry_max_size ep cfg_max') root Hmax Hc Hd Hinf Hle). reflexivity.
      - destruct Hdec as [[e Hc] Hd]. unfold maybe_deflate.
        rewrite (md_transparent _ unmarshal c _ e d Hmax Hc Hinf Hle).
        rewrite (md_run_raw_ok _ unmarshal d _ a Hd). cbn [md_result]. exact Hd.
    Qed.
  End Parse.
End Proofs.

(* the same in terms of the whole stream: [total d] = everything the flate reader would yield for d *)
Lemma md_over_limit_stream inflate (total : string -> string) A decoder data max_size e0 :
  (forall d n, 0 < n -> fst (inflate d n) = take_z (total d) n) ->
  in_int64 max_size -> decoder data = Err e0 ->
  eff_limit max_size < max_int64 -> eff_limit max_size < zlen (total data) ->
  (maybe_deflate inflate A decoder data max_size = Err e_inflate \/
   maybe_deflate inflate A decoder data max_size = Err (e_limit (eff_limit max_size))) /\
  md_decoded (md_run inflate A decoder data max_size) = [data].
Proof.
  intros Hlaw Hmax Ed Hlt Hover. apply (md_over_limit inflate A decoder data max_size e0 Hmax Ed Hlt).
  intros H0. rewrite Hlaw by lia. rewrite zlen_take_z. lia.
Qed.

(* ---------- which limit each entry point uses ---------- *)
Lemma default_limit_facts :
  c_default = 5 * 1024 * 1024 /\
  eff_limit 0 = c_default /\
  (forall cfg_max, entry_max_size EP_DecodeUnverifiedBaseResponse cfg_max = c_default /\
                   entry_max_size EP_DecodeUnverifiedLogoutResponse cfg_max = c_default) /\
  (forall ep cfg_max, entry_uses_parse_response ep = true -> entry_max_size ep cfg_max = cfg_max) /\
  (forall ep, entry_uses_parse_response ep = false ->
              ep = EP_DecodeUnverifiedBaseResponse \/ ep = EP_DecodeUnverifiedLogoutResponse).
Proof.
  split; [exact c_default_val|]. split; [reflexivity|]. split; [intros; split; reflexivity|].
  split; intros ep; destruct ep; cbn [entry_uses_parse_response entry_max_size]; intros; try discriminate; auto.
Qed.

(* max = 0 and max = default are the same run *)
Lemma md_run_zero_is_default inflate A decoder data :
  md_run inflate A decoder data 0 = md_run inflate A decoder data c_default.
Proof. unfold md_run. destruct (decoder data); reflexivity. Qed.

(* the unverified decoders do not depend on the configuration at all *)
Lemma unverified_ignore_config inflate T parse rt_ok R ep cfg_max cfg_max' (unmarshal : string -> res R) rest raw :
  entry_uses_parse_response ep = false ->
  entry_decode inflate T parse rt_ok ep cfg_max unmarshal rest raw =
  maybe_deflate inflate R unmarshal raw c_default /\
  entry_decode inflate T parse rt_ok ep cfg_max unmarshal rest raw =
  entry_decode inflate T parse rt_ok ep cfg_max' unmarshal rest raw.
Proof.
  intros H. unfold entry_decode. rewrite H. destruct ep; try discriminate; split; reflexivity.
Qed.

(* ---------- non-vacuity and the repaired finding ---------- *)
(* a toy stream: "Z" followed by the document stands for its compressed form *)
Definition toy_inflate (d : string) (n : Z) : string * bool :=
  match d with
  | String "Z"%char r => (take_z r n, false)
  | _ => ("", true)
  end.
Definition toy_decoder (s : string) : res string :=
  if has_prefix "<" s then Ok s else Err (ESaml "not xml").

Example ex_transparent_at_limit :
  map (fun mx => md_res_val VS (maybe_deflate toy_inflate _ toy_decoder "Z<a/>" mx)) [3; 4; 5; 0; -1; max_int64; max_int64 - 1]
  = [VC "Err" [VC "Limit" [VS "deflated response exceeds maximum size of 3 bytes"]];
     VC "Ok" [VS "<a/>"]; VC "Ok" [VS "<a/>"]; VC "Ok" [VS "<a/>"];
     VC "Err" [VC "Limit" [VS "deflated response exceeds maximum size of -1 bytes"]];
     VC "Ok" [VS "<a/>"]; VC "Ok" [VS "<a/>"]].
Proof. vm_compute. reflexivity. Qed.

Example ex_original_at_max_int64 :
  md_res_val VS (maybe_deflate_original toy_inflate _ toy_decoder "Z<a/>" max_int64) = VC "Err" [VC "Saml" [VS "not xml"]] /\
  md_decoded (md_run_original toy_inflate _ toy_decoder "Z<a/>" max_int64) = ["Z<a/>"; ""].
Proof. vm_compute. split; reflexivity. Qed.

(* before the repair the transparency statement was false at MaxInt64 *)
Lemma transparent_refuted_original :
  exists (inflate : string -> Z -> string * bool) (decoder : string -> res string) data d e0,
    decoder data = Err e0 /\ inflate data (read_limit (eff_limit max_int64)) = (d, false) /\
    zlen d <= eff_limit max_int64 /\
    maybe_deflate inflate _ decoder data max_int64 = decoder d /\
    maybe_deflate_original inflate _ decoder data max_int64 <> decoder d.
Proof.
  exists toy_inflate, toy_decoder, "Z<a/>", "<a/>", (ESaml "not xml").
  split; [reflexivity|]. split; [reflexivity|]. split; [vm_compute; discriminate|].
  split; [reflexivity|]. vm_compute. discriminate.
Qed.
