(* P_Redirect.v — lemmas about the redirect-binding model (Redirect.v) for property C14. *)
From V Require Import Base Escape EscapeProofs SchemaDefs ConcDefs Generated Redirect.
Local Open Scope list_scope.
Local Open Scope string_scope.

(* ================================================================ url.Values *)
Definition values_wf (m : values) : Prop := NoDup (values_keys m).

Lemma values_lookup_add k k' v m :
  values_lookup k (values_add k' v m) = if k' =?s k then (values_lookup k m ++ [v])%list else values_lookup k m.
Proof.
  induction m as [|[k0 vs] m IH]; cbn [values_add values_lookup].
  - destruct (k' =?s k) eqn:E; reflexivity.
  - destruct (k0 =?s k') eqn:E0; cbn [values_lookup].
    + apply String.eqb_eq in E0. subst k0. destruct (k' =?s k); reflexivity.
    + destruct (k0 =?s k) eqn:E1.
      * apply String.eqb_eq in E1. subst k0. rewrite String.eqb_sym in E0. rewrite E0. reflexivity.
      * exact IH.
Qed.

Lemma values_keys_add k v m :
  values_keys (values_add k v m) = if existsb (String.eqb k) (values_keys m) then values_keys m else (values_keys m ++ [k])%list.
Proof.
  unfold values_keys. induction m as [|[k0 vs] m IH]; cbn [values_add map existsb fst]; [reflexivity|].
  destruct (k0 =?s k) eqn:E.
  - rewrite String.eqb_sym in E. rewrite E. reflexivity.
  - rewrite String.eqb_sym in E. rewrite E. cbn [orb map fst]. rewrite IH.
    destruct (existsb (String.eqb k) (map fst m)); reflexivity.
Qed.

Lemma existsb_eqb_In k l : existsb (String.eqb k) l = true <-> In k l.
Proof.
  rewrite existsb_exists. split.
  - intros (x & Hx & E). apply String.eqb_eq in E. subst. exact Hx.
  - intros H. exists k. split; [exact H | apply String.eqb_refl].
Qed.

Lemma values_wf_add k v m : values_wf m -> values_wf (values_add k v m).
Proof.
  unfold values_wf. intros H. rewrite values_keys_add.
  destruct (existsb (String.eqb k) (values_keys m)) eqn:E; [exact H|].
  assert (~ In k (values_keys m)) as N.
  { intros I. apply existsb_eqb_In in I. congruence. }
  clear E. induction (values_keys m) as [|x l IH]; cbn [app].
  - constructor; [intros []|constructor].
  - inversion H; subst. constructor.
    + rewrite in_app_iff. intros [I|[I|[]]]; [contradiction|]. subst. apply N. left. reflexivity.
    + apply IH; [assumption|]. intros I. apply N. right. exact I.
Qed.

Lemma values_keys_add_In x k v m : In x (values_keys (values_add k v m)) <-> x = k \/ In x (values_keys m).
Proof.
  rewrite values_keys_add. destruct (existsb (String.eqb k) (values_keys m)) eqn:E.
  - apply existsb_eqb_In in E. split; [auto|]. intros [->|H]; assumption.
  - rewrite in_app_iff. cbn [In]. split; [intros [H|[H|[]]]; auto | intros [H|H]; auto].
Qed.

Lemma values_lookup_absent k m : ~ In k (values_keys m) -> values_lookup k m = [].
Proof.
  unfold values_keys. induction m as [|[k0 vs] m IH]; cbn [values_lookup map fst In]; [reflexivity|].
  intros N. destruct (k0 =?s k) eqn:E.
  - apply String.eqb_eq in E. exfalso. apply N. left. exact E.
  - apply IH. intros I. apply N. right. exact I.
Qed.

(* ================================================================ sort_kv (Values.Encode sorts the keys) *)
Lemma insert_kv_keys x kv l : In x (values_keys (insert_kv kv l)) <-> x = fst kv \/ In x (values_keys l).
Proof.
  unfold values_keys. induction l as [|h t IH]; cbn [insert_kv map In].
  - split; [intros [H|[]]; auto | intros [H|[]]; auto].
  - destruct (str_leb (fst kv) (fst h)); cbn [map In].
    + split; [intros [H|H]; auto | intros [H|H]; auto].
    + rewrite IH. split; [intros [H|[H|H]]; auto | intros [H|[H|H]]; auto].
Qed.

Lemma insert_kv_wf kv l : values_wf l -> ~ In (fst kv) (values_keys l) -> values_wf (insert_kv kv l).
Proof.
  unfold values_wf, values_keys. induction l as [|h t IH]; cbn [insert_kv map]; intros W N.
  - constructor; [intros []|constructor].
  - destruct (str_leb (fst kv) (fst h)); cbn [map].
    + constructor; assumption.
    + inversion W; subst. constructor.
      * intros I. apply (insert_kv_keys (fst h) kv t) in I. destruct I as [I|I]; [|contradiction].
        apply N. left. exact I.
      * apply IH; [assumption|]. intros I. apply N. right. exact I.
Qed.

Lemma insert_kv_lookup k kv l :
  ~ In (fst kv) (values_keys l) ->
  values_lookup k (insert_kv kv l) = if fst kv =?s k then snd kv else values_lookup k l.
Proof.
  unfold values_keys. induction l as [|[k0 vs] t IH]; cbn [insert_kv map In fst]; intros N.
  - destruct kv as [k1 v1]. cbn [values_lookup fst snd]. reflexivity.
  - destruct (str_leb (fst kv) k0).
    + destruct kv as [k1 v1]. cbn [values_lookup fst snd]. reflexivity.
    + cbn [values_lookup]. destruct (k0 =?s k) eqn:E.
      * destruct (fst kv =?s k) eqn:E1; [|reflexivity].
        apply String.eqb_eq in E, E1. exfalso. apply N. left. congruence.
      * apply IH. intros I. apply N. right. exact I.
Qed.

Lemma sort_kv_keys x m : In x (values_keys (sort_kv m)) <-> In x (values_keys m).
Proof.
  unfold sort_kv. induction m as [|kv m IH]; cbn [fold_right]; [reflexivity|].
  rewrite insert_kv_keys, IH. unfold values_keys. cbn [map In]. split; intros [H|H]; auto.
Qed.

Lemma sort_kv_wf m : values_wf m -> values_wf (sort_kv m).
Proof.
  unfold sort_kv. induction m as [|kv m IH]; cbn [fold_right]; intros W; [exact W|].
  unfold values_wf, values_keys in W. cbn [map] in W. inversion W; subst.
  apply insert_kv_wf; [apply IH; assumption|].
  intros I. apply (sort_kv_keys (fst kv) m) in I. contradiction.
Qed.

Lemma sort_kv_lookup k m : values_wf m -> values_lookup k (sort_kv m) = values_lookup k m.
Proof.
  unfold sort_kv. induction m as [|kv m IH]; cbn [fold_right]; intros W; [reflexivity|].
  unfold values_wf, values_keys in W. cbn [map] in W. inversion W; subst.
  rewrite insert_kv_lookup.
  - destruct kv as [k1 v1]. cbn [values_lookup fst snd]. rewrite IH by assumption. reflexivity.
  - intros I. apply (sort_kv_keys (fst kv) m) in I. contradiction.
Qed.

(* ================================================================ splitting an encoded query *)
Definition no_amp (s : string) : bool := str_all (fun c => negb (is_ch 38 c)) s.
Definition no_eq (s : string) : bool := str_all (fun c => negb (is_ch 61 c)) s.

Lemma amp_pieces_noamp a : no_amp a = true -> amp_pieces a = [a].
Proof.
  induction a as [|c a IH]; [reflexivity|]. unfold no_amp in *. cbn [str_all amp_pieces].
  intros H. apply andb_true_iff in H as [H1 H2]. apply negb_true_iff in H1. rewrite H1, (IH H2). reflexivity.
Qed.

Lemma amp_pieces_app a r : no_amp a = true -> amp_pieces (a ++ String amp r) = a :: amp_pieces r.
Proof.
  induction a as [|c a IH]; [reflexivity|]. unfold no_amp in *. cbn [str_all amp_pieces append].
  intros H. apply andb_true_iff in H as [H1 H2]. apply negb_true_iff in H1. rewrite H1, (IH H2). reflexivity.
Qed.

Lemma concat_cons2 sep x y ys : String.concat sep (x :: y :: ys) = x ++ sep ++ String.concat sep (y :: ys).
Proof. reflexivity. Qed.

Lemma amp_pieces_concat xs :
  xs <> [] -> Forall (fun x => no_amp x = true) xs -> amp_pieces (String.concat (String amp EmptyString) xs) = xs.
Proof.
  induction xs as [|x xs IH]; [congruence|]. intros _ F. inversion F; subst.
  destruct xs as [|y ys].
  - cbn [String.concat]. apply amp_pieces_noamp. assumption.
  - rewrite concat_cons2. cbn [append].
    rewrite amp_pieces_app by assumption. rewrite IH; [reflexivity | congruence | assumption].
Qed.

Lemma cut_eq_app a b : no_eq a = true -> cut_eq (a ++ String eqs b) = (a, b).
Proof.
  induction a as [|c a IH]; [reflexivity|]. unfold no_eq in *. cbn [str_all cut_eq append].
  intros H. apply andb_true_iff in H as [H1 H2]. apply negb_true_iff in H1. rewrite H1, (IH H2). reflexivity.
Qed.

Definition join_pair (p : string * string) : string := fst p ++ String eqs (snd p).

Lemma nonempty_join p : nonempty (join_pair p) = true.
Proof. destruct p as [[|c a] b]; reflexivity. Qed.

Lemma str_all_app' P a b : str_all P a = true -> str_all P b = true -> str_all P (a ++ b) = true.
Proof. intros Ha Hb. rewrite str_all_app, Ha, Hb. reflexivity. Qed.

Lemma filter_all {A} (f : A -> bool) l : (forall x, In x l -> f x = true) -> filter f l = l.
Proof.
  induction l as [|a l IH]; cbn [filter]; intros H; [reflexivity|].
  rewrite (H a (or_introl eq_refl)), IH; [reflexivity|]. intros x Hx. apply H. right. exact Hx.
Qed.

(* a query made of key=value pieces whose keys and values contain neither '&' nor '=' splits back into them *)
Lemma split_query_join ps :
  Forall (fun p => no_amp (fst p) = true /\ no_amp (snd p) = true /\ no_eq (fst p) = true) ps ->
  split_query (String.concat (String amp EmptyString) (map join_pair ps)) = ps.
Proof.
  intros F. unfold split_query. destruct ps as [|p ps]; [reflexivity|].
  rewrite amp_pieces_concat.
  - rewrite filter_all.
    + rewrite map_map. rewrite <- (map_id (p :: ps)) at 2. apply map_ext_in.
      intros q Hq. rewrite Forall_forall in F. destruct (F q Hq) as (_ & _ & H3).
      unfold join_pair. destruct q as [a b]. apply cut_eq_app. exact H3.
    + intros x Hx. apply in_map_iff in Hx as (q & <- & _). apply nonempty_join.
  - cbn [map]. congruence.
  - apply Forall_forall. intros x Hx. apply in_map_iff in Hx as (q & <- & Hq).
    rewrite Forall_forall in F. destruct (F q Hq) as (H1 & H2 & _).
    unfold join_pair, no_amp in *. apply str_all_app'; [exact H1|]. cbn [str_all]. rewrite H2. reflexivity.
Qed.

(* ================================================================ reading Values.Encode back *)
Definition enc_pairs (l : values) : list (string * string) :=
  flat_map (fun kv => map (fun v => (query_escape (fst kv), query_escape v)) (snd kv)) l.

Lemma flat_map_encode_key l : flat_map encode_key l = map join_pair (enc_pairs l).
Proof.
  unfold enc_pairs. induction l as [|kv l IH]; cbn [flat_map]; [reflexivity|].
  rewrite map_app, <- IH. f_equal. unfold encode_key. rewrite map_map. reflexivity.
Qed.

Lemma query_escape_no_amp s : no_amp (query_escape s) = true.
Proof.
  unfold no_amp. apply (str_all_impl (fun c => negb (query_separator c))); [|apply query_escape_no_separator].
  apply (byte_forall (fun c => implb (negb (query_separator c)) (negb (is_ch 38 c)))). vm_compute. reflexivity.
Qed.

Lemma query_escape_no_eq s : no_eq (query_escape s) = true.
Proof.
  unfold no_eq. apply (str_all_impl (fun c => negb (query_separator c))); [|apply query_escape_no_separator].
  apply (byte_forall (fun c => implb (negb (query_separator c)) (negb (is_ch 61 c)))). vm_compute. reflexivity.
Qed.

Lemma split_query_values_encode m : split_query (values_encode m) = enc_pairs (sort_kv m).
Proof.
  unfold values_encode. rewrite flat_map_encode_key. apply split_query_join.
  apply Forall_forall. intros p Hp. unfold enc_pairs in Hp. apply in_flat_map in Hp as (kv & _ & Hp).
  apply in_map_iff in Hp as (v & <- & _). cbn [fst snd].
  repeat split; [apply query_escape_no_amp | apply query_escape_no_amp | apply query_escape_no_eq].
Qed.

Lemma query_escape_inj a b : query_escape a = query_escape b -> a = b.
Proof.
  intros H. pose proof (query_unescape_escape a) as Ha. rewrite H, query_unescape_escape in Ha. congruence.
Qed.

Lemma query_escape_eqb a b : (query_escape a =?s query_escape b) = (a =?s b).
Proof.
  destruct (a =?s b) eqn:E.
  - apply String.eqb_eq in E. subst. apply String.eqb_refl.
  - apply String.eqb_neq. intros H. apply query_escape_inj in H. apply String.eqb_neq in E. contradiction.
Qed.

Lemma enc_pairs_absent k l :
  ~ In k (values_keys l) -> filter (fun p => fst p =?s query_escape k) (enc_pairs l) = [].
Proof.
  unfold enc_pairs, values_keys. induction l as [|[k0 vs] l IH]; cbn [flat_map map fst snd In]; intros N; [reflexivity|].
  rewrite filter_app, IH by (intros I; apply N; right; exact I).
  rewrite app_nil_r. induction vs as [|v vs IHv]; cbn [map filter fst]; [reflexivity|].
  rewrite query_escape_eqb. destruct (k0 =?s k) eqn:E; [|exact IHv].
  apply String.eqb_eq in E. exfalso. apply N. left. exact E.
Qed.

Lemma enc_pairs_lookup k l :
  values_wf l ->
  filter (fun p => fst p =?s query_escape k) (enc_pairs l) = map (fun v => (query_escape k, query_escape v)) (values_lookup k l).
Proof.
  unfold values_wf, values_keys. induction l as [|[k0 vs] l IH]; intros W; [reflexivity|].
  cbn [map fst] in W. inversion W; subst.
  change (enc_pairs ((k0, vs) :: l)) with ((map (fun v => (query_escape k0, query_escape v)) vs ++ enc_pairs l)%list).
  rewrite filter_app. cbn [values_lookup]. destruct (k0 =?s k) eqn:E.
  - apply String.eqb_eq in E. subst k0. rewrite enc_pairs_absent by assumption. rewrite app_nil_r.
    apply filter_all. intros x Hx. apply in_map_iff in Hx as (v & <- & _). apply String.eqb_refl.
  - rewrite IH by assumption.
    replace (filter _ (map _ vs)) with (@nil (string * string)); [reflexivity|].
    symmetry. induction vs as [|v vs IHv]; cbn [map filter fst]; [reflexivity|].
    rewrite query_escape_eqb, E. exact IHv.
Qed.

(* the encoded values of parameter k in Values.Encode() are the escaped values of v[k], in order *)
Theorem url_values_encode k m :
  values_wf m -> url_values (query_escape k) (values_encode m) = map query_escape (values_lookup k m).
Proof.
  intros W. unfold url_values. rewrite split_query_values_encode.
  rewrite enc_pairs_lookup by (apply sort_kv_wf; exact W).
  rewrite sort_kv_lookup by exact W. rewrite map_map. reflexivity.
Qed.

(* ================================================================ parse_query *)
Lemma parse_query_step_wf m kv : values_wf m -> values_wf (parse_query_step m kv).
Proof.
  intros W. unfold parse_query_step.
  destruct (has_semicolon (fst kv) || has_semicolon (snd kv)); [exact W|].
  destruct (query_unescape (fst kv)); [|exact W].
  destruct (query_unescape (snd kv)); [|exact W].
  apply values_wf_add. exact W.
Qed.

Lemma parse_query_wf q : values_wf (parse_query q).
Proof.
  unfold parse_query.
  assert (forall l m, values_wf m -> values_wf (fold_left parse_query_step l m)) as H.
  { induction l as [|kv l IH]; intros m W; [exact W|]. cbn [fold_left]. apply IH, parse_query_step_wf, W. }
  apply H. constructor.
Qed.

(* ================================================================ the strings that are signed *)
Lemma qe_SAMLRequest : query_escape p_SAMLRequest = "SAMLRequest". Proof. reflexivity. Qed.
Lemma qe_RelayState : query_escape p_RelayState = "RelayState". Proof. reflexivity. Qed.
Lemma qe_SigAlg : query_escape p_SigAlg = "SigAlg". Proof. reflexivity. Qed.
Lemma qe_Signature : query_escape p_Signature = "Signature". Proof. reflexivity. Qed.

Definition relay_opt (relay : string) : option string := if relay =?s "" then None else Some (query_escape relay).

Lemma signature_input_string_spec a b g :
  signature_input_string a b g = octets_to_sign (query_escape a) (relay_opt b) (query_escape g).
Proof.
  unfold signature_input_string, octets_to_sign, relay_opt.
  destruct (b =?s ""); cbn [fold_left fst snd nonempty]; rewrite ?qe_SAMLRequest, ?qe_RelayState, ?qe_SigAlg;
    cbn [append nonempty]; rewrite ?append_assoc; cbn [append]; reflexivity.
Qed.

Lemma values_encode_single k v : values_encode (values_add k v []) = query_escape k ++ String eqs (query_escape v).
Proof. reflexivity. Qed.

Lemma logout_signed_string_spec a b g :
  logout_signed_string a b g = octets_to_sign (query_escape a) (relay_opt b) (query_escape g).
Proof.
  unfold logout_signed_string, octets_to_sign, relay_opt.
  destruct (b =?s "").
  - remember (values_add p_SigAlg g (values_add p_SAMLRequest a [])) as pvm eqn:Hp.
    assert (L1 : values_lookup p_SAMLRequest pvm = [a]) by (subst pvm; reflexivity).
    assert (L2 : values_lookup p_RelayState pvm = []) by (subst pvm; reflexivity).
    assert (L3 : values_lookup p_SigAlg pvm = [g]) by (subst pvm; reflexivity).
    clear Hp. cbn [fold_left]. rewrite L1, L2, L3. cbn [nonempty].
    rewrite !values_encode_single, qe_SAMLRequest, qe_SigAlg.
    cbn [append nonempty]. rewrite ?append_assoc. cbn [append]. reflexivity.
  - remember (values_add p_SigAlg g (values_add p_RelayState b (values_add p_SAMLRequest a []))) as pvm eqn:Hp.
    assert (L1 : values_lookup p_SAMLRequest pvm = [a]) by (subst pvm; reflexivity).
    assert (L2 : values_lookup p_RelayState pvm = [b]) by (subst pvm; reflexivity).
    assert (L3 : values_lookup p_SigAlg pvm = [g]) by (subst pvm; reflexivity).
    clear Hp. cbn [fold_left]. rewrite L1, L2, L3. cbn [nonempty].
    rewrite !values_encode_single, qe_SAMLRequest, qe_SigAlg, qe_RelayState.
    cbn [append nonempty]. rewrite ?append_assoc. cbn [append]. reflexivity.
Qed.

Theorem logout_signed_string_same a b g : logout_signed_string a b g = signature_input_string a b g.
Proof. rewrite logout_signed_string_spec, signature_input_string_spec. reflexivity. Qed.

(* ================================================================ the queries built by the two flows *)
Definition qs_base (relay b64 : string) (q0 : values) : values :=
  let qs := values_add p_SAMLRequest b64 q0 in
  if relay =?s "" then qs else values_add p_RelayState relay qs.

Definition qs_signed (relay b64 alg sig64 : string) (q0 : values) : values :=
  values_add p_Signature sig64 (values_add p_SigAlg alg (qs_base relay b64 q0)).

Lemma qs_base_wf relay b64 q0 : values_wf q0 -> values_wf (qs_base relay b64 q0).
Proof. intros W. unfold qs_base. destruct (relay =?s ""); repeat apply values_wf_add; exact W. Qed.

Lemma qs_signed_wf relay b64 alg s q0 : values_wf q0 -> values_wf (qs_signed relay b64 alg s q0).
Proof. intros W. unfold qs_signed. repeat apply values_wf_add. apply qs_base_wf, W. Qed.

(* what each flow adds to parameter k *)
Definition added_base (k relay b64 : string) : list string :=
  ((if p_SAMLRequest =?s k then [b64] else []) ++
   (if relay =?s "" then [] else if p_RelayState =?s k then [relay] else []))%list.

Definition added_signed (k relay b64 alg sig64 : string) : list string :=
  (added_base k relay b64 ++ (if p_SigAlg =?s k then [alg] else []) ++ (if p_Signature =?s k then [sig64] else []))%list.

Lemma qs_base_lookup k relay b64 q0 :
  values_lookup k (qs_base relay b64 q0) = (values_lookup k q0 ++ added_base k relay b64)%list.
Proof.
  unfold qs_base, added_base. destruct (relay =?s "").
  - rewrite values_lookup_add. destruct (p_SAMLRequest =?s k); rewrite ?app_nil_r; reflexivity.
  - rewrite !values_lookup_add. destruct (p_SAMLRequest =?s k), (p_RelayState =?s k); cbn [app]; rewrite ?app_nil_r, <- ?app_assoc; reflexivity.
Qed.

Lemma qs_signed_lookup k relay b64 alg s q0 :
  values_lookup k (qs_signed relay b64 alg s q0) = (values_lookup k q0 ++ added_signed k relay b64 alg s)%list.
Proof.
  unfold qs_signed, added_signed. rewrite !values_lookup_add, qs_base_lookup.
  destruct (p_SigAlg =?s k), (p_Signature =?s k); cbn [app]; rewrite ?app_nil_r, <- ?app_assoc; cbn [app]; reflexivity.
Qed.

Lemma added_base_other k relay b64 : ~ In k saml_params -> added_base k relay b64 = [].
Proof.
  intros N. unfold added_base.
  destruct (p_SAMLRequest =?s k) eqn:E1; [apply String.eqb_eq in E1; exfalso; apply N; subst; cbn; auto|].
  destruct (p_RelayState =?s k) eqn:E2; [apply String.eqb_eq in E2; exfalso; apply N; subst; cbn; auto|].
  destruct (relay =?s ""); reflexivity.
Qed.

Lemma added_signed_other k relay b64 alg s : ~ In k saml_params -> added_signed k relay b64 alg s = [].
Proof.
  intros N. unfold added_signed. rewrite added_base_other by exact N.
  destruct (p_SigAlg =?s k) eqn:E1; [apply String.eqb_eq in E1; exfalso; apply N; subst; cbn; auto|].
  destruct (p_Signature =?s k) eqn:E2; [apply String.eqb_eq in E2; exfalso; apply N; subst; cbn; auto|].
  reflexivity.
Qed.

Definition no_saml_params (q0 : values) : Prop := forall k, In k saml_params -> ~ In k (values_keys q0).

Lemma no_saml_lookup q0 k : no_saml_params q0 -> In k saml_params -> values_lookup k q0 = [].
Proof. intros H I. apply values_lookup_absent, H, I. Qed.

Section Flows.
  Variable sign : hash_alg -> string -> option string.

  Definition cfg_hash (cfg : redirect_config) := context_hash (rc_key_alg cfg) (rc_algorithm cfg).
  Definition cfg_ident (cfg : redirect_config) := signature_method_identifier (rc_key_alg cfg) (cfg_hash cfg).

  (* inversion of a successful run of either flow: unsigned, or signed with the recorded message *)
  Lemma auth_query_inv cfg relay binding deflated q0 qs signed :
    auth_query sign cfg relay binding deflated q0 = Ok (qs, signed) ->
    let b64 := base64_encode deflated in
    (rc_sign_authn_requests cfg && (binding =?s c_BindingHttpRedirect) = false /\
     qs = qs_base relay b64 q0 /\ signed = None)
    \/
    (rc_sign_authn_requests cfg && (binding =?s c_BindingHttpRedirect) = true /\
     exists raw,
       let qs3 := values_add p_SigAlg (cfg_ident cfg) (qs_base relay b64 q0) in
       let msg := signature_input_string (values_get p_SAMLRequest qs3) (values_get p_RelayState qs3) (values_get p_SigAlg qs3) in
       sign (cfg_hash cfg) msg = Some raw /\
       qs = qs_signed relay b64 (cfg_ident cfg) (base64_encode raw) q0 /\
       signed = Some (cfg_hash cfg, msg)).
  Proof.
    unfold auth_query. fold (qs_base relay (base64_encode deflated) q0). fold (cfg_hash cfg). fold (cfg_ident cfg).
    destruct (rc_sign_authn_requests cfg && (binding =?s c_BindingHttpRedirect)).
    - cbv zeta. destruct (sign (cfg_hash cfg) _) as [raw|] eqn:ES; [|discriminate].
      intros [= <- <-]. right. split; [reflexivity|]. exists raw. cbv zeta. repeat split; try exact ES.
    - intros [= <- <-]. left. repeat split.
  Qed.

  Lemma logout_query_inv cfg relay binding deflated q0 qs signed :
    logout_query sign cfg relay binding deflated q0 = Ok (qs, signed) ->
    let b64 := base64_encode deflated in
    ((binding =?s c_BindingHttpRedirect) = false /\ qs = qs_base relay b64 q0 /\ signed = None)
    \/
    ((binding =?s c_BindingHttpRedirect) = true /\
     exists raw,
       let msg := logout_signed_string b64 relay (cfg_ident cfg) in
       sign (cfg_hash cfg) msg = Some raw /\
       qs = qs_signed relay b64 (cfg_ident cfg) (base64_encode raw) q0 /\
       signed = Some (cfg_hash cfg, msg)).
  Proof.
    unfold logout_query. fold (qs_base relay (base64_encode deflated) q0). fold (cfg_hash cfg). fold (cfg_ident cfg).
    destruct (binding =?s c_BindingHttpRedirect).
    - cbv zeta. destruct (sign (cfg_hash cfg) _) as [raw|] eqn:ES; [|discriminate].
      intros [= <- <-]. right. split; [reflexivity|]. exists raw. cbv zeta. repeat split; try exact ES.
    - intros [= <- <-]. left. repeat split.
  Qed.

  (* under the premise, Get returns the values just added *)
  Lemma gets_under_premise relay b64 alg q0 :
    no_saml_params q0 ->
    let qs3 := values_add p_SigAlg alg (qs_base relay b64 q0) in
    values_get p_SAMLRequest qs3 = b64 /\ values_get p_RelayState qs3 = relay /\ values_get p_SigAlg qs3 = alg.
  Proof.
    intros P qs3. unfold values_get, qs3. clear qs3. rewrite !values_lookup_add, !qs_base_lookup.
    rewrite !(no_saml_lookup q0) by (exact P || (cbn; auto)).
    unfold added_base. cbn [app].
    change (p_SigAlg =?s p_SAMLRequest) with false. change (p_SigAlg =?s p_RelayState) with false.
    change (p_SigAlg =?s p_SigAlg) with true. change (p_SAMLRequest =?s p_SAMLRequest) with true.
    change (p_SAMLRequest =?s p_RelayState) with false. change (p_RelayState =?s p_RelayState) with true.
    change (p_SAMLRequest =?s p_SigAlg) with false. change (p_RelayState =?s p_SigAlg) with false.
    change (p_RelayState =?s p_SAMLRequest) with false.
    cbn [app]. split; [|split].
    - destruct (relay =?s ""); reflexivity.
    - destruct (relay =?s "") eqn:E; [apply String.eqb_eq in E; subst; reflexivity | reflexivity].
    - destruct (relay =?s ""); reflexivity.
  Qed.
End Flows.

(* ================================================================ reading the produced query back *)
Lemma relay_opt_none relay : relay_opt relay = None <-> relay = "".
Proof.
  unfold relay_opt. destruct (relay =?s "") eqn:E.
  - apply String.eqb_eq in E. tauto.
  - apply String.eqb_neq in E. split; [discriminate | contradiction].
Qed.

Lemma url_values_of_key k m :
  values_wf m -> url_values (query_escape k) (values_encode m) = map query_escape (values_lookup k m).
Proof. apply url_values_encode. Qed.

Lemma signed_readback relay b64 alg s q0 :
  values_wf q0 -> no_saml_params q0 ->
  let rawq := values_encode (qs_signed relay b64 alg s q0) in
  url_values "SAMLRequest" rawq = [query_escape b64] /\
  url_values "RelayState" rawq = opt_list (relay_opt relay) /\
  url_values "SigAlg" rawq = [query_escape alg] /\
  url_values "Signature" rawq = [query_escape s].
Proof.
  intros W P rawq. unfold rawq. clear rawq.
  pose proof (qs_signed_wf relay b64 alg s q0 W) as W'.
  rewrite <- qe_SAMLRequest, <- qe_RelayState, <- qe_SigAlg, <- qe_Signature.
  rewrite !url_values_encode by exact W'. rewrite !qs_signed_lookup.
  rewrite !(no_saml_lookup q0) by (exact P || (cbn; auto)).
  unfold added_signed, added_base, relay_opt. cbn [app].
  repeat split; destruct (relay =?s ""); reflexivity.
Qed.

Lemma base_readback relay b64 q0 :
  values_wf q0 -> no_saml_params q0 ->
  let rawq := values_encode (qs_base relay b64 q0) in
  url_values "SAMLRequest" rawq = [query_escape b64] /\
  url_values "RelayState" rawq = opt_list (relay_opt relay) /\
  url_values "SigAlg" rawq = [] /\
  url_values "Signature" rawq = [].
Proof.
  intros W P rawq. unfold rawq. clear rawq.
  pose proof (qs_base_wf relay b64 q0 W) as W'.
  rewrite <- qe_SAMLRequest, <- qe_RelayState, <- qe_SigAlg, <- qe_Signature.
  rewrite !url_values_encode by exact W'. rewrite !qs_base_lookup.
  rewrite !(no_saml_lookup q0) by (exact P || (cbn; auto)).
  unfold added_base, relay_opt. cbn [app].
  repeat split; destruct (relay =?s ""); reflexivity.
Qed.

Lemma url_values_nonempty k q : url_values k q <> [] -> nonempty q = true.
Proof. destruct q; [intros H; exfalso; apply H; reflexivity | reflexivity]. Qed.

(* every parameter of the IdP URL keeps its values, in order, in front of whatever the flow adds *)
Lemma base_keeps k relay b64 q0 :
  values_wf q0 ->
  url_values (query_escape k) (values_encode (qs_base relay b64 q0))
  = (map query_escape (values_lookup k q0) ++ map query_escape (added_base k relay b64))%list.
Proof. intros W. rewrite url_values_encode by (apply qs_base_wf, W). rewrite qs_base_lookup, map_app. reflexivity. Qed.

Lemma signed_keeps k relay b64 alg s q0 :
  values_wf q0 ->
  url_values (query_escape k) (values_encode (qs_signed relay b64 alg s q0))
  = (map query_escape (values_lookup k q0) ++ map query_escape (added_signed k relay b64 alg s))%list.
Proof. intros W. rewrite url_values_encode by (apply qs_signed_wf, W). rewrite qs_signed_lookup, map_app. reflexivity. Qed.

Section Theorems.
  Variable sign : hash_alg -> string -> option string.

  (* shape of a successful result of either flow *)
  Definition build (f : flow) := build_url sign f.

  Lemma url_string_nonempty u q : nonempty q = true -> url_string u q false = pu_prefix u ++ String (byte 63) q ++ pu_fragment u.
  Proof. intros H. unfold url_string. rewrite H. reflexivity. Qed.

  Lemma build_inv f cfg u relay binding deflated url signed :
    build f cfg (Some u) relay binding deflated = Ok (url, signed) ->
    let q0 := parse_query (pu_raw_query u) in
    let b64 := base64_encode deflated in
    exists qs,
      url = pu_prefix u ++ String (byte 63) (values_encode qs) ++ pu_fragment u /\
      ((signing_applies f cfg binding = false /\ qs = qs_base relay b64 q0 /\ signed = None)
       \/
       (signing_applies f cfg binding = true /\
        exists raw msg,
          sign (cfg_hash cfg) msg = Some raw /\
          qs = qs_signed relay b64 (cfg_ident cfg) (base64_encode raw) q0 /\
          signed = Some (cfg_hash cfg, msg) /\
          (no_saml_params q0 ->
           msg = octets_to_sign (query_escape b64) (relay_opt relay) (query_escape (cfg_ident cfg))))).
  Proof.
    intros H q0 b64.
    assert (NE : forall qs, (exists r, qs = qs_base relay b64 q0 \/ qs = qs_signed relay b64 (cfg_ident cfg) r q0) ->
                            nonempty (values_encode qs) = true).
    { intros qs [r Hq]. apply (url_values_nonempty (query_escape p_SAMLRequest)).
      destruct Hq as [-> | ->].
      - rewrite base_keeps by apply parse_query_wf. unfold added_base. change (p_SAMLRequest =?s p_SAMLRequest) with true.
        cbn [app map]. intros E. apply app_eq_nil in E as [_ E]. discriminate.
      - rewrite signed_keeps by apply parse_query_wf. unfold added_signed, added_base. change (p_SAMLRequest =?s p_SAMLRequest) with true.
        cbn [app map]. intros E. apply app_eq_nil in E as [_ E]. discriminate. }
    destruct f; unfold build in H; cbn [build_url] in H; unfold build_auth_url, build_logout_url, bind in H.
    - destruct (auth_query sign cfg relay binding deflated (parse_query (pu_raw_query u))) as [[qs sg]|e] eqn:EQ; [|discriminate].
      cbn [fst snd] in H. injection H as <- <-. exists qs.
      apply auth_query_inv in EQ. cbv zeta in EQ. fold q0 b64 in EQ.
      destruct EQ as [(E1 & -> & ->) | (E1 & raw & ES & -> & ->)].
      + split; [apply url_string_nonempty, NE; exists ""; left; reflexivity|]. left. cbn [signing_applies]. auto.
      + split; [apply url_string_nonempty, NE; exists (base64_encode raw); right; reflexivity|]. right.
        cbn [signing_applies]. split; [exact E1|]. eexists raw, _. split; [exact ES|]. split; [reflexivity|]. split; [reflexivity|].
        intros P. destruct (gets_under_premise relay b64 (cfg_ident cfg) q0 P) as (G1 & G2 & G3). cbv zeta in G1, G2, G3.
        rewrite G1, G2, G3. apply signature_input_string_spec.
    - destruct (logout_query sign cfg relay binding deflated (parse_query (pu_raw_query u))) as [[qs sg]|e] eqn:EQ; [|discriminate].
      cbn [fst snd] in H. injection H as <- <-. exists qs.
      apply logout_query_inv in EQ. cbv zeta in EQ. fold q0 b64 in EQ.
      destruct EQ as [(E1 & -> & ->) | (E1 & raw & ES & -> & ->)].
      + split; [apply url_string_nonempty, NE; exists ""; left; reflexivity|]. left. cbn [signing_applies andb]. auto.
      + split; [apply url_string_nonempty, NE; exists (base64_encode raw); right; reflexivity|]. right.
        cbn [signing_applies andb]. split; [exact E1|]. eexists raw, _. split; [exact ES|]. split; [reflexivity|]. split; [reflexivity|].
        intros _. apply logout_signed_string_spec.
  Qed.
End Theorems.

(* ================================================================ the C14 theorems *)
Section C14.
  Variable sign : hash_alg -> string -> option string.

  Definition no_saml_in (u : parsed_url) : Prop :=
    forall k, In k saml_params -> ~ In k (values_keys (parse_query (pu_raw_query u))).

  (* 1. the octets that are signed are cut out of the URL itself *)
  Theorem signed_octets_are_url_octets f cfg u relay binding deflated url signed :
    signing_applies f cfg binding = true ->
    no_saml_in u ->
    build_url sign f cfg (Some u) relay binding deflated = Ok (url, signed) ->
    exists rawq v1 v2 v3 v4 h raw,
      url = pu_prefix u ++ "?" ++ rawq ++ pu_fragment u /\
      url_values "SAMLRequest" rawq = [v1] /\
      url_values "RelayState" rawq = opt_list v2 /\
      url_values "SigAlg" rawq = [v3] /\
      url_values "Signature" rawq = [v4] /\
      signed = Some (h, octets_to_sign v1 v2 v3) /\
      sign h (octets_to_sign v1 v2 v3) = Some raw /\
      query_unescape v4 = Some (base64_encode raw).
  Proof.
    intros SA P H. apply (build_inv sign) in H. cbv zeta in H. destruct H as (qs & -> & H).
    destruct H as [(E & _) | (_ & raw & msg & ES & -> & -> & Hm)]; [congruence|].
    specialize (Hm P). subst msg.
    destruct (signed_readback relay (base64_encode deflated) (cfg_ident cfg) (base64_encode raw) _ (parse_query_wf _) P)
      as (R1 & R2 & R3 & R4).
    cbv zeta in R1, R2, R3, R4.
    eexists _, _, _, _, _, _, raw. split; [reflexivity|].
    split; [exact R1|]. split; [exact R2|]. split; [exact R3|]. split; [exact R4|].
    split; [reflexivity|]. split; [exact ES|]. apply query_unescape_escape.
  Qed.

  (* 2. RelayState is present exactly when the relay state is not empty *)
  Theorem relay_present_iff_nonempty f cfg u relay binding deflated url signed :
    ~ In "RelayState" (values_keys (parse_query (pu_raw_query u))) ->
    build_url sign f cfg (Some u) relay binding deflated = Ok (url, signed) ->
    exists rawq,
      url = pu_prefix u ++ "?" ++ rawq ++ pu_fragment u /\
      (url_values "RelayState" rawq = [] <-> relay = "") /\
      (relay <> "" -> url_values "RelayState" rawq = [query_escape relay]).
  Proof.
    intros P H. apply (build_inv sign) in H. cbv zeta in H. destruct H as (qs & -> & H).
    eexists. split; [reflexivity|].
    assert (L : values_lookup p_RelayState (parse_query (pu_raw_query u)) = []) by (apply values_lookup_absent, P).
    assert (R : url_values "RelayState" (values_encode qs) = opt_list (relay_opt relay)).
    { change "RelayState" with (query_escape p_RelayState).
      destruct H as [(_ & -> & _) | (_ & raw & msg & _ & -> & _)].
      - rewrite base_keeps by apply parse_query_wf. rewrite L. unfold added_base, relay_opt. cbn [app map].
        change (p_SAMLRequest =?s p_RelayState) with false. change (p_RelayState =?s p_RelayState) with true.
        destruct (relay =?s ""); reflexivity.
      - rewrite signed_keeps by apply parse_query_wf. rewrite L. unfold added_signed, added_base, relay_opt. cbn [app map].
        change (p_SAMLRequest =?s p_RelayState) with false. change (p_RelayState =?s p_RelayState) with true.
        change (p_SigAlg =?s p_RelayState) with false. change (p_Signature =?s p_RelayState) with false.
        destruct (relay =?s ""); reflexivity. }
    rewrite R. unfold relay_opt. destruct (relay =?s "") eqn:E.
    - apply String.eqb_eq in E. subst. cbn [opt_list]. split; [tauto | congruence].
    - apply String.eqb_neq in E. cbn [opt_list]. split; [split; [discriminate | contradiction] | reflexivity].
  Qed.

  (* 3. the relay state and the request are recovered from the URL *)
  Theorem relay_and_request_recovered f cfg u relay binding deflated url signed :
    no_saml_in u ->
    build_url sign f cfg (Some u) relay binding deflated = Ok (url, signed) ->
    exists rawq v1 b64,
      url = pu_prefix u ++ "?" ++ rawq ++ pu_fragment u /\
      url_values "SAMLRequest" rawq = [v1] /\
      query_unescape v1 = Some b64 /\ base64_decode b64 = Some deflated /\
      (relay = "" -> url_values "RelayState" rawq = []) /\
      (relay <> "" -> exists v2, url_values "RelayState" rawq = [v2] /\ query_unescape v2 = Some relay).
  Proof.
    intros P H. apply (build_inv sign) in H. cbv zeta in H. destruct H as (qs & -> & H).
    assert (R : url_values "SAMLRequest" (values_encode qs) = [query_escape (base64_encode deflated)] /\
                url_values "RelayState" (values_encode qs) = opt_list (relay_opt relay)).
    { destruct H as [(_ & -> & _) | (_ & raw & msg & _ & -> & _)].
      - destruct (base_readback relay (base64_encode deflated) _ (parse_query_wf _) P) as (R1 & R2 & _). auto.
      - destruct (signed_readback relay (base64_encode deflated) (cfg_ident cfg) (base64_encode raw) _ (parse_query_wf _) P) as (R1 & R2 & _). auto. }
    destruct R as (R1 & R2).
    eexists _, _, _. split; [reflexivity|]. split; [exact R1|].
    split; [apply query_unescape_escape|]. split; [apply base64_decode_encode|].
    rewrite R2. unfold relay_opt. split.
    - intros ->. reflexivity.
    - intros N. apply String.eqb_neq in N. rewrite N. eexists. split; [reflexivity | apply query_unescape_escape].
  Qed.

  (* 4. the endpoint and every parameter the IdP URL already had are kept *)
  Theorem existing_params_kept f cfg u relay binding deflated url signed :
    build_url sign f cfg (Some u) relay binding deflated = Ok (url, signed) ->
    exists rawq,
      url = pu_prefix u ++ "?" ++ rawq ++ pu_fragment u /\
      forall k, exists extra,
        url_values (query_escape k) rawq
        = (map query_escape (values_lookup k (parse_query (pu_raw_query u))) ++ extra)%list /\
        (~ In k saml_params -> extra = []).
  Proof.
    intros H. apply (build_inv sign) in H. cbv zeta in H. destruct H as (qs & -> & H).
    eexists. split; [reflexivity|]. intros k.
    destruct H as [(_ & -> & _) | (_ & raw & msg & _ & -> & _)].
    - eexists. split; [apply base_keeps, parse_query_wf|]. intros N. rewrite added_base_other by exact N. reflexivity.
    - eexists. split; [apply signed_keeps, parse_query_wf|]. intros N. rewrite added_signed_other by exact N. reflexivity.
  Qed.

  (* goxmldsig's table: an identifier maps to (key type, hash) and back *)
  Lemma method_table_roundtrip id k h :
    method_by_identifier id = Some (k, h) -> signature_method_identifier k h = id.
  Proof.
    unfold method_by_identifier. destruct (find _ signature_method_identifiers) as [[[k' h'] id']|] eqn:F; [|discriminate].
    intros [= -> ->]. apply find_some in F as [I E]. cbn [snd] in E. apply String.eqb_eq in E. subst id'.
    cbn [signature_method_identifiers In] in I.
    repeat (destruct I as [I|I]; [injection I as <- <- <-; reflexivity|]). destruct I.
  Qed.

  (* 5. SigAlg names the algorithm the signer was run with; no SigAlg/Signature when signing does not apply *)
  Theorem sigalg_names_algorithm f cfg u relay binding deflated url signed :
    no_saml_in u ->
    build_url sign f cfg (Some u) relay binding deflated = Ok (url, signed) ->
    exists rawq,
      url = pu_prefix u ++ "?" ++ rawq ++ pu_fragment u /\
      (signing_applies f cfg binding = false ->
       signed = None /\ url_values "SigAlg" rawq = [] /\ url_values "Signature" rawq = []) /\
      (signing_applies f cfg binding = true ->
       exists h msg raw v3,
         signed = Some (h, msg) /\ sign h msg = Some raw /\
         url_values "SigAlg" rawq = [v3] /\
         query_unescape v3 = Some (signature_method_identifier (rc_key_alg cfg) h) /\
         (forall h', method_by_identifier (rc_algorithm cfg) = Some (rc_key_alg cfg, h') ->
                     h = h' /\ signature_method_identifier (rc_key_alg cfg) h = rc_algorithm cfg) /\
         (method_by_identifier (rc_algorithm cfg) = None -> h = SHA256)).
  Proof.
    intros P H. apply (build_inv sign) in H. cbv zeta in H. destruct H as (qs & -> & H).
    eexists. split; [reflexivity|].
    destruct H as [(E & -> & ->) | (E & raw & msg & ES & -> & -> & _)].
    - split; [|congruence]. intros _.
      destruct (base_readback relay (base64_encode deflated) _ (parse_query_wf _) P) as (_ & _ & R3 & R4). auto.
    - split; [congruence|]. intros _.
      destruct (signed_readback relay (base64_encode deflated) (cfg_ident cfg) (base64_encode raw) _ (parse_query_wf _) P) as (_ & _ & R3 & _).
      exists (cfg_hash cfg), msg, raw. eexists. split; [reflexivity|]. split; [exact ES|]. split; [exact R3|].
      split; [apply query_unescape_escape|]. unfold cfg_hash, context_hash. split.
      + intros h' M. rewrite M. replace (key_alg_eqb (rc_key_alg cfg) (rc_key_alg cfg)) with true by (destruct (rc_key_alg cfg); reflexivity).
        split; [reflexivity|]. apply method_table_roundtrip, M.
      + intros M. rewrite M. reflexivity.
  Qed.
End C14.

(* ================================================================ non-vacuity and the refuted variant *)
Definition ex_sign : hash_alg -> string -> option string := fun _ m => Some ("sig:" ++ m).
Definition ex_cfg := {| rc_sign_authn_requests := true; rc_algorithm := "http://www.w3.org/2001/04/xmldsig-more#rsa-sha512"; rc_key_alg := KRSA |}.
Definition ex_url := {| pu_prefix := "https://idp.example.com/sso"; pu_raw_query := "z=1&a=x+y"; pu_fragment := "#f" |}.

Example c14_nonvacuous :
  build_auth_url_redirect ex_sign ex_cfg (Some ex_url) "a b&c" "DEFLATED"
  = Ok ("https://idp.example.com/sso?RelayState=a+b%26c&SAMLRequest=REVGTEFURUQ%3D&SigAlg=http%3A%2F%2Fwww.w3.org%2F2001%2F04%2Fxmldsig-more%23rsa-sha512&Signature=c2lnOlNBTUxSZXF1ZXN0PVJFVkdURUZVUlVRJTNEJlJlbGF5U3RhdGU9YStiJTI2YyZTaWdBbGc9aHR0cCUzQSUyRiUyRnd3dy53My5vcmclMkYyMDAxJTJGMDQlMkZ4bWxkc2lnLW1vcmUlMjNyc2Etc2hhNTEy&a=x+y&z=1#f",
        Some (SHA512, "SAMLRequest=REVGTEFURUQ%3D&RelayState=a+b%26c&SigAlg=http%3A%2F%2Fwww.w3.org%2F2001%2F04%2Fxmldsig-more%23rsa-sha512"))
  /\ no_saml_in ex_url.
Proof.
  split; [vm_compute; reflexivity|].
  intros k I. vm_compute in I. vm_compute. intros [E|[E|[]]]; subst k; repeat (destruct I as [I|I]; [discriminate I|]); destruct I.
Qed.

(* When the IdP URL itself carries a parameter named SAMLRequest, qs.Get returns the FIRST value — the IdP
   URL's own — so the AuthnRequest flow signs octets that do not contain the request it sends. *)
Definition shadow_url := {| pu_prefix := "https://idp.example.com/sso"; pu_raw_query := "SAMLRequest=evil"; pu_fragment := "" |}.

Lemma signed_octets_shadowed_refuted :
  exists url h msg rawq,
    build_auth_url_redirect ex_sign ex_cfg (Some shadow_url) "" "DEFLATED" = Ok (url, Some (h, msg)) /\
    url = pu_prefix shadow_url ++ "?" ++ rawq /\
    url_values "SAMLRequest" rawq = ["evil"; "REVGTEFURUQ%3D"] /\
    msg = octets_to_sign "evil" None "http%3A%2F%2Fwww.w3.org%2F2001%2F04%2Fxmldsig-more%23rsa-sha512" /\
    query_unescape "REVGTEFURUQ%3D" = Some (base64_encode "DEFLATED").
Proof. eexists _, _, _, _. vm_compute. repeat split. Qed.

(* the logout flow signs the value it adds, whatever the IdP URL carries *)
Lemma logout_shadowed_signs_own_value :
  exists url h rawq,
    build_logout_url_redirect ex_sign ex_cfg (Some shadow_url) "" "DEFLATED"
    = Ok (url, Some (h, octets_to_sign "REVGTEFURUQ%3D" None "http%3A%2F%2Fwww.w3.org%2F2001%2F04%2Fxmldsig-more%23rsa-sha512")) /\
    url = pu_prefix shadow_url ++ "?" ++ rawq /\
    url_values "SAMLRequest" rawq = ["evil"; "REVGTEFURUQ%3D"].
Proof. eexists _, _, _. vm_compute. repeat split. Qed.

(* a malformed pair of the IdP URL's query is dropped by net/url (URL.Query ignores ParseQuery's error) *)
Example malformed_existing_param_dropped :
  parse_query "x=%zz&ok=1&a;b=2" = [("ok", ["1"])].
Proof. vm_compute. reflexivity. Qed.
