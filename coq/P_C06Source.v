(* P_C06Source.v — C06's invariance theorems restated on the function TRANSLATED from /repo's validate.go
   (GenFuncs.v, regenerated on every run), through the unit's equation G_VerifyAssertionConditions_eq. *)
From V Require Import Base Time Types SchemaDefs ConcDefs Generated Profile P_Profile P_C06.
From V Require Import GenPrelude GenFuncs P_GenFuncs.

Lemma source_ok_inv cfg now a w :
  G_VerifyAssertionConditions cfg now a = PVal (Ok (Some w)) -> verify_conditions cfg now a = Ok w.
Proof.
  rewrite G_VerifyAssertionConditions_eq. intros H. inversion H as [H'].
  destruct (verify_conditions cfg now a) as [w'|e]; cbn [res_some] in H'; [inversion H'; reflexivity | discriminate H'].
Qed.

Lemma source_non_time_warnings_clock_independent cfg now1 now2 a w1 w2 :
  G_VerifyAssertionConditions cfg now1 a = PVal (Ok (Some w1)) ->
  G_VerifyAssertionConditions cfg now2 a = PVal (Ok (Some w2)) ->
  w_not_in_audience w1 = w_not_in_audience w2 /\ w_one_time_use w1 = w_one_time_use w2 /\
  w_proxy_restriction w1 = w_proxy_restriction w2.
Proof.
  intros H1 H2. eapply non_time_warnings_clock_independent; apply source_ok_inv; eassumption.
Qed.

Lemma source_audience_warning_depends_on_member_sets_only cfg now1 now2 a1 a2 w1 w2 c1 c2 :
  G_VerifyAssertionConditions cfg now1 a1 = PVal (Ok (Some w1)) ->
  G_VerifyAssertionConditions cfg now2 a2 = PVal (Ok (Some w2)) ->
  a_conditions a1 = Some c1 -> a_conditions a2 = Some c2 ->
  covers (c_audience_restrictions c1) (c_audience_restrictions c2) ->
  covers (c_audience_restrictions c2) (c_audience_restrictions c1) ->
  w_not_in_audience w1 = w_not_in_audience w2.
Proof.
  intros H1 H2. apply source_ok_inv in H1. apply source_ok_inv in H2.
  eapply audience_warning_depends_on_member_sets_only; eassumption.
Qed.
