(* Dsig.v — executable model of goxmldsig v1.5.0  ValidationContext.Validate  (validate.go), the layer below the
   signature oracle [dsig] of Response.v.  The dependency is PINNED by /repo's go.mod (github.com/russellhaering/goxmldsig
   v1.5.0); its constants are therefore written by hand here (like Ns.traversal_limit) and pinned by the correspondence run.

   Modelled, statement by statement (Go function named at each definition):
     validate.go      Validate, findSignature (incl. validateShape, the in-place replacement of SignedInfo by its canonical
                      preparation, NSUnmarshalElement into types.Signature, the Reference-URI test against the root's ID
                      attribute), verifyCertificate, validateSignature (getCanonicalSignedInfo, signature-method table,
                      base64, re-unmarshal of the canonical SignedInfo bytes, choice of the reference -- see
                      [pick_reference]: goxmldsig's go.mod says go 1.21, so the loop variable is shared and the LAST
                      reference of the list is used as soon as ANY reference matches --, transform incl. mapPathToElement /
                      removeElementAtPath, digest comparison, re-parse of the verified bytes)
     canonicalize.go  canonicalPrep (tree level, used for the replacement of SignedInfo)
     etreeutils/      NSTraverse / NSFindIterate with the shared traversal limit AND early halt AND the handler's mutation of
                      the tree ([mtraverse]; Ns.traverse has neither halt nor mutation), NSIterateChildren /
                      NSFindChildrenIterateCtx / NSFindOneChildCtx (which consume the same limit), NSDetatch incl.
                      sort.Sort(SortedAttrs) (insertion sort = Go's sort for <= 12 elements), NSBuildParentContext,
                      TransformExcC14n (tree level), SortedAttrs.Less
     types/           the struct tags of types.Signature & co. as a hand-written Schema.v schema ([dsig_schema]);
                      the harness compares it with the real struct tags by reflection on every run
   ORACLES (Section variables, never axioms):
     canon      : the goxmldsig canonicalisers  Canonicalizer.Canonicalize  on a parentless element
     digest     : crypto hash selected by DigestMethod/@Algorithm (None = unknown identifier)
     sig_ok     : x509.Certificate.CheckSignature for a known SignatureMethod identifier
     parse_cert : x509.ParseCertificate on DER bytes
     reparse    : etree.Document.ReadFromBytes + Root (None = error or no root); ALSO used for the xml.Unmarshal of the
                  canonical SignedInfo bytes (reparse, then the same schema interpreter)
   Laws relied on by the MODEL (not by the theorems), all exercised by every correspondence case:
     - H_unmarshal_view (Schema.v): tokenising etree's serialisation of a tree yields that tree's tokens;
     - canonicalSerialize (prep x) = Canonicalize x for the four SignedInfo preparations (canonicalize.go:71-77,107-109
       against validate.go:417-440: the very same calls), so that the bytes of the REPLACED SignedInfo are [canon] of the
       detached one;
     - etree index fields are consistent with positions (ReadFromBytes, Copy and etree's own mutators keep them so). *)
From V Require Import Base Time Escape Xml Ns SchemaDefs Schema Types ConcDefs Generated Decode Response.
Local Open Scope string_scope.
Local Open Scope list_scope.

(* ---------- constants of goxmldsig v1.5.0 (xml_constants.go) ---------- *)
(* ds_ns (dsig.Namespace): Ns.v *)
Definition exc_ns := "http://www.w3.org/2001/10/xml-exc-c14n#".
Definition alg_exc := "http://www.w3.org/2001/10/xml-exc-c14n#".
Definition alg_exc_wc := "http://www.w3.org/2001/10/xml-exc-c14n#WithComments".
Definition alg_c11 := "http://www.w3.org/2006/12/xml-c14n11".
Definition alg_c11_wc := "http://www.w3.org/2006/12/xml-c14n11#WithComments".
Definition alg_rec := "http://www.w3.org/TR/2001/REC-xml-c14n-20010315".
Definition alg_rec_wc := "http://www.w3.org/TR/2001/REC-xml-c14n-20010315#WithComments".
Definition alg_enveloped := "http://www.w3.org/2000/09/xmldsig#enveloped-signature".
Definition default_id_attr := "ID".
(* keys of x509SignatureAlgorithmByIdentifier *)
Definition known_sig_methods : list string :=
  [ "http://www.w3.org/2000/09/xmldsig#rsa-sha1"; "http://www.w3.org/2001/04/xmldsig-more#rsa-sha256";
    "http://www.w3.org/2001/04/xmldsig-more#rsa-sha384"; "http://www.w3.org/2001/04/xmldsig-more#rsa-sha512";
    "http://www.w3.org/2001/04/xmldsig-more#ecdsa-sha1"; "http://www.w3.org/2001/04/xmldsig-more#ecdsa-sha256";
    "http://www.w3.org/2001/04/xmldsig-more#ecdsa-sha384"; "http://www.w3.org/2001/04/xmldsig-more#ecdsa-sha512" ].
Definition mem_str (s : string) (l : list string) : bool := existsb (fun x => x =?s s) l.

(* ---------- oracle vocabulary ---------- *)
Record cert := { c_der : string; c_not_before : instant; c_not_after : instant }.
Inductive canon_alg :=
| CExc (prefix_list : string) (comments : bool)   (* MakeC14N10Exclusive[WithComments]CanonicalizerWithPrefixList *)
| C11 (comments : bool)                           (* MakeC14N11[WithComments]Canonicalizer *)
| CRec (comments : bool)                          (* MakeC14N10RecCanonicalizer / MakeC14N10WithCommentsCanonicalizer *)
| CNull.                                          (* MakeNullCanonicalizer *)
Definition canon_alg_eqb (a b : canon_alg) : bool :=
  match a, b with
  | CExc p1 c1, CExc p2 c2 => (p1 =?s p2) && Bool.eqb c1 c2
  | C11 c1, C11 c2 => Bool.eqb c1 c2
  | CRec c1, CRec c2 => Bool.eqb c1 c2
  | CNull, CNull => true
  | _, _ => false
  end.

(* ================================================================ etreeutils/sort.go *)
Definition is_default_decl (a : attr) : bool := (at_space a =?s "") && (at_key a =?s "xmlns").
Definition zero_attr : attr := {| at_space := ""; at_key := ""; at_val := "" |}.
(* "for n := range a { if a[i].Space == a[n].Key { leftNS = a[n] } }": the LAST attribute (of any kind) whose Key is the prefix *)
Definition ns_attr_for (whole : list attr) (prefix : string) : attr :=
  fold_left (fun acc n => if prefix =?s at_key n then n else acc) whole zero_attr.

(* SortedAttrs.Less(i, j) with x = a[i], y = a[j] and [whole] the slice in its current order *)
Definition attr_less (whole : list attr) (x y : attr) : bool :=
  if is_default_decl y then false
  else if is_default_decl x then true
  else if at_space x =?s "xmlns" then
    (if at_space y =?s "xmlns" then String.ltb (at_key x) (at_key y) else true)
  else if at_space y =?s "xmlns" then false
  else if at_space x =?s "" then
    (if at_space y =?s "" then String.ltb (at_key x) (at_key y) else true)
  else if at_space y =?s "" then false
  else if at_space x =?s at_space y then String.ltb (at_key x) (at_key y)
  else if at_key x =?s at_key y then
    String.ltb (at_val (ns_attr_for whole (at_space x))) (at_val (ns_attr_for whole (at_space y)))
  else String.ltb (at_key x) (at_key y).

(* sort.Sort on a slice of length <= 12 is insertionSort (sort/zsortinterface.go, pdqsort: "if length <= maxInsertion"):
     for i := a + 1; i < b; i++ { for j := i; j > a && data.Less(j, j-1); j-- { data.Swap(j, j-1) } }
   Longer slices go through pdqsort, which yields the same result whenever Less is a strict total order on the slice. *)
Fixpoint swap_with_prev (l : list attr) (j : nat) : list attr :=     (* Swap(j, j-1), j >= 1 *)
  match j, l with
  | 1%nat, a :: b :: r => b :: a :: r
  | S j', a :: r => a :: swap_with_prev r j'
  | _, _ => l
  end.
Fixpoint sink (l : list attr) (j : nat) : list attr :=
  match j with
  | O => l
  | S j' => if attr_less l (nth j l zero_attr) (nth j' l zero_attr) then sink (swap_with_prev l j) j' else l
  end.
Definition sort_attrs (l : list attr) : list attr :=
  fold_left sink (seq 1 (List.length l - 1)) l.

(* ================================================================ etreeutils/namespace.go *)
(* NSDetatch, including the final sort.Sort(SortedAttrs(attrs)).  (Ns.detach leaves the order open.) *)
Definition detach_sorted (ctx : nsctx) (el : node) : res node :=
  do d <- detach ctx el;
  match d with
  | Elem sp tg attrs kids => Ok (Elem sp tg (sort_attrs attrs) kids)
  | other => Ok other
  end.

(* e_limit, e_undeclared, sub_ctx, find_child_loop, find_one_child (NSIterateChildren / NSFindOneChildCtx): now in Ns.v, shared with
   Response.v (gosaml2's validateElementSignature looks for an enveloped ds:Signature child with NSFindOneChild) *)

(* the node reached by a path of child-token indices (= P_Ns.subtree) *)
Fixpoint node_at (n : node) (p : list nat) : option node :=
  match p with
  | [] => Some n
  | i :: r => match nth_error (kids_of n) i with Some k => node_at k r | None => None end
  end.

(* NSBuildParentContext(el) for the element at [p] below [n]: the context of its PARENT (default context for the root) *)
Fixpoint parent_ctx (ctx : nsctx) (n : node) (p : list nat) : res nsctx :=
  match p with
  | [] => Ok ctx
  | i :: r =>
      do c' <- sub_ctx ctx (attrs_of n);
      match nth_error (kids_of n) i with
      | Some k => parent_ctx c' k r
      | None => Err (EOther "bad-path")
      end
  end.

(* ================================================================ canonicalize.go : canonicalPrep *)
Definition is_comment (n : node) : bool := match n with Comment _ => true | _ => false end.

(* the attribute filter of canonicalPrepInner over the SORTED attributes; [seen] = _seenSoFar (key "xmlns:"+prefix or "xmlns") *)
Fixpoint prep_attrs (attrs : list attr) (seen : list (string * string)) : list attr * list (string * string) :=
  match attrs with
  | [] => ([], seen)
  | a :: r =>
      if negb (at_space a =?s "xmlns") && negb (is_default_decl a) then
        let '(r', s') := prep_attrs r seen in (a :: r', s')
      else if at_space a =?s "xmlns" then
        let key := ("xmlns:" ++ at_key a)%string in
        match assoc_get key seen with
        | Some uri => if at_val a =?s uri then prep_attrs r seen
                      else let '(r', s') := prep_attrs r (assoc_set key (at_val a) seen) in (a :: r', s')
        | None => let '(r', s') := prep_attrs r (assoc_set key (at_val a) seen) in (a :: r', s')
        end
      else
        (* "if uri, seen := _seenSoFar[nsSpace]; (!seen && attr.Value != "") || attr.Value != uri" (uri = "" when unseen) *)
        let uri := match assoc_get "xmlns" seen with Some u => u | None => "" end in
        if negb (at_val a =?s uri) then
          let '(r', s') := prep_attrs r (assoc_set "xmlns" (at_val a) seen) in (a :: r', s')
        else prep_attrs r seen
  end.

(* canonicalPrepInner(el, seenSoFar, strip, comments): [strip] is not read by the Go code *)
Fixpoint canonical_prep (seen : list (string * string)) (comments : bool) (n : node) : node :=
  match n with
  | Elem sp tg attrs kids =>
      let '(attrs', seen') := prep_attrs (sort_attrs attrs) seen in
      Elem sp tg attrs'
           ((fix go (ks : list node) : list node :=
               match ks with
               | [] => []
               | k :: r => if negb comments && is_comment k then go r else canonical_prep seen' comments k :: go r
               end) kids)
  | other => other
  end.

(* ================================================================ etreeutils/canonicalize.go : TransformExcC14n *)
(* first loop of transformExcC14n: visibly utilised prefixes (Go: a map; here a list, the element's own prefix first) and
   the attributes that are not name-space declarations *)
Fixpoint exc_scan (attrs : list attr) (incl : list string) : list string * list attr :=
  match attrs with
  | [] => ([], [])
  | a :: r =>
      let '(vis, keep) := exc_scan r incl in
      if at_space a =?s "xmlns" then ((if mem_str (at_key a) incl then [at_key a] else []) ++ vis, keep)
      else if is_default_decl a then ((if mem_str "" incl then [""] else []) ++ vis, keep)
      else ((if at_space a =?s "" then [] else [at_space a]) ++ vis, a :: keep)
  end.

(* second loop: declare what is visibly utilised and not yet declared with the same value in the output.
   Go iterates a map (random order); the declarations are sorted afterwards and have distinct prefixes, so the order of
   iteration cannot be observed; a repeated prefix finds itself declared and is skipped. *)
Fixpoint exc_declare (vis : list string) (scope declared : nsctx) : res (nsctx * list attr) :=
  match vis with
  | [] => Ok (declared, [])
  | p :: r =>
      let same := match lookup_prefix declared p, lookup_prefix scope p with
                  | Some d, Some v => d =?s v
                  | _, _ => false
                  end in
      if same then exc_declare r scope declared
      else match lookup_prefix scope p with
           | None => Err e_undeclared
           | Some ns =>
               do rest <- exc_declare r scope ((p, ns) :: declared);
               let a := if p =?s "" then {| at_space := ""; at_key := "xmlns"; at_val := ns |}
                        else {| at_space := "xmlns"; at_key := p; at_val := ns |} in
               Ok (fst rest, a :: snd rest)
           end
  end.

Fixpoint exc_prep (ctx declared : nsctx) (incl : list string) (comments : bool) (n : node) : res node :=
  match n with
  | Elem sp tg attrs kids =>
      do scope <- sub_ctx ctx attrs;
      let '(vis, keep) := exc_scan attrs incl in
      do da <- exc_declare (sp :: vis) scope declared;
      let attrs' := sort_attrs (keep ++ snd da) in
      do kids' <- (fix go (ks : list node) : res (list node) :=
                     match ks with
                     | [] => Ok []
                     | k :: r =>
                         if negb comments && is_comment k then go r
                         else do k' <- exc_prep scope (fst da) incl comments k; do r' <- go r; Ok (k' :: r')
                     end) kids;
      Ok (Elem sp tg attrs' kids')
  | other => Ok other
  end.

(* the switch on CanonicalizationMethod/@Algorithm in findSignature (validate.go:417-440): which canonicaliser's
   preparation replaces SignedInfo.  REC-xml-c14n is prepared exactly like c14n11 here (canonicalPrep). *)
Definition si_prep (alg : string) (det : node) : res (canon_alg * node) :=
  if alg =?s alg_exc then do p <- exc_prep default_ctx default_ctx [] false det; Ok (CExc "" false, p)
  else if alg =?s alg_exc_wc then do p <- exc_prep default_ctx default_ctx [] true det; Ok (CExc "" true, p)
  else if (alg =?s alg_c11) || (alg =?s alg_rec) then Ok (C11 false, canonical_prep [] false det)
  else if (alg =?s alg_c11_wc) || (alg =?s alg_rec_wc) then Ok (C11 true, canonical_prep [] true det)
  else Err (EOther "invalid-c14n-method").

(* ================================================================ types/signature.go *)
Definition fld (go : string) (k : fkind) (t : ftype) : field := {| f_go := go; f_kind := k; f_type := t |}.
Definition dsig_schema : schema := [
  ("InclusiveNamespaces", [fld "XMLName" (KXMLName exc_ns "InclusiveNamespaces") TName;
                           fld "PrefixList" (KAttr "" "PrefixList") TStr]);
  ("Transform", [fld "XMLName" (KXMLName ds_ns "Transform") TName;
                 fld "Algorithm" (KAttr "" "Algorithm") TStr;
                 fld "InclusiveNamespaces" (KElem [] "" "InclusiveNamespaces") (TPtr (TStruct "InclusiveNamespaces"))]);
  ("Transforms", [fld "XMLName" (KXMLName ds_ns "Transforms") TName;
                  fld "Transforms" (KElem [] "" "Transform") (TSlice (TStruct "Transform"))]);
  ("DigestMethod", [fld "XMLName" (KXMLName ds_ns "DigestMethod") TName;
                    fld "Algorithm" (KAttr "" "Algorithm") TStr]);
  ("Reference", [fld "XMLName" (KXMLName ds_ns "Reference") TName;
                 fld "URI" (KAttr "" "URI") TStr;
                 fld "DigestValue" (KElem [] "" "DigestValue") TStr;
                 fld "DigestAlgo" (KElem [] "" "DigestMethod") (TStruct "DigestMethod");
                 fld "Transforms" (KElem [] "" "Transforms") (TStruct "Transforms")]);
  ("CanonicalizationMethod", [fld "XMLName" (KXMLName ds_ns "CanonicalizationMethod") TName;
                              fld "Algorithm" (KAttr "" "Algorithm") TStr]);
  ("SignatureMethod", [fld "XMLName" (KXMLName ds_ns "SignatureMethod") TName;
                       fld "Algorithm" (KAttr "" "Algorithm") TStr]);
  ("SignedInfo", [fld "XMLName" (KXMLName ds_ns "SignedInfo") TName;
                  fld "CanonicalizationMethod" (KElem [] "" "CanonicalizationMethod") (TStruct "CanonicalizationMethod");
                  fld "SignatureMethod" (KElem [] "" "SignatureMethod") (TStruct "SignatureMethod");
                  fld "References" (KElem [] "" "Reference") (TSlice (TStruct "Reference"))]);
  ("SignatureValue", [fld "XMLName" (KXMLName ds_ns "SignatureValue") TName;
                      fld "Data" KCharData TStr]);
  ("KeyInfo", [fld "XMLName" (KXMLName ds_ns "KeyInfo") TName;
               fld "X509Data" (KElem [] "" "X509Data") (TStruct "X509Data")]);
  ("X509Data", [fld "XMLName" (KXMLName ds_ns "X509Data") TName;
                fld "X509Certificates" (KElem [] "" "X509Certificate") (TSlice (TStruct "X509Certificate"))]);
  ("X509Certificate", [fld "XMLName" (KXMLName ds_ns "X509Certificate") TName;
                       fld "Data" KCharData TStr]);
  ("Signature", [fld "XMLName" (KXMLName ds_ns "Signature") TName;
                 fld "SignedInfo" (KElem [] "" "SignedInfo") (TPtr (TStruct "SignedInfo"));
                 fld "SignatureValue" (KElem [] "" "SignatureValue") (TPtr (TStruct "SignatureValue"));
                 fld "KeyInfo" (KElem [] "" "KeyInfo") (TPtr (TStruct "KeyInfo"))]) ].

Record transform_t := { tr_alg : string; tr_prefix_list : option string }.    (* InclusiveNamespaces pointer -> PrefixList *)
Record reference := { ref_uri : string; ref_digest_value : string; ref_digest_alg : string; ref_transforms : list transform_t }.
Record signed_info := { si_c14n_alg : string; si_sig_alg : string; si_refs : list reference }.
Record signature := {
  sg_signed_info : option signed_info;      (* *SignedInfo *)
  sg_value : option string;                 (* *SignatureValue -> Data *)
  sg_keyinfo : option (list string) }.      (* *KeyInfo -> X509Data.X509Certificates[*].Data *)

Definition gsub (v : gval) (name : string) : gval := match gfield v name with Some x => x | None => GStruct [] end.
Definition to_transform (v : gval) : transform_t :=
  {| tr_alg := gstr v "Algorithm";
     tr_prefix_list := option_map (fun i => gstr i "PrefixList") (gptr v "InclusiveNamespaces") |}.
Definition to_reference (v : gval) : reference :=
  {| ref_uri := gstr v "URI"; ref_digest_value := gstr v "DigestValue";
     ref_digest_alg := gstr (gsub v "DigestAlgo") "Algorithm";
     ref_transforms := map to_transform (gslice (gsub v "Transforms") "Transforms") |}.
Definition to_signed_info (v : gval) : signed_info :=
  {| si_c14n_alg := gstr (gsub v "CanonicalizationMethod") "Algorithm";
     si_sig_alg := gstr (gsub v "SignatureMethod") "Algorithm";
     si_refs := map to_reference (gslice v "References") |}.
Definition to_signature (v : gval) : signature :=
  {| sg_signed_info := option_map to_signed_info (gptr v "SignedInfo");
     sg_value := option_map (fun s => gstr s "Data") (gptr v "SignatureValue");
     sg_keyinfo := option_map (fun k => map (fun c => gstr c "Data") (gslice (gsub k "X509Data") "X509Certificates")) (gptr v "KeyInfo") |}.

Definition e_unmarshal : err := EOther "unmarshal".
(* dsig.ErrMissingSignature is a package variable returned at ONE place, the end of findSignature; no other error of the
   pipeline is that value (they are errors.New / fmt.Errorf / dependency errors), which [no_missing] records *)
Definition no_missing {A} (r : res A) : res A :=
  match r with Err EMissingSignature => Err (EOther "not-the-missing-signature-value") | other => other end.
Definition relabel {A} (e : err) (r : res A) : res A := match r with Ok a => Ok a | Err _ => Err e end.

(* etreeutils.NSUnmarshalElement(ctx, el, &types.Signature{}) : NSDetatch, serialise, xml.Unmarshal.  goxmldsig serialises
   with etree's DEFAULT write settings (U+000D raw, read back as U+000A): Schema.unmarshal_element_original -- gosaml2's
   repair of its own xmlUnmarshalElement (F13) does not reach this code *)
Definition unmarshal_signature (ctx : nsctx) (el : node) : res signature :=
  do det <- relabel (EOther "reserved-ns") (detach ctx el);
  do v <- relabel e_unmarshal (unmarshal_element_original dsig_schema "Signature" det);
  Ok (to_signature v).
(* xml.Unmarshal(canonicalSignedInfoBytes, &types.SignedInfo{}) after [reparse] *)
Definition unmarshal_signed_info (n : node) : res signed_info :=
  do v <- relabel (EOther "si-unmarshal") (unmarshal_element_original dsig_schema "SignedInfo" n);
  Ok (to_signed_info v).

(* ================================================================ validate.go : findSignature *)
(* validateShape: child ELEMENTS are counted by Tag only (any name space) *)
Definition count_tag (tag : string) (el : node) : nat :=
  List.length (filter (fun k => tag_of k =?s tag) (child_elems el)).
Definition validate_shape (el : node) : bool :=
  Nat.eqb (count_tag "SignedInfo" el) 1 && Nat.leb (count_tag "KeyInfo" el) 1 && Nat.eqb (count_tag "SignatureValue" el) 1.

(* root.SelectAttr(ctx.IdAttribute) with IdAttribute = "ID": first attribute whose Key is ID, any Space; "" if none *)
Definition id_of (root : node) : string :=
  match select_attr default_id_attr (attrs_of root) with Some v => v | None => "" end.
(* "ref.URI == "" || ref.URI[1:] == idAttr": the first BYTE is dropped, whatever it is *)
Definition drop1 (s : string) : string := match s with String _ r => r | EmptyString => EmptyString end.
Definition ref_matches (id : string) (r : reference) : bool := (ref_uri r =?s "") || (drop1 (ref_uri r) =?s id).

Fixpoint replace_nth {A} (i : nat) (x : A) (l : list A) : list A :=
  match i, l with
  | _, [] => []
  | O, _ :: r => x :: r
  | S j, y :: r => y :: replace_nth j x r
  end.
(* signatureEl.InsertChildAt(signedInfo.Index(), canonicalSignedInfo); signatureEl.RemoveChild(signedInfo) *)
Definition replace_child (el : node) (i : nat) (new : node) : node :=
  match el with
  | Elem sp tg attrs kids => Elem sp tg attrs (replace_nth i new kids)
  | other => other
  end.

Record found_sig := {
  fs_path : list nat;          (* mapPathToElement(el, sig.UnderlyingElement()) in the tree findSignature leaves behind *)
  fs_sig : signature;          (* the types.Signature unmarshalled in findSignature *)
  fs_si_alg : canon_alg;       (* canonicaliser whose preparation replaced SignedInfo *)
  fs_si_detached : node }.     (* the NSDetatch'ed SignedInfo that was prepared *)

(* the handler passed to NSFindIterate by findSignature, for one ds:Signature element.
   Result: the element with SignedInfo replaced, the remaining limit, and the signature if one of its references
   points to the root (then the traversal halts). *)
Definition inspect (id : string) (ctx : nsctx) (path : list nat) (sigel : node) (lim : nat)
  : res (node * nat * option found_sig) :=
  if negb (validate_shape sigel) then Err (EOther "invalid-signature") else
  (* NSFindChildrenIterateCtx(ctx, signatureEl, Namespace, SignedInfoTag, ...) *)
  do ctx2 <- sub_ctx ctx (attrs_of sigel);
  do r <- find_child_loop ctx2 ds_ns "SignedInfo" (kids_of sigel) 0 lim;
  match r with
  | (None, _) => Err (EOther "missing-signedinfo")
  | (Some (i, si), lim1) =>
      do det <- relabel (EOther "reserved-ns") (detach_sorted ctx2 si);
      do r2 <- find_one_child ctx2 det ds_ns "CanonicalizationMethod" lim1;
      match r2 with
      | (None, _) => Err (EOther "missing-c14n-method")
      | (Some (_, cm), lim2) =>
          let alg := match select_attr "Algorithm" (attrs_of cm) with Some v => v | None => "" end in
          do cp <- si_prep alg det;
          let sigel' := replace_child sigel i (snd cp) in
          do sg <- unmarshal_signature ctx sigel';
          match sg_signed_info sg with
          | None => Err (EOther "nil-signedinfo")    (* Go would dereference nil; unreachable: the child exists *)
          | Some sinfo =>
              if existsb (ref_matches id) (si_refs sinfo)
              then Ok (sigel', lim2, Some {| fs_path := path; fs_sig := sg; fs_si_alg := fst cp; fs_si_detached := det |})
              else Ok (sigel', lim2, None)
          end
      end
  end.

(* ---- NSTraverse with shared limit, early halt and a handler that may replace the visited element ----
   [h ctx path el lim] returns the (possibly replaced) element, the remaining limit and, to halt, a result.
   The children traversed are those of the element the handler returned (Go: el.ChildElements() is read after handle).
   [fuel] bounds the nesting depth only; every level consumes one unit of [lim] first, so with fuel > lim it is never
   the reason for an error ("limit" is also what Go answers at that depth). *)
Section MTraverse.
  Context {R : Type}.
  Variable h : nsctx -> list nat -> node -> nat -> res (node * nat * option R).

  Fixpoint mkids (trav : nsctx -> list nat -> node -> nat -> res (node * nat * option R))
           (ctx' : nsctx) (path : list nat) (ks : list node) (i : nat) (lim : nat)
    : res (list node * nat * option R) :=
    match ks with
    | [] => Ok ([], lim, None)
    | k :: r =>
        match k with
        | Elem _ _ _ _ =>
            do t <- trav ctx' (path ++ [i]) k lim;
            match t with
            | (k', lim', Some f) => Ok (k' :: r, lim', Some f)          (* ErrTraversalHalted: nothing else is visited *)
            | (k', lim', None) =>
                do t2 <- mkids trav ctx' path r (S i) lim';
                match t2 with (r', lim'', f) => Ok (k' :: r', lim'', f) end
            end
        | _ => do t2 <- mkids trav ctx' path r (S i) lim;
               match t2 with (r', lim'', f) => Ok (k :: r', lim'', f) end
        end
    end.

  Fixpoint mtraverse (fuel : nat) (ctx : nsctx) (path : list nat) (el : node) (lim : nat) {struct fuel}
    : res (node * nat * option R) :=
    match fuel with
    | O => Err e_limit
    | S fuel' =>
        match el with
        | Elem sp tg attrs kids =>
            match lim with
            | O => Err e_limit                                              (* ctx.CheckLimit() *)
            | S lim' =>
                do ctx' <- sub_ctx ctx attrs;                               (* ctx.SubContext(el) *)
                do t <- h ctx' path el lim';                                (* handle(ctx, el) *)
                match t with
                | (el1, lim1, Some f) => Ok (el1, lim1, Some f)
                | (el1, lim1, None) =>
                    match el1 with
                    | Elem sp1 tg1 attrs1 kids1 =>
                        do t2 <- mkids (mtraverse fuel') ctx' path kids1 0 lim1;
                        match t2 with (kids2, lim2, f) => Ok (Elem sp1 tg1 attrs1 kids2, lim2, f) end
                    | other => Ok (other, lim1, None)
                    end
                end
            end
        | other => Ok (other, lim, None)
        end
    end.
End MTraverse.

(* the closure NSFindIterateCtx wraps around the handler: resolve the element's own name, call the handler on a match *)
Definition find_wrap {R} (namespace tag : string) (h : nsctx -> list nat -> node -> nat -> res (node * nat * option R))
           (ctx : nsctx) (path : list nat) (el : node) (lim : nat) : res (node * nat * option R) :=
  do c2 <- sub_ctx ctx (attrs_of el);
  match lookup_prefix c2 (space_of el) with
  | None => Err e_undeclared
  | Some ns => if (ns =?s namespace) && (tag_of el =?s tag) then h ctx path el lim else Ok (el, lim, None)
  end.

(* findSignature(root): the tree it leaves behind (the copy Validate made, with SignedInfo elements replaced) and the signature *)
Definition find_signature (root : node) : res (node * found_sig) :=
  do t <- no_missing (mtraverse (find_wrap ds_ns "Signature" (inspect (id_of root))) (S traversal_limit) default_ctx [] root traversal_limit);
  match t with
  | (root', _, Some f) => Ok (root', f)
  | (_, _, None) => Err EMissingSignature
  end.

(* ================================================================ validate.go : verifyCertificate *)
(* whiteSpace.ReplaceAllString(data, "") with \s+ : RE2 \s = [\t\n\f\r ] *)
Definition is_re_space (c : ascii) : bool :=
  let n := N_of_ascii c in (N.eqb n 9) || (N.eqb n 10) || (N.eqb n 12) || (N.eqb n 13) || (N.eqb n 32).
Fixpoint strip_space (s : string) : string :=
  match s with
  | EmptyString => EmptyString
  | String c r => if is_re_space c then strip_space r else String c (strip_space r)
  end.
(* now.Before(NotBefore) || now.After(NotAfter) is the REJECTION test: both bounds are inside the window *)
Definition cert_valid_at (c : cert) (now : instant) : bool :=
  negb (ibefore now (c_not_before c) || iafter now (c_not_after c)).
(* "for i, root := range roots { if root.Equal(untrustedCert) { rootIdx = i } }": Equal compares Raw; the LAST equal one wins *)
Definition pick_root (store : list cert) (u : cert) : option cert :=
  fold_left (fun acc r => if c_der r =?s c_der u then Some r else acc) store None.

Section Dsig.
  Variable canon : canon_alg -> node -> option string.
  Variable digest : string -> string -> option string.
  Variable sig_ok : cert -> string -> string -> string -> bool.
  Variable parse_cert : string -> option cert.
  Variable reparse : string -> option node.

  Definition untrusted_cert (store : list cert) (sg : signature) : res cert :=
    match sg_keyinfo sg with
    | Some certs =>
        match certs with
        | [] => Err (EOther "keyinfo-no-cert")
        | data :: _ =>
            if data =?s "" then Err (EOther "keyinfo-no-cert") else
            match base64_decode (strip_space data) with
            | None => Err (EOther "cert-b64")
            | Some der => match parse_cert der with Some c => Ok c | None => Err (EOther "cert-parse") end
            end
        end
    | None => match store with [c] => Ok c | _ => Err (EOther "missing-x509") end
    end.

  Definition verify_certificate (store : list cert) (now : instant) (sg : signature) : res cert :=
    do u <- untrusted_cert store sg;
    match pick_root store u with
    | None => Err (EOther "untrusted")
    | Some c => if cert_valid_at c now then Ok c else Err (EOther "cert-time")
    end.

  (* ================================================================ validate.go : transform *)
  (* removeElementAtPath(el, path) *)
  Fixpoint remove_at_path (el : node) (path : list nat) : option node :=
    match path with
    | [] => None
    | i :: rest =>
        match el with
        | Elem sp tg attrs kids =>
            match nth_error kids i with
            | Some (Elem _ _ _ _ as c) =>
                match rest with
                | [] => Some (Elem sp tg attrs (remove_nth i kids))
                | _ => match remove_at_path c rest with
                       | Some c' => Some (Elem sp tg attrs (replace_nth i c' kids))
                       | None => None
                       end
                end
            | _ => None
            end
        | _ => None
        end
    end.

  Definition prefix_list_of (t : transform_t) : string := match tr_prefix_list t with Some p => p | None => "" end.
  (* the loop over ref.Transforms.Transforms *)
  Fixpoint apply_transforms (ts : list transform_t) (sigpath : list nat) (el : node) (c : option canon_alg)
    : res (node * option canon_alg) :=
    match ts with
    | [] => Ok (el, c)
    | t :: r =>
        let a := tr_alg t in
        if a =?s alg_enveloped then
          match remove_at_path el sigpath with
          | Some el' => apply_transforms r sigpath el' c
          | None => Err (EOther "transform-sig-not-found")
          end
        else if a =?s alg_exc then apply_transforms r sigpath el (Some (CExc (prefix_list_of t) false))
        else if a =?s alg_exc_wc then apply_transforms r sigpath el (Some (CExc (prefix_list_of t) true))
        else if a =?s alg_c11 then apply_transforms r sigpath el (Some (C11 false))
        else if a =?s alg_c11_wc then apply_transforms r sigpath el (Some (C11 true))
        else if a =?s alg_rec then apply_transforms r sigpath el (Some (CRec false))
        else if a =?s alg_rec_wc then apply_transforms r sigpath el (Some (CRec true))
        else Err (EOther "unknown-transform")
    end.
  Definition transform (root' : node) (sigpath : list nat) (r : reference) : res (node * canon_alg) :=
    do t <- apply_transforms (ref_transforms r) sigpath root' None;
    Ok (fst t, match snd t with Some c => c | None => CNull end).

  (* ================================================================ validate.go : validateSignature *)
  (* getCanonicalSignedInfo: NSBuildParentContext, NSFindOneChildCtx (a FRESH limit), canonicalSerialize of the child found,
     which is the replaced SignedInfo; its serialisation is [canon] of the detached original (see the header) *)
  Definition canonical_signed_info (root' : node) (f : found_sig) : res string :=
    relabel (EOther "si-bytes")
      (do pc <- parent_ctx default_ctx root' (fs_path f);
       match node_at root' (fs_path f) with
       | None => Err (EOther "bad-path")
       | Some sigel =>
           do r <- find_one_child pc sigel ds_ns "SignedInfo" traversal_limit;
           match fst r with
           | None => Err (EOther "missing-signedinfo")
           | Some _ => match canon (fs_si_alg f) (fs_si_detached f) with
                       | Some b => Ok b
                       | None => Err (EOther "canon")
                       end
           end
       end).

  (* "for _, _ref := range signedInfo.References { if <matches> { ref = &_ref } }" under the go 1.21 language version of
     goxmldsig's go.mod: ONE variable _ref for the whole loop, so after the loop *ref is the LAST element of the list,
     provided some element matched (observed on the real library: a non-matching reference placed after the genuine
     one is the one whose digest is compared). *)
  Definition pick_reference (id : string) (refs : list reference) : option reference :=
    if existsb (ref_matches id) refs then Some (last refs {| ref_uri := ""; ref_digest_value := ""; ref_digest_alg := ""; ref_transforms := [] |})
    else None.

  Definition validate_signature (root' : node) (f : found_sig) (c : cert) : res node :=
    match sg_signed_info (fs_sig f) with
    | None => Err (EOther "nil-signedinfo")
    | Some sinfo =>
        let sig_method := si_sig_alg sinfo in
        do si_bytes <- canonical_signed_info root' f;
        if negb (mem_str sig_method known_sig_methods) then Err (EOther "unknown-sig-method") else
        match sg_value (fs_sig f) with
        | None => Err (EOther "no-sigvalue")
        | Some data =>
            match base64_decode data with
            | None => Err (EOther "sig-b64")
            | Some raw =>
                if negb (sig_ok c sig_method si_bytes raw) then Err (EOther "bad-signature") else
                match reparse si_bytes with
                | None => Err (EOther "si-unmarshal")
                | Some sin =>
                    do sinfo2 <- unmarshal_signed_info sin;
                    match pick_reference (id_of root') (si_refs sinfo2) with
                    | None => Err (EOther "missing-reference")
                    | Some r =>
                        match base64_decode (ref_digest_value r) with
                        | None => Err (EOther "digest-b64")
                        | Some want =>
                            do tc <- transform root' (fs_path f) r;
                            match canon (snd tc) (fst tc) with
                            | None => Err (EOther "canon")
                            | Some bytes =>
                                match digest (ref_digest_alg r) bytes with
                                | None => Err (EOther "unknown-digest")
                                | Some d =>
                                    if negb (d =?s want) then Err (EOther "digest-mismatch")
                                    else if Nat.ltb (String.length d) 20 then Err (EOther "digest-short")
                                    else match reparse bytes with
                                         | Some v => Ok v
                                         | None => Err (EOther "reparse")
                                         end
                                end
                            end
                        end
                    end
                end
            end
        end
    end.

  (* ================================================================ validate.go : Validate *)
  Definition validate_res (store : list cert) (now : instant) (root : node) : res node :=
    do rf <- find_signature root;
    do c <- no_missing (verify_certificate store now (fs_sig (snd rf)));
    no_missing (validate_signature (fst rf) (snd rf) c).

  Definition dsig_validate (store : list cert) (now : instant) (root : node) : dsig_result :=
    match validate_res store now root with
    | Ok v => DOk v
    | Err EMissingSignature => DMissing
    | Err _ => DErr
    end.

  (* ---- observers for the correspondence run (same pipeline, intermediate values exposed; the certificate and
          signature checks are skipped so that the canonical forms are compared even when those fail) ---- *)
  Definition obs_si_bytes (root : node) : res string :=
    do rf <- find_signature root; canonical_signed_info (fst rf) (snd rf).
  (* the question put to the canonicaliser for the reference *)
  Definition obs_ref_query (root : node) : res (node * canon_alg) :=
    do rf <- find_signature root;
    do si_bytes <- canonical_signed_info (fst rf) (snd rf);
    match reparse si_bytes with
    | None => Err (EOther "si-unmarshal")
    | Some sin =>
        do sinfo2 <- unmarshal_signed_info sin;
        match pick_reference (id_of (fst rf)) (si_refs sinfo2) with
        | None => Err (EOther "missing-reference")
        | Some r => transform (fst rf) (fs_path (snd rf)) r
        end
    end.
  Definition obs_ref_bytes (root : node) : res string :=
    do q <- obs_ref_query root;
    match canon (snd q) (fst q) with Some b => Ok b | None => Err (EOther "canon") end.
End Dsig.

(* ================================================================ table-driven oracles for the correspondence run *)
Fixpoint canon_table (t : list (canon_alg * node * option string)) (a : canon_alg) (n : node) : option string :=
  match t with
  | [] => None
  | (a', n', r) :: rest => if canon_alg_eqb a a' && node_eqb n n' then r else canon_table rest a n
  end.
(* was the question asked of the table answered by an entry? (a miss is reported, never silently an error) *)
Fixpoint canon_known (t : list (canon_alg * node * option string)) (a : canon_alg) (n : node) : bool :=
  match t with
  | [] => false
  | (a', n', _) :: rest => (canon_alg_eqb a a' && node_eqb n n') || canon_known rest a n
  end.
Fixpoint digest_table (t : list (string * string * option string)) (alg bytes : string) : option string :=
  match t with
  | [] => None
  | (a, b, r) :: rest => if (a =?s alg) && (b =?s bytes) then r else digest_table rest alg bytes
  end.
Fixpoint sig_table (t : list (string * string * string * string)) (c : cert) (alg msg sg : string) : bool :=
  match t with
  | [] => false
  | (der, a, m, s) :: rest => ((der =?s c_der c) && (a =?s alg) && (m =?s msg) && (s =?s sg)) || sig_table rest c alg msg sg
  end.
Fixpoint cert_table (t : list cert) (der : string) : option cert :=
  match t with
  | [] => None
  | c :: rest => if c_der c =?s der then Some c else cert_table rest der
  end.
Fixpoint reparse_table (t : list (string * option node)) (bytes : string) : option node :=
  match t with
  | [] => None
  | (b, r) :: rest => if b =?s bytes then r else reparse_table rest bytes
  end.

Record oracle_tables := {
  ot_canon : list (canon_alg * node * option string);
  ot_digest : list (string * string * option string);
  ot_sig : list (string * string * string * string);
  ot_certs : list cert;
  ot_reparse : list (string * option node) }.

Definition err_label (e : err) : string :=
  match e with EOther l => l | EMissingSignature => "missing" | _ => "?" end.
Definition path_val (p : list nat) : val := VL (map (fun i => VZ (Z.of_nat i)) p).
Definition opt_node_eqb (o : option node) (n : node) : bool := match o with Some e => node_eqb e n | None => false end.
Definition ok_val {A} (f : A -> val) (r : res A) : val := match r with Ok a => VC "Some" [f a] | Err _ => VC "None" [] end.

(* the observable compared with the implementation:
     [ outcome (Ok + equality with the tree Validate returned | Err + stage label);
       path of the signature found + equality of the tree findSignature left behind with the real one;
       canonical SignedInfo bytes; canonical referenced bytes; were all canonicaliser questions answered by the table ] *)
Definition dsig_obs_with (canon : canon_alg -> node -> option string)
           (t : oracle_tables) (store : list cert) (now : instant) (root : node) (exp_tree exp_mut : option node) : val :=
  let reparse := reparse_table (ot_reparse t) in
  let out := match validate_res canon (digest_table (ot_digest t)) (sig_table (ot_sig t)) (cert_table (ot_certs t)) reparse store now root with
             | Ok v => VC "Ok" [VB (opt_node_eqb exp_tree v)]
             | Err e => VC "Err" [VS (err_label e)]
             end in
  let f := find_signature root in
  VL [ out;
       ok_val (fun rf => VL [path_val (fs_path (snd rf)); VB (opt_node_eqb exp_mut (fst rf))]) f;
       ok_val VS (obs_si_bytes canon root);
       ok_val VS (obs_ref_bytes canon reparse root);
       VB (match f with
           | Ok rf => canon_known (ot_canon t) (fs_si_alg (snd rf)) (fs_si_detached (snd rf))
           | Err _ => true
           end &&
           match obs_ref_query canon reparse root with
           | Ok q => canon_known (ot_canon t) (snd q) (fst q)
           | Err _ => true
           end) ].

(* with the canonicalisers answered by the table computed with the real library (Canon.v: [dsig_obs_model] answers them
   with the model instead) *)
Definition dsig_obs (t : oracle_tables) := dsig_obs_with (canon_table (ot_canon t)) t.

(* the hand-written schema rendered for comparison with the struct tags the harness reads by reflection *)
Definition ftype_str : ftype -> string :=
  fix go (t : ftype) : string :=
    match t with
    | TStr => "string" | TInt => "int" | TBool => "bool" | TTime => "time" | TBytes => "bytes" | TName => "xml.Name"
    | TStruct n => n
    | TPtr t' => ("*" ++ go t')%string
    | TSlice t' => ("[]" ++ go t')%string
    end.
Definition fkind_str (k : fkind) : string :=
  match k with
  | KXMLName s l => (s ++ " " ++ l)%string
  | KAttr s l => ((if s =?s "" then "" else s ++ " ") ++ l ++ ",attr")%string
  | KElem ps s l => ((if s =?s "" then "" else s ++ " ") ++ String.concat ">" (ps ++ [l]))%string
  | KCharData => ",chardata"
  | KInnerXML => ",innerxml"
  | KSkip => "-"
  end.
Definition schema_val (s : schema) : val :=
  VL (map (fun e => VC (fst e) (map (fun f => VL [VS (f_go f); VS (fkind_str (f_kind f)); VS (ftype_str (f_type f))]) (snd e))) s).
