(* P_GenKeys.v — the key-selection functions of saml.go, translated from /repo's source on every run (GenFuncs.v), compute
   exactly the hand-written model of Keys.v that the C11 / C13 / C19 theorems are about, and never dereference nil. *)
From V Require Import Base Time Types Generated Profile Keys GenPrelude GenFuncs P_GenFuncs.

Lemma strlen_lt1 (s : string) : (Z.of_nat (String.length s) <? 1)%Z = (s =?s "").
Proof. destruct s as [|a s]; [reflexivity|]. cbn [String.length String.eqb]. apply Z.ltb_ge. lia. Qed.

Theorem G_GetEncryptionKey_eq c now : G_GetEncryptionKey c now = PVal (get_encryption_key c).
Proof. reflexivity. Qed.

Theorem G_GetSigningKey_eq c now : G_GetSigningKey c now = PVal (get_signing_key c).
Proof. unfold G_GetSigningKey, get_signing_key, run_fn. rewrite G_GetEncryptionKey_eq. destruct (kc_sign_field c); reflexivity. Qed.

Theorem G_getEncryptionCert_eq c now : G_getEncryptionCert c now = PVal (get_encryption_cert c).
Proof.
  unfold G_getEncryptionCert, get_encryption_cert, run_fn.
  destruct (kc_enc_override c) as [k|]; [reflexivity|]. cbn [is_nil negb].
  destruct (kc_enc_field c) as [st|]; [|reflexivity]. cbn [is_nil negb].
  destruct (get_key_pair st) as [[s cert]|e]; reflexivity.
Qed.

Theorem G_GetEncryptionCertBytes_eq c now : G_GetEncryptionCertBytes c now = PVal (get_encryption_cert_bytes c).
Proof.
  unfold G_GetEncryptionCertBytes, get_encryption_cert_bytes, run_fn. rewrite G_getEncryptionCert_eq.
  destruct (get_encryption_cert c) as [cert|e]; [|reflexivity]. cbn [err_of_res is_nil negb bind].
  rewrite strlen_lt1. destruct (cert =?s ""); reflexivity.
Qed.

Theorem G_getSigningCert_eq c now : G_getSigningCert c now = PVal (get_signing_cert c).
Proof.
  unfold G_getSigningCert, get_signing_cert, run_fn.
  destruct (kc_sign_override c) as [k|]; [reflexivity|]. cbn [is_nil negb].
  destruct (kc_sign_field c) as [st|]; cbn [is_nil negb].
  - destruct (get_key_pair st) as [[s cert]|e]; reflexivity.
  - rewrite G_getEncryptionCert_eq. reflexivity.
Qed.

Theorem G_GetSigningCertBytes_eq c now : G_GetSigningCertBytes c now = PVal (get_signing_cert_bytes c).
Proof.
  unfold G_GetSigningCertBytes, get_signing_cert_bytes, run_fn. rewrite G_getSigningCert_eq.
  destruct (get_signing_cert c) as [cert|e]; [|reflexivity]. cbn [err_of_res is_nil negb bind].
  rewrite strlen_lt1. destruct (cert =?s ""); reflexivity.
Qed.

Theorem G_getSignerCert_eq c now : G_getSignerCert c now = PVal (get_signer_cert c).
Proof.
  unfold G_getSignerCert, get_signer_cert, run_fn. cbv zeta.
  destruct (kc_sign_override c) as [k|]; [reflexivity|]. cbn [is_nil negb bindc].
  destruct (kc_sign_field c) as [st|]; [|reflexivity]. cbn [is_nil negb bindc].
  destruct (get_key_pair st) as [[s cert]|e]; reflexivity.
Qed.
