(* Prop_DSIG.v — the layer below the signature oracle of Response.v: theorems about Dsig.v, the executable model of
   goxmldsig v1.5.0 ValidationContext.Validate, for EVERY tree, store, clock and EVERY behaviour of the oracles
   canon (canonicalisers) / digest / sig_ok / parse_cert / reparse.  Cited by C01 and C02. *)
From Coq Require Import Permutation.
From V Require Import Base Time Escape Xml Ns Types Profile Decode Response P_Ns P_Response Dsig P_Dsig P_DsigExact.
From V Require Import Canon P_Canon XmlTok P_XmlTok DsigReader P_DsigReader.

(* accepted => covered: a ds:Signature element inside the element passed the shape check and carries a reference matching the
   element's ID; its certificate is a store member (byte-equal DER) inside its window at the clock; sig_ok accepted the
   canonical SignedInfo; the digest of the reference used (the LAST of the verified list) is that of the canonical form of
   the element after the transforms; the result is the parse of exactly those bytes *)
Theorem DSIG_sound : forall canon digest sig_ok parse_cert reparse store now root v,
  dsig_validate canon digest sig_ok parse_cert reparse store now root = DOk v ->
  Covered canon digest sig_ok parse_cert reparse store now root v.
Proof. exact dsig_sound. Qed.
Print Assumptions DSIG_sound.

(* what findSignature establishes about the signature it returns, and that it touches SignedInfo children only *)
Theorem DSIG_find_signature_sound : forall root root' f,
  find_signature root = Ok (root', f) ->
  exists ctx0 e0 e1,
    OwnSignatureAt root ctx0 e0 e1 f /\
    node_at root' (fs_path f) = Some e1 /\
    erase_si root' = erase_si root /\
    (clean root (fs_path f) -> node_at root (fs_path f) = Some e0 /\ ctx_at default_ctx root (fs_path f) = Some ctx0).
Proof. exact find_signature_sound. Qed.
Print Assumptions DSIG_find_signature_sound.

(* when no element before the returned signature (in document order, ancestors included) resolves to ds:Signature, the copy
   findSignature worked on differs from the input only inside that Signature element *)
Theorem DSIG_first_signature_exact : forall root root' f,
  find_signature root = Ok (root', f) -> FirstSignature root (fs_path f) ->
  exists e0 e1, node_at root (fs_path f) = Some e0 /\ root' = subst_at root (fs_path f) e1 /\
                remove_at_path root' (fs_path f) = remove_at_path root (fs_path f).
Proof. exact first_signature_exact. Qed.
Print Assumptions DSIG_first_signature_exact.

(* headline form for the usual layout (first signature met; transforms = enveloped-signature + one canonicalisation c0): the
   bytes whose digest was verified, and whose parse is returned, are  canon c0 (root minus exactly that Signature element) *)
Theorem DSIG_sound_first_signature : forall canon digest sig_ok parse_cert reparse store now root v,
  dsig_validate canon digest sig_ok parse_cert reparse store now root = DOk v ->
  exists root' f sb sin sinfo2 r,
    find_signature root = Ok (root', f) /\
    (* r is the reference goxmldsig uses: the last one of the SignedInfo re-read from the verified bytes *)
    canon (fs_si_alg f) (fs_si_detached f) = Some sb /\ reparse sb = Some sin /\ unmarshal_signed_info sin = Ok sinfo2 /\
    r = last (si_refs sinfo2) zero_ref /\
    (FirstSignature root (fs_path f) ->
     forall t1 t2 c0, ref_transforms r = [t1; t2] -> tr_alg t1 = alg_enveloped -> c14n_of t2 = Some c0 ->
       exists body bytes want,
         remove_at_path root (fs_path f) = Some body /\ canon c0 body = Some bytes /\
         base64_decode (ref_digest_value r) = Some want /\ digest (ref_digest_alg r) bytes = Some want /\
         reparse bytes = Some v).
Proof. exact sound_first_signature. Qed.
Print Assumptions DSIG_sound_first_signature.

(* with the usual transform list the digested element is the tree minus exactly the element at the signature's path *)
Theorem DSIG_transform_enveloped_then_c14n : forall root' p r t1 t2 c0 el_t calg,
  ref_transforms r = [t1; t2] -> tr_alg t1 = alg_enveloped -> c14n_of t2 = Some c0 ->
  (transform root' p r = Ok (el_t, calg) <-> remove_at_path root' p = Some el_t /\ calg = c0).
Proof. exact transform_enveloped_then_c14n. Qed.
Print Assumptions DSIG_transform_enveloped_then_c14n.

(* complete characterisation of verifyCertificate *)
Theorem DSIG_verify_cert_iff : forall parse_cert store now sg c,
  verify_certificate parse_cert store now sg = Ok c <->
  exists u, Designates parse_cert store sg u /\ pick_root store u = Some c /\ InWindow c now.
Proof. exact verify_cert_iff. Qed.
Print Assumptions DSIG_verify_cert_iff.

Theorem DSIG_verify_cert_member_in_window : forall parse_cert store now sg c,
  verify_certificate parse_cert store now sg = Ok c ->
  In c store /\ InWindow c now /\
  ((exists data rest der u, sg_keyinfo sg = Some (data :: rest) /\ base64_decode (strip_space data) = Some der /\
                            parse_cert der = Some u /\ c_der c = c_der u)
   \/ (sg_keyinfo sg = None /\ store = [c])).
Proof. exact verify_cert_ok. Qed.
Print Assumptions DSIG_verify_cert_member_in_window.

(* permuting the store changes nothing (with or without KeyInfo), for stores in which equal DER means equal certificate *)
Theorem DSIG_store_order_irrelevant_with_keyinfo : forall parse_cert store store' now sg,
  Permutation store store' -> Coherent store ->
  verify_certificate parse_cert store now sg = verify_certificate parse_cert store' now sg.
Proof. exact store_order_irrelevant. Qed.
Print Assumptions DSIG_store_order_irrelevant_with_keyinfo.

Theorem DSIG_window_is_inclusive : forall c,
  ibefore (c_not_after c) (c_not_before c) = false ->
  cert_valid_at c (c_not_before c) = true /\ cert_valid_at c (c_not_after c) = true /\
  (forall now, ibefore now (c_not_before c) = true -> cert_valid_at c now = false) /\
  (forall now, iafter now (c_not_after c) = true -> cert_valid_at c now = false).
Proof. exact window_is_inclusive. Qed.
Print Assumptions DSIG_window_is_inclusive.

(* DMissing comes from findSignature only: no certificate, signature, digest or parse failure is ever reported as 'missing' *)
Theorem DSIG_missing_signature_iff : forall canon digest sig_ok parse_cert reparse store now root,
  dsig_validate canon digest sig_ok parse_cert reparse store now root = DMissing <->
  exists root' lim', find_run root = Ok (root', lim', None).
Proof. exact missing_signature_iff. Qed.
Print Assumptions DSIG_missing_signature_iff.

(* ... and then every ds:Signature element on a path that enters no SignedInfo was inspected successfully (shape, SignedInfo,
   CanonicalizationMethod, unmarshalling all fine: any such error aborts with DErr instead) and has no matching reference *)
Theorem DSIG_missing_every_signature_inspected : forall root,
  find_signature root = Err EMissingSignature ->
  forall p e ctx, node_at root p = Some e -> is_elem e = true -> clean root p -> ctx_at default_ctx root p = Some ctx ->
    resolves ctx e ds_ns "Signature" = true ->
    exists lim0 e1 lim1 sinfo sg,
      inspect (id_of root) ctx p e lim0 = Ok (e1, lim1, None) /\ validate_shape e = true /\
      unmarshal_signature ctx e1 = Ok sg /\ sg_signed_info sg = Some sinfo /\
      existsb (ref_matches (id_of root)) (si_refs sinfo) = false.
Proof. exact find_missing_all_inspected. Qed.
Print Assumptions DSIG_missing_every_signature_inspected.

Theorem DSIG_own_signature_never_missing : forall root p e ctx,
  node_at root p = Some e -> is_elem e = true -> clean root p -> ctx_at default_ctx root p = Some ctx ->
  resolves ctx e ds_ns "Signature" = true ->
  (forall lim0 e1 lim1 r, inspect (id_of root) ctx p e lim0 = Ok (e1, lim1, r) -> r <> None) ->
  find_signature root <> Err EMissingSignature.
Proof. exact own_signature_never_missing. Qed.
Print Assumptions DSIG_own_signature_never_missing.

(* the reference whose digest is compared: the LAST of the list as soon as ANY reference matches (goxmldsig's loop variable) *)
Theorem DSIG_reference_used_is_last_of_list : forall id refs r,
  pick_reference id refs = Some r <->
  r = last refs zero_ref /\ exists r', In r' refs /\ ref_matches id r' = true.
Proof. exact reference_used_is_last_of_list. Qed.
Print Assumptions DSIG_reference_used_is_last_of_list.

Theorem DSIG_last_matching_reference_refuted : exists id refs, pick_reference id refs <> last_matching id refs.
Proof. exact last_matching_reference_refuted. Qed.
Print Assumptions DSIG_last_matching_reference_refuted.

(* composition with Response.v: the oracle instantiated with this model under the configured store and the SP clock *)
Theorem DSIG_response_end_to_end : forall canon digest sig_ok parse_cert reparse store decrypt cfg now root r,
  cfg_skip_sig cfg = false ->
  validate_response_tree (dsig_validate canon digest sig_ok parse_cert reparse store now) decrypt cfg now root = Ok r ->
  (r_signature_validated r = true /\
   exists v signed' r0, Covered canon digest sig_ok parse_cert reparse store now root v /\ decrypt_assertions decrypt v = Ok signed' /\
                        unmarshal_response signed' = Ok r0 /\ r = with_flag r0 true (r_assertions r0) (r_encrypted_count r0))
  \/
  (r_signature_validated r = false /\ find_signature root = Err EMissingSignature /\
   exists root', decrypt_assertions decrypt root = Ok root' /\
                 Forall (CoveredAssertion canon digest sig_ok parse_cert reparse store now root') (r_assertions r)).
Proof. exact response_end_to_end. Qed.
Print Assumptions DSIG_response_end_to_end.

(* ---- the two parser-side oracles instantiated: canon := Canon.canon_model (goxmldsig's canonicalisers as a function),
        reparse := DsigReader.reparse_model = XmlTok.read_tree (encoding/xml's tokenizer + etree's tree building as functions).
        What is left as an oracle below: digest, sig_ok, parse_cert. ---- *)

(* the canonical writer followed by the reader: for every tree t and every algorithm a, the tree the verifier decodes from
   the canonical bytes IS the prepared tree (canonicalPrep / TransformExcC14n of t), normalised as any read-back tree is
   (adjacent character data merged, empty character data gone, duplicated attributes collapsed).  Premise, on what the
   canonical writer emits ([c14n_wf_elem p]): an element; names the real reader accepts and splits back into the same
   (space, tag); values = valid UTF-8 in the XML Char range -- U+000D INCLUDED, the canonical writer emits "&#xD;" --;
   comments (the with-comments algorithms keep them) without "--" and not ending in '-'; processing instructions (every
   algorithm keeps them) whose target is a name other than "xml" and whose instruction neither starts with white space nor
   holds "?>" -- what the reader itself delivers.  Excluded explicitly: directives inside the canonicalised element. *)
Theorem DSIG_canonical_bytes_reparse_to_prepared_tree : forall a t b,
  canon_model a t = Some b ->
  exists p, canon_prep a t = Some p /\ b = c14n_write p /\
            (c14n_wf_elem p = true -> read_tree b = Ok (normalise p) /\ reparse_model b = Some (normalise p)).
Proof. exact canonical_bytes_reparse_to_prepared_tree. Qed.
Print Assumptions DSIG_canonical_bytes_reparse_to_prepared_tree.

(* the premise may be stated on the PRESENTED element, for every algorithm: canonicalPrep only sorts attributes and drops
   redundant declarations and (without-comments) comments; TransformExcC14n drops the declarations and ADDS xmlns / xmlns:p for
   the visibly used prefixes with the value in scope -- prefix and value of a declaration attribute of the element or an
   ancestor (or of the default context), so the added attribute is reader-valid because that declaration was *)
Theorem DSIG_canonical_bytes_reparse_presented : forall a t b,
  c14n_wf_elem t = true -> canon_model a t = Some b ->
  exists p, canon_prep a t = Some p /\ read_tree b = Ok (normalise p) /\ reparse_model b = Some (normalise p).
Proof. exact canonical_bytes_reparse_presented. Qed.
Print Assumptions DSIG_canonical_bytes_reparse_presented.

Theorem DSIG_preparation_keeps_premise : forall a t p,
  c14n_wf_elem t = true -> canon_prep a t = Some p -> c14n_wf_elem p = true.
Proof. exact canon_prep_wf. Qed.
Print Assumptions DSIG_preparation_keeps_premise.

(* the tokens / the document behind it: the real tokenizer model reads the canonical bytes to exactly the tree's tokens *)
Theorem DSIG_canonical_bytes_tokens : forall p, c14n_wf_elem p = true ->
  raw_tokens (c14n_write p) = Ok (ctoks p) /\ read_doc true (c14n_write p) = Ok [normalise p] /\
  read_tree (c14n_write p) = Ok (normalise p).
Proof. exact canonical_bytes_read_back. Qed.
Print Assumptions DSIG_canonical_bytes_tokens.

(* the second re-read: goxmldsig decodes the canonical SignedInfo bytes with xml.Unmarshal (a fresh decoder's Token() loop), not
   with etree.  On canonical bytes the element that loop consumes -- under either CharsetReader setting -- is the read-back tree
   without attribute de-duplication, and for an element without repeated attribute names exactly what read_tree returns: the one
   function [reparse_model] stands for both re-reads *)
Theorem DSIG_canonical_bytes_unmarshal_reads_the_same_element : forall c p, c14n_wf_elem p = true ->
  token_view_with c (c14n_write p) = Ok (normalise_raw p) /\
  (dup_free p = true -> token_view_with c (c14n_write p) = read_tree (c14n_write p)).
Proof. exact canonical_bytes_token_view. Qed.
Print Assumptions DSIG_canonical_bytes_unmarshal_reads_the_same_element.

(* DSIG_sound with both oracles instantiated: accepted => Covered (over the two models), and "result = parse of exactly those
   bytes" becomes "result = normalise (prepared form of the transformed element)": the accepted tree is a function of the
   presented tree (through findSignature / transform / the preparation) and of the crypto oracles' verdicts only *)
Theorem DSIG_sound_reader : forall digest sig_ok parse_cert store now root v,
  dsig_validate_reader digest sig_ok parse_cert store now root = DOk v ->
  Covered canon_model digest sig_ok parse_cert reparse_model store now root v /\
  exists root' f sinfo2 r el_t calg p,
    find_signature root = Ok (root', f) /\
    r = last (si_refs sinfo2) zero_ref /\
    transform root' (fs_path f) r = Ok (el_t, calg) /\
    canon_prep calg el_t = Some p /\
    read_tree (c14n_write p) = Ok v /\
    (c14n_wf_elem p = true -> v = normalise p).
Proof. exact dsig_sound_reader. Qed.
Print Assumptions DSIG_sound_reader.

(* headline form (first signature met; transforms = enveloped-signature + one canonicalisation c0):
   result = normalise (prep c0 (root minus exactly that Signature element)); the premise on the PRESENTED root suffices
   (removeElementAtPath and the preparation keep it) *)
Theorem DSIG_sound_reader_first_signature : forall digest sig_ok parse_cert store now root v,
  dsig_validate_reader digest sig_ok parse_cert store now root = DOk v ->
  exists root' f sb sin sinfo2 r,
    find_signature root = Ok (root', f) /\
    canon_model (fs_si_alg f) (fs_si_detached f) = Some sb /\ reparse_model sb = Some sin /\
    unmarshal_signed_info sin = Ok sinfo2 /\ r = last (si_refs sinfo2) zero_ref /\
    (FirstSignature root (fs_path f) ->
     forall t1 t2 c0, ref_transforms r = [t1; t2] -> tr_alg t1 = alg_enveloped -> c14n_of t2 = Some c0 ->
       exists body p want,
         remove_at_path root (fs_path f) = Some body /\ canon_prep c0 body = Some p /\
         base64_decode (ref_digest_value r) = Some want /\ digest (ref_digest_alg r) (c14n_write p) = Some want /\
         read_tree (c14n_write p) = Ok v /\
         (c14n_wf_elem p = true -> v = normalise p) /\
         (c14n_wf root = true -> v = normalise p)).
Proof. exact dsig_sound_reader_first_signature. Qed.
Print Assumptions DSIG_sound_reader_first_signature.

(* ---- the premise discharged for what the reader itself delivers (P_ReaderWf.v: an invariant of the tokenizer state kept by
        every step, under which every emitted token is well formed; etree's tree building keeps it) ---- *)
From V Require Import P_ReaderWf.

(* every token RawToken delivers, to etree (which reads to the end) or to a lazy consumer, under either CharsetReader setting:
   names pass isName / consist of name bytes / are split back by nsname, values are valid UTF-8 in the Char range, comments and
   processing instructions are as the round trip needs them *)
Theorem DSIG_reader_tokens_well_formed : forall cs b, forallb tok_ok (token_prefix cs b) = true.
Proof. exact tokens_wf. Qed.
Print Assumptions DSIG_reader_tokens_well_formed.

(* whatever read_tree returns satisfies the premise of DSIG_canonical_bytes_reparse_to_prepared_tree unless it holds a directive
   or a <?xml ...?> instruction inside (both are delivered by the real reader: DSIG_reader_examples' last conjunct) *)
Theorem DSIG_reader_delivers_premise : forall b t, read_tree b = Ok t ->
  reader_wf t = true /\ (has_directive_or_xml_pi t = false -> c14n_wf_elem t = true /\ c14n_wf t = true).
Proof. exact read_tree_wf. Qed.
Print Assumptions DSIG_reader_delivers_premise.

(* from the wire bytes: the element handed to the verifier was read by the reader model, so no premise on names or values is
   left; for the usual layout the accepted tree is normalise (prep c0 (read_tree b minus exactly that Signature element)) *)
Theorem DSIG_sound_reader_from_bytes : forall digest sig_ok parse_cert store now b root v,
  read_tree b = Ok root -> has_directive_or_xml_pi root = false ->
  dsig_validate_reader digest sig_ok parse_cert store now root = DOk v ->
  exists root' f sb sin sinfo2 r,
    find_signature root = Ok (root', f) /\
    canon_model (fs_si_alg f) (fs_si_detached f) = Some sb /\ reparse_model sb = Some sin /\
    unmarshal_signed_info sin = Ok sinfo2 /\ r = last (si_refs sinfo2) zero_ref /\
    (FirstSignature root (fs_path f) ->
     forall t1 t2 c0, ref_transforms r = [t1; t2] -> tr_alg t1 = alg_enveloped -> c14n_of t2 = Some c0 ->
       exists body p,
         remove_at_path root (fs_path f) = Some body /\ canon_prep c0 body = Some p /\ v = normalise p).
Proof. exact dsig_sound_reader_from_bytes. Qed.
Print Assumptions DSIG_sound_reader_from_bytes.

(* non-vacuity, by vm_compute: an element with shuffled attributes, TAB / '>' / a double quote in a value, U+000D in character
   data, adjacent character data, a comment, two processing instructions and a redundant declaration is read back as its
   prepared tree under all eight algorithm settings; what the premise excludes is really refused (a comment with "--") or
   changed (invalid UTF-8 becomes U+FFFD; white space in front of an instruction is dropped) by the reader; the verifier with both oracles instantiated accepts a signed document and returns the prepared
   tree (attributes sorted, comment dropped, character data merged, U+000D kept) *)
Theorem DSIG_reader_examples :
  forallb ReaderExample.reads_back [CExc "" false; CExc "" true; CExc "p x" false; C11 false; C11 true; CRec false; CRec true; CNull] = true /\
  read_tree (c14n_write (Elem "" "a" [] [Comment "x--y"])) = Err syntax_error /\
  read_tree (c14n_write (Elem "" "a" [] [Text (String (byte 255) "")])) = Ok (Elem "" "a" [] [Text repl_char]) /\
  read_tree (c14n_write (Elem "" "a" [] [ProcInst "pi" " x"])) = Ok (Elem "" "a" [] [ProcInst "pi" "x"]) /\
  read_tree "<a><!DOCTYPE x><?xml version=""1.0""?></a>" = Ok (Elem "" "a" [] [Directive "DOCTYPE x"; ProcInst "xml" "version=""1.0"""]) /\
  dsig_validate_reader ReaderExample.digest_any ReaderExample.sig_ok_sig ReaderExample.no_cert_parser [Example.the_cert] ReaderExample.t150
    ReaderExample.doc2
  = DOk (Elem "" "Root" [Example.A "ID" "x"]
           [Elem "" "Item" [Example.A "a" "1"; Example.A "b" ("t" ++ ReaderExample.tab)] [Text ("hello" ++ ReaderExample.cr)]]).
Proof.
  exact (conj ReaderExample.every_algorithm_reads_back
          (conj ReaderExample.comment_with_double_dash_not_read_back
             (conj ReaderExample.invalid_utf8_not_read_back
                (conj ReaderExample.pi_with_leading_space_changed
                   (conj directive_inside_is_delivered (proj2 ReaderExample.accepted_tree_is_the_prepared_tree)))))).
Qed.
Print Assumptions DSIG_reader_examples.
