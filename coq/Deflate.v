(* Deflate.v — hand-written model of gosaml2's try-raw-then-inflate step and of everything built on it
   (decode_response.go: maybeDeflate, parseResponse, defaultMaxDecompressedResponseSize, and the limit
    argument each inbound entry point passes).

   Oracles (Section variables; the theorems hold for EVERY behaviour of them):
     inflate_prefix d n : what  io.ReadAll(io.LimitReader(flate.NewReader(bytes.NewReader(d)), n))  returns for n > 0:
                          the bytes read (the first min(n, total) bytes of the stream) and whether ReadAll returned
                          a non-nil error (corrupt input / unexpected EOF met before n bytes or EOF were reached).
                          For n <= 0 the model never consults it (io.LimitedReader.Read returns EOF at once).
     decoder            : the closure handed to maybeDeflate
     parse              : etree.Document.ReadFromBytes (None = error, Some None = no root element, Some (Some r))
     rt_ok              : rtvalidator.Validate on the raw XML that was parsed
   Not modelled: base64 decoding in front of the entry points (the model starts at the decoded bytes). *)
From V Require Import Base Time Types Generated.
Local Open Scope string_scope.
Local Open Scope list_scope.
Local Open Scope Z_scope.

(* ---------- int64 ---------- *)
Definition max_int64 : Z := 9223372036854775807.
Definition min_int64 : Z := -9223372036854775808.
Definition in_int64 (z : Z) : Prop := min_int64 <= z <= max_int64.
(* two's complement wrap-around of an int64 result *)
Definition wrap64 (z : Z) : Z := (z + 9223372036854775808) mod 18446744073709551616 - 9223372036854775808.

(* ---------- byte slices ---------- *)
Definition zlen (s : string) : Z := Z.of_nat (String.length s).

(* s[:n] for a reader that fills a buffer of n bytes: the first n bytes of s (all of s when it is shorter) *)
Fixpoint take_z (s : string) (n : Z) : string :=
  match s with
  | EmptyString => EmptyString
  | String c r => if n <=? 0 then EmptyString else String c (take_z r (n - 1))
  end.

(* fmt's %d *)
Definition fmt_d (z : Z) : string := string_of_list_ascii (append_int z 0).

(* ---------- errors (dependency errors: compared by class; the limit error also by its text) ---------- *)
Definition limit_msg (m : Z) : string := ("deflated response exceeds maximum size of " ++ fmt_d m ++ " bytes")%string.
Definition e_limit (m : Z) : err := EOther (limit_msg m).            (* fmt.Errorf("deflated response exceeds maximum size of %d bytes", maxSize) *)
Definition e_inflate : err := EOther "flate: read error".            (* the error io.ReadAll returned *)
Definition e_parse : err := EOther "etree: read error".              (* doc.ReadFromBytes failed *)
Definition e_no_root : err := EOther "unable to parse response".     (* doc.Root() == nil *)
Definition e_roundtrip : err := EOther "rtvalidator: rejected".      (* rtvalidator.Validate failed *)

(* defaultMaxDecompressedResponseSize *)
Definition c_default : Z := c_defaultMaxDecompressedResponseSize.

(* if maxSize == 0 { maxSize = defaultMaxDecompressedResponseSize } *)
Definition eff_limit (max_size : Z) : Z := if max_size =? 0 then c_default else max_size.

(* readLimit := maxSize; if readLimit < math.MaxInt64 { readLimit++ }      (int64 arithmetic written out) *)
Definition read_limit (m : Z) : Z := if m <? max_int64 then wrap64 (m + 1) else m.

(* the code before the repair 2532667:  io.LimitReader(..., maxSize+1)  *)
Definition read_limit_original (m : Z) : Z := wrap64 (m + 1).

(* what one run of maybeDeflate did *)
Record md_trace (A : Type) := {
  md_result : res A;               (* returned error / the value the accepting decoder call produced *)
  md_requested : option Z;         (* Some n: the flate stream was read, through a LimitedReader with N = n > 0; None: never read *)
  md_held : Z;                     (* len(deflated): inflated bytes materialised *)
  md_decoded : list string }.      (* the byte slices the decoder was invoked on, in order *)
Arguments md_result {A}. Arguments md_requested {A}. Arguments md_held {A}. Arguments md_decoded {A}.

Section Deflate.
  Variable inflate_prefix : string -> Z -> string * bool.

  (* io.ReadAll(io.LimitReader(flate.NewReader(bytes.NewReader(data)), n)):
     LimitedReader.Read: "if l.N <= 0 { return 0, EOF }" — the flate reader is not touched;
     otherwise every Read is given p[:N], so at most n bytes can ever be stored (take_z: memory safety of the
     slice, whatever the reader does; for a reader honouring io.Reader it is the identity, see P_Deflate.take_z_all) *)
  Definition limit_read_all (data : string) (n : Z) : string * bool :=
    if n <=? 0 then ("", false)
    else let r := inflate_prefix data n in (take_z (fst r) n, snd r).

  Section Run.
    Variable A : Type.
    Variable decoder : string -> res A.

    (* maybeDeflate from the LimitReader on; m = effective maxSize, n = readLimit *)
    Definition md_after (data : string) (m n : Z) : md_trace A :=
      let r := limit_read_all data n in                            (* deflated, err := io.ReadAll(lr) *)
      let deflated := fst r in
      let req := if n <=? 0 then None else Some n in
      if snd r then                                                (* if err != nil { return err } *)
        {| md_result := Err e_inflate; md_requested := req; md_held := zlen deflated; md_decoded := [data] |}
      else if zlen deflated >? m then                              (* if int64(len(deflated)) > maxSize *)
        {| md_result := Err (e_limit m); md_requested := req; md_held := zlen deflated; md_decoded := [data] |}
      else                                                         (* return decoder(deflated) *)
        {| md_result := decoder deflated; md_requested := req; md_held := zlen deflated; md_decoded := [data; deflated] |}.

    (* maybeDeflate(data, maxSize, decoder) *)
    Definition md_run (data : string) (max_size : Z) : md_trace A :=
      match decoder data with                                      (* err := decoder(data); if err == nil { return nil } *)
      | Ok a => {| md_result := Ok a; md_requested := None; md_held := 0; md_decoded := [data] |}
      | Err _ =>
          let m := eff_limit max_size in
          md_after data m (read_limit m)
      end.

    Definition maybe_deflate (data : string) (max_size : Z) : res A := md_result (md_run data max_size).

    (* the code as it was before repair 2532667 (kept to document the repaired finding) *)
    Definition md_run_original (data : string) (max_size : Z) : md_trace A :=
      match decoder data with
      | Ok a => {| md_result := Ok a; md_requested := None; md_held := 0; md_decoded := [data] |}
      | Err _ =>
          let m := eff_limit max_size in
          md_after data m (read_limit_original m)
      end.
    Definition maybe_deflate_original (data : string) (max_size : Z) : res A := md_result (md_run_original data max_size).
  End Run.

  (* ---------- parseResponse ---------- *)
  Section Parse.
    Variable T : Type.                                   (* the element tree (Xml.node in Response.v) *)
    Variable parse : string -> option (option T).
    Variable rt_ok : string -> bool.

    (* the closure: doc = etree.NewDocument(); rawXML = xml; return doc.ReadFromBytes(xml).
       Its value is what the variables doc / rawXML hold after a call that returned nil. *)
    Definition parse_decoder (xml : string) : res (option T * string) :=
      match parse xml with
      | None => Err e_parse
      | Some root => Ok (root, xml)
      end.

    (* parseResponse(xml, maxSize): root element and the raw XML it was parsed from *)
    Definition parse_response (data : string) (max_size : Z) : res (T * string) :=
      do dr <- maybe_deflate _ parse_decoder data max_size;
      match fst dr with
      | None => Err e_no_root                                               (* el := doc.Root(); if el == nil *)
      | Some el => if rt_ok (snd dr) then Ok (el, snd dr) else Err e_roundtrip  (* rtvalidator.Validate(bytes.NewReader(rawXML)) *)
      end.

    (* ---------- which limit each entry point passes ---------- *)
    Inductive entry_point :=
    | EP_ValidateEncodedResponse              (* decode_response.go: parseResponse(raw, sp.MaximumDecompressedBodySize) *)
    | EP_DecodeUnverifiedBaseResponse         (* maybeDeflate(raw, defaultMaxDecompressedResponseSize, xml.Unmarshal) *)
    | EP_DecodeUnverifiedLogoutResponse       (* maybeDeflate(raw, defaultMaxDecompressedResponseSize, xml.Unmarshal) *)
    | EP_ValidateEncodedLogoutResponsePOST    (* parseResponse(raw, sp.MaximumDecompressedBodySize) *)
    | EP_ValidateEncodedLogoutRequestPOST     (* decode_logout_request.go: parseResponse(raw, sp.MaximumDecompressedBodySize) *)
    | EP_DecryptedAssertion.                  (* decryptAssertions: parseResponse(plaintext, sp.MaximumDecompressedBodySize) *)

    Definition entry_uses_parse_response (ep : entry_point) : bool :=
      match ep with
      | EP_DecodeUnverifiedBaseResponse | EP_DecodeUnverifiedLogoutResponse => false
      | _ => true
      end.

    Definition entry_max_size (ep : entry_point) (cfg_max : Z) : Z :=
      match ep with
      | EP_DecodeUnverifiedBaseResponse | EP_DecodeUnverifiedLogoutResponse => c_default
      | _ => cfg_max
      end.

    (* an entry point from the decoded bytes on: [unmarshal] = xml.Unmarshal into the entry point's struct,
       [rest] = everything the entry point does with the parsed root (signature validation, decoding, profile checks) *)
    Definition entry_decode {R : Type} (ep : entry_point) (cfg_max : Z) (unmarshal : string -> res R)
               (rest : T -> string -> res R) (raw : string) : res R :=
      if entry_uses_parse_response ep then
        do p <- parse_response raw (entry_max_size ep cfg_max);
        rest (fst p) (snd p)
      else
        maybe_deflate _ unmarshal raw (entry_max_size ep cfg_max).
  End Parse.
End Deflate.

Definition cfg_entry_max_size (ep : entry_point) (cfg : config) : Z := entry_max_size ep (cfg_max_size cfg).

(* ---------- table-driven oracles and observables used by the correspondence run ---------- *)
Fixpoint inflate_table (t : list (string * Z * (string * bool))) (d : string) (n : Z) : string * bool :=
  match t with
  | [] => ("inflate oracle: request not in the table", true)
  | (k, kn, v) :: r => if (k =?s d) && (kn =? n) then v else inflate_table r d n
  end.

Fixpoint bytes_table {V} (t : list (string * V)) (dflt : V) (d : string) : V :=
  match t with
  | [] => dflt
  | (k, v) :: r => if k =?s d then v else bytes_table r dflt d
  end.

Fixpoint has_prefix (p s : string) : bool :=
  match p, s with
  | EmptyString, _ => true
  | String a p', String b s' => Ascii.eqb a b && has_prefix p' s'
  | _, _ => false
  end.

(* error projection: the limit error with its full text, the flate error as a class, typed errors exactly *)
Definition md_err_val (e : err) : val :=
  match e with
  | EOther w =>
      if w =?s "flate: read error" then VC "Inflate" []
      else if has_prefix "deflated response exceeds maximum size of " w then VC "Limit" [VS w]
      else if w =?s "unable to parse response" then VC "NoRoot" []
      else VC "Other" []
  | _ => err_val e
  end.
Definition md_res_val {A} (f : A -> val) (r : res A) : val :=
  match r with Ok a => VC "Ok" [f a] | Err e => VC "Err" [md_err_val e] end.
Definition md_trace_val {A} (f : A -> val) (t : md_trace A) : val :=
  VL [md_res_val f (md_result t); VL (map VS (md_decoded t))].
