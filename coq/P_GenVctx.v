(* P_GenVctx.v — validationContext / validateElementSignature as translated from /repo on this run: every signature check
   is made with a context built for that call from the CONFIGURED certificate store and the SP's INJECTED clock (and
   goxmldsig's default ID attribute); nothing is cached, nothing else is consulted; no panic.

   validateElementSignature (repaired, 541e863): goxmldsig's answer, except that ErrMissingSignature on an element that
   envelops a ds:Signature child (etreeutils.NSFindOneChild, modelled in Ns.v) is dsig.ErrInvalidSignature, and a failing
   child lookup is returned as the error.  [ves_res] is that function in the result shape of the Go code;
   [source_validateElementSignature_is_tree_model] shows that, seen through the three outcomes the callers distinguish
   (verified element / missing signature / any other error), it is Response.validate_element_signature — the function the
   tree-level model and the translated entry points (GenTree.v: ves_call) use for the Response root and both logout roots. *)
From V Require Import Base Time Xml Ns Types Generated Response GenPrelude GenPreludeV GenVctx.
Local Open Scope string_scope.

Definition configured_vctx (sp : vsp) : vctx :=
  {| vc_store := vs_store sp; vc_id_attribute := "ID"; vc_clock := vs_clock sp |}.

Theorem G_validationContext_is_model sp now : G_validationContext sp now = PVal (Some (configured_vctx sp)).
Proof. reflexivity. Qed.

(* the body of validateElementSignature over goxmldsig's Validate with the context already fixed *)
Definition ves_res (validate : node -> res node) (el : node) : res (option node) :=
  match validate el with
  | Ok v => Ok (Some v)
  | Err EMissingSignature =>
      match ns_find_one_child el ds_ns ds_signature_tag with
      | Err e => Err e
      | Ok (Some _) => Err (EOther "Invalid Signature")
      | Ok None => Err EMissingSignature
      end
  | Err e => Err e
  end.

Theorem G_validateElementSignature_is_model validate sp now el :
  G_validateElementSignature validate sp now el = PVal (ves_res (validate (configured_vctx sp)) el).
Proof.
  unfold G_validateElementSignature, ves_res. rewrite G_validationContext_is_model. unfold vctx_validate.
  destruct (validate (configured_vctx sp) el) as [v|e]; [reflexivity|].
  destruct e; try reflexivity.
  cbn [res_some err_of_res ptr_of_res is_missing_signature run_fn bindc].
  destruct (ns_find_one_child el ds_ns ds_signature_tag) as [[s|]|e]; reflexivity.
Qed.

(* ---- the three outcomes the callers of validateElementSignature distinguish ---- *)
Definition dsig_of_res (r : res (option node)) : dsig_result :=
  match r with
  | Ok (Some v) => DOk v
  | Ok None => DErr
  | Err EMissingSignature => DMissing
  | Err _ => DErr
  end.

Lemma find_child_loop_err c ns tag ks i lim e :
  find_child_loop c ns tag ks i lim = Err e -> exists w, e = EOther w.
Proof.
  revert i lim. induction ks as [|k r IH]; intros i lim H; cbn [find_child_loop] in H; [discriminate|].
  destruct k as [sp tg attrs kk| | | | ]; try (eapply IH; exact H).
  destruct lim as [|lim']; [inversion H; eexists; reflexivity|].
  unfold sub_ctx in H. destruct (sub_context c attrs) as [c2|e2]; cbn [bind] in H; [|inversion H; eexists; reflexivity].
  destruct (lookup_prefix c2 sp) as [n|]; [|inversion H; eexists; reflexivity].
  destruct ((n =?s ns) && (tg =?s tag))%bool; [discriminate|]. eapply IH; exact H.
Qed.

Lemma ns_find_one_child_err el ns tag e : ns_find_one_child el ns tag = Err e -> exists w, e = EOther w.
Proof.
  unfold ns_find_one_child, find_one_child, sub_ctx. intros H.
  destruct (sub_context default_ctx (attrs_of el)) as [c|e2]; cbn [bind] in H; [|inversion H; eexists; reflexivity].
  destruct (find_child_loop c ns tag (kids_of el) 0 traversal_limit) as [r|e3] eqn:EF; cbn [bind] in H; [discriminate|].
  inversion H; subst. eapply find_child_loop_err; exact EF.
Qed.

Theorem source_validateElementSignature_is_tree_model validate sp now el :
  exists r, G_validateElementSignature validate sp now el = PVal r /\
    dsig_of_res r = validate_element_signature (fun x => dsig_of_res (res_some (validate (configured_vctx sp) x))) el.
Proof.
  exists (ves_res (validate (configured_vctx sp)) el). split; [apply G_validateElementSignature_is_model|].
  unfold ves_res, validate_element_signature.
  destruct (validate (configured_vctx sp) el) as [v|e]; [reflexivity|].
  destruct e; try reflexivity. cbn [res_some dsig_of_res].
  destruct (ns_find_one_child el ds_ns ds_signature_tag) as [[s|]|e] eqn:EF; try reflexivity.
  apply ns_find_one_child_err in EF as (w & ->). reflexivity.
Qed.
