(* P_GenVctx.v — validationContext / validateElementSignature as translated from /repo on this run: every signature check
   is made with a context built for that call from the CONFIGURED certificate store and the SP's INJECTED clock (and
   goxmldsig's default ID attribute); nothing is cached, nothing else is consulted; no panic. *)
From V Require Import Base Time Xml Types Generated GenPrelude GenPreludeV GenVctx.

Definition configured_vctx (sp : vsp) : vctx :=
  {| vc_store := vs_store sp; vc_id_attribute := "ID"; vc_clock := vs_clock sp |}.

Theorem G_validationContext_is_model sp now : G_validationContext sp now = PVal (Some (configured_vctx sp)).
Proof. reflexivity. Qed.

Theorem G_validateElementSignature_is_model validate sp now el :
  G_validateElementSignature validate sp now el = PVal (res_some (validate (configured_vctx sp) el)).
Proof. reflexivity. Qed.
