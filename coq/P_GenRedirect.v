(* P_GenRedirect.v — the HTTP-Redirect binding URL builders as TRANSLATED from /repo on this run (GenRedirect.v: statement by
   statement, with the bytes.Buffer / flate.Writer / url.Values / map objects threaded as values and every nil dereference
   and index an explicit panic branch) compute, for every configuration, relay state, binding, document and every behaviour
   of url.Parse, of etree's serialiser, of the DEFLATE writer and of the signer, exactly what the hand-written model
   Redirect.v defines (the model all C14 theorems are about), and never panic. *)
From V Require Import Base Escape EscapeProofs Xml SchemaDefs ConcDefs Generated Redirect P_Redirect GenPrelude GenPreludeRedirect GenRedirect.
Local Open Scope list_scope.
Local Open Scope string_scope.

(* ---- small facts about the combinators ---- *)
Lemma zlen_pos s : (Z.of_nat (String.length s) >? 0)%Z = nonempty s.
Proof. destruct s; reflexivity. Qed.
Lemma zindex_0 {A} (x : A) l : zindex (x :: l) 0 = Some x. Proof. reflexivity. Qed.
Lemma zindex_1 {A} (x y : A) l : zindex (x :: y :: l) 1 = Some y. Proof. reflexivity. Qed.
Lemma qe_lit1 : query_escape "SAMLRequest" = "SAMLRequest". Proof. reflexivity. Qed.
Lemma qe_lit2 : query_escape "RelayState" = "RelayState". Proof. reflexivity. Qed.
Lemma qe_lit3 : query_escape "SigAlg" = "SigAlg". Proof. reflexivity. Qed.

(* Values.Encode() of a query that holds a value is not empty: URL.String() writes the '?' whatever ForceQuery says *)
Lemma values_encode_nonempty k m : values_wf m -> values_lookup k m <> [] -> nonempty (values_encode m) = true.
Proof.
  intros W L. apply (url_values_nonempty (query_escape k)). rewrite url_values_encode by exact W.
  destruct (values_lookup k m); [congruence|discriminate].
Qed.
Lemma lookup_add_same k v m : values_lookup k (values_add k v m) <> [].
Proof. rewrite values_lookup_add, String.eqb_refl. destruct (values_lookup k m); discriminate. Qed.
Lemma lookup_add_keeps k k' v m : values_lookup k m <> [] -> values_lookup k (values_add k' v m) <> [].
Proof.
  intros H. rewrite values_lookup_add.
  destruct (k' =?s k); [destruct (values_lookup k m); [congruence|discriminate] | exact H].
Qed.
Lemma gurl_string_set u q : nonempty q = true -> gurl_string (set_gurl_raw_query q u) = url_string (gu_split u) q false.
Proof.
  intros H. unfold gurl_string, set_gurl_raw_query, gurl_raw_query, url_string.
  cbn [gu_split gu_force_query pu_prefix pu_raw_query pu_fragment].
  rewrite H, Bool.orb_true_r. reflexivity.
Qed.

Ltac query_not_empty W0 :=
  apply (values_encode_nonempty "SAMLRequest");
  [ repeat apply values_wf_add; exact W0
  | repeat (first [apply lookup_add_same | apply lookup_add_keeps]) ].

(* ---- signatureInputString ---- *)
Ltac gstep :=
  cbn [bindc for_range fst snd];
  rewrite ?zindex_0, ?zindex_1, ?zlen_pos, ?qe_lit1, ?qe_lit2, ?qe_lit3; cbn [nonempty append].

Theorem G_signatureInputString_is_model a b c :
  G_signatureInputString a b c = PVal (signature_input_string a b c).
Proof.
  rewrite signature_input_string_spec.
  unfold G_signatureInputString, run_fn, octets_to_sign, relay_opt, buf_write_byte, buf_write_string.
  destruct (b =?s ""); do 6 gstep; rewrite ?append_assoc; cbn [append]; reflexivity.
Qed.

(* the ordered-parameter loop of the logout flow over the three literal keys, then the signing step and the final URL *)
Ltac logout_loop L1 L2 L3 h W0 :=
  do 3 (cbn [for_range bindc negb];
        rewrite ?L1, ?L2, ?L3, ?values_encode_single, ?qe_lit1, ?qe_lit2, ?qe_lit3;
        cbn [append String.eqb negb bindc]);
  unfold octets_to_sign; rewrite ?append_assoc; cbn [append]; change eqs with "="%char;
  match goal with |- context [?sign h ?m] => destruct (sign h m) as [raw|] end;
  cbn [err_of_res is_nil negb bindc bind fst snd]; [|reflexivity];
  rewrite gurl_string_set; [reflexivity|query_not_empty W0].

Section Tie.
  Variable url_parse : string -> option gurl.
  Variable write_doc : node -> res string.
  Variable fl_write : list string -> string -> string.
  Variable fl_close : list string -> string.
  Variable sign : hash_alg -> string -> option string.

  (* the DEFLATE stream: what one Write of the whole document and the Close append to the buffer *)
  Definition deflate (s : string) : string := fl_write [] s ++ fl_close [s].
  (* the (string, error) the Go functions return: url.Parse's error first, then the serialiser's, then the flow's, run on the
     split of the endpoint URL and on the DEFLATE stream of the serialised document; the model's record of what was signed is
     dropped (it is determined by the call of [sign], which is the same function on both sides) *)
  Definition url_of (parsed : option gurl) (written : res string)
             (build : option parsed_url -> string -> res redirect_result) : res string :=
    match parsed with
    | None => Err (EOther "url.Parse")
    | Some u => do s <- written; do r <- build (Some (gu_split u)) (deflate s); Ok (fst r)
    end.

  Theorem G_buildAuthURLFromDocument_is_model sp relay binding doc :
    G_buildAuthURLFromDocument url_parse write_doc fl_write fl_close sign sp relay binding doc
    = PVal (url_of (url_parse (rsp_sso_url sp)) (write_doc doc)
              (fun parsed => build_auth_url sign (rsp_cfg sp) parsed relay binding)).
  Proof.
    unfold G_buildAuthURLFromDocument, url_of, url_parse_call, run_fn.
    destruct (url_parse (rsp_sso_url sp)) as [u|]; cbn [ptr_of_res err_of_res is_nil negb]; [|reflexivity].
    destruct (write_doc doc) as [s|e]; cbn [err_of_res is_nil negb bind]; [|reflexivity].
    unfold flate_new_writer. cbn [ptr_of_res err_of_res is_nil negb].
    unfold flate_write_err, flate_write_emit, flate_write_state, flate_close_emit, flate_close_state.
    cbn [fw_closed fw_history is_nil negb app append].
    fold (deflate s).
    unfold build_auth_url, auth_query, gurl_query, gurl_raw_query, p_SAMLRequest, p_RelayState, p_SigAlg, p_Signature.
    cbn [bind gu_split].
    set (q0 := parse_query (pu_raw_query (gu_split u))).
    assert (W0 : values_wf q0) by apply parse_query_wf.
    destruct (relay =?s ""); cbn [negb bindc];
    (destruct (rc_sign_authn_requests (rsp_cfg sp) && (binding =?s c_BindingHttpRedirect)); cbn [bindc bind fst snd];
     [ rewrite G_signatureInputString_is_model; unfold ctx_sign_string, signing_context, ctx_method_identifier; cbn [fst snd];
       match goal with |- context [sign ?h ?m] => destruct (sign h m) as [raw|] end;
       cbn [err_of_res is_nil negb bindc bind fst snd]; [|reflexivity]
     | ]).
    all: rewrite gurl_string_set; [reflexivity|query_not_empty W0].
  Qed.

  Theorem G_buildLogoutURLFromDocument_is_model sp relay binding doc :
    G_buildLogoutURLFromDocument url_parse write_doc fl_write fl_close sign sp relay binding doc
    = PVal (url_of (url_parse (rsp_slo_url sp)) (write_doc doc)
              (fun parsed => build_logout_url sign (rsp_cfg sp) parsed relay binding)).
  Proof.
    unfold G_buildLogoutURLFromDocument, url_of, url_parse_call, run_fn.
    destruct (url_parse (rsp_slo_url sp)) as [u|]; cbn [ptr_of_res err_of_res is_nil negb]; [|reflexivity].
    destruct (write_doc doc) as [s|e]; cbn [err_of_res is_nil negb bind]; [|reflexivity].
    unfold flate_new_writer. cbn [ptr_of_res err_of_res is_nil negb].
    unfold flate_write_err, flate_write_emit, flate_write_state, flate_close_emit, flate_close_state.
    cbn [fw_closed fw_history is_nil negb app append].
    fold (deflate s).
    unfold build_logout_url, logout_query, gurl_query, gurl_raw_query, p_SAMLRequest, p_RelayState, p_SigAlg, p_Signature.
    cbn [bind gu_split].
    set (q0 := parse_query (pu_raw_query (gu_split u))).
    assert (W0 : values_wf q0) by apply parse_query_wf.
    rewrite logout_signed_string_spec.
    destruct (relay =?s "") eqn:ER; cbn [negb bindc];
    (destruct (binding =?s c_BindingHttpRedirect); cbn [bindc bind fst snd]).
    - unfold signing_context, ctx_method_identifier, ctx_sign_string, relay_opt. cbn [fst snd]. rewrite ?ER.
      set (h := context_hash _ _). set (alg := signature_method_identifier _ _). set (b64 := base64_encode (deflate s)).
      remember (Some (smap_set "SigAlg" alg (smap_set "SAMLRequest" b64 []))) as pvm eqn:Hp.
      assert (L1 : smap_lookup2 pvm "SAMLRequest" = (b64, true)) by (subst pvm; reflexivity).
      assert (L2 : smap_lookup2 pvm "RelayState" = ("", false)) by (subst pvm; reflexivity).
      assert (L3 : smap_lookup2 pvm "SigAlg" = (alg, true)) by (subst pvm; reflexivity).
      clear Hp. logout_loop L1 L2 L3 h W0.
    - rewrite gurl_string_set; [reflexivity|query_not_empty W0].
    - unfold signing_context, ctx_method_identifier, ctx_sign_string, relay_opt. cbn [fst snd]. rewrite ?ER.
      set (h := context_hash _ _). set (alg := signature_method_identifier _ _). set (b64 := base64_encode (deflate s)).
      remember (Some (smap_set "SigAlg" alg (smap_set "RelayState" relay (smap_set "SAMLRequest" b64 [])))) as pvm eqn:Hp.
      assert (L1 : smap_lookup2 pvm "SAMLRequest" = (b64, true)) by (subst pvm; reflexivity).
      assert (L2 : smap_lookup2 pvm "RelayState" = (relay, true)) by (subst pvm; reflexivity).
      assert (L3 : smap_lookup2 pvm "SigAlg" = (alg, true)) by (subst pvm; reflexivity).
      clear Hp. logout_loop L1 L2 L3 h W0.
    - rewrite gurl_string_set; [reflexivity|query_not_empty W0].
  Qed.
  
  (* ---- the exported wrappers ---- *)
  Theorem G_BuildAuthURLFromDocument_is_model sp relay doc :
    G_BuildAuthURLFromDocument url_parse write_doc fl_write fl_close sign sp relay doc
    = PVal (url_of (url_parse (rsp_sso_url sp)) (write_doc doc)
              (fun parsed => build_auth_url_from_document sign (rsp_cfg sp) parsed relay)).
  Proof. unfold G_BuildAuthURLFromDocument, run_fn. rewrite G_buildAuthURLFromDocument_is_model. reflexivity. Qed.

  Theorem G_BuildAuthURLRedirect_is_model sp relay doc :
    G_BuildAuthURLRedirect url_parse write_doc fl_write fl_close sign sp relay doc
    = PVal (url_of (url_parse (rsp_sso_url sp)) (write_doc doc)
              (fun parsed => build_auth_url_redirect sign (rsp_cfg sp) parsed relay)).
  Proof. unfold G_BuildAuthURLRedirect, run_fn. rewrite G_buildAuthURLFromDocument_is_model. reflexivity. Qed.

  Theorem G_BuildLogoutURLRedirect_is_model sp relay doc :
    G_BuildLogoutURLRedirect url_parse write_doc fl_write fl_close sign sp relay doc
    = PVal (url_of (url_parse (rsp_slo_url sp)) (write_doc doc)
              (fun parsed => build_logout_url_redirect sign (rsp_cfg sp) parsed relay)).
  Proof. unfold G_BuildLogoutURLRedirect, run_fn. rewrite G_buildLogoutURLFromDocument_is_model. reflexivity. Qed.

  (* BuildAuthURL: the document comes from BuildAuthRequestDocument (GenBuild.v / Build.v), which returns an element or an
     error, never (nil, nil): [res_some built] *)
  Theorem G_BuildAuthURL_is_model sp relay (built : res node) :
    G_BuildAuthURL url_parse write_doc fl_write fl_close sign sp relay (res_some built)
    = PVal (do doc <- built;
            url_of (url_parse (rsp_sso_url sp)) (write_doc doc)
              (fun parsed => build_auth_url_from_document sign (rsp_cfg sp) parsed relay)).
  Proof.
    unfold G_BuildAuthURL, run_fn. destruct built as [doc|e]; cbn [res_some ptr_of_res err_of_res is_nil negb bind]; [|reflexivity].
    rewrite G_BuildAuthURLFromDocument_is_model. reflexivity.
  Qed.
End Tie.
